(* Generic driver: each stdin line is "<kind> <n> <n> ..." (decimal naturals); the extracted
   Coq function Model.judge_any decides the case and its verdict tape is printed. *)
open Model

let rec pos_of_int (i:int) : positive =
  if i = 1 then XH
  else if i land 1 = 0 then XO (pos_of_int (i lsr 1))
  else XI (pos_of_int (i lsr 1))
let n_of_int (i:int) : n = if i = 0 then N0 else Npos (pos_of_int i)
let rec int_of_pos = function XH -> 1 | XO p -> 2 * int_of_pos p | XI p -> 2 * int_of_pos p + 1

(* small-number cache: bytes dominate the tapes *)
let cache = Array.init 1024 n_of_int
let ten = n_of_int 10
let n_of_string (s:string) : n =
  let l = String.length s in
  if l <= 17 then (let i = int_of_string s in if i < 1024 then cache.(i) else n_of_int i)
  else begin
    let acc = ref N0 in
    String.iter (fun c -> acc := N.add (N.mul !acc ten) (n_of_int (Char.code c - 48))) s;
    !acc
  end

(* decimal printing of arbitrarily large N *)
let rec pos_bits p acc = match p with XH -> 1 :: acc | XO q -> pos_bits q (0 :: acc) | XI q -> pos_bits q (1 :: acc)
let string_of_n (x:n) : string =
  match x with
  | N0 -> "0"
  | Npos p ->
    let bits = pos_bits p [] in   (* msb first *)
    if List.length bits <= 61 then string_of_int (int_of_pos p)
    else begin
      (* big: decimal digits little-endian, double-and-add *)
      let digits = ref [0] in
      let double_add b =
        let carry = ref b in
        digits := List.map (fun d -> let v = 2 * d + !carry in carry := v / 10; v mod 10) !digits;
        if !carry > 0 then digits := !digits @ [!carry] in
      List.iter double_add bits;
      String.concat "" (List.rev_map string_of_int !digits)
    end

let split_ws (s:string) : string list =
  List.filter (fun x -> x <> "") (String.split_on_char ' ' s)

let () =
  let buf = Buffer.create 65536 in
  (try
    while true do
      let line = input_line stdin in
      if String.length line > 0 && line.[0] <> '#' then begin
        match split_ws line with
        | [] -> ()
        | k :: rest ->
          let kind = n_of_string k in
          (* build the tape without deep recursion *)
          let tape = List.rev (List.rev_map n_of_string rest) in
          let v = (try judge_any kind tape with Stack_overflow -> [n_of_int 4]) in
          Buffer.clear buf;
          List.iteri (fun i x -> if i > 0 then Buffer.add_char buf ' '; Buffer.add_string buf (string_of_n x)) v;
          print_endline (Buffer.contents buf)
      end
    done
  with End_of_file -> ())
