(* Extraction of the executable model + judges.  ExtrOcamlBasic only: N, Z, positive, nat stay
   as the extracted inductive types. *)
Require Import WS.Base.Bytes WS.Base.Tape WS.Cases.All.
Require Import ExtrOcamlBasic.
Extraction Language OCaml.
Extraction "model.ml" judge_any N.of_nat N.to_nat N.add N.mul.
