module verif/harness

go 1.20

require github.com/gorilla/websocket v0.0.0

require golang.org/x/net v0.26.0 // indirect

replace github.com/gorilla/websocket => /repo
