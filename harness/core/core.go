// Package core: case tapes, the judge (extracted Coq model) process pool, the run loop,
// shrinking and result reporting shared by all property harnesses.
package core

import (
	"bufio"
	"crypto/sha256"
	"encoding/hex"
	"encoding/json"
	"fmt"
	"io"
	"math/rand"
	"os"
	"os/exec"
	"path/filepath"
	"sort"
	"strconv"
	"strings"
	"sync"
	"time"
)

// ---------------------------------------------------------------- tapes

type Tape struct{ sb strings.Builder }

func NewTape(kind int) *Tape { t := &Tape{}; t.sb.WriteString(strconv.Itoa(kind)); return t }
func (t *Tape) N(x int) *Tape {
	if x < 0 {
		panic("negative on tape")
	}
	t.sb.WriteByte(' ')
	t.sb.WriteString(strconv.Itoa(x))
	return t
}
func (t *Tape) U64(x uint64) *Tape {
	t.sb.WriteByte(' ')
	t.sb.WriteString(strconv.FormatUint(x, 10))
	return t
}
func (t *Tape) Z(x int) *Tape {
	if x < 0 {
		return t.N(1).N(-x)
	}
	return t.N(0).N(x)
}
func (t *Tape) Bool(b bool) *Tape {
	if b {
		return t.N(1)
	}
	return t.N(0)
}
func (t *Tape) Bytes(b []byte) *Tape {
	t.N(len(b))
	for _, c := range b {
		t.sb.WriteByte(' ')
		t.sb.WriteString(strconv.Itoa(int(c)))
	}
	return t
}
func (t *Tape) Str(s string) *Tape { return t.Bytes([]byte(s)) }
func (t *Tape) BytesList(l [][]byte) *Tape {
	t.N(len(l))
	for _, b := range l {
		t.Bytes(b)
	}
	return t
}
func (t *Tape) StrList(l []string) *Tape {
	t.N(len(l))
	for _, b := range l {
		t.Str(b)
	}
	return t
}
func (t *Tape) OptBytes(ok bool, b []byte) *Tape {
	if !ok {
		return t.N(0)
	}
	return t.N(1).Bytes(b)
}
func (t *Tape) String() string { return t.sb.String() }

// ---------------------------------------------------------------- judge pool

type judgeProc struct {
	cmd *exec.Cmd
	in  *bufio.Writer
	out *bufio.Reader
	wc  io.WriteCloser
}

type Judge struct {
	path  string
	procs []*judgeProc
}

func NewJudge(path string, n int) (*Judge, error) {
	j := &Judge{path: path}
	for i := 0; i < n; i++ {
		// the extracted list functions are not tail-recursive: give the judge a large stack
		cmd := exec.Command("sh", "-c", "ulimit -s 4000000 2>/dev/null || ulimit -s unlimited 2>/dev/null; exec \"$0\"", path)
		cmd.Stderr = os.Stderr
		wc, err := cmd.StdinPipe()
		if err != nil {
			return nil, err
		}
		rc, err := cmd.StdoutPipe()
		if err != nil {
			return nil, err
		}
		if err := cmd.Start(); err != nil {
			return nil, err
		}
		j.procs = append(j.procs, &judgeProc{cmd: cmd, in: bufio.NewWriterSize(wc, 1<<20), out: bufio.NewReaderSize(rc, 1<<20), wc: wc})
	}
	return j, nil
}

func (j *Judge) Close() {
	for _, p := range j.procs {
		p.wc.Close()
		p.cmd.Wait()
	}
}

func (p *judgeProc) run(tapes []string) ([]string, error) {
	res := make([]string, 0, len(tapes))
	errc := make(chan error, 1)
	go func() {
		for _, t := range tapes {
			if _, err := p.in.WriteString(t); err != nil {
				errc <- err
				return
			}
			p.in.WriteByte('\n')
		}
		errc <- p.in.Flush()
	}()
	for range tapes {
		line, err := p.out.ReadString('\n')
		if err != nil {
			return nil, fmt.Errorf("judge died: %v", err)
		}
		res = append(res, strings.TrimSpace(line))
	}
	if err := <-errc; err != nil {
		return nil, err
	}
	return res, nil
}

// Run judges all tapes, sharded over the pool, preserving order.
func (j *Judge) Run(tapes []string) ([]string, error) {
	n := len(j.procs)
	res := make([]string, len(tapes))
	var wg sync.WaitGroup
	var firstErr error
	var mu sync.Mutex
	chunk := (len(tapes) + n - 1) / n
	for i := 0; i < n; i++ {
		lo := i * chunk
		hi := lo + chunk
		if lo >= len(tapes) {
			break
		}
		if hi > len(tapes) {
			hi = len(tapes)
		}
		wg.Add(1)
		go func(p *judgeProc, lo, hi int) {
			defer wg.Done()
			r, err := p.run(tapes[lo:hi])
			if err != nil {
				mu.Lock()
				if firstErr == nil {
					firstErr = err
				}
				mu.Unlock()
				return
			}
			copy(res[lo:hi], r)
		}(j.procs[i], lo, hi)
	}
	wg.Wait()
	return res, firstErr
}

func (j *Judge) One(tape string) (string, error) {
	r, err := j.procs[0].run([]string{tape})
	if err != nil {
		return "", err
	}
	return r[0], nil
}

// ---------------------------------------------------------------- properties

// Spec is a JSON-serialisable description of one case: everything needed to re-run it.
type Spec interface{}

type Exec struct {
	Tape       string   // input + implementation observation
	Tags       []string // distribution tags (sizes, ops, error kinds, branches)
	Nontrivial bool     // by the property's rule
}

type Prop struct {
	ID       string
	Rule     string // how cases are generated and what makes one non-trivial
	Serial   bool   // Exec uses process-global state; do not run in parallel
	Gen      func(rng *rand.Rand, tier string) []Spec
	Exec     func(s Spec) Exec
	Decode   func(raw json.RawMessage) (Spec, error)
	Shrink   func(s Spec) []Spec                       // smaller neighbours, most aggressive first
	Search   func(rng *rand.Rand, s Spec, n int) []Spec // neighbourhood to search after a mismatch
	Finding  func(s Spec, clause int) string            // canonical key of a violation
	Exhaustive func(tier string) bool
	Clauses  map[int]string
}

var Registry = map[string]*Prop{}

func Register(p *Prop) { Registry[p.ID] = p }

type Violation struct {
	Kind     string          `json:"kind"` // spec-fail | mismatch | bad-tape
	Clause   int             `json:"clause"`
	ClauseText string        `json:"clause_text,omitempty"`
	Key      string          `json:"key"`
	Known    bool            `json:"known"`
	Spec     json.RawMessage `json:"spec"`
	Tape     string          `json:"tape"`
	Verdict  string          `json:"verdict"`
	Replay   string          `json:"replay"`
	NoFailingInput bool      `json:"no_failing_input_found"`
	Note     string          `json:"note,omitempty"`
	Harness  string          `json:"harness"`
}

type Result struct {
	Property    string            `json:"property"`
	Tier        string            `json:"tier"`
	Seed        int64             `json:"seed"`
	Evaluations int               `json:"evaluations"`
	Distinct    int               `json:"distinct_nontrivial"`
	Rule        string            `json:"rule"`
	Exhaustive  bool              `json:"exhaustive"`
	Agree       int               `json:"agree"`
	Mismatches  int               `json:"mismatches"`
	SpecFails   int               `json:"spec_fails"`
	Tags        map[string]int    `json:"distribution"`
	Samples     []json.RawMessage `json:"samples"`
	Violations  []Violation       `json:"violations"`
	Known       []string          `json:"known_findings_hit"`
	ExecSeconds float64           `json:"exec_s"`
	JudgeSeconds float64          `json:"judge_s"`
	Corpus      int               `json:"corpus_cases"`
}

type Options struct {
	Tier      string
	Seed      int64
	JudgePath string
	CorpusDir string
	ReplayDir string
	KnownPath string
	Replay    string // replay file: run only this
	Workers   int
}

func specJSON(s Spec) json.RawMessage {
	b, err := json.Marshal(s)
	if err != nil {
		panic(err)
	}
	return b
}

func parseVerdict(v string) (code int, clause int) {
	f := strings.Fields(v)
	if len(f) == 0 {
		return 3, 0
	}
	code, _ = strconv.Atoi(f[0])
	if code == 2 && len(f) > 1 {
		clause, _ = strconv.Atoi(f[1])
	}
	return
}

func loadKnown(path string) map[string]string {
	res := map[string]string{}
	data, err := os.ReadFile(path)
	if err != nil {
		return res
	}
	for _, line := range strings.Split(string(data), "\n") {
		line = strings.TrimSpace(line)
		if !strings.HasPrefix(line, "finding:") {
			continue
		}
		var prop, key string
		for _, f := range strings.Fields(line) {
			if strings.HasPrefix(f, "property=") {
				prop = strings.TrimPrefix(f, "property=")
			}
			if strings.HasPrefix(f, "key=") {
				key = strings.TrimPrefix(f, "key=")
			}
		}
		if prop != "" && key != "" {
			res[prop+"/"+key] = line
		}
	}
	return res
}

// safeExec runs one case under a watchdog; a panic raised by the library on the case's goroutine
// becomes the tape of a panic, a case that does not return within caseTimeout the tape of a hang
// (kind 70, judged by C07x: clauses 50, 51) rather than the end, or the stall, of the whole run.
// After three hangs the remaining cases of the property are not run (tagged so in the evidence).
const caseTimeout = 90 * time.Second

var hangMu sync.Mutex
var hangCount = map[string]int{}

func safeExec(p *Prop, s Spec) Exec {
	hangMu.Lock()
	h := hangCount[p.ID]
	hangMu.Unlock()
	if h >= 3 {
		return Exec{Tape: "70 0 0 0 1", Tags: []string{"NOT-RUN:three-earlier-cases-hung"}}
	}
	ch := make(chan Exec, 1)
	go func() {
		defer func() {
			if r := recover(); r != nil {
				ch <- Exec{Tape: "70 1 0 0 1", Tags: []string{"PANIC"}, Nontrivial: true}
			}
		}()
		ch <- p.Exec(s)
	}()
	select {
	case e := <-ch:
		return e
	case <-time.After(caseTimeout):
		hangMu.Lock()
		hangCount[p.ID]++
		hangMu.Unlock()
		return Exec{Tape: "70 0 1 0 1", Tags: []string{"HUNG"}, Nontrivial: true}
	}
}

// clauseText names a clause; 50 is the panic clause every harness shares through safeExec
func clauseText(p *Prop, clause int) string {
	if t, ok := p.Clauses[clause]; ok {
		return t
	}
	if clause == 50 {
		return "a call into the package panicked"
	}
	if clause == 51 {
		return "a call into the package did not return (90 s watchdog)"
	}
	return ""
}

func execAll(p *Prop, specs []Spec, workers int) []Exec {
	out := make([]Exec, len(specs))
	if p.Serial || workers <= 1 {
		for i, s := range specs {
			out[i] = safeExec(p, s)
		}
		return out
	}
	var wg sync.WaitGroup
	ch := make(chan int, 256)
	for w := 0; w < workers; w++ {
		wg.Add(1)
		go func() {
			defer wg.Done()
			for i := range ch {
				out[i] = safeExec(p, specs[i])
			}
		}()
	}
	for i := range specs {
		ch <- i
	}
	close(ch)
	wg.Wait()
	return out
}

func loadCorpus(p *Prop, dir string) []Spec {
	var res []Spec
	files, _ := filepath.Glob(filepath.Join(dir, p.ID, "*.json"))
	sort.Strings(files)
	for _, f := range files {
		data, err := os.ReadFile(f)
		if err != nil {
			continue
		}
		var rec struct {
			Spec json.RawMessage `json:"spec"`
		}
		if json.Unmarshal(data, &rec) != nil || rec.Spec == nil {
			continue
		}
		s, err := p.Decode(rec.Spec)
		if err == nil {
			res = append(res, s)
		}
	}
	return res
}

// Run executes the property's correspondence check and returns the result.
func Run(p *Prop, o Options) (*Result, error) {
	if o.Workers <= 0 {
		o.Workers = 16
	}
	j, err := NewJudge(o.JudgePath, o.Workers)
	if err != nil {
		return nil, err
	}
	defer j.Close()
	rng := rand.New(rand.NewSource(o.Seed))
	res := &Result{Property: p.ID, Tier: o.Tier, Seed: o.Seed, Rule: p.Rule, Tags: map[string]int{}}
	known := loadKnown(o.KnownPath)

	var specs []Spec
	if o.Replay != "" {
		data, err := os.ReadFile(o.Replay)
		if err != nil {
			return nil, err
		}
		var rec struct {
			Spec json.RawMessage `json:"spec"`
		}
		if err := json.Unmarshal(data, &rec); err != nil {
			return nil, err
		}
		if rec.Spec == nil || string(rec.Spec) == "null" {
			return nil, fmt.Errorf("replay file %s carries no case (it names a proof obligation)", o.Replay)
		}
		s, err := p.Decode(rec.Spec)
		if err != nil {
			return nil, err
		}
		specs = []Spec{s}
	} else {
		corpus := loadCorpus(p, o.CorpusDir)
		res.Corpus = len(corpus)
		specs = append(corpus, p.Gen(rng, o.Tier)...)
		if p.Exhaustive != nil {
			res.Exhaustive = p.Exhaustive(o.Tier)
		}
	}

	t0 := time.Now()
	execs := execAll(p, specs, o.Workers)
	res.ExecSeconds = time.Since(t0).Seconds()
	tapes := make([]string, len(execs))
	seen := map[[32]byte]bool{}
	for i, e := range execs {
		tapes[i] = e.Tape
		for _, t := range e.Tags {
			res.Tags[t]++
		}
		if e.Nontrivial {
			h := sha256.Sum256([]byte(e.Tape))
			if !seen[h] {
				seen[h] = true
			}
		}
	}
	res.Distinct = len(seen)
	res.Evaluations = len(specs)
	t1 := time.Now()
	verdicts, err := j.Run(tapes)
	if err != nil {
		return nil, err
	}
	res.JudgeSeconds = time.Since(t1).Seconds()

	// samples: first, middle, last + first nontrivial ones
	picked := map[int]bool{}
	for _, i := range []int{0, len(specs) / 3, len(specs) / 2, len(specs) - 1} {
		if i >= 0 && i < len(specs) && !picked[i] && len(res.Samples) < 4 {
			picked[i] = true
			m := map[string]interface{}{"case": specs[i], "verdict": verdictName(verdicts[i])}
			if len(tapes[i]) <= 400 {
				m["tape"] = tapes[i]
			}
			b, _ := json.Marshal(m)
			res.Samples = append(res.Samples, b)
		}
	}

	seenKeys := map[string]bool{}
	budgetShrinks := 12
	for i, v := range verdicts {
		code, clause := parseVerdict(v)
		switch code {
		case 0:
			res.Agree++
		case 2:
			res.SpecFails++
			key := "clause" + strconv.Itoa(clause)
			if p.Finding != nil {
				key = p.Finding(specs[i], clause)
			}
			if seenKeys["s/"+key] {
				continue
			}
			seenKeys["s/"+key] = true
			s, tape, verdict := specs[i], tapes[i], v
			if p.Shrink != nil && budgetShrinks > 0 && os.Getenv("VERIF_NOSHRINK") == "" {
				budgetShrinks--
				s, tape, verdict = shrink(p, j, s, tape, verdict, clause)
				if p.Finding != nil {
					key = p.Finding(s, clause)
				}
			}
			viol := Violation{Kind: "spec-fail", Clause: clause, ClauseText: clauseText(p, clause), Key: key, Spec: specJSON(s), Tape: tape, Verdict: verdict}
			if line, ok := known[p.ID+"/"+key]; ok {
				viol.Known = true
				res.Known = append(res.Known, line)
			}
			viol.Replay = writeReplay(o.ReplayDir, p.ID, viol)
			res.Violations = append(res.Violations, viol)
		default:
			res.Mismatches++
			kind := "mismatch"
			if code != 1 {
				kind = "bad-tape"
			}
			if seenKeys["m"] && len(res.Violations) >= 3 {
				continue
			}
			seenKeys["m"] = true
			// the correspondence no longer checks: search the neighbourhood for a failing input
			found := false
			if p.Search != nil || p.Shrink != nil {
				var cands []Spec
				if p.Shrink != nil {
					cands = append(cands, p.Shrink(specs[i])...)
				}
				if p.Search != nil {
					cands = append(cands, p.Search(rng, specs[i], 2000)...)
				}
				if len(cands) > 4000 {
					cands = cands[:4000]
				}
				ex := execAll(p, cands, o.Workers)
				ts := make([]string, len(ex))
				for k := range ex {
					ts[k] = ex[k].Tape
				}
				vs, err := j.Run(ts)
				if err == nil {
					for k, vv := range vs {
						c2, cl2 := parseVerdict(vv)
						if c2 == 2 {
							s, tape, verdict := shrink(p, j, cands[k], ts[k], vv, cl2)
							key := "clause" + strconv.Itoa(cl2)
							if p.Finding != nil {
								key = p.Finding(s, cl2)
							}
							if seenKeys["s/"+key] {
								found = true
								break
							}
							seenKeys["s/"+key] = true
							viol := Violation{Kind: "spec-fail", Clause: cl2, ClauseText: clauseText(p, cl2), Key: key, Spec: specJSON(s), Tape: tape, Verdict: verdict,
								Note: "found by neighbourhood search after a model/implementation disagreement"}
							if line, ok := known[p.ID+"/"+key]; ok {
								viol.Known = true
								res.Known = append(res.Known, line)
							}
							viol.Replay = writeReplay(o.ReplayDir, p.ID, viol)
							res.Violations = append(res.Violations, viol)
							res.SpecFails++
							found = true
							break
						}
					}
				}
			}
			if !found {
				s, tape, verdict := specs[i], tapes[i], v
				if p.Shrink != nil && budgetShrinks > 0 && os.Getenv("VERIF_NOSHRINK") == "" {
					budgetShrinks--
					s, tape, verdict = shrinkMismatch(p, j, s, tape, verdict)
				}
				viol := Violation{Kind: kind, Key: "correspondence", Spec: specJSON(s), Tape: tape, Verdict: verdict, NoFailingInput: true,
					Note: "correspondence " + p.ID + " (model vs implementation projection) no longer checks; verdict tape after code 1 is the model's observation"}
				viol.Replay = writeReplay(o.ReplayDir, p.ID, viol)
				res.Violations = append(res.Violations, viol)
			}
		}
	}
	return res, nil
}

func verdictName(v string) string {
	code, clause := parseVerdict(v)
	switch code {
	case 0:
		return "agree"
	case 1:
		return "mismatch"
	case 2:
		return "spec-fail clause " + strconv.Itoa(clause)
	}
	return "bad-tape"
}

func shrink(p *Prop, j *Judge, s Spec, tape, verdict string, clause int) (Spec, string, string) {
	for round := 0; round < 200; round++ {
		improved := false
		for _, c := range p.Shrink(s) {
			e := safeExec(p, c)
			v, err := j.One(e.Tape)
			if err != nil {
				return s, tape, verdict
			}
			code, cl := parseVerdict(v)
			if code == 2 && cl == clause {
				s, tape, verdict = c, e.Tape, v
				improved = true
				break
			}
		}
		if !improved {
			break
		}
	}
	return s, tape, verdict
}

func shrinkMismatch(p *Prop, j *Judge, s Spec, tape, verdict string) (Spec, string, string) {
	for round := 0; round < 100; round++ {
		improved := false
		for _, c := range p.Shrink(s) {
			e := safeExec(p, c)
			v, err := j.One(e.Tape)
			if err != nil {
				return s, tape, verdict
			}
			code, _ := parseVerdict(v)
			if code == 1 {
				s, tape, verdict = c, e.Tape, v
				improved = true
				break
			}
		}
		if !improved {
			break
		}
	}
	return s, tape, verdict
}

func writeReplay(dir, id string, v Violation) string {
	v.Harness = id
	os.MkdirAll(dir, 0o755)
	b, _ := json.MarshalIndent(v, "", " ")
	h := sha256.Sum256(b)
	path := filepath.Join(dir, id+"-"+hex.EncodeToString(h[:6])+".json")
	os.WriteFile(path, b, 0o644)
	return path
}

// ---------------------------------------------------------------- generator helpers

func Pick[T any](rng *rand.Rand, xs []T) T { return xs[rng.Intn(len(xs))] }

func RandBytes(rng *rand.Rand, n int) []byte {
	b := make([]byte, n)
	rng.Read(b)
	return b
}

func Tag(format string, a ...interface{}) string { return fmt.Sprintf(format, a...) }

// SizeClass buckets a length for distribution reporting.
func SizeClass(n int) string {
	switch {
	case n == 0:
		return "0"
	case n <= 125:
		return "1-125"
	case n <= 65535:
		return "126-65535"
	default:
		return ">=65536"
	}
}
