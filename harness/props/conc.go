package props

import (
	"encoding/json"
	"math/rand"
	"net"
	"sync"
	"time"

	"verif/harness/core"

	"github.com/gorilla/websocket"
)

// C09 / C11: schedule-controlled runs of the write lock protocol against a gated transport.

type CCall struct {
	Fid     int  `json:"fid"`
	Kind    int  `json:"kind"` // 0 frame, 1 Conn.Close
	Close   bool `json:"close,omitempty"`
	Parts   int  `json:"parts"`
	DL      int  `json:"dl"` // 0 none (zero time), 1 past, 2 future
	Writer  bool `json:"writer,omitempty"` // WriteMessage by the writer goroutine (has beginMessage's pre-check)
}

type CAct struct {
	K   int   `json:"k"` // 0 start, 1 release, 2 timer
	T   int   `json:"t"`
	Exp []int `json:"exp"` // per thread after the action: 0 no call in progress, 1 parked at a transport op, 2 blocked on the lock
}

type ConcSpec struct {
	Prop    int       `json:"prop"`
	Threads [][]CCall `json:"threads"`
	Sched   []CAct    `json:"sched"`
}

// ---- gated conn ----
type gateEv struct {
	kind    int // 0 setdl, 1 write
	data    []byte
	release chan struct{}
}

type gateConn struct {
	net.Conn
	mu       sync.Mutex
	arrivals chan *gateEv
	writes   [][]byte
	closed   bool
	failed   bool // a transport operation has failed
	after    int  // transport operations started after that
}

func (g *gateConn) park(ev *gateEv) error {
	g.mu.Lock()
	if g.failed {
		g.after++
	}
	g.mu.Unlock()
	g.arrivals <- ev
	<-ev.release
	g.mu.Lock()
	defer g.mu.Unlock()
	if g.closed {
		g.failed = true
		return errOther
	}
	return nil
}
func (g *gateConn) SetWriteDeadline(t time.Time) error {
	return g.park(&gateEv{kind: 0, release: make(chan struct{})})
}
func (g *gateConn) Write(p []byte) (int, error) {
	cp := append([]byte(nil), p...)
	if err := g.park(&gateEv{kind: 1, data: cp, release: make(chan struct{})}); err != nil {
		return 0, err
	}
	g.mu.Lock()
	g.writes = append(g.writes, cp)
	g.mu.Unlock()
	return len(p), nil
}
func (g *gateConn) Close() error {
	g.mu.Lock()
	g.closed = true
	g.mu.Unlock()
	return nil
}
func (g *gateConn) SetDeadline(t time.Time) error     { return nil }
func (g *gateConn) SetReadDeadline(t time.Time) error { return nil }
func (g *gateConn) Read(p []byte) (int, error)        { select {} }
func (g *gateConn) LocalAddr() net.Addr               { return &net.TCPAddr{} }
func (g *gateConn) RemoteAddr() net.Addr              { return &net.TCPAddr{} }

// payload marker: byte = 16*tid + fid  (tid, fid < 16)
func marker(t, f int) byte { return byte(16*t + f) }

const futureDL = 150 * time.Millisecond

type cthread struct {
	calls   []CCall
	next    int
	ret     chan int
	running bool
	parked  *gateEv
	results [][2]int
}

func outcomeCode(err error) int {
	switch {
	case err == nil:
		return 0
	case err == websocket.ErrCloseSent:
		return 1
	case err == sentinels["errWriteTimeout"]:
		return 2
	}
	return 3
}

func concExec(s core.Spec) core.Exec {
	sp := s.(*ConcSpec)
	g := &gateConn{arrivals: make(chan *gateEv, 64)}
	// server role, small buffer (raised to 125 by newConn): a 300-byte WriteMessage goes out as two Writes (buffer, then the rest)
	c := websocket.VerifNewConn(g, true, 0, 16, nil, nil, false)
	ths := make([]*cthread, len(sp.Threads))
	for i, cs := range sp.Threads {
		ths[i] = &cthread{calls: cs, ret: make(chan int, 1)}
	}
	diverged := false
	owner := func(ev *gateEv) int {
		// attribute a parked operation: writes carry the marker; a SetWriteDeadline belongs to the
		// only running thread that is not parked (at most one thread is inside the lock)
		if ev.kind == 1 && len(ev.data) > 0 {
			m := ev.data[len(ev.data)-1]
			return int(m >> 4)
		}
		return -1
	}
	// wait until the threads are in the states the script expects (the script was produced by a
	// simulation of the lock protocol); anything else within the time limit is a divergence
	collect := func(exp []int, hint []int) {
		deadline := time.Now().Add(3 * time.Second)
		for {
			ok := true
			for i, th := range ths {
				want := 0
				if i < len(exp) {
					want = exp[i]
				}
				switch want {
				case 0:
					if th.running {
						ok = false
					}
				case 1:
					if !th.running || th.parked == nil {
						ok = false
					}
				case 2:
					if !th.running || th.parked != nil {
						ok = false
					}
				}
			}
			if ok {
				return
			}
			if time.Now().After(deadline) {
				diverged = true
				return
			}
			select {
			case ev := <-g.arrivals:
				t := owner(ev)
				if t < 0 {
					for _, h := range hint {
						if ths[h].running && ths[h].parked == nil && (len(exp) <= h || exp[h] == 1) {
							t = h
							break
						}
					}
				}
				if t < 0 || t >= len(ths) || ths[t].parked != nil || !ths[t].running {
					diverged = true
					close(ev.release)
					continue
				}
				ths[t].parked = ev
			default:
				moved := false
				for _, th := range ths {
					if !th.running {
						continue
					}
					select {
					case r := <-th.ret:
						th.results = append(th.results, [2]int{th.calls[th.next].Fid, r})
						th.next++
						th.running = false
						th.parked = nil
						moved = true
					default:
					}
				}
				if !moved {
					time.Sleep(100 * time.Microsecond)
				}
			}
		}
	}
	for _, a := range sp.Sched {
		if a.T >= len(ths) {
			diverged = true
			break
		}
		th := ths[a.T]
		switch a.K {
		case 0:
			if th.running || th.next >= len(th.calls) {
				diverged = true
				continue
			}
			call := th.calls[th.next]
			th.running = true
			t := a.T
			go func() {
				var err error
				switch {
				case call.Kind == 1:
					err = c.Close()
				case call.Writer:
					n := 4
					if call.Parts == 2 {
						n = 300
					}
					p := make([]byte, n)
					for i := range p {
						p[i] = marker(t, call.Fid)
					}
					ty := websocket.BinaryMessage
					if call.Close {
						ty = websocket.CloseMessage
						p = []byte{0x03, 0xe8, marker(t, call.Fid)}
					}
					err = c.WriteMessage(ty, p)
				default:
					var dl time.Time
					switch call.DL {
					case 1:
						dl = time.Now().Add(-time.Hour)
					case 2:
						dl = time.Now().Add(futureDL)
					}
					ty := websocket.PingMessage
					p := []byte{marker(t, call.Fid)}
					if call.Close {
						ty = websocket.CloseMessage
						p = []byte{0x03, 0xe8, marker(t, call.Fid)}
					}
					err = c.WriteControl(ty, p, dl)
				}
				th.ret <- outcomeCode(err)
			}()
			collect(a.Exp, []int{a.T})
		case 1:
			if th.parked == nil {
				diverged = true
				continue
			}
			ev := th.parked
			th.parked = nil
			close(ev.release)
			hint := []int{a.T}
			for i := range ths {
				if i != a.T {
					hint = append(hint, i)
				}
			}
			collect(a.Exp, hint)
		case 2:
			// the deadline of the waiting WriteControl passes while the lock stays held
			if !th.running || th.parked != nil {
				diverged = true
				continue
			}
			collect(a.Exp, nil)
		}
	}
	// the implementation left the script: let everything run to completion, so that the Spec
	// predicates (frames contiguous, nothing after a close frame, timed-out calls wrote nothing)
	// judge what the connection really did and a failing schedule becomes the replay
	if diverged {
		end := time.Now().Add(500 * time.Millisecond)
		for time.Now().Before(end) {
			busy := false
			for _, th := range ths {
				if th.parked != nil {
					close(th.parked.release)
					th.parked = nil
				}
				if th.running {
					busy = true
					select {
					case r := <-th.ret:
						th.results = append(th.results, [2]int{th.calls[th.next].Fid, r})
						th.next++
						th.running = false
					default:
					}
				}
			}
			select {
			case ev := <-g.arrivals:
				close(ev.release)
				busy = true
			default:
			}
			if !busy {
				break
			}
			time.Sleep(200 * time.Microsecond)
		}
	}
	// snapshot of what happened under the schedule
	type snap struct {
		results [][2]int
	}
	snaps := make([]snap, len(ths))
	for i, th := range ths {
		snaps[i].results = append([][2]int(nil), th.results...)
	}
	g.mu.Lock()
	writes := append([][]byte(nil), g.writes...)
	after := g.after
	g.mu.Unlock()
	// drain: release everything still parked so goroutines end
	for round := 0; round < 50; round++ {
		any := false
		for _, th := range ths {
			if th.parked != nil {
				close(th.parked.release)
				th.parked = nil
				any = true
			}
		}
		select {
		case ev := <-g.arrivals:
			close(ev.release)
			any = true
		default:
		}
		if !any {
			break
		}
		time.Sleep(time.Millisecond)
	}

	t := core.NewTape(sp.Prop)
	t.N(len(sp.Threads))
	for _, cs := range sp.Threads {
		t.N(len(cs))
		for _, cl := range cs {
			parts := cl.Parts
			if cl.Kind == 1 {
				parts = 0
			}
			t.N(cl.Fid).N(cl.Kind).Bool(cl.Close).N(parts).N(cl.DL).Bool(cl.Writer)
		}
	}
	t.N(len(sp.Sched))
	for _, a := range sp.Sched {
		t.N(a.K).N(a.T)
	}
	// observation (taken before the drain released anything else: results so far + write log so far)
	t.N(len(ths))
	for i := range ths {
		t.N(len(snaps[i].results))
		for _, r := range snaps[i].results {
			t.N(r[0]).N(r[1])
		}
	}
	t.N(len(writes))
	part := map[[2]int]int{}
	for _, w := range writes {
		m := w[len(w)-1]
		tid, fid := int(m>>4), int(m&15)
		part[[2]int{tid, fid}]++
		t.N(tid).N(fid).N(part[[2]int{tid, fid}])
	}
	t.N(after)
	tags := []string{}
	if diverged {
		tags = append(tags, "script-diverged")
	}
	return core.Exec{Tape: t.String(), Tags: tags, Nontrivial: len(writes) > 0}
}


// ---- scenario generation by simulating the lock protocol ----
type simThread struct {
	calls []CCall
	next  int
	state int // 0 idle, 1 parked setdl, 2 parked write, 3 waiting lock, 4 waiting lock with timer
	k     int // writes done
}

func genConc(rng *rand.Rand, prop int, connCloseOneIn int) *ConcSpec {
	sp := &ConcSpec{Prop: prop}
	// thread 0: the writer
	nw := 1 + rng.Intn(3)
	var w []CCall
	for i := 0; i < nw; i++ {
		cl := CCall{Fid: i + 1, Parts: 1 + rng.Intn(2), Writer: true}
		if rng.Intn(6) == 0 {
			cl.Close, cl.Parts = true, 1
		}
		w = append(w, cl)
	}
	sp.Threads = append(sp.Threads, w)
	nctl := 1 + rng.Intn(2)
	for t := 1; t <= nctl; t++ {
		var cs []CCall
		for i := 0; i < 1+rng.Intn(2); i++ {
			cl := CCall{Fid: i + 1, Parts: 1, DL: core.Pick(rng, []int{0, 0, 1, 2, 2})}
			if rng.Intn(3) == 0 {
				cl.Close = true
			}
			if rng.Intn(connCloseOneIn) == 0 {
				cl = CCall{Fid: i + 1, Kind: 1}
			}
			cs = append(cs, cl)
		}
		sp.Threads = append(sp.Threads, cs)
	}
	ths := make([]*simThread, len(sp.Threads))
	for i, cs := range sp.Threads {
		ths[i] = &simThread{calls: cs}
	}
	holder := -1
	werr := false
	tclosed := false
	timers := 0
	endCall := func(t int) {
		ths[t].next++
		ths[t].state = 0
		ths[t].k = 0
	}
	var grant func()
	grant = func() {
		// the lock is free: a waiter (at most one exists) takes it
		for i, th := range ths {
			if th.state == 3 || th.state == 4 {
				if werr {
					endCall(i)
				} else {
					holder = i
					th.state = 1
				}
				return
			}
		}
	}
	snapshot := func() []int {
		exp := make([]int, len(ths))
		for i, th := range ths {
			switch th.state {
			case 1, 2:
				exp[i] = 1
			case 3, 4:
				exp[i] = 2
			}
		}
		return exp
	}
	for step := 0; step < 40; step++ {
		type cand struct{ k, t int }
		var cands []cand
		waiters := 0
		for _, th := range ths {
			if th.state == 3 || th.state == 4 {
				waiters++
			}
		}
		for i, th := range ths {
			switch th.state {
			case 0:
				if th.next < len(th.calls) {
					cl := th.calls[th.next]
					wouldWait := holder != -1 && cl.Kind == 0 && cl.DL != 1 && !(cl.Writer && werr)
					if !(wouldWait && waiters > 0) {
						cands = append(cands, cand{0, i})
					}
				}
			case 1, 2:
				cands = append(cands, cand{1, i}, cand{1, i})
			case 4:
				if holder != -1 && timers < 1 {
					cands = append(cands, cand{2, i})
				}
			}
		}
		if len(cands) == 0 {
			break
		}
		a := cands[rng.Intn(len(cands))]
		th := ths[a.t]
		switch a.k {
		case 0:
			cl := th.calls[th.next]
			switch {
			case cl.Kind == 1:
				tclosed = true
				endCall(a.t)
			case cl.Writer && werr:
				endCall(a.t)
			case cl.DL == 1:
				endCall(a.t)
			case holder == -1:
				if werr {
					endCall(a.t)
				} else {
					holder = a.t
					th.state = 1
				}
			case cl.DL == 2:
				th.state = 4
			default:
				th.state = 3
			}
		case 1:
			cl := th.calls[th.next]
			if tclosed {
				werr = true
				holder = -1
				endCall(a.t)
				grant()
			} else if th.state == 1 {
				th.state = 2
				th.k = 0
			} else {
				th.k++
				parts := cl.Parts
				if parts < 1 {
					parts = 1
				}
				if th.k >= parts {
					if cl.Close {
						werr = true
					}
					holder = -1
					endCall(a.t)
					grant()
				}
			}
		case 2:
			timers++
			endCall(a.t)
		}
		sp.Sched = append(sp.Sched, CAct{K: a.k, T: a.t, Exp: snapshot()})
	}
	return sp
}

func concGen(prop int, connCloseOneIn int) func(rng *rand.Rand, tier string) []core.Spec {
	return func(rng *rand.Rand, tier string) []core.Spec {
		n := 400
		if tier == "thorough" {
			n = 6000
		}
		var out []core.Spec
		for i := 0; i < n; i++ {
			out = append(out, genConc(rng, prop, connCloseOneIn))
		}
		return out
	}
}

func init() {
	clauses := map[int]string{
		150: "the Write calls of one frame are not contiguous on the transport",
		151: "bytes were written after a close frame",
		152: "a WriteControl that timed out wrote something",
		153: "a call failed with ErrCloseSent although no close frame was ever written (a timed-out or failed close poisoned the connection)",
		154: "after a transport operation had failed, another transport operation was started",
		199: "malformed observation",
	}
	dec := func(raw json.RawMessage) (core.Spec, error) {
		var s ConcSpec
		err := json.Unmarshal(raw, &s)
		return &s, err
	}
	rule := "threads {writer goroutine with 1-3 WriteMessage calls (one- and two-Write frames, occasionally a close), 1-2 goroutines with 1-2 WriteControl calls each (ping/close; deadline zero/past/future), occasionally Conn.Close} on a connection whose transport parks every SetWriteDeadline/Write at a gate; schedules are random walks over {start a call, release a parked operation, let a waiting WriteControl's deadline pass} produced by a simulation of the lock protocol (at most one goroutine waiting for the lock at a time); non-trivial = something reached the transport"
	core.Register(&core.Prop{ID: "C09", Rule: rule, Gen: concGen(9, 12), Exec: concExec, Decode: dec, Clauses: clauses})
	core.Register(&core.Prop{ID: "C11", Rule: rule, Gen: concGen(11, 12), Exec: concExec, Decode: dec, Clauses: clauses})
	core.Register(&core.Prop{ID: "C10c", Rule: rule + "; here every third control call is Conn.Close, so that the transport operation in flight (or the next one) fails while other callers are queued on the write lock", Gen: concGen(11, 3), Exec: concExec, Decode: dec, Clauses: clauses})
}
