package props

import (
	"encoding/binary"
	"encoding/json"
	"math/rand"
	"runtime"

	"verif/harness/core"

	"github.com/gorilla/websocket"
)

// C06a: memory used to receive a frame never depends on the length its header claims.  Serial
// (the meter is the process-wide allocation counter): a frame header claiming a huge payload, a
// few payload bytes, then the end of the transport; with and without a read limit large enough to
// let the frame pass.

type AllocSpec struct {
	Server     bool   `json:"server"`
	Negotiated bool   `json:"negotiated"`
	Limit      int64  `json:"limit"`
	Claimed    uint64 `json:"claimed"`
	Sent       int    `json:"sent"`
	Fragmented bool   `json:"fragmented"` // the claiming frame is a continuation after a small first fragment
	ReadAPI    int    `json:"read_api"`   // 0 ReadMessage, 1 NextReader + small reads
}

func allocExec(s core.Spec) core.Exec {
	sp := s.(*AllocSpec)
	var stream []byte
	frame := func(fin bool, op int, claimed uint64, payload []byte) {
		b0 := byte(op)
		if fin {
			b0 |= 0x80
		}
		hdr := []byte{b0, 127}
		if sp.Server {
			hdr[1] |= 0x80
		}
		var l [8]byte
		binary.BigEndian.PutUint64(l[:], claimed)
		hdr = append(hdr, l[:]...)
		if sp.Server {
			hdr = append(hdr, 0, 0, 0, 0) // zero mask key
		}
		stream = append(stream, hdr...)
		stream = append(stream, payload...)
	}
	if sp.Fragmented {
		frame(false, 2, 3, []byte("abc"))
		frame(true, 0, sp.Claimed, make([]byte, sp.Sent))
	} else {
		frame(true, 2, sp.Claimed, make([]byte, sp.Sent))
	}
	c := websocket.VerifNewConn(NewScriptConn([][]byte{stream}, 0, false), sp.Server, 0, 0, nil, nil, sp.Negotiated)
	if sp.Limit > 0 {
		c.SetReadLimit(sp.Limit)
	}
	panicked := false
	var ms0, ms1 runtime.MemStats
	runtime.GC()
	runtime.ReadMemStats(&ms0)
	func() {
		defer func() {
			if r := recover(); r != nil {
				panicked = true
			}
		}()
		if sp.ReadAPI == 0 {
			c.ReadMessage()
		} else {
			_, r, err := c.NextReader()
			if err == nil {
				buf := make([]byte, 512)
				for i := 0; i < 64; i++ {
					if _, err := r.Read(buf); err != nil {
						break
					}
				}
			}
		}
	}()
	runtime.ReadMemStats(&ms1)
	t := core.NewTape(70)
	t.Bool(panicked).Bool(false).N(int(ms1.TotalAlloc - ms0.TotalAlloc)).N(len(stream))
	return core.Exec{Tape: t.String(), Tags: []string{core.Tag("limit:%d", sp.Limit)}, Nontrivial: true}
}

func c06aGen(rng *rand.Rand, tier string) []core.Spec {
	var out []core.Spec
	for _, server := range []bool{false, true} {
		for _, ng := range []bool{false, true} {
			for _, lim := range []int64{0, 1 << 26, 1 << 40} {
				for _, claimed := range []uint64{1 << 25, 1 << 26, 1<<26 - 1, 1 << 31, 1<<62 + 5, 1<<63 - 1} {
					for _, frag := range []bool{false, true} {
						for api := 0; api < 2; api++ {
							out = append(out, &AllocSpec{Server: server, Negotiated: ng, Limit: lim, Claimed: claimed, Sent: core.Pick(rng, []int{0, 5, 100}), Fragmented: frag, ReadAPI: api})
						}
					}
				}
			}
		}
	}
	return out
}

func init() {
	core.Register(&core.Prop{
		ID:     "C06a",
		Serial: true,
		Rule:   "a frame whose 64-bit length field claims 32 MiB .. 2^63-1 bytes, followed by 0 / 5 / 100 payload bytes and the end of the transport; first frame of a message or continuation after a 3-byte fragment; both roles, compression negotiated or not; read limit none / 64 MiB / 2^40; ReadMessage or NextReader + 512-byte reads; run serially with runtime.MemStats.TotalAlloc read before and after (exhaustive over this matrix): the bytes allocated must stay below 64 x the bytes received + 4 MiB, and nothing may panic",
		Gen:    c06aGen,
		Exec:   allocExec,
		Decode: func(raw json.RawMessage) (core.Spec, error) {
			var s AllocSpec
			err := json.Unmarshal(raw, &s)
			return &s, err
		},
		Clauses:    map[int]string{50: "panic", 51: "no return", 52: "allocated more than 64 bytes per byte received + 4 MiB: memory depends on the length the header claims"},
		Exhaustive: func(string) bool { return true },
	})
}
