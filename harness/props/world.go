package props

import (
	"bufio"
	"context"
	"crypto/ecdsa"
	"crypto/elliptic"
	"crypto/rand"
	"crypto/tls"
	"crypto/x509"
	"crypto/x509/pkix"
	"encoding/base64"
	"fmt"
	"io"
	"math/big"
	"net"
	"net/http"
	"net/url"
	"strings"
	"sync"
	"time"

	"github.com/gorilla/websocket"
)

// An in-memory network for the dial-path properties (C16, C18): custom dial functions hand out
// pipe ends, goroutines play HTTP(S)/SOCKS5 proxies and (TLS) backends and record what they see.

type pki struct {
	pool      *x509.CertPool
	certs     map[string]tls.Certificate // by name: backend.test, other.test, proxy.test, untrusted
}

var (
	pkiOnce sync.Once
	thePKI  *pki
)

func mkCA(cn string) (*x509.Certificate, *ecdsa.PrivateKey) {
	key, _ := ecdsa.GenerateKey(elliptic.P256(), rand.Reader)
	tmpl := &x509.Certificate{SerialNumber: big.NewInt(1), Subject: pkix.Name{CommonName: cn}, NotBefore: time.Now().Add(-time.Hour), NotAfter: time.Now().Add(100 * time.Hour),
		IsCA: true, KeyUsage: x509.KeyUsageCertSign, BasicConstraintsValid: true}
	der, _ := x509.CreateCertificate(rand.Reader, tmpl, tmpl, &key.PublicKey, key)
	c, _ := x509.ParseCertificate(der)
	return c, key
}
func mkLeaf(ca *x509.Certificate, cakey *ecdsa.PrivateKey, names ...string) tls.Certificate {
	key, _ := ecdsa.GenerateKey(elliptic.P256(), rand.Reader)
	tmpl := &x509.Certificate{SerialNumber: big.NewInt(time.Now().UnixNano()), Subject: pkix.Name{CommonName: names[0]}, NotBefore: time.Now().Add(-time.Hour), NotAfter: time.Now().Add(100 * time.Hour),
		KeyUsage: x509.KeyUsageDigitalSignature, ExtKeyUsage: []x509.ExtKeyUsage{x509.ExtKeyUsageServerAuth}, DNSNames: names}
	der, _ := x509.CreateCertificate(rand.Reader, tmpl, ca, &key.PublicKey, cakey)
	return tls.Certificate{Certificate: [][]byte{der}, PrivateKey: key}
}
func getPKI() *pki {
	pkiOnce.Do(func() {
		ca, cakey := mkCA("verif-ca")
		bad, badkey := mkCA("untrusted-ca")
		p := &pki{pool: x509.NewCertPool(), certs: map[string]tls.Certificate{}}
		p.pool.AddCert(ca)
		p.certs["backend.test"] = mkLeaf(ca, cakey, "backend.test", "alias.test")
		p.certs["other.test"] = mkLeaf(ca, cakey, "other.test")
		p.certs["proxy.test"] = mkLeaf(ca, cakey, "proxy.test", "alias.test")
		p.certs["untrusted"] = mkLeaf(bad, badkey, "backend.test", "alias.test")
		thePKI = p
	})
	return thePKI
}

// faultConn wraps the client end of a pipe: logs every operation and injects one fault.
type faultConn struct {
	net.Conn
	mu       sync.Mutex
	events   []string // read write setdl setdl0 setwdl setwdl0 setrdl setrdl0 close fail
	ops      int
	failAt   int
	failKind int // 0 error, 1 timeout, 2 EOF on reads, 3 the operation stalls until the armed deadline has passed (or the connection is closed), then times out
	deadline time.Time
	closedCh chan struct{}
	once     sync.Once
}

// stall: what a peer that has gone silent looks like
func (f *faultConn) stall() {
	f.mu.Lock()
	dl := f.deadline
	if f.closedCh == nil {
		f.closedCh = make(chan struct{})
	}
	ch := f.closedCh
	f.mu.Unlock()
	wait := 1500 * time.Millisecond
	if !dl.IsZero() {
		if d := time.Until(dl) + 2*time.Millisecond; d < wait {
			wait = d
		}
	}
	if wait > 0 {
		select {
		case <-ch:
		case <-time.After(wait):
		}
	}
}

func (f *faultConn) op(kind string) bool {
	f.mu.Lock()
	defer f.mu.Unlock()
	i := f.ops
	f.ops++
	f.events = append(f.events, kind)
	if f.failAt >= 0 && i == f.failAt {
		f.events = append(f.events, "fail")
		return true
	}
	return false
}
func (f *faultConn) err(read bool) error {
	switch f.failKind {
	case 1:
		return timeoutErr{}
	case 2:
		if read {
			return io.EOF
		}
	}
	return errOther
}
func (f *faultConn) Read(p []byte) (int, error) {
	if f.op("read") {
		if f.failKind == 3 {
			f.stall()
			return 0, timeoutErr{}
		}
		return 0, f.err(true)
	}
	return f.Conn.Read(p)
}
func (f *faultConn) Write(p []byte) (int, error) {
	if f.op("write") {
		if f.failKind == 3 {
			f.stall()
			return 0, timeoutErr{}
		}
		return 0, f.err(false)
	}
	return f.Conn.Write(p)
}
func dlName(base string, t time.Time) string {
	if t.IsZero() {
		return base + "0"
	}
	return base
}
func (f *faultConn) SetDeadline(t time.Time) error {
	f.mu.Lock()
	f.deadline = t
	f.mu.Unlock()
	if f.op(dlName("setdl", t)) {
		return f.err(false)
	}
	return nil
}
func (f *faultConn) SetReadDeadline(t time.Time) error {
	if f.op(dlName("setrdl", t)) {
		return f.err(false)
	}
	return nil
}
func (f *faultConn) SetWriteDeadline(t time.Time) error {
	if f.op(dlName("setwdl", t)) {
		return f.err(false)
	}
	return nil
}
func (f *faultConn) Close() error {
	f.mu.Lock()
	f.events = append(f.events, "close")
	if f.closedCh == nil {
		f.closedCh = make(chan struct{})
	}
	ch := f.closedCh
	f.mu.Unlock()
	f.once.Do(func() { close(ch) })
	return f.Conn.Close()
}

type hopRecord struct {
	fn     string // which dial function: tls ctx netdial
	addr   string
	sawTLS bool
	sni    string
	ctxDL  bool // the context handed to the dial function carried a deadline
}

type world struct {
	mu        sync.Mutex
	hops      []*hopRecord
	conns     []*faultConn
	connects  []string // CONNECT targets seen by the proxy
	auths     []string // Proxy-Authorization values ("" = none)
	socksTgt  []string
	backendTLS []string // SNI values seen by the backend TLS layer ("-" = plaintext)
	// configuration
	proxyHost   string // host:port of the proxy ("" none)
	proxyKind   string // http https socks5
	proxyReply  string // status line to answer CONNECT with; "" = 200
	backendTLSExpected bool
	certMode    int    // 0 valid, 1 for another host, 2 untrusted
	backendReply func(key string) []byte // nil = real Upgrader
	failAt, failKind int
	wg sync.WaitGroup
	serverConn *websocket.Conn
	afterRefusal int // bytes the proxy received after it had refused the CONNECT
}

func (w *world) hook(fn string) func(ctx context.Context, network, addr string) (net.Conn, error) {
	return func(ctx context.Context, network, addr string) (net.Conn, error) {
		ce, se := memPipe()
		rec := &hopRecord{fn: fn, addr: addr}
		_, rec.ctxDL = ctx.Deadline()
		fc := &faultConn{Conn: ce, failAt: w.failAt, failKind: w.failKind}
		w.mu.Lock()
		w.hops = append(w.hops, rec)
		if len(w.conns) > 0 {
			fc.failAt = -1 // faults are injected on the first connection only
		}
		w.conns = append(w.conns, fc)
		w.mu.Unlock()
		w.wg.Add(1)
		go func() {
			defer w.wg.Done()
			defer se.Close()
			w.serve(se, rec, addr)
		}()
		return fc, nil
	}
}

// sniff: peek the first byte to tell TLS from plaintext
func sniffTLS(c net.Conn) (net.Conn, bool, error) {
	br := bufio.NewReader(c)
	b, err := br.Peek(1)
	if err != nil {
		return nil, false, err
	}
	return &bufConn{Conn: c, br: br}, b[0] == 0x16, nil
}

type bufConn struct {
	net.Conn
	br *bufio.Reader
}

func (b *bufConn) Read(p []byte) (int, error) { return b.br.Read(p) }

func (w *world) tlsServer(c net.Conn, certName string, record *string) (net.Conn, error) {
	cfg := &tls.Config{GetConfigForClient: func(h *tls.ClientHelloInfo) (*tls.Config, error) {
		*record = h.ServerName
		return nil, nil
	}, Certificates: []tls.Certificate{getPKI().certs[certName]}}
	tc := tls.Server(c, cfg)
	if err := tc.Handshake(); err != nil {
		return nil, err
	}
	return tc, nil
}

func (w *world) serve(c net.Conn, rec *hopRecord, addr string) {
	isProxy := w.proxyHost != "" && addr == w.proxyHost
	conn, isTLS, err := sniffTLS(c)
	if err != nil {
		return
	}
	rec.sawTLS = isTLS
	if isTLS {
		name := "backend.test"
		if isProxy {
			name = "proxy.test"
		} else {
			switch w.certMode {
			case 1:
				name = "other.test"
			case 2:
				name = "untrusted"
			}
		}
		conn, err = w.tlsServer(conn, name, &rec.sni)
		if err != nil {
			return
		}
	}
	if isProxy {
		switch w.proxyKind {
		case "socks5":
			conn, err = w.socks5(conn)
		default:
			conn, err = w.httpConnect(conn)
		}
		if err != nil || conn == nil {
			return
		}
	}
	w.backend(conn, isProxy)
}

func (w *world) httpConnect(c net.Conn) (net.Conn, error) {
	br := bufio.NewReader(c)
	r, err := http.ReadRequest(br)
	if err != nil {
		return nil, err
	}
	w.mu.Lock()
	if r.Method == "CONNECT" {
		w.connects = append(w.connects, r.Host)
		w.auths = append(w.auths, r.Header.Get("Proxy-Authorization"))
	} else {
		w.connects = append(w.connects, "NOT-CONNECT "+r.Method)
		w.auths = append(w.auths, "")
	}
	w.mu.Unlock()
	reply := w.proxyReply
	if reply == "" {
		reply = "HTTP/1.1 200 Connection established"
	}
	fmt.Fprintf(c, "%s\r\n\r\n", reply)
	if !strings.HasPrefix(reply, "HTTP/1.1 200") {
		// a client that takes the refusal for a tunnel goes on talking: count what still arrives
		// (a correct client closes at once)
		got := make(chan int, 1)
		go func() {
			n, _ := io.Copy(io.Discard, br)
			got <- int(n)
		}()
		select {
		case n := <-got:
			w.mu.Lock()
			w.afterRefusal += n
			w.mu.Unlock()
		case <-time.After(300 * time.Millisecond):
			c.Close()
			n := <-got
			w.mu.Lock()
			w.afterRefusal += n
			w.mu.Unlock()
		}
		return nil, nil
	}
	return &bufConn{Conn: c, br: br}, nil
}

func (w *world) socks5(c net.Conn) (net.Conn, error) {
	buf := make([]byte, 300)
	if _, err := io.ReadFull(c, buf[:2]); err != nil {
		return nil, err
	}
	n := int(buf[1])
	if _, err := io.ReadFull(c, buf[:n]); err != nil {
		return nil, err
	}
	c.Write([]byte{5, 0})
	if _, err := io.ReadFull(c, buf[:4]); err != nil {
		return nil, err
	}
	var host string
	switch buf[3] {
	case 1:
		io.ReadFull(c, buf[:4])
		host = net.IP(buf[:4]).String()
	case 3:
		io.ReadFull(c, buf[:1])
		l := int(buf[0])
		io.ReadFull(c, buf[:l])
		host = string(buf[:l])
	case 4:
		io.ReadFull(c, buf[:16])
		host = "[" + net.IP(buf[:16]).String() + "]"
	}
	io.ReadFull(c, buf[:2])
	port := int(buf[0])<<8 | int(buf[1])
	w.mu.Lock()
	w.socksTgt = append(w.socksTgt, fmt.Sprintf("%s:%d", host, port))
	w.mu.Unlock()
	c.Write([]byte{5, 0, 0, 1, 0, 0, 0, 0, 0, 0})
	return c, nil
}

func (w *world) backend(c net.Conn, tunnelled bool) {
	conn := c
	sni := "-"
	if tunnelled {
		// a second TLS layer may come through the tunnel
		cc, isTLS, err := sniffTLS(c)
		if err != nil {
			return
		}
		conn = cc
		if isTLS {
			name := "backend.test"
			switch w.certMode {
			case 1:
				name = "other.test"
			case 2:
				name = "untrusted"
			}
			var got string
			tc, err := w.tlsServer(cc, name, &got)
			w.mu.Lock()
			w.backendTLS = append(w.backendTLS, "tls:"+got)
			w.mu.Unlock()
			if err != nil {
				return
			}
			conn, sni = tc, "tls:"+got
		} else {
			w.mu.Lock()
			w.backendTLS = append(w.backendTLS, sni)
			w.mu.Unlock()
		}
	}
	br := bufio.NewReader(conn)
	r, err := http.ReadRequest(br)
	if err != nil {
		return
	}
	if w.backendReply != nil {
		conn.Write(w.backendReply(r.Header.Get("Sec-Websocket-Key")))
		// keep the connection open until the client goes away
		io.Copy(io.Discard, br)
		return
	}
	rw := NewFakeRW(&bufConn{Conn: conn, br: br})
	u := websocket.Upgrader{CheckOrigin: func(*http.Request) bool { return true }}
	sc, err := u.Upgrade(rw, r, nil)
	if err != nil {
		return
	}
	w.mu.Lock()
	w.serverConn = sc
	w.mu.Unlock()
	io.Copy(io.Discard, br)
}

func basicAuth(u, p string) string {
	return "Basic " + base64.StdEncoding.EncodeToString([]byte(u+":"+p))
}

func mustURL(s string) *url.URL {
	u, err := url.Parse(s)
	if err != nil {
		panic(err)
	}
	return u
}
