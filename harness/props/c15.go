package props

import (
	"bufio"
	"bytes"
	"encoding/json"
	"io"
	"math/rand"
	"net"
	"net/http"
	"sync"
	"time"

	"verif/harness/core"

	"github.com/gorilla/websocket"
)

// ---------------------------------------------------------------- in-memory duplex pipe with unbounded buffers

type memBuf struct {
	mu     sync.Mutex
	cond   *sync.Cond
	data   []byte
	total  []byte
	closed bool
}

func newMemBuf() *memBuf { b := &memBuf{}; b.cond = sync.NewCond(&b.mu); return b }

type memEnd struct {
	rd, wr *memBuf
}

func memPipe() (*memEnd, *memEnd) {
	a, b := newMemBuf(), newMemBuf()
	return &memEnd{rd: a, wr: b}, &memEnd{rd: b, wr: a}
}
func (e *memEnd) Read(p []byte) (int, error) {
	e.rd.mu.Lock()
	defer e.rd.mu.Unlock()
	for len(e.rd.data) == 0 && !e.rd.closed {
		e.rd.cond.Wait()
	}
	if len(e.rd.data) == 0 {
		return 0, io.EOF
	}
	n := copy(p, e.rd.data)
	e.rd.data = e.rd.data[n:]
	return n, nil
}
func (e *memEnd) Write(p []byte) (int, error) {
	e.wr.mu.Lock()
	defer e.wr.mu.Unlock()
	if e.wr.closed {
		return 0, io.ErrClosedPipe
	}
	e.wr.data = append(e.wr.data, p...)
	e.wr.total = append(e.wr.total, p...)
	e.wr.cond.Broadcast()
	return len(p), nil
}
func (e *memEnd) Close() error {
	for _, b := range []*memBuf{e.rd, e.wr} {
		b.mu.Lock()
		b.closed = true
		b.cond.Broadcast()
		b.mu.Unlock()
	}
	return nil
}
func (e *memEnd) LocalAddr() net.Addr                { return &net.TCPAddr{IP: net.IPv4(127, 0, 0, 1), Port: 1} }
func (e *memEnd) RemoteAddr() net.Addr               { return &net.TCPAddr{IP: net.IPv4(127, 0, 0, 1), Port: 2} }
func (e *memEnd) SetDeadline(t time.Time) error      { return nil }
func (e *memEnd) SetReadDeadline(t time.Time) error  { return nil }
func (e *memEnd) SetWriteDeadline(t time.Time) error { return nil }

// ---------------------------------------------------------------- C15

type PairSpec struct {
	Prop     int    `json:"prop"`
	DEC      bool   `json:"dialer_enable_compression"`
	UEC      bool   `json:"upgrader_enable_compression"`
	Rewrite  bool   `json:"rewrite_offer"`
	Offers   []B    `json:"offers_at_server,omitempty"` // used when Rewrite
	Toggles  []int  `json:"toggles,omitempty"`          // per message: 0 none, 1 disable write compression, 2 enable, 3.. level-1
	Payloads []B    `json:"payloads"`
}

func anyRSV1(stream []byte) bool {
	buf := stream
	for len(buf) >= 2 {
		if buf[0]&0x40 != 0 {
			return true
		}
		l7 := int(buf[1] & 127)
		masked := buf[1]&128 != 0
		off, n := 2, l7
		switch l7 {
		case 126:
			if len(buf) < 4 {
				return false
			}
			n, off = int(buf[2])<<8|int(buf[3]), 4
		case 127:
			if len(buf) < 10 {
				return false
			}
			n = 0
			for i := 2; i < 10; i++ {
				n = n<<8 | int(buf[i])
			}
			off = 10
		}
		if masked {
			off += 4
		}
		if off+n > len(buf) || n < 0 {
			return false
		}
		buf = buf[off+n:]
	}
	return false
}

func pairExec(s core.Spec) core.Exec {
	sp := s.(*PairSpec)
	ce, se := memPipe()
	var sconn *websocket.Conn
	var serr error
	var offersSeen []string
	done := make(chan struct{})
	go func() {
		defer close(done)
		br := bufio.NewReader(se)
		r, err := http.ReadRequest(br)
		if err != nil {
			serr = err
			se.Close()
			return
		}
		if sp.Rewrite {
			delete(r.Header, "Sec-Websocket-Extensions")
			if len(sp.Offers) > 0 {
				r.Header["Sec-Websocket-Extensions"] = strs(sp.Offers)
			}
		}
		offersSeen = r.Header["Sec-Websocket-Extensions"]
		w := NewFakeRW(se)
		u := websocket.Upgrader{EnableCompression: sp.UEC, CheckOrigin: func(*http.Request) bool { return true }}
		sconn, serr = u.Upgrade(w, r, nil)
		if serr != nil {
			se.Close()
		}
	}()
	d := websocket.Dialer{EnableCompression: sp.DEC, NetDial: func(network, addr string) (net.Conn, error) { return ce, nil }}
	cconn, _, cerr := d.Dial("ws://example.com/", nil)
	<-done
	c2sStart := len(ce.wr.total)
	s2cStart := len(se.wr.total)

	t := core.NewTape(sp.Prop)
	t.Bool(sp.DEC).Bool(sp.UEC).StrList(offersSeen)

	connected := cerr == nil && cconn != nil && serr == nil && sconn != nil
	cc, sc := false, false
	flow := true
	rsv := false
	if connected {
		cw, cr := cconn.VerifCompressionNegotiated()
		sw, sr := sconn.VerifCompressionNegotiated()
		cc, sc = cw && cr, sw && sr
		if cw != cr || sw != sr {
			flow = false
		}
		exchange := func(from, to *websocket.Conn) {
			for i, p := range sp.Payloads {
				tg := 0
				if i < len(sp.Toggles) {
					tg = sp.Toggles[i]
				}
				switch {
				case tg == 1:
					from.EnableWriteCompression(false)
				case tg == 2:
					from.EnableWriteCompression(true)
				case tg >= 3:
					from.SetCompressionLevel(tg - 5)
				}
				ty := 1 + i%2
				if err := from.WriteMessage(ty, p); err != nil {
					flow = false
					return
				}
				got := make(chan bool, 1)
				go func() {
					rt, rp, err := to.ReadMessage()
					got <- err == nil && rt == ty && bytes.Equal(rp, p)
				}()
				select {
				case ok := <-got:
					if !ok {
						flow = false
						return
					}
				case <-time.After(5 * time.Second):
					flow = false
					return
				}
			}
		}
		exchange(cconn, sconn)
		exchange(sconn, cconn)
		if !cc && anyRSV1(ce.wr.total[c2sStart:]) {
			rsv = true
		}
		if !sc && anyRSV1(se.wr.total[s2cStart:]) {
			rsv = true
		}
	}
	ce.Close()
	se.Close()
	t.Bool(cerr == nil && cconn != nil).Bool(cc).Bool(sc).Bool(flow).Bool(rsv)
	return core.Exec{Tape: t.String(), Tags: []string{core.Tag("D.EC=%v U.EC=%v", sp.DEC, sp.UEC), core.Tag("rewrite=%v", sp.Rewrite), core.Tag("client=%v server=%v", cc, sc)}, Nontrivial: true}
}

func c15Gen(rng *rand.Rand, tier string) []core.Spec {
	n := 400
	if tier == "thorough" {
		n = 8000
	}
	offers := []string{"permessage-deflate", "permessage-deflate; client_max_window_bits", "permessage-deflate; server_no_context_takeover; client_no_context_takeover",
		"foo, permessage-deflate", "bar; x=\"1,2\", permessage-deflate; client_max_window_bits=10", "x-webkit-deflate-frame", "permessage-deflate-x", "PERMESSAGE-DEFLATE",
		"foo; a=\"unterminated, permessage-deflate", "permessage-deflate junk", "", "a, b, c"}
	var out []core.Spec
	for i := 0; i < n; i++ {
		sp := &PairSpec{Prop: 15, DEC: i&1 != 0, UEC: i&2 != 0}
		if rng.Intn(2) == 0 {
			sp.Rewrite = true
			for k := rng.Intn(3); k > 0; k-- {
				sp.Offers = append(sp.Offers, B(core.Pick(rng, offers)))
			}
		}
		for k := 0; k < 3; k++ {
			sp.Payloads = append(sp.Payloads, B(genWPayload(rng, core.Pick(rng, []int{0, 1, 125, 126, 300, 5000}))))
			sp.Toggles = append(sp.Toggles, core.Pick(rng, []int{0, 0, 1, 2, 3, 4, 6, 10, 14}))
		}
		out = append(out, sp)
	}
	return out
}

func init() {
	core.Register(&core.Prop{
		ID:   "C15",
		Rule: "real Dialer against real Upgrader over an in-memory pipe for all four (Dialer.EnableCompression, Upgrader.EnableCompression) pairs; half of the cases with the client's Sec-WebSocket-Extensions header replaced on the way by 0-2 lines from a catalogue (absent, parameters, other extensions first, quoted strings, junk); then three messages each way with EnableWriteCompression / SetCompressionLevel toggles; observes which ends installed the (de)compressor and RSV1 bits on the wire (reply variants seen by a client are exercised by C14's cases)",
		Gen:  c15Gen,
		Exec: pairExec,
		Decode: func(raw json.RawMessage) (core.Spec, error) {
			var s PairSpec
			err := json.Unmarshal(raw, &s)
			return &s, err
		},
		Clauses: map[int]string{
			130: "one endpoint installed compression and the other did not",
			131: "messages did not arrive intact after the handshake",
			132: "a frame with RSV1 was written although compression was not negotiated",
			199: "malformed observation",
		},
	})
}
