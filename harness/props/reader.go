package props

import (
	"time"
	"bufio"
	"bytes"
	"compress/flate"
	"encoding/binary"
	"encoding/json"
	"fmt"
	"io"
	"math/rand"
	"net"
	"net/http"
	"net/url"
	"strconv"
	"strings"

	"verif/harness/core"

	"github.com/gorilla/websocket"
)

// B is a byte string that marshals to a readable Go-quoted JSON string.
type B []byte

func (b B) MarshalJSON() ([]byte, error) {
	q := strconv.QuoteToASCII(string(b))
	return json.Marshal(q[1 : len(q)-1])
}
func (b *B) UnmarshalJSON(data []byte) error {
	var s string
	if err := json.Unmarshal(data, &s); err != nil {
		return err
	}
	u, err := strconv.Unquote(`"` + s + `"`)
	if err != nil {
		return err
	}
	*b = B(u)
	return nil
}

// ---------------------------------------------------------------- independent frame encoder

type Frame struct {
	Fin     bool   `json:"fin"`
	Rsv     int    `json:"rsv"` // RSV1=4 RSV2=2 RSV3=1
	Op      int    `json:"op"`
	Masked  bool   `json:"masked"`
	Key     [4]byte `json:"key"`
	Payload B      `json:"payload"`
	LenForm int    `json:"lenform,omitempty"` // 0 minimal, 1 force 16-bit, 2 force 64-bit
	Decl    *uint64 `json:"decl,omitempty"`   // declared length override (header only frames)
}

func (f Frame) Encode() []byte {
	var b []byte
	b0 := byte(f.Op) | byte(f.Rsv<<4)
	if f.Fin {
		b0 |= 0x80
	}
	n := uint64(len(f.Payload))
	if f.Decl != nil {
		n = *f.Decl
	}
	m := byte(0)
	if f.Masked {
		m = 0x80
	}
	b = append(b, b0)
	switch {
	case f.LenForm == 2 || n > 65535:
		b = append(b, m|127)
		var x [8]byte
		binary.BigEndian.PutUint64(x[:], n)
		b = append(b, x[:]...)
	case f.LenForm == 1 || n > 125:
		b = append(b, m|126)
		b = append(b, byte(n>>8), byte(n))
	default:
		b = append(b, m|byte(n))
	}
	if f.Masked {
		b = append(b, f.Key[:]...)
		for i, c := range f.Payload {
			b = append(b, c^f.Key[i&3])
		}
	} else {
		b = append(b, f.Payload...)
	}
	return b
}

func deflateRaw(data []byte, level int) []byte {
	var buf bytes.Buffer
	w, _ := flate.NewWriter(&buf, level)
	w.Write(data)
	w.Flush()
	out := buf.Bytes()
	return out[:len(out)-4]
}

// deflateVariant produces the payload of a compressed message the way other conformant senders
// may (RFC 7692 7.2.1 / 7.2.3): mode 0 one sync flush; mode 1 several writes, each followed by a
// sync flush (several blocks, empty stored blocks inside the message); mode 2 a stream that ends
// with a BFINAL=1 block, after which an empty stored block is appended and its last four octets
// removed (one 0x00 octet remains after the final block).
func deflateVariant(rng *rand.Rand, data []byte, level int) []byte {
	var buf bytes.Buffer
	w, _ := flate.NewWriter(&buf, level)
	switch rng.Intn(4) {
	case 1:
		rest := data
		for len(rest) > 0 {
			n := 1 + rng.Intn(len(rest))
			w.Write(rest[:n])
			w.Flush()
			rest = rest[n:]
		}
		w.Flush()
		out := buf.Bytes()
		return out[:len(out)-4]
	case 2:
		w.Write(data)
		w.Close()
		return append(append([]byte{}, buf.Bytes()...), 0x00)
	}
	w.Write(data)
	w.Flush()
	out := buf.Bytes()
	return out[:len(out)-4]
}

// ---------------------------------------------------------------- reader case spec

type ROp struct {
	K int    `json:"k"` // 0 Next 1 Read 2 ReadStale 3 ReadMessage 4 SetLimit
	M int    `json:"m,omitempty"`
	L uint64 `json:"l,omitempty"`
}

type ReaderSpec struct {
	Prop       int   `json:"prop"`
	Server     bool  `json:"server"`
	Negotiated bool  `json:"negotiated"`
	Custom     bool  `json:"custom_handlers"`
	HFail      []int `json:"handler_fail,omitempty"`
	RBuf       int   `json:"rbuf"`
	BrSize     int   `json:"brsize,omitempty"`
	Buffered   B     `json:"buffered,omitempty"`
	Chunks     []B   `json:"chunks"`
	Fault      int   `json:"fault"`
	Glued      bool  `json:"glued"`
	Ops        []ROp `json:"ops"`
	Cmp        bool  `json:"cmp"`
	Drains     bool  `json:"drains"`
	Note       string `json:"note,omitempty"`
	ViaUpgrade bool  `json:"via_upgrade,omitempty"` // Conn made by Upgrader.Upgrade from a hijacked reader (BrSize, Buffered)
	DetachedBr bool  `json:"detached_br,omitempty"` // the hijacked bufio.Reader's source is not the connection: it ends after the buffered bytes
	ViaDial    bool  `json:"via_dial,omitempty"`    // Conn made by Dialer.Dial; the server sends 101 + Chunks' bytes, cut at DialSplit
	DialSplit  int   `json:"dial_split,omitempty"`
	// Resume: the fault (a timeout or arbitrary error, reported alone) is transient; the transport then
	// delivers these chunks.  Not part of the case line: the model latches the first error and never
	// touches the transport again (C05_errors_are_permanent), so its prediction is the one for Chunks+Fault.
	Resume []B `json:"resume,omitempty"`
	// StaleWDL: the application set a write deadline that has long passed before it starts reading
	// (the replies the reader writes - pongs, close echoes, 1002/1009 closes - use their own deadline)
	StaleWDL bool `json:"stale_write_deadline,omitempty"`
	// HTimeout: failing handlers return an error that is a net.Error with Timeout() == true
	HTimeout bool `json:"handler_timeout_errors,omitempty"`
	// NilHandlers: the application restored the default handlers with SetPingHandler(nil),
	// SetPongHandler(nil), SetCloseHandler(nil) (documented; same behaviour as never setting them)
	NilHandlers bool `json:"nil_handlers,omitempty"`
	// PreClose: the application has already sent its own close frame (WriteControl) before it reads
	// on: the replies the reader would write (pongs, close echoes) are refused with ErrCloseSent, which
	// is not a read error - the peer's messages still arrive.  Spec only (Cmp off): the model's
	// write side starts open.
	PreClose bool `json:"pre_close,omitempty"`
	// OfferDeclined (with ViaDial, Negotiated false): the Dialer has EnableCompression set but the 101
	// does not announce permessage-deflate: the connection is an uncompressed one in every respect
	OfferDeclined bool `json:"offer_declined,omitempty"`
}

type hErr struct{ id int }

func (e hErr) Error() string { return "verif: handler error " + strconv.Itoa(e.id) }

// the same, but a net.Error that calls itself a timeout (what a handler returns when its own
// WriteControl timed out)
type hErrT struct{ hErr }

func (e hErrT) Timeout() bool   { return true }
func (e hErrT) Temporary() bool { return true }

var readAllCaps []int

func init() {
	b := make([]byte, 0, 512)
	for cap(b) < 8<<20 {
		b = append(b[:cap(b)], 0)
		readAllCaps = append(readAllCaps, cap(b))
	}
}

func tapeErr(t *core.Tape, err error) {
	switch e := err.(type) {
	case nil:
		t.N(0)
		return
	case *websocket.CloseError:
		t.N(2).N(e.Code).Str(e.Text)
		return
	case hErr:
		t.N(8).N(e.id)
		return
	case hErrT:
		t.N(8).N(e.id)
		return
	case flate.CorruptInputError, flate.InternalError:
		t.N(10)
		return
	}
	switch {
	case err == io.EOF:
		t.N(1)
	case err == errOther:
		t.N(4)
	case err == bufio.ErrBufferFull:
		t.N(5)
	case err == websocket.ErrReadLimit:
		t.N(7)
	case err == io.ErrUnexpectedEOF:
		t.N(10)
	default:
		if ne, ok := err.(net.Error); ok && ne.Timeout() {
			t.N(3)
		} else if strings.Contains(err.Error(), "internal error") {
			t.N(9)
		} else {
			t.N(6)
		}
	}
}

func isFlateErr(err error) bool {
	switch err.(type) {
	case flate.CorruptInputError, flate.InternalError:
		return true
	}
	return err == io.ErrUnexpectedEOF
}

type hrec struct {
	kind, op, code int
	payload        []byte
	kept           string // the handler's argument itself, looked at only when the run is over
	useKept        bool
}

// withNilHandlers makes every fourth default-handler case of a generator restore the defaults explicitly
func withNilHandlers(gen func(*rand.Rand, string) []core.Spec) func(*rand.Rand, string) []core.Spec {
	return func(rng *rand.Rand, tier string) []core.Spec {
		out := gen(rng, tier)
		k := 0
		for _, s := range out {
			if sp, ok := s.(*ReaderSpec); ok && !sp.Custom {
				if k%4 == 3 {
					sp.NilHandlers = true
				}
				k++
			}
		}
		return out
	}
}

func readerExec(s core.Spec) core.Exec {
	sp := s.(*ReaderSpec)
	chunks := make([][]byte, len(sp.Chunks))
	total := len(sp.Buffered)
	for i, c := range sp.Chunks {
		chunks[i] = c
		total += len(c)
	}
	sc := NewScriptConn(chunks, sp.Fault, sp.Glued)
	if len(sp.Resume) > 0 && sp.Fault != 0 && !sp.Glued {
		for _, c := range sp.Resume {
			if len(c) > 0 {
				sc.Resume = append(sc.Resume, c)
			}
		}
	}
	var br *bufio.Reader
	var c *websocket.Conn
	skipWritten := 0
	var rconn *reactConn
	if sp.ViaDial {
		var stream []byte
		for _, ch := range chunks {
			stream = append(stream, ch...)
		}
		d := websocket.Dialer{ReadBufferSize: sp.RBuf, EnableCompression: sp.Negotiated || sp.OfferDeclined}
		d.NetDial = func(network, addr string) (net.Conn, error) {
			rconn = &reactConn{failAt: -1, fault: sp.Fault}
			rconn.respond = func(req []byte) [][]byte {
				key := ""
				if pr, ok := parseRequest(req); ok {
					if v := pr.Hdr["Sec-Websocket-Key"]; len(v) > 0 {
						key = v[0]
					}
				}
				resp := "HTTP/1.1 101 Switching Protocols\r\nUpgrade: websocket\r\nConnection: Upgrade\r\nSec-WebSocket-Accept: " + acceptFor(key) + "\r\n"
				if sp.Negotiated {
					resp += "Sec-WebSocket-Extensions: permessage-deflate; server_no_context_takeover; client_no_context_takeover\r\n"
				}
				resp += "\r\n"
				all := append([]byte(resp), stream...)
				k := sp.DialSplit
				if k > len(all) {
					k = len(all)
				}
				return [][]byte{all[:k], all[k:]}
			}
			return rconn, nil
		}
		var err error
		c, _, err = d.Dial("ws://example.com/", nil)
		if err != nil {
			return core.Exec{Tape: strconv.Itoa(sp.Prop) + " 999", Tags: []string{"dial-failed"}}
		}
		skipWritten = rconn.written.Len()
	} else if sp.ViaUpgrade {
		r := &http.Request{Method: "GET", Host: "example.com", Header: http.Header{}, URL: &url.URL{Path: "/"}, Proto: "HTTP/1.1", ProtoMajor: 1, ProtoMinor: 1}
		r.Header["Connection"] = []string{"Upgrade"}
		r.Header["Upgrade"] = []string{"websocket"}
		r.Header["Sec-Websocket-Version"] = []string{"13"}
		r.Header["Sec-Websocket-Key"] = []string{"dGhlIHNhbXBsZSBub25jZQ=="}
		if sp.Negotiated {
			r.Header["Sec-Websocket-Extensions"] = []string{"permessage-deflate"}
		}
		w := NewFakeRW(sc)
		w.BrSize = sp.BrSize
		w.Buffered = sp.Buffered
		w.Detached = sp.DetachedBr
		u := websocket.Upgrader{ReadBufferSize: sp.RBuf, EnableCompression: sp.Negotiated, CheckOrigin: func(*http.Request) bool { return true }}
		var err error
		c, err = u.Upgrade(w, r, nil)
		if err != nil {
			return core.Exec{Tape: strconv.Itoa(sp.Prop) + " 999", Tags: []string{"upgrade-failed"}}
		}
		skipWritten = len(sc.Written())
	} else {
		if sp.BrSize > 0 {
			if len(sp.Buffered) > 0 {
				br = bufio.NewReaderSize(io.MultiReader(bytes.NewReader(sp.Buffered), sc), sp.BrSize)
				br.Peek(len(sp.Buffered))
			} else {
				br = bufio.NewReaderSize(sc, sp.BrSize)
			}
		}
		c = websocket.VerifNewConn(sc, sp.Server, sp.RBuf, 0, nil, br, sp.Negotiated)
	}
	var hlog []hrec
	opidx := 0
	hcount := 0
	fails := map[int]bool{}
	for _, i := range sp.HFail {
		fails[i] = true
	}
	hres := func() error {
		i := hcount
		hcount++
		if fails[i] {
			if sp.HTimeout {
				return hErrT{hErr{i}}
			}
			return hErr{i}
		}
		return nil
	}
	if sp.StaleWDL {
		c.SetWriteDeadline(time.Unix(1000, 0))
	}
	if sp.PreClose && !sp.ViaDial && !sp.ViaUpgrade {
		c.WriteControl(websocket.CloseMessage, websocket.FormatCloseMessage(1000, ""), time.Now().Add(time.Second))
		skipWritten = len(sc.Written())
	}
	if sp.NilHandlers && !sp.Custom {
		c.SetPingHandler(nil)
		c.SetPongHandler(nil)
		c.SetCloseHandler(nil)
	}
	if sp.Custom {
		// the application keeps the strings it was given (strings are immutable: what it reads later
		// must be what the frame carried)
		c.SetPingHandler(func(p string) error { hlog = append(hlog, hrec{kind: 0, op: opidx, kept: p, useKept: true}); return hres() })
		c.SetPongHandler(func(p string) error { hlog = append(hlog, hrec{kind: 1, op: opidx, kept: p, useKept: true}); return hres() })
		c.SetCloseHandler(func(code int, text string) error {
			hlog = append(hlog, hrec{kind: 2, op: opidx, code: code, payload: []byte(text)})
			return hres()
		})
	}

	in := core.NewTape(sp.Prop)
	in.Bool(sp.Server).Bool(sp.Negotiated).Bool(sp.Custom)
	in.N(len(sp.HFail))
	for _, i := range sp.HFail {
		in.N(i)
	}
	in.N(len(readAllCaps))
	for _, x := range readAllCaps {
		in.N(x)
	}
	in.N(sp.RBuf).N(sp.BrSize).Bytes(sp.Buffered)
	if sp.ViaDial {
		// results of ReadMessage do not depend on chunking (Props/C03): the model gets the stream whole
		var stream []byte
		for _, ch := range chunks {
			stream = append(stream, ch...)
		}
		if len(stream) > 0 {
			in.N(1).Bytes(stream)
		} else {
			in.N(0)
		}
	} else {
		in.N(len(chunks))
		for _, ch := range chunks {
			in.Bytes(ch)
		}
	}
	in.N(sp.Fault).Bool(sp.Glued)

	// run the operations
	obs := core.NewTape(0) // dummy kind, stripped below
	var cur, prev io.Reader
	isPlain := func(r io.Reader) bool { return r != nil && strings.HasSuffix(fmt.Sprintf("%T", r), "messageReader") }
	cmp := sp.Cmp
	nres := 0
	var executed []ROp
	panicked := false
	tags := []string{}
	if sp.NilHandlers && !sp.Custom {
		tags = append(tags, "handlers:reset-to-nil")
	}
	if sp.PreClose {
		tags = append(tags, "write-side:close-already-sent")
	}
	func() {
		defer func() {
			if r := recover(); r != nil {
				panicked = true
			}
		}()
		for _, op := range sp.Ops {
			switch op.K {
			case 0:
				executed = append(executed, op)
				ty, r, err := c.NextReader()
				obs.N(0)
				if err != nil {
					obs.N(0)
				} else {
					obs.N(ty)
					prev, cur = cur, r
				}
				tapeErr(obs, err)
				nres++
			case 1:
				if cur == nil {
					continue
				}
				if !isPlain(cur) {
					cmp = false
				}
				executed = append(executed, op)
				p := make([]byte, op.M)
				n, err := cur.Read(p)
				obs.N(1).Bytes(p[:n])
				tapeErr(obs, err)
				nres++
			case 2:
				if prev == nil || !isPlain(prev) || prev == cur {
					continue
				}
				executed = append(executed, op)
				p := make([]byte, op.M)
				n, err := prev.Read(p)
				obs.N(1).Bytes(p[:n])
				tapeErr(obs, err)
				nres++
			case 3:
				executed = append(executed, op)
				ty, p, err := c.ReadMessage()
				obs.N(2)
				if err != nil {
					obs.N(0)
				} else {
					obs.N(ty)
				}
				if isFlateErr(err) {
					p = nil
				}
				obs.Bytes(p)
				tapeErr(obs, err)
				nres++
				prev, cur = cur, nil
			case 4:
				executed = append(executed, op)
				c.SetReadLimit(int64(op.L))
				obs.N(3)
				nres++
			}
			opidx++
		}
	}()
	if panicked {
		obs.N(4)
		nres++
		// the op that panicked is part of the program
		if len(executed) < len(sp.Ops) {
			executed = append(executed, ROp{K: 0})
		}
		tags = append(tags, "panic")
	}
	in.N(len(executed))
	for _, op := range executed {
		switch op.K {
		case 0:
			in.N(0)
		case 1:
			in.N(1).N(op.M)
		case 2:
			in.N(2).N(op.M)
		case 3:
			in.N(3)
		case 4:
			in.N(4).U64(op.L)
		}
	}
	sure := total
	if sp.Glued && len(chunks) > 0 {
		sure -= len(chunks[len(chunks)-1])
	}
	in.Bool(cmp).Bool(sp.Drains).N(sure).Bool(sp.ViaUpgrade)
	// observation
	o := core.NewTape(nres)
	res := strings.SplitN(obs.String(), " ", 2)
	full := in.String() + " " + o.String()
	if len(res) > 1 {
		full += " " + res[1]
	}
	h := core.NewTape(len(hlog))
	for _, e := range hlog {
		h.N(e.kind).N(e.op)
		if e.kind == 2 {
			h.N(e.code)
		}
		if e.useKept {
			h.Bytes([]byte(e.kept))
		} else {
			h.Bytes(e.payload)
		}
	}
	full += " " + h.String()
	w := core.NewTape(0)
	if rconn != nil {
		w.Bytes(rconn.written.Bytes()[skipWritten:])
	} else {
		w.Bytes(sc.Written()[skipWritten:])
	}
	full += " " + strings.SplitN(w.String(), " ", 2)[1]
	full += " " + strconv.Itoa(sc.MaxRead)
	tags = append(tags, core.Tag("fault:%d glued:%v", sp.Fault, sp.Glued), core.Tag("rbuf:%d", sp.RBuf), core.Tag("chunks:%s", countClass(len(chunks))),
		core.Tag("role:server=%v", sp.Server), core.Tag("negotiated:%v", sp.Negotiated), core.Tag("stream:%s", core.SizeClass(total)))
	if sp.Note != "" {
		tags = append(tags, "note:"+sp.Note)
	}
	return core.Exec{Tape: full, Tags: tags, Nontrivial: total > 0 && len(executed) > 0}
}

func countClass(n int) string {
	switch {
	case n <= 1:
		return strconv.Itoa(n)
	case n <= 4:
		return "2-4"
	case n <= 32:
		return "5-32"
	}
	return ">32"
}

func decodeReaderSpec(raw json.RawMessage) (core.Spec, error) {
	var s ReaderSpec
	err := json.Unmarshal(raw, &s)
	return &s, err
}

// ---------------------------------------------------------------- generators

var boundaryLens = []int{0, 1, 2, 7, 124, 125, 126, 127, 128, 255, 256, 257, 511, 512, 513, 1000, 4095, 4096, 4097, 8191, 8192, 8193, 65534, 65535, 65536, 65537}

func genLen(rng *rand.Rand, max int) int {
	for {
		var n int
		switch rng.Intn(4) {
		case 0:
			n = core.Pick(rng, boundaryLens)
		case 1:
			n = rng.Intn(130)
		case 2:
			n = rng.Intn(2000)
		default:
			n = rng.Intn(20)
		}
		if n <= max {
			return n
		}
	}
}

func genPayload(rng *rand.Rand, n int, key [4]byte) []byte {
	b := make([]byte, n)
	switch rng.Intn(6) {
	case 0: // zeros
	case 1:
		for i := range b {
			b[i] = 0xff
		}
	case 2: // equals the mask key stream: masked bytes become zero
		for i := range b {
			b[i] = key[i&3]
		}
	case 3:
		for i := range b {
			b[i] = byte('a' + i%26)
		}
	default:
		rng.Read(b)
	}
	return b
}

func genKey(rng *rand.Rand) [4]byte {
	switch rng.Intn(6) {
	case 0:
		return [4]byte{}
	case 1:
		return [4]byte{0xff, 0xff, 0xff, 0xff}
	case 2:
		return [4]byte{0, 0, 0, 1}
	}
	var k [4]byte
	rng.Read(k[:])
	return k
}

type genMsg struct {
	Ty         int
	Data       []byte // what the application should see
	Compressed bool
}

// conformant peer stream: messages fragmented arbitrarily, control frames in the gaps
func genConformantStream(rng *rand.Rand, peerMasked, negotiated bool, nmsgs, maxLen int, withClose bool, ctlProb int) ([]Frame, []genMsg) {
	var frames []Frame
	var msgs []genMsg
	ctl := func() {
		for rng.Intn(100) < ctlProb {
			op := 9 + rng.Intn(2)
			k := genKey(rng)
			n := core.Pick(rng, []int{0, 1, 5, 124, 125, rng.Intn(126)})
			frames = append(frames, Frame{Fin: true, Op: op, Masked: peerMasked, Key: k, Payload: genPayload(rng, n, k)})
		}
	}
	for i := 0; i < nmsgs; i++ {
		ctl()
		ty := 1 + rng.Intn(2)
		n := genLen(rng, maxLen)
		data := genPayload(rng, n, [4]byte{1, 2, 3, 4})
		wire := data
		comp := negotiated && rng.Intn(2) == 0
		if comp {
			wire = deflateVariant(rng, data, core.Pick(rng, []int{-2, -1, 0, 1, 5, 9}))
		}
		msgs = append(msgs, genMsg{Ty: ty, Data: data, Compressed: comp})
		// fragmentation
		nfrag := 1
		switch rng.Intn(4) {
		case 0:
			nfrag = 1 + rng.Intn(4)
		case 1:
			nfrag = 2
		}
		rest := wire
		for j := 0; j < nfrag; j++ {
			var part []byte
			if j == nfrag-1 {
				part = rest
				rest = nil
			} else {
				cut := 0
				if len(rest) > 0 && rng.Intn(5) != 0 {
					cut = rng.Intn(len(rest) + 1)
				}
				part, rest = rest[:cut], rest[cut:]
			}
			op := 0
			if j == 0 {
				op = ty
			}
			rsv := 0
			if comp && j == 0 {
				rsv = 4
			}
			k := genKey(rng)
			frames = append(frames, Frame{Fin: j == nfrag-1, Rsv: rsv, Op: op, Masked: peerMasked, Key: k, Payload: append([]byte(nil), part...)})
			if j < nfrag-1 {
				ctl()
			}
		}
	}
	ctl()
	if withClose {
		k := genKey(rng)
		var body []byte
		if rng.Intn(4) != 0 {
			code := core.Pick(rng, []int{1000, 1001, 1002, 1003, 1007, 1008, 1009, 1010, 1011, 3000, 4999, 3000 + rng.Intn(2000)})
			reason := core.Pick(rng, []string{"", "bye", "going away now", strings.Repeat("é", 61), strings.Repeat("x", 123), "日本語"})
			body = append([]byte{byte(code >> 8), byte(code)}, reason...)
		}
		frames = append(frames, Frame{Fin: true, Op: 8, Masked: peerMasked, Key: k, Payload: body})
	}
	return frames, msgs
}

func encodeAll(frames []Frame) ([]byte, []int) {
	var out []byte
	var bounds []int
	for _, f := range frames {
		out = append(out, f.Encode()...)
		bounds = append(bounds, len(out))
	}
	return out, bounds
}

func chunkStream(rng *rand.Rand, stream []byte, bounds []int) []B {
	var out []B
	switch rng.Intn(5) {
	case 0:
		if len(stream) > 0 {
			out = append(out, B(stream))
		}
	case 1:
		if len(stream) <= 3000 {
			for _, c := range stream {
				out = append(out, B{c})
			}
		} else {
			out = append(out, B(stream))
		}
	case 2: // at frame boundaries
		last := 0
		for _, b := range bounds {
			if b > last && b <= len(stream) {
				out = append(out, B(stream[last:b]))
				last = b
			}
		}
		if last < len(stream) {
			out = append(out, B(stream[last:]))
		}
	default:
		rest := stream
		for len(rest) > 0 {
			n := 1 + rng.Intn(core.Pick(rng, []int{3, 16, 200, 5000}))
			if n > len(rest) {
				n = len(rest)
			}
			out = append(out, B(rest[:n]))
			rest = rest[n:]
		}
	}
	return out
}

var rbufChoices = []int{0, 1, 16, 124, 125, 126, 200, 256, 257, 512, 4096}

func genReadProgram(rng *rand.Rand, nmsgs int) []ROp {
	var ops []ROp
	style := rng.Intn(4)
	for i := 0; i < nmsgs; i++ {
		s := style
		if style == 3 {
			s = rng.Intn(3)
		}
		switch s {
		case 0:
			ops = append(ops, ROp{K: 3})
		case 1:
			ops = append(ops, ROp{K: 0})
			m := core.Pick(rng, []int{1, 2, 7, 100, 125, 126, 512, 4096, 5000})
			for j := 0; j < 40; j++ {
				if rng.Intn(6) == 0 {
					m = core.Pick(rng, []int{1, 3, 64, 125, 126, 300, 4096, 70000})
				}
				ops = append(ops, ROp{K: 1, M: m})
				if rng.Intn(12) == 0 {
					ops = append(ops, ROp{K: 1, M: 0}) // a zero-length Read: legal, returns no bytes, disturbs nothing
				}
			}
			if rng.Intn(6) == 0 {
				ops = append(ops, ROp{K: 2, M: 10})
			}
		default: // abandon part-way
			ops = append(ops, ROp{K: 0})
			for j := rng.Intn(4); j > 0; j-- {
				ops = append(ops, ROp{K: 1, M: core.Pick(rng, []int{1, 5, 125, 1000, 0})})
			}
			if rng.Intn(5) == 0 {
				ops = append(ops, ROp{K: 2, M: 4})
			}
		}
	}
	return ops
}

func drainOps(n int) []ROp {
	var ops []ROp
	for i := 0; i < n; i++ {
		ops = append(ops, ROp{K: 3})
	}
	return ops
}
