package props

import (
	"encoding/json"
	"math/rand"
	"strconv"
	"strings"

	"verif/harness/core"
)

// C01 Message round trip: writer Conn -> re-chunked bytes -> reader Conn of the opposite role.

type RoundSpec struct {
	W       WriterSpec `json:"writer"`
	RBuf    int        `json:"rbuf"`
	ChunkSeed int64    `json:"chunk_seed"`
	ReadStyle int      `json:"read_style"` // 0 ReadMessage only, 1 mixed program
	NMsgs   int        `json:"nmsgs"`
}

func roundExec(s core.Spec) core.Exec {
	sp := s.(*RoundSpec)
	w := sp.W
	w.Prop = 1
	we, wire := writerRun(&w)
	rng := rand.New(rand.NewSource(sp.ChunkSeed))
	rs := &ReaderSpec{Prop: 1, Server: !w.Server, Negotiated: w.Negotiated, RBuf: sp.RBuf, Chunks: chunkStream(rng, wire, nil), Fault: 0, Cmp: true, Drains: true}
	n := sp.NMsgs + 2
	if sp.ReadStyle == 0 {
		rs.Ops = drainOps(n)
	} else {
		rs.Ops = append(genReadProgram(rng, sp.NMsgs), drainOps(n)...)
	}
	re := readerExec(rs)
	wt := strings.SplitN(we.Tape, " ", 2)[1]
	rt := strings.SplitN(re.Tape, " ", 2)[1]
	nw := len(strings.Fields(wt))
	tape := "1 " + strconv.Itoa(nw) + " " + wt + " " + rt
	tags := append(we.Tags, re.Tags...)
	return core.Exec{Tape: tape, Tags: tags, Nontrivial: len(wire) > 0}
}

func c01Gen(rng *rand.Rand, tier string) []core.Spec {
	n := 600
	big := 12
	if tier == "thorough" {
		n = 30000
		big = 300
	}
	var out []core.Spec
	for i := 0; i < n; i++ {
		wbuf := core.Pick(rng, wbufChoices)
		negotiated := rng.Intn(3) == 0
		maxLen := 6000
		if i < big {
			maxLen = 70000
		}
		nm := 1 + rng.Intn(5)
		w := WriterSpec{Server: rng.Intn(2) == 0, WBuf: wbuf, Pooled: rng.Intn(2) == 0, Negotiated: negotiated, FailAt: -1}
		// valid programs only: everything sent must arrive
		w.Ops = genWriteProgram(rng, wbuf, negotiated, nm, maxLen, false, 0)
		w.Ops = append(w.Ops, WOp{K: 5}) // make sure no writer is left open: everything sent must arrive
		cnt := 0
		for _, op := range w.Ops {
			if op.K == 0 || op.K == 1 || op.K == 10 {
				cnt++
			}
		}
		out = append(out, &RoundSpec{W: w, RBuf: core.Pick(rng, rbufChoices), ChunkSeed: rng.Int63(), ReadStyle: rng.Intn(2), NMsgs: cnt})
	}
	// large buffers on both sides (the fast paths of the masking code for long slices): messages at
	// and beyond the buffer sizes
	for _, wbuf := range []int{8192, 16384} {
		for _, rbuf := range []int{4096, 8192, 16384} {
			for _, server := range []bool{false, true} {
				for _, n := range []int{wbuf - 1, wbuf, wbuf + 1, 2*wbuf + 17, 4120, 40000} {
					if tier != "thorough" && rng.Intn(3) != 0 {
						continue
					}
					data := genWPayload(rng, n)
					ops := []WOp{{K: 0, Ty: 2, Data: data}, {K: 1, Ty: 1}, {K: 2, Data: data[:n/3]}, {K: 2, Data: data[n/3:]}, {K: 5}}
					out = append(out, &RoundSpec{W: WriterSpec{Server: server, WBuf: wbuf, FailAt: -1, Note: "large-buffers", Ops: ops},
						RBuf: rbuf, ChunkSeed: rng.Int63(), ReadStyle: rng.Intn(2), NMsgs: 2})
				}
			}
		}
	}
	// a valid control message written through NextWriter by ReadFrom / io.Copy (the source reporting its
	// end with the last bytes or separately), on the smallest and on ordinary write buffers
	for _, server := range []bool{false, true} {
		for _, wbuf := range []int{1, 125, 126, 1024} {
			for _, n := range []int{0, 1, 100, 124, 125} {
				for _, glued := range []bool{false, true} {
					data := genWPayload(rng, n)
					var chunks []B
					if n > 0 {
						chunks = []B{B(data)}
					}
					out = append(out, &RoundSpec{W: WriterSpec{Server: server, WBuf: wbuf, FailAt: -1, Note: "control-message-by-ReadFrom",
						Ops: []WOp{{K: 1, Ty: 9 + n%2}, {K: 4, Chunks: chunks, Bv: glued}, {K: 5}, {K: 0, Ty: 1, Data: B("after")}}}, NMsgs: 2})
				}
			}
		}
	}
	// the documented finding: a valid control message larger than the write buffer
	for _, server := range []bool{false, true} {
		out = append(out, &RoundSpec{W: WriterSpec{Server: server, WBuf: 10, FailAt: -1, Note: "control-larger-than-buffer",
			Ops: []WOp{{K: 0, Ty: 9, Data: B(strings.Repeat("p", 100))}, {K: 1, Ty: 10}, {K: 2, Data: B(strings.Repeat("q", 100))}, {K: 5}, {K: 0, Ty: 1, Data: B("after")}}}, NMsgs: 3})
	}
	return out
}

func init() {
	clauses := map[int]string{140: "the data messages delivered by ReadMessage are not the data messages sent (type, bytes, order)",
		141: "a valid message (data of any size, or control of at most 125 bytes) was refused by a write API"}
	for k, v := range writerClauses {
		clauses[k] = v
	}
	for k, v := range readerClauses {
		clauses[k] = v
	}
	core.Register(&core.Prop{
		ID:   "C01",
		Rule: "valid write programs (as C02, without invalid requests and without closes) on a real Conn; the bytes it wrote are re-chunked {whole, 1 byte, random} into a real Conn of the opposite role with ReadBufferSize from {0,1,16,124..126,200,256,257,512,4096}; read program ReadMessage-only or mixed (NextReader + Read sizes, abandon, stale reads); both roles, pool on/off, compression negotiated or not with toggles and level changes",
		Gen:  c01Gen,
		Exec: roundExec,
		Decode: func(raw json.RawMessage) (core.Spec, error) {
			var s RoundSpec
			err := json.Unmarshal(raw, &s)
			return &s, err
		},
		Clauses: clauses,
	})
}
