package props

import (
	"encoding/json"
	"io"
	"math/rand"

	"verif/harness/core"

	"github.com/gorilla/websocket"
)

// C03, JoinMessages: the concatenation reader over a complete conformant stream

type JoinSpec struct {
	Server     bool `json:"server"`
	Negotiated bool `json:"negotiated"`
	RBuf       int  `json:"rbuf"`
	Chunks     []B  `json:"chunks"`
	Term       B    `json:"term"`
	ReadSize   int  `json:"read_size"` // 0: io.ReadAll; otherwise Read calls with a buffer of this size
}

func joinExec(s core.Spec) core.Exec {
	sp := s.(*JoinSpec)
	var chunks [][]byte
	var stream []byte
	for _, c := range sp.Chunks {
		chunks = append(chunks, c)
		stream = append(stream, c...)
	}
	sc := NewScriptConn(chunks, 0, false)
	c := websocket.VerifNewConn(sc, sp.Server, sp.RBuf, 0, nil, nil, sp.Negotiated)
	r := websocket.JoinMessages(c, string(sp.Term))
	var data []byte
	var err error
	if sp.ReadSize == 0 {
		data, err = io.ReadAll(r)
	} else {
		buf := make([]byte, sp.ReadSize)
		for i := 0; i < 1<<20; i++ {
			n, e := r.Read(buf)
			data = append(data, buf[:n]...)
			if e != nil {
				if e != io.EOF {
					err = e
				}
				break
			}
		}
	}
	t := core.NewTape(24)
	t.Bool(sp.Server).Bool(sp.Negotiated).Bytes(stream).Bytes(sp.Term)
	t.Bytes(data)
	tapeErr(t, err)
	return core.Exec{Tape: t.String(), Tags: []string{core.Tag("negotiated:%v", sp.Negotiated), "len:" + core.SizeClass(len(stream))}, Nontrivial: len(stream) > 0}
}

func c03jGen(rng *rand.Rand, tier string) []core.Spec {
	n := 400
	if tier == "thorough" {
		n = 20000
	}
	var out []core.Spec
	for i := 0; i < n; i++ {
		server := rng.Intn(2) == 0
		negotiated := rng.Intn(2) == 0
		frames, _ := genConformantStream(rng, server, negotiated, 1+rng.Intn(4), 400, false, 20)
		stream, bounds := encodeAll(frames)
		sp := &JoinSpec{Server: server, Negotiated: negotiated, RBuf: core.Pick(rng, rbufChoices), Chunks: chunkStream(rng, stream, bounds),
			Term: B(core.Pick(rng, []string{"", "", "\n", "--", "\r\n\r\n"})), ReadSize: core.Pick(rng, []int{0, 0, 1, 7, 512})}
		out = append(out, sp)
	}
	return out
}

func init() {
	core.Register(&core.Prop{
		ID:   "C03j",
		Rule: "io.ReadAll (or Reads of 1/7/512 bytes) over JoinMessages(conn, term) with term in {\"\", \"\\n\", \"--\", CRLFCRLF} on complete conformant streams of 1-4 messages (fragmented, compressed by single-flush / multi-flush / BFINAL-terminated deflate streams, control frames in between), both roles, all buffer sizes and chunkings; the result must be the concatenation of the payloads, each followed by term, and no error other than the end of the transport (close 1006)",
		Gen:  c03jGen,
		Exec: joinExec,
		Decode: func(raw json.RawMessage) (core.Spec, error) {
			var s JoinSpec
			err := json.Unmarshal(raw, &s)
			return &s, err
		},
		Clauses: map[int]string{
			96:  "a compressed message of the generated stream does not inflate (generator / Spec error)",
			97:  "the generated stream is not complete and conformant (generator error)",
			180: "JoinMessages reported an error other than the end of the transport although the stream is complete",
			181: "the bytes read from JoinMessages are not the concatenation of the messages' payloads and terminators",
			199: "malformed observation",
		},
	})
}
