package props

import (
	"crypto/tls"
	"encoding/json"
	"math/rand"
	"net/http"
	"net/url"
	"strings"

	"verif/harness/core"

	"github.com/gorilla/websocket"
)

// C13 Default origin policy.

type c13Spec struct {
	Host    []byte   `json:"host"`
	Origins [][]byte `json:"origins"`
	Class   string   `json:"class"`
	// History: handshakes the same process served before this one (the policy is a function of this
	// request alone: nothing an earlier request did may matter)
	History []c13Req `json:"history,omitempty"`
	// SNI: the request arrived over TLS with this server name in the handshake (http.Request.TLS); the
	// policy compares Origin with the Host header, nothing else
	SNI string `json:"tls_server_name,omitempty"`
}

type c13Req struct {
	Host    []byte   `json:"host"`
	Origins [][]byte `json:"origins"`
}

func c13Request(host []byte, origins [][]byte) *http.Request {
	r := &http.Request{Method: "GET", Host: string(host), Header: http.Header{}, URL: &url.URL{Path: "/"}, Proto: "HTTP/1.1", ProtoMajor: 1, ProtoMinor: 1}
	r.Header["Connection"] = []string{"Upgrade"}
	r.Header["Upgrade"] = []string{"websocket"}
	r.Header["Sec-Websocket-Version"] = []string{"13"}
	r.Header["Sec-Websocket-Key"] = []string{"dGhlIHNhbXBsZSBub25jZQ=="}
	var os []string
	for _, o := range origins {
		os = append(os, string(o))
	}
	if len(os) > 0 {
		r.Header["Origin"] = os
	}
	return r
}

func c13Exec(s core.Spec) core.Exec {
	sp := s.(*c13Spec)
	r := &http.Request{Method: "GET", Host: string(sp.Host), Header: http.Header{}, URL: &url.URL{Path: "/"}, Proto: "HTTP/1.1", ProtoMajor: 1, ProtoMinor: 1}
	r.Header["Connection"] = []string{"Upgrade"}
	r.Header["Upgrade"] = []string{"websocket"}
	r.Header["Sec-Websocket-Version"] = []string{"13"}
	r.Header["Sec-Websocket-Key"] = []string{"dGhlIHNhbXBsZSBub25jZQ=="}
	if sp.SNI != "" {
		r.TLS = &tls.ConnectionState{ServerName: sp.SNI, HandshakeComplete: true}
	}
	var origins []string
	for _, o := range sp.Origins {
		origins = append(origins, string(o))
	}
	if len(origins) > 0 {
		r.Header["Origin"] = origins
	}
	u := websocket.Upgrader{}
	for _, h := range sp.History {
		u.Upgrade(NewFakeRW(NewScriptConn(nil, 0, false)), c13Request(h.Host, h.Origins), nil)
	}
	conn := NewScriptConn(nil, 0, false)
	w := NewFakeRW(conn)
	c, err := u.Upgrade(w, r, nil)
	up := 2
	if err == nil && c != nil && w.Hijacked {
		up = 1
	} else if w.Status == 403 {
		up = 0
	}
	direct := websocket.VerifCheckSameOrigin(r)

	t := core.NewTape(13)
	t.Bytes(sp.Host).BytesList(sp.Origins)
	urlOK := false
	var urlHost []byte
	if len(origins) > 0 {
		pu, perr := url.Parse(origins[0])
		if perr == nil {
			urlOK = true
			urlHost = []byte(pu.Host)
		}
	}
	t.OptBytes(urlOK, urlHost)
	t.N(up).Bool(direct)
	tags := []string{"class:" + sp.Class, core.Tag("up:%d", up)}
	tags = append(tags, core.Tag("history:%d", len(sp.History)))
	if sp.SNI != "" {
		tags = append(tags, "tls-sni:set")
	}
	return core.Exec{Tape: t.String(), Tags: tags, Nontrivial: len(sp.Origins) > 0}
}

var c13Hosts = []string{"example.com", "example.com:8080", "Example.COM", "a.b.example.org:443", "127.0.0.1", "127.0.0.1:80", "[::1]", "[::1]:8443", "[2001:db8::1]:80", "k.example.com", "site.test", "xn--bcher-kva.example", "localhost", "sKs.example.com"}

func flipCase(rng *rand.Rand, s string) string {
	b := []byte(s)
	for i := range b {
		if rng.Intn(2) == 0 {
			if 'a' <= b[i] && b[i] <= 'z' {
				b[i] -= 32
			} else if 'A' <= b[i] && b[i] <= 'Z' {
				b[i] += 32
			}
		}
	}
	return string(b)
}

func c13Origin(rng *rand.Rand, host string) (string, string) {
	scheme := core.Pick(rng, []string{"http", "https", "ws", "HTTP", "chrome-extension", ""})
	path := core.Pick(rng, []string{"", "/", "/a/b", "/p?q=1", "?x", "#f"})
	class := ""
	h := host
	switch k := rng.Intn(16); k {
	case 0:
		class = "same"
	case 1:
		class = "case"
		h = flipCase(rng, host)
	case 2:
		class = "edit"
		b := []byte(host)
		if len(b) > 0 {
			i := rng.Intn(len(b))
			b[i] = byte("abcxyz019.-:_"[rng.Intn(13)])
		}
		h = string(b)
	case 3:
		class = "extra-label"
		h = core.Pick(rng, []string{"evil.", "www.", "a."}) + host
	case 4:
		class = "suffix"
		h = host + core.Pick(rng, []string{".evil.com", "x", ".", "evil"})
	case 5:
		class = "port"
		if i := strings.LastIndex(host, ":"); i > strings.LastIndex(host, "]") {
			h = host[:i] + core.Pick(rng, []string{"", ":1", ":80", ":8081", ":"})
		} else {
			h = host + core.Pick(rng, []string{":80", ":443", ":8080", ":"})
		}
	case 6:
		class = "userinfo"
		h = core.Pick(rng, []string{host + "@evil.com", "evil.com@" + host, "u:p@" + host, host + ":x@evil.com"})
	case 7:
		class = "unicode-fold"
		// U+212A KELVIN SIGN folds to k, U+017F LONG S folds to s under Unicode folding
		h = strings.NewReplacer("k", "K", "s", "ſ", "K", "K", "S", "ſ").Replace(host)
		if h == host {
			h = "K" + host
		}
		if rng.Intn(2) == 0 {
			// the same look-alikes percent-encoded: url.Parse decodes them in the host
			class = "unicode-fold-escaped"
			h = strings.NewReplacer("\u212a", "%E2%84%AA", "\u017f", "%C5%BF").Replace(h)
		}
	case 8:
		class = "invalid-utf8"
		b := []byte(host)
		if len(b) > 0 {
			i := rng.Intn(len(b))
			b[i] = byte(0x80 + rng.Intn(0x80))
		}
		h = string(b)
	case 9:
		class = "junk"
		h = string(core.RandBytes(rng, rng.Intn(12)))
	case 10:
		class = "removed-label"
		if i := strings.Index(host, "."); i >= 0 {
			h = host[i+1:]
		} else {
			h = ""
		}
	case 11:
		class = "other-host"
		h = core.Pick(rng, c13Hosts)
	case 12:
		class = "ctl"
		h = host + core.Pick(rng, []string{"\x00", "\t", " ", "%00", "%2e", "\\"})
	case 13:
		class = "prefix-lookalike"
		h = "not" + host
	case 14:
		class = "no-scheme"
		return h + path, class
	default:
		class = "same-case"
		h = strings.ToUpper(host)
	}
	if scheme == "" {
		return "//" + h + path, class + "/schemeless"
	}
	return scheme + "://" + h + path, class
}

func c13Gen(rng *rand.Rand, tier string) []core.Spec {
	n := 20000
	if tier == "thorough" {
		n = 400000
	}
	var out []core.Spec
	// fixed rows first
	fixed := [][3]string{
		{"example.com", "http://example.com", "same"},
		{"example.com", "", "no-origin"},
		{"example.com", "http://EXAMPLE.com", "case"},
		{"ex\xfeample.com", "http://ex\xffample.com", "invalid-utf8-pair"},
		{"\xff", "http://\xef\xbf\xbd", "runeerror-literal"},
		{"k.example.com", "http://K.example.com", "kelvin"},
		{"s.example.com", "http://ſ.example.com", "long-s"},
		{"example.com", "null", "null"},
		{"example.com", "http://example.com:80", "port"},
		{"example.com:80", "http://example.com", "port"},
		{"example.com", "http://example.com@evil.com", "userinfo"},
		{"example.com", "%zz", "unparsable"},
		{"", "http://", "empty"},
	}
	for _, f := range fixed {
		sp := &c13Spec{Host: []byte(f[0]), Class: f[2]}
		if f[2] != "no-origin" {
			sp.Origins = [][]byte{[]byte(f[1])}
		}
		out = append(out, sp)
	}
	for i := 0; i < n; i++ {
		host := core.Pick(rng, c13Hosts)
		if rng.Intn(8) == 0 {
			host = flipCase(rng, host)
		}
		if rng.Intn(20) == 0 {
			b := []byte(host)
			b[rng.Intn(len(b))] = byte(0x80 + rng.Intn(0x80))
			host = string(b)
		}
		o, class := c13Origin(rng, host)
		sp := &c13Spec{Host: []byte(host), Origins: [][]byte{[]byte(o)}, Class: class}
		if class == "invalid-utf8" && rng.Intn(2) == 0 {
			// both sides invalid at the same place with different bytes
			b := []byte(host)
			i := rng.Intn(len(b))
			b[i] = byte(0x80 + rng.Intn(0x80))
			sp.Host = b
			ob := append([]byte(nil), b...)
			ob[i] = byte(0x80 + rng.Intn(0x80))
			sp.Origins = [][]byte{append([]byte("http://"), ob...)}
			sp.Class = "invalid-utf8-pair"
		}
		if rng.Intn(30) == 0 {
			sp.Origins = append(sp.Origins, []byte("http://"+host))
			sp.Class += "+second-origin-same"
		}
		if pu, err := url.Parse(o); err == nil && pu.Hostname() != "" && rng.Intn(5) == 0 {
			sp.SNI = core.Pick(rng, []string{pu.Hostname(), string(sp.Host), "other.example.net"})
		}
		switch rng.Intn(4) {
		case 0:
			// the origin of this request was same-origin for the host it names, served just before;
			// then a refused request for this host
			if pu, err := url.Parse(o); err == nil && pu.Host != "" {
				sp.History = []c13Req{{Host: []byte(pu.Host), Origins: [][]byte{[]byte(o)}},
					{Host: sp.Host, Origins: [][]byte{[]byte("https://elsewhere.invalid")}}}
				if rng.Intn(2) == 0 {
					sp.History = sp.History[:1]
				}
			}
		case 1:
			// earlier requests of this run, as they come
			for k := 1 + rng.Intn(3); k > 0 && len(out) > 0; k-- {
				q := out[rng.Intn(len(out))].(*c13Spec)
				sp.History = append(sp.History, c13Req{Host: q.Host, Origins: q.Origins})
			}
		}
		out = append(out, sp)
	}
	return out
}

func c13Shrink(s core.Spec) []core.Spec {
	sp := s.(*c13Spec)
	var out []core.Spec
	// drop second origins, strip path, shorten host/origin by removing one byte at matching places
	if len(sp.Origins) > 1 {
		out = append(out, &c13Spec{Host: sp.Host, Origins: sp.Origins[:1], Class: sp.Class})
	}
	if len(sp.Origins) == 0 {
		return out
	}
	o := sp.Origins[0]
	for i := 0; i < len(o); i++ {
		no := append(append([]byte(nil), o[:i]...), o[i+1:]...)
		out = append(out, &c13Spec{Host: sp.Host, Origins: [][]byte{no}, Class: sp.Class})
		for j := 0; j < len(sp.Host); j++ {
			if sp.Host[j] == o[i] || (sp.Host[j]|0x20) == (o[i]|0x20) {
				nh := append(append([]byte(nil), sp.Host[:j]...), sp.Host[j+1:]...)
				out = append(out, &c13Spec{Host: nh, Origins: [][]byte{no}, Class: sp.Class})
				break
			}
		}
	}
	for j := 0; j < len(sp.Host); j++ {
		nh := append(append([]byte(nil), sp.Host[:j]...), sp.Host[j+1:]...)
		out = append(out, &c13Spec{Host: nh, Origins: sp.Origins, Class: sp.Class})
	}
	return out
}

func init() {
	core.Register(&core.Prop{
		ID:   "C13",
		Rule: "(Host, Origin) pairs from the property's grammar (case variants, one-byte edits, added/removed labels, ports, userinfo tricks, U+212A/U+017F, invalid UTF-8 on one or both sides, junk, several Origin lines) sent through Upgrader{}.Upgrade and checkSameOrigin, half of them after 1-3 earlier handshakes served by the same process (the request naming this origin's own host accepted just before, refused requests for this host, other requests of the run); non-trivial = has an Origin header; distinct by full case tape",
		Gen:  c13Gen,
		Serial: true, // the histories must not interleave with other cases
		Exec: c13Exec,
		Decode: func(raw json.RawMessage) (core.Spec, error) {
			var s c13Spec
			err := json.Unmarshal(raw, &s)
			return &s, err
		},
		Shrink: c13Shrink,
		Finding: func(s core.Spec, clause int) string {
			return core.Tag("cross-origin-accepted-clause%d", clause)
		},
		Clauses: map[int]string{
			1: "Upgrade returned 101 for a request whose Origin host differs from Host under byte-wise ASCII case folding",
			2: "checkSameOrigin returned true for such a request",
			99: "malformed observation",
		},
	})
}
