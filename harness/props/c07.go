package props

import (
	"crypto/tls"
	"sync/atomic"
	"encoding/json"
	"math/rand"
	"net"
	"net/http"
	"net/url"
	"runtime"
	"strings"
	"time"

	"verif/harness/core"

	"github.com/gorilla/websocket"
)

// C07 (ii) arbitrary bytes as the server's reply to Dial, (iii) as a proxy's reply to CONNECT,
// (iv) arbitrary header values of an upgrade request (judged against the server model, kind 12).

type JunkSpec struct {
	Proxy bool `json:"proxy"`
	Reply B    `json:"reply"`
	// TLSCfg: the Dialer carries a TLSClientConfig (1: empty, 2: with NextProtos h2 + http/1.1, as when a
	// tls.Config is shared with net/http) although the URL is ws:// - the option must simply not matter
	TLSCfg int `json:"tls_client_config,omitempty"`
}

func junkExec(s core.Spec) core.Exec {
	sp := s.(*JunkSpec)
	var ms0, ms1 runtime.MemStats
	runtime.GC()
	runtime.ReadMemStats(&ms0)
	panicked, hung := false, false
	done := make(chan struct{})
	go func() {
		defer close(done)
		defer func() {
			if r := recover(); r != nil {
				panicked = true
			}
		}()
		d := websocket.Dialer{HandshakeTimeout: 5 * time.Second}
		switch sp.TLSCfg {
		case 1:
			d.TLSClientConfig = &tls.Config{}
		case 2:
			d.TLSClientConfig = &tls.Config{NextProtos: []string{"h2", "http/1.1"}}
		}
		d.NetDial = func(network, addr string) (net.Conn, error) {
			rc := &reactConn{failAt: -1}
			rc.respond = func(req []byte) [][]byte { return [][]byte{sp.Reply} }
			return rc, nil
		}
		if sp.Proxy {
			pu := &url.URL{Scheme: "http", Host: "proxy.test:3128"}
			d.Proxy = func(*http.Request) (*url.URL, error) { return pu, nil }
		}
		c, _, _ := d.Dial("ws://backend.test/x", nil)
		if c != nil {
			c.Close()
		}
	}()
	select {
	case <-done:
	case <-time.After(15 * time.Second):
		hung = true
	}
	runtime.ReadMemStats(&ms1)
	t := core.NewTape(70)
	t.Bool(panicked).Bool(hung).U64(ms1.TotalAlloc - ms0.TotalAlloc).N(len(sp.Reply))
	return core.Exec{Tape: t.String(), Tags: []string{core.Tag("proxy:%v", sp.Proxy), "len:" + core.SizeClass(len(sp.Reply))}, Nontrivial: len(sp.Reply) > 0}
}

func genJunkReply(rng *rand.Rand) []byte {
	statusLines := []string{"HTTP/1.1 101 Switching Protocols", "HTTP/1.1 200 OK", "HTTP/1.1 407", "HTTP/1.1 407 ", "HTTP/1.1 200", "HTTP/1.0 200 Connection established",
		"HTTP/1.1 999 X", "HTTP/1.1 101", "HTTP/1.1  101  x", "HTTP/2 200 OK", "ICY 200 OK", "HTTP/1.1 -1 neg", "HTTP/1.1 1000000000000000000000 big", ""}
	hdrs := []string{"Upgrade: websocket", "Connection: Upgrade", "Sec-WebSocket-Accept: s3pPLMBiTxaQ9kYGzzhZRbK+xOo=", "Sec-WebSocket-Extensions: permessage-deflate; a=\"",
		"Sec-WebSocket-Extensions: " + strings.Repeat(";", 3000), "Sec-WebSocket-Extensions: a;b=\"\\", "Sec-WebSocket-Extensions: " + strings.Repeat("x=\"\\\\", 500),
		"Content-Length: 999999999999", "Content-Length: -1", "Transfer-Encoding: chunked", "X: " + strings.Repeat("y", 5000), "Sec-WebSocket-Protocol: \x00\xff", ":", "no-colon", " leading-space: x",
		"Upgrade: " + strings.Repeat("a,", 4000), "Connection: " + strings.Repeat(" \t", 3000) + "upgrade"}
	switch rng.Intn(5) {
	case 0:
		return core.RandBytes(rng, rng.Intn(300))
	case 1:
		b := []byte(core.Pick(rng, statusLines) + "\r\n")
		for k := rng.Intn(5); k > 0; k-- {
			b = append(b, core.Pick(rng, hdrs)+"\r\n"...)
		}
		b = append(b, "\r\n"...)
		b = append(b, core.RandBytes(rng, rng.Intn(100))...)
		return b
	case 2:
		b := []byte("HTTP/1.1 101 Switching Protocols\r\nUpgrade: websocket\r\nConnection: Upgrade\r\n")
		b = append(b, core.Pick(rng, hdrs)+"\r\n\r\n"...)
		return b
	case 3:
		b := []byte(core.Pick(rng, statusLines) + "\r\n\r\n")
		return b
	default:
		b := []byte("HTTP/1.1 200 OK\r\n" + core.Pick(rng, hdrs) + "\r\n\r\n")
		for j := rng.Intn(3); j > 0 && len(b) > 0; j-- {
			b[rng.Intn(len(b))] ^= byte(1 << rng.Intn(8))
		}
		return b
	}
}

func junkGen(rng *rand.Rand, tier string) []core.Spec {
	n := 1500
	if tier == "thorough" {
		n = 40000
	}
	var out []core.Spec
	for _, r := range []string{"HTTP/1.1 407\r\n\r\n", "HTTP/1.1 200\r\n\r\n", "HTTP/1.1 101\r\n\r\n", "\r\n\r\n", ""} {
		out = append(out, &JunkSpec{Proxy: true, Reply: B(r)}, &JunkSpec{Proxy: false, Reply: B(r)}, &JunkSpec{Proxy: false, Reply: B(r), TLSCfg: 1 + rng.Intn(2)})
	}
	for i := 0; i < n; i++ {
		out = append(out, &JunkSpec{Proxy: i%2 == 0, Reply: B(genJunkReply(rng)), TLSCfg: core.Pick(rng, []int{0, 0, 1, 2})})
	}
	return out
}

// (iv) upgrade request header values
func c07hGen(rng *rand.Rand, tier string) []core.Spec {
	n := 6000
	if tier == "thorough" {
		n = 150000
	}
	junk := func() B {
		switch rng.Intn(6) {
		case 0:
			return B(core.RandBytes(rng, rng.Intn(40)))
		case 1:
			return B(strings.Repeat(core.Pick(rng, []string{",", " ", "\t", ";", "\"", "\\", "=", "a,", "\"\\", ";=", "\xff"}), rng.Intn(3000)))
		case 2:
			return B(core.Pick(rng, []string{"permessage-deflate; a=\"", "x; y=\"\\", "\"", "a=\"b", ";;;", "=,=", "a;b=\"c\\\"d\";e", "\x00", "upgrade\x00", "websocket\r\n"}))
		case 3:
			return B("")
		default:
			b := []byte(core.Pick(rng, []string{"Upgrade", "websocket", "13", "permessage-deflate; client_max_window_bits", "chat, superchat", "http://example.com"}))
			if len(b) > 0 {
				b[rng.Intn(len(b))] ^= byte(1 << rng.Intn(8))
			}
			return b
		}
	}
	var out []core.Spec
	for i := 0; i < n; i++ {
		sp := validHS(rng, 12)
		sp.Policy = rng.Intn(3)
		sp.Compress = rng.Intn(2) == 0
		if rng.Intn(2) == 0 {
			sp.SubNil = false
			sp.Subprotos = []B{B("chat")}
		}
		for k := 1 + rng.Intn(3); k > 0; k-- {
			switch rng.Intn(7) {
			case 0:
				sp.Connection = []B{junk()}
			case 1:
				sp.Upgrade = []B{junk()}
			case 2:
				sp.Version = []B{junk()}
			case 3:
				sp.Key = []B{junk()}
			case 4:
				sp.Protocol = []B{junk()}
			case 5:
				sp.Extensions = []B{junk(), junk()}
			default:
				sp.Origin = []B{junk()}
			}
		}
		out = append(out, sp)
	}
	return out
}

// after a few hangs the remaining cases are not run (each would burn a core for the whole watchdog
// period): they report the hang at once
var hsHangs int32

func hsExecGuarded(s core.Spec) (e core.Exec) {
	if atomic.LoadInt32(&hsHangs) >= 3 {
		return core.Exec{Tape: "70 0 1 0 1", Tags: []string{"HUNG", "skipped-after-repeated-hangs"}, Nontrivial: true}
	}
	defer func() {
		if r := recover(); r != nil {
			e = core.Exec{Tape: "70 1 0 0 1", Tags: []string{"PANIC"}, Nontrivial: true}
		}
	}()
	done := make(chan core.Exec, 1)
	go func() {
		defer func() {
			if r := recover(); r != nil {
				done <- core.Exec{Tape: "70 1 0 0 1", Tags: []string{"PANIC"}, Nontrivial: true}
			}
		}()
		done <- hsExec(s)
	}()
	select {
	case x := <-done:
		return x
	case <-time.After(5 * time.Second):
		atomic.AddInt32(&hsHangs, 1)
		return core.Exec{Tape: "70 0 1 0 1", Tags: []string{"HUNG"}, Nontrivial: true}
	}
}

func init() {
	core.Register(&core.Prop{
		ID:     "C07d",
		Serial: true,
		Rule:   "arbitrary bytes as the reply a server (odd cases) or an HTTP proxy answering CONNECT (even cases) sends to Dial: random bytes, structurally plausible replies with hostile status lines (missing reason phrase, huge or negative codes) and header lines (unterminated quoted strings, thousands of separators, huge Content-Length, NULs), mutated valid replies; run serially under recover(), a 15 s watchdog and a runtime.MemStats.TotalAlloc delta; non-trivial = non-empty reply",
		Gen:    junkGen,
		Exec:   junkExec,
		Decode: func(raw json.RawMessage) (core.Spec, error) {
			var s JunkSpec
			err := json.Unmarshal(raw, &s)
			return &s, err
		},
		Clauses: map[int]string{50: "panic", 51: "no return within 15 s", 52: "allocated more than 64 bytes per input byte + 4 MiB"},
	})
	core.Register(&core.Prop{
		ID:      "C07h",
		Rule:    "upgrade requests whose Connection / Upgrade / Sec-WebSocket-Version / -Key / -Protocol / -Extensions / Origin values are hostile: random bytes, thousands of separators or quotes, unterminated quoted strings and escapes, NUL / CR LF, bit-flipped valid values; run under recover() and a watchdog and judged against the server model (C12's judge)",
		Gen:     c07hGen,
		Exec:    hsExecGuarded,
		Decode:  decodeHS,
		Shrink:  shrinkHS,
		Clauses: c07hClauses(),
	})
}

func c07hClauses() map[int]string {
	m := map[int]string{50: "panic", 51: "no return within 5 s"}
	for k, v := range hsClauses {
		m[k] = v
	}
	return m
}
