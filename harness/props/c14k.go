package props

import (
	crand "crypto/rand"
	"encoding/json"
	"io"
	"math/rand"
	"net"
	"sync"

	"verif/harness/core"

	"github.com/gorilla/websocket"
)

// C14k: the challenge key is 16 bytes of the entropy source, however the source hands them out.
// crypto/rand.Reader is replaced (under a lock, the property runs serially) by a reader that
// returns a scripted stream in pieces of 1..16 bytes per call, as an io.Reader may.

type KeySpec struct {
	Stream B   `json:"stream"` // what the entropy source delivers, in order
	Piece  int `json:"piece"`  // bytes per Read call
}

type pieceReader struct {
	b     []byte
	piece int
}

func (r *pieceReader) Read(p []byte) (int, error) {
	if len(r.b) == 0 {
		return 0, io.ErrUnexpectedEOF
	}
	n := r.piece
	if n > len(p) {
		n = len(p)
	}
	if n > len(r.b) {
		n = len(r.b)
	}
	copy(p, r.b[:n])
	r.b = r.b[n:]
	return n, nil
}

var randMu sync.Mutex

func keyExec(s core.Spec) core.Exec {
	sp := s.(*KeySpec)
	randMu.Lock()
	old := crand.Reader
	crand.Reader = &pieceReader{b: append([]byte(nil), sp.Stream...), piece: sp.Piece}
	var key string
	d := websocket.Dialer{}
	d.NetDial = func(network, addr string) (net.Conn, error) {
		rc := &reactConn{failAt: -1}
		rc.respond = func(req []byte) [][]byte {
			if pr, ok := parseRequest(req); ok {
				if v := pr.Hdr["Sec-Websocket-Key"]; len(v) > 0 {
					key = v[0]
				}
			}
			return [][]byte{[]byte("HTTP/1.1 400 Bad Request\r\nContent-Length: 0\r\n\r\n")}
		}
		return rc, nil
	}
	c, _, _ := d.Dial("ws://example.com/", nil)
	crand.Reader = old
	randMu.Unlock()
	if c != nil {
		c.Close()
	}
	t := core.NewTape(26)
	t.Bytes(sp.Stream).Str(key)
	return core.Exec{Tape: t.String(), Tags: []string{core.Tag("piece:%d", sp.Piece)}, Nontrivial: true}
}

func c14kGen(rng *rand.Rand, tier string) []core.Spec {
	var out []core.Spec
	for piece := 1; piece <= 16; piece++ {
		for rep := 0; rep < 3; rep++ {
			b := make([]byte, 64)
			rng.Read(b)
			out = append(out, &KeySpec{Stream: b, Piece: piece})
		}
	}
	return out
}

func init() {
	core.Register(&core.Prop{
		ID:     "C14k",
		Serial: true,
		Rule:   "Dial with crypto/rand.Reader replaced by a source that returns its (random, recorded) stream 1..16 bytes per Read call; the Sec-WebSocket-Key sent must be the base64 of the first 16 bytes of that stream (exhaustive over the piece sizes)",
		Gen:    c14kGen,
		Exec:   keyExec,
		Decode: func(raw json.RawMessage) (core.Spec, error) {
			var s KeySpec
			err := json.Unmarshal(raw, &s)
			return &s, err
		},
		Clauses:    map[int]string{129: "the Sec-WebSocket-Key sent is not the base64 encoding of the first 16 bytes delivered by the entropy source", 199: "malformed observation"},
		Exhaustive: func(string) bool { return true },
	})
}
