package props

import (
	"encoding/json"
	"math/rand"
	"strings"

	"verif/harness/core"

	"github.com/gorilla/websocket"
)

// C03, JoinMessages call by call against Model/Join.v (kind 28): every Read on the joined reader,
// with its own buffer size, is compared with the model's prediction (bytes and error), on
// uncompressed streams, any chunking, any fault after the stream, the last chunk possibly
// delivered together with the fault.

type JoinKSpec struct {
	Server bool  `json:"server"`
	RBuf   int   `json:"rbuf"`
	Chunks []B   `json:"chunks"`
	Fault  int   `json:"fault"`
	Glued  bool  `json:"glued"`
	Term   B     `json:"term"`
	Sizes  []int `json:"sizes"`
}

func joinKExec(s core.Spec) core.Exec {
	sp := s.(*JoinKSpec)
	var chunks [][]byte
	total := 0
	for _, c := range sp.Chunks {
		chunks = append(chunks, c)
		total += len(c)
	}
	sc := NewScriptConn(chunks, sp.Fault, sp.Glued)
	c := websocket.VerifNewConn(sc, sp.Server, sp.RBuf, 0, nil, nil, false)
	r := websocket.JoinMessages(c, string(sp.Term))

	t := core.NewTape(28)
	t.Bool(sp.Server).Bool(false).Bool(false).N(0).N(0)
	t.N(sp.RBuf).N(0).Bytes(nil)
	t.N(len(chunks))
	for _, ch := range chunks {
		t.Bytes(ch)
	}
	t.N(sp.Fault).Bool(sp.Glued)
	t.N(0).Bool(true).Bool(false).N(0).Bool(false)
	t.Bytes(sp.Term)
	t.N(len(sp.Sizes))
	for _, m := range sp.Sizes {
		t.N(m)
	}
	obs := core.NewTape(0)
	calls := 0
	sawErr := false
	func() {
		defer func() { recover() }()
		for _, m := range sp.Sizes {
			buf := make([]byte, m)
			n, err := r.Read(buf)
			obs.Bytes(buf[:n])
			tapeErr(obs, err)
			calls++
			if err != nil {
				sawErr = true
			}
		}
	}()
	t.N(calls)
	tape := t.String()
	if parts := strings.SplitN(obs.String(), " ", 2); len(parts) == 2 {
		tape += " " + parts[1]
	}
	tags := []string{core.Tag("glued:%v", sp.Glued), core.Tag("fault:%d", sp.Fault), core.Tag("term:%d", len(sp.Term)), core.Tag("reached-end:%v", sawErr), "len:" + core.SizeClass(total)}
	return core.Exec{Tape: tape, Tags: tags, Nontrivial: total > 0}
}

// index of the first call that returns an error (-1: none within the sizes given, or a panic)
func joinKFirstError(sp *JoinKSpec) (idx int) {
	var chunks [][]byte
	for _, c := range sp.Chunks {
		chunks = append(chunks, c)
	}
	defer func() {
		if recover() != nil {
			idx = -1
		}
	}()
	c := websocket.VerifNewConn(NewScriptConn(chunks, sp.Fault, sp.Glued), sp.Server, sp.RBuf, 0, nil, nil, false)
	r := websocket.JoinMessages(c, string(sp.Term))
	for i, m := range sp.Sizes {
		if _, err := r.Read(make([]byte, m)); err != nil {
			return i
		}
	}
	return -1
}

func c03kGen(rng *rand.Rand, tier string) []core.Spec {
	n := 500
	if tier == "thorough" {
		n = 5000
	}
	var out []core.Spec
	for i := 0; i < n; i++ {
		server := rng.Intn(2) == 0
		frames, _ := genConformantStream(rng, server, false, 1+rng.Intn(4), core.Pick(rng, []int{40, 400, 3000}), false, 20)
		stream, bounds := encodeAll(frames)
		sp := &JoinKSpec{Server: server, RBuf: core.Pick(rng, rbufChoices), Chunks: chunkStream(rng, stream, bounds),
			Fault: core.Pick(rng, []int{0, 0, 1, 2}), Glued: rng.Intn(3) == 0,
			Term: B(core.Pick(rng, []string{"", "", "\n", "--", "\r\n\r\n"}))}
		// the sizes of the calls: drawn until the joined reader reports its first error on this
		// tree (a dry run), plus a few calls past it
		sizes := core.Pick(rng, [][]int{{1}, {7}, {1, 7, 64}, {512}, {200, 5000}, {8192}, {0, 3, 600}})
		for k := 0; k < 20000; k++ {
			sp.Sizes = append(sp.Sizes, sizes[rng.Intn(len(sizes))])
		}
		if k := joinKFirstError(sp); k >= 0 {
			sp.Sizes = sp.Sizes[:k+1]
		} else {
			sp.Sizes = sp.Sizes[:2000]
		}
		for k := 0; k < 3+rng.Intn(4); k++ {
			sp.Sizes = append(sp.Sizes, sizes[rng.Intn(len(sizes))])
		}
		out = append(out, sp)
	}
	return out
}

func init() {
	core.Register(&core.Prop{
		ID:   "C03k",
		Rule: "every Read call on JoinMessages(conn, term), each with its own buffer size (0, 1, 3, 7, 64, 200, 512, 600, 5000, 8192 bytes; sizes above the read buffer reach the transport directly), on uncompressed conformant streams of 1-4 messages with control frames in between, both roles, all read-buffer sizes and chunkings, the transport ending with EOF / a timeout / another error, reported alone or together with the last bytes: bytes and error of every call are compared with Model/Join.v, and the bytes delivered must be (a prefix of) the messages' payloads each followed by term",
		Gen:  c03kGen,
		Exec: joinKExec,
		Decode: func(raw json.RawMessage) (core.Spec, error) {
			var s JoinKSpec
			err := json.Unmarshal(raw, &s)
			return &s, err
		},
		Clauses: map[int]string{
			96:  "a compressed message of the generated stream does not inflate (generator / Spec error)",
			97:  "the generated stream is not complete and conformant (generator error)",
			98:  "the model ran out of fuel",
			181: "the bytes read from JoinMessages are not (a prefix of) the concatenation of the messages' payloads and terminators",
		},
	})
}
