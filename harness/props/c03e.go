package props

import (
	"encoding/json"
	"math/rand"
	"strings"

	"verif/harness/core"

	"github.com/gorilla/websocket"
)

// C03, end of message only at the true end, seen from the transport (kind 29): a ReadMessage loop
// over a conformant stream handed over piece by piece; for every message returned complete the
// number of stream bytes the transport had delivered by then is recorded.

type EndSpec struct {
	Server     bool `json:"server"`
	Negotiated bool `json:"negotiated"`
	RBuf       int  `json:"rbuf"`
	Chunks     []B  `json:"chunks"`
	ViaReader  bool `json:"via_next_reader,omitempty"` // NextReader + reads of 512 bytes until io.EOF instead of ReadMessage
}

func endExec(s core.Spec) core.Exec {
	sp := s.(*EndSpec)
	var chunks [][]byte
	var stream []byte
	for _, c := range sp.Chunks {
		chunks = append(chunks, c)
		stream = append(stream, c...)
	}
	sc := NewScriptConn(chunks, 0, false)
	c := websocket.VerifNewConn(sc, sp.Server, sp.RBuf, 0, nil, nil, sp.Negotiated)
	t := core.NewTape(29)
	t.Bool(sp.Server).Bool(sp.Negotiated).Bytes(stream)
	obs := core.NewTape(0)
	n := 0
	for i := 0; i < 1000; i++ {
		var ty int
		var data []byte
		var err error
		if sp.ViaReader {
			var r interface{ Read([]byte) (int, error) }
			ty, r, err = c.NextReader()
			if err == nil {
				buf := make([]byte, 512)
				for {
					k, e := r.Read(buf)
					data = append(data, buf[:k]...)
					if e != nil {
						if e.Error() != "EOF" {
							err = e
						}
						break
					}
				}
			}
		} else {
			ty, data, err = c.ReadMessage()
		}
		if err != nil {
			break
		}
		obs.N(ty).Bytes(data).N(sc.Delivered)
		n++
	}
	t.N(n)
	tape := t.String()
	if parts := strings.SplitN(obs.String(), " ", 2); len(parts) == 2 {
		tape += " " + parts[1]
	}
	return core.Exec{Tape: tape, Tags: []string{core.Tag("negotiated:%v", sp.Negotiated), core.Tag("messages:%d", n), "len:" + core.SizeClass(len(stream))}, Nontrivial: n > 0}
}

func c03eGen(rng *rand.Rand, tier string) []core.Spec {
	n := 400
	if tier == "thorough" {
		n = 20000
	}
	var out []core.Spec
	for i := 0; i < n; i++ {
		server := rng.Intn(2) == 0
		negotiated := rng.Intn(3) != 0
		frames, _ := genConformantStream(rng, server, negotiated, 1+rng.Intn(4), 400, false, 20)
		stream, bounds := encodeAll(frames)
		var chunks []B
		switch rng.Intn(3) {
		case 0: // frame by frame
			last := 0
			for _, b := range bounds {
				if b > last && b <= len(stream) {
					chunks = append(chunks, B(stream[last:b]))
					last = b
				}
			}
			if last < len(stream) {
				chunks = append(chunks, B(stream[last:]))
			}
		case 1: // byte by byte
			for _, c := range stream {
				chunks = append(chunks, B{c})
			}
		default:
			chunks = chunkStream(rng, stream, bounds)
		}
		out = append(out, &EndSpec{Server: server, Negotiated: negotiated, RBuf: core.Pick(rng, rbufChoices), Chunks: chunks, ViaReader: rng.Intn(3) == 0})
	}
	return out
}

func init() {
	core.Register(&core.Prop{
		ID:   "C03e",
		Rule: "ReadMessage loops (or NextReader + Reads until io.EOF) over complete conformant streams of 1-4 messages (fragmented; compressed by single-flush / multi-flush / BFINAL-terminated deflate streams; control frames in between) handed over frame by frame, byte by byte or in random pieces, both roles, all read-buffer sizes: every message returned is the next message of the stream and is not reported complete before the transport has delivered the last byte of its final frame",
		Gen:  c03eGen,
		Exec: endExec,
		Decode: func(raw json.RawMessage) (core.Spec, error) {
			var s EndSpec
			err := json.Unmarshal(raw, &s)
			return &s, err
		},
		Clauses: map[int]string{
			10:  "NextReader/ReadMessage succeeded although the stream holds no further message",
			11:  "wrong message type",
			16:  "ReadMessage reported a partial or wrong message as complete",
			96:  "a compressed message of the generated stream does not inflate (generator / Spec error)",
			182: "a message was reported complete before the transport had delivered its final frame",
			199: "malformed observation",
		},
	})
}
