package props

import (
	"bytes"
	"compress/flate"
	"math/rand"
	"strings"

	"verif/harness/core"
)

// generators of the other read-path properties: C04 C05 C06 C08 C17 C07(i)

func u64p(x uint64) *uint64 { return &x }

// ---------------------------------------------------------------- C04

type violation struct {
	name string
	mk   func(rng *rand.Rand, peerMasked, negotiated, open bool) (Frame, bool)
}

func fillerFrame(rng *rand.Rand, peerMasked bool, op int, fin bool, n int) Frame {
	k := genKey(rng)
	return Frame{Fin: fin, Op: op, Masked: peerMasked, Key: k, Payload: genPayload(rng, n, k)}
}

var violations = []violation{
	{"rsv2", func(rng *rand.Rand, m, ng, open bool) (Frame, bool) {
		f := fillerFrame(rng, m, pickDataOp(rng, open), true, rng.Intn(20))
		f.Rsv = 2
		return f, true
	}},
	{"rsv3", func(rng *rand.Rand, m, ng, open bool) (Frame, bool) {
		f := fillerFrame(rng, m, 9, true, rng.Intn(20))
		f.Rsv = 1
		return f, true
	}},
	{"rsv1-not-negotiated", func(rng *rand.Rand, m, ng, open bool) (Frame, bool) {
		if ng {
			return Frame{}, false
		}
		f := fillerFrame(rng, m, pickDataOp(rng, open), true, rng.Intn(20))
		f.Rsv = 4
		return f, true
	}},
	{"reserved-opcode", func(rng *rand.Rand, m, ng, open bool) (Frame, bool) {
		return fillerFrame(rng, m, core.Pick(rng, []int{3, 4, 5, 6, 7, 11, 12, 13, 14, 15}), rng.Intn(2) == 0, rng.Intn(20)), true
	}},
	{"control-not-fin", func(rng *rand.Rand, m, ng, open bool) (Frame, bool) {
		return fillerFrame(rng, m, 8+rng.Intn(3), false, rng.Intn(20)), true
	}},
	{"control-too-long", func(rng *rand.Rand, m, ng, open bool) (Frame, bool) {
		return fillerFrame(rng, m, 8+rng.Intn(3), true, core.Pick(rng, []int{126, 127, 200, 65536})), true
	}},
	{"continuation-when-idle", func(rng *rand.Rand, m, ng, open bool) (Frame, bool) {
		if open {
			return Frame{}, false
		}
		return fillerFrame(rng, m, 0, rng.Intn(2) == 0, rng.Intn(20)), true
	}},
	{"data-inside-message", func(rng *rand.Rand, m, ng, open bool) (Frame, bool) {
		if !open {
			return Frame{}, false
		}
		return fillerFrame(rng, m, 1+rng.Intn(2), rng.Intn(2) == 0, rng.Intn(20)), true
	}},
	{"wrong-mask", func(rng *rand.Rand, m, ng, open bool) (Frame, bool) {
		return fillerFrame(rng, !m, core.Pick(rng, []int{pickDataOp(rng, open), 9, 10, 8}), true, 2), true
	}},
	{"bad-close-code", func(rng *rand.Rand, m, ng, open bool) (Frame, bool) {
		code := core.Pick(rng, []int{0, 1, 999, 1004, 1005, 1006, 1014, 1015, 1016, 2999, 5000, 65535, rng.Intn(1000)})
		f := fillerFrame(rng, m, 8, true, 0)
		reason := core.Pick(rng, []string{"why", "", strings.Repeat("r", 99), strings.Repeat("long reason ", 10), strings.Repeat("x", 123), "quote\"d"})
		f.Payload = append([]byte{byte(code >> 8), byte(code)}, reason...)
		return f, true
	}},
	{"close-reason-not-utf8", func(rng *rand.Rand, m, ng, open bool) (Frame, bool) {
		f := fillerFrame(rng, m, 8, true, 0)
		bad := core.Pick(rng, []string{"\xff", "ab\xc3", "\xe2\x82", "\xed\xa0\x80", "\xc0\xaf", "\xf4\x90\x80\x80", "ok\x80", strings.Repeat("z", 120) + "\xff"})
		f.Payload = append([]byte{0x03, 0xe8}, bad...)
		return f, true
	}},
	{"length-top-bit", func(rng *rand.Rand, m, ng, open bool) (Frame, bool) {
		f := fillerFrame(rng, m, pickDataOp(rng, open), true, 0)
		f.LenForm = 2
		f.Decl = u64p(core.Pick(rng, []uint64{1 << 63, 1<<63 + 5, ^uint64(0)}))
		return f, true
	}},
}

func pickDataOp(rng *rand.Rand, open bool) int {
	if open {
		return 0
	}
	return 1 + rng.Intn(2)
}

func c04Gen(rng *rand.Rand, tier string) []core.Spec {
	n := 2500
	if tier == "thorough" {
		n = 60000
	}
	var out []core.Spec
	for i := 0; i < n; i++ {
		server := rng.Intn(2) == 0
		negotiated := rng.Intn(3) == 0
		frames, msgs := genConformantStream(rng, server, negotiated, rng.Intn(3), 600, false, 20)
		open := rng.Intn(2) == 0
		nm := len(msgs)
		if open {
			frames = append(frames, fillerFrame(rng, server, 1+rng.Intn(2), false, rng.Intn(200)))
			nm++
			if rng.Intn(2) == 0 {
				frames = append(frames, fillerFrame(rng, server, 9, true, rng.Intn(10)))
			}
		}
		var vf Frame
		var name string
		for {
			v := core.Pick(rng, violations)
			f, ok := v.mk(rng, server, negotiated, open)
			if ok {
				vf, name = f, v.name
				break
			}
		}
		frames = append(frames, vf)
		// suffix the reader must never look at: a ping and a complete text message
		frames = append(frames, fillerFrame(rng, server, 9, true, 3), fillerFrame(rng, server, 1, true, 5))
		stream, bounds := encodeAll(frames)
		sp := &ReaderSpec{Prop: 4, Server: server, Negotiated: negotiated, RBuf: core.Pick(rng, rbufChoices),
			Chunks: chunkStream(rng, stream, bounds), Fault: 0, Cmp: true, Drains: true, Note: name}
		sp.Custom = rng.Intn(2) == 0
		sp.StaleWDL = rng.Intn(3) == 0
		if !server && !negotiated && rng.Intn(3) == 0 {
			// a client whose Dialer offered compression and was turned down: RSV1 stays a violation
			sp.ViaDial, sp.OfferDeclined, sp.DialSplit = true, true, rng.Intn(300)
		}
		sp.Ops = append(genReadProgram(rng, nm), drainOps(nm+3)...)
		if sp.ViaDial {
			sp.Ops = drainOps(nm + 3) // the dialled path is compared for ReadMessage programs only (chunking differs)
		}
		out = append(out, sp)
	}
	// header alphabet sweep: every (b0, b1) x {idle, in-message} x role x negotiated
	stride := 8
	if tier == "thorough" {
		stride = 1
	}
	off := int(rng.Intn(stride))
	idx := 0
	for st := 0; st < 8; st++ {
		open, server, negotiated := st&1 != 0, st&2 != 0, st&4 != 0
		for b0 := 0; b0 < 256; b0++ {
			for b1 := 0; b1 < 256; b1++ {
				idx++
				if (idx+off)%stride != 0 {
					continue
				}
				var stream []byte
				if open {
					stream = append(stream, Frame{Fin: false, Op: 2, Masked: server, Key: [4]byte{1, 2, 3, 4}, Payload: B("ab")}.Encode()...)
				}
				stream = append(stream, byte(b0), byte(b1))
				l7 := b1 & 127
				n := l7
				switch l7 {
				case 126:
					stream = append(stream, 0, 130)
					n = 130
				case 127:
					if (b0+b1)%5 == 0 {
						stream = append(stream, 0x80, 0, 0, 0, 0, 0, 0, 1)
						n = 0
					} else {
						stream = append(stream, 0, 0, 0, 0, 0, 0, 0, 131)
						n = 131
					}
				}
				if b1&128 != 0 {
					stream = append(stream, 9, 8, 7, 6)
				}
				body := make([]byte, n)
				for j := range body {
					body[j] = byte('a' + j%26)
				}
				if b0&15 == 8 && n >= 2 { // plausible close body
					body[0], body[1] = 0x03, 0xe8
					if b1&128 != 0 {
						body[0] ^= 9
						body[1] ^= 8
						for j := 2; j < n; j++ {
							body[j] ^= []byte{9, 8, 7, 6}[j&3]
						}
					}
				}
				stream = append(stream, body...)
				stream = append(stream, Frame{Fin: true, Op: 0, Masked: server, Key: [4]byte{5, 5, 5, 5}, Payload: B("z")}.Encode()...)
				stream = append(stream, Frame{Fin: true, Op: 9, Masked: server, Key: [4]byte{5, 5, 5, 5}, Payload: B("p")}.Encode()...)
				sp := &ReaderSpec{Prop: 4, Server: server, Negotiated: negotiated, RBuf: 0, Chunks: []B{stream}, Fault: 0, Cmp: true, Drains: true,
					Custom: (b0+b1)%2 == 0, Note: "alphabet", Ops: []ROp{{K: 3}, {K: 3}, {K: 3}, {K: 3}}}
				out = append(out, sp)
			}
		}
	}
	return out
}

// ---------------------------------------------------------------- C05

func c05Gen(rng *rand.Rand, tier string) []core.Spec {
	nstreams, maxLen, per := 40, 150, 2
	if tier == "thorough" {
		nstreams, maxLen, per = 400, 3000, 4
	}
	var out []core.Spec
	// a compressed message whose deflate stream ends with a BFINAL block (RFC 7692 7.2.3.4), sent as
	// one frame or with the remaining 0x00 octet in a final continuation frame: every cut, every fault
	for _, server := range []bool{false, true} {
		var z bytes.Buffer
		fw, _ := flate.NewWriter(&z, 6)
		fw.Write([]byte("hello hello hello, final block"))
		fw.Close()
		wire := append(append([]byte{}, z.Bytes()...), 0x00)
		for split := 0; split < 3; split++ {
			k := genKey(rng)
			var frames []Frame
			switch split {
			case 1:
				frames = []Frame{{Fin: false, Rsv: 4, Op: 1, Masked: server, Key: k, Payload: wire[:len(wire)-1]}, {Fin: true, Op: 0, Masked: server, Key: k, Payload: wire[len(wire)-1:]}}
			case 2: // the stream, the remaining 0x00 octet, then an empty final fragment
				frames = []Frame{{Fin: false, Rsv: 4, Op: 1, Masked: server, Key: k, Payload: wire[:len(wire)-1]}, {Fin: false, Op: 0, Masked: server, Key: k, Payload: wire[len(wire)-1:]},
					{Fin: true, Op: 0, Masked: server, Key: k, Payload: nil}}
			default:
				frames = []Frame{{Fin: true, Rsv: 4, Op: 1, Masked: server, Key: k, Payload: wire}}
			}
			stream, _ := encodeAll(frames)
			for cut := 0; cut <= len(stream); cut++ {
				for fault := 0; fault < 3; fault++ {
					for _, glued := range []bool{false, true} {
						sp := &ReaderSpec{Prop: 5, Server: server, Negotiated: true, RBuf: 4096, Fault: fault, Glued: glued, Cmp: false, Drains: true, Note: "bfinal-deflate-stream",
							Ops: drainOps(3)}
						if cut > 0 {
							sp.Chunks = []B{B(stream[:cut])}
						}
						out = append(out, sp)
					}
				}
			}
		}
	}
	// a compressed message cut inside, read with Read calls that go on after the first error: the
	// reader of a partly received message never reports io.EOF, however often it is asked
	for _, server := range []bool{false, true} {
		var z bytes.Buffer
		fw, _ := flate.NewWriter(&z, 6)
		fw.Write(genPayload(rng, 900, [4]byte{}))
		fw.Flush()
		wire := z.Bytes()[:z.Len()-4]
		k := genKey(rng)
		for _, frames := range [][]Frame{
			{{Fin: true, Rsv: 4, Op: 2, Masked: server, Key: k, Payload: wire}},
			{{Fin: false, Rsv: 4, Op: 2, Masked: server, Key: k, Payload: wire[:len(wire)/2]}, {Fin: true, Op: 0, Masked: server, Key: k, Payload: wire[len(wire)/2:]}},
		} {
			stream, _ := encodeAll(frames)
			for _, cut := range []int{3, 9, len(stream) / 3, len(stream) / 2, len(stream) - 5, len(stream) - 1} {
				for fault := 0; fault < 3; fault++ {
					for _, glued := range []bool{false, true} {
						ops := []ROp{{K: 0}}
						for i := 0; i < 14; i++ {
							ops = append(ops, ROp{K: 1, M: core.Pick(rng, []int{64, 200, 4096})})
						}
						out = append(out, &ReaderSpec{Prop: 5, Server: server, Negotiated: true, RBuf: core.Pick(rng, []int{125, 4096}), Chunks: []B{B(stream[:cut])},
							Fault: fault, Glued: glued, Cmp: false, Ops: ops, Note: "compressed-cut-reads-after-error"})
					}
				}
			}
		}
	}
	// a transport failure inside a message, further Reads on the failed reader, then NextReader up to
	// and past the documented threshold: only failed NextReader calls count towards the 1000
	for _, server := range []bool{false, true} {
		for _, extra := range []int{1, 2, 7} {
			for fault := 0; fault < 3; fault++ {
				k := genKey(rng)
				stream, _ := encodeAll([]Frame{{Fin: true, Op: 1, Masked: server, Key: k, Payload: genPayload(rng, 50, k)}})
				ops := []ROp{{K: 0}, {K: 1, M: 100}, {K: 1, M: 100}}
				for i := 0; i < extra; i++ {
					ops = append(ops, ROp{K: 1, M: core.Pick(rng, []int{1, 100, 0})})
				}
				ops = append(ops, make([]ROp, 1001)...)
				out = append(out, &ReaderSpec{Prop: 5, Server: server, RBuf: 4096, Chunks: []B{B(stream[:20])}, Fault: fault, Cmp: true, Ops: ops, Note: "reads-after-failure-then-1000-next"})
			}
		}
	}
	// a frame larger than the application's buffer, which is at least as large as the read buffer
	// (reads go straight to the transport), cut exactly where a read fills the buffer, the fault
	// delivered with those bytes
	for _, server := range []bool{false, true} {
		for _, m := range []int{125, 126, 200, 256} {
			for _, rb := range []int{125, 126} {
				if m < rb {
					continue
				}
				for _, final := range []bool{true, false} {
					k := genKey(rng)
					frames := []Frame{{Fin: final, Op: 2, Masked: server, Key: k, Payload: genPayload(rng, 3*m+17, k)}}
					if !final {
						frames = append(frames, Frame{Fin: true, Op: 0, Masked: server, Key: k, Payload: genPayload(rng, 5, k)})
					}
					stream, bounds := encodeAll(frames)
					hdr := bounds[0] - (3*m + 17)
					for nfull := 1; nfull <= 3; nfull++ {
						for fault := 0; fault < 3; fault++ {
							chunks := []B{B(stream[:hdr])}
							for j := 0; j < nfull; j++ {
								chunks = append(chunks, B(stream[hdr+j*m:hdr+(j+1)*m]))
							}
							sp := &ReaderSpec{Prop: 5, Server: server, RBuf: rb, Chunks: chunks, Fault: fault, Glued: true, Cmp: true, Drains: true, Note: "cut-where-a-read-fills-the-buffer"}
							sp.Ops = []ROp{{K: 0}}
							for r := 0; r < 6; r++ {
								sp.Ops = append(sp.Ops, ROp{K: 1, M: m})
							}
							sp.Ops = append(sp.Ops, drainOps(3)...)
							out = append(out, sp)
						}
					}
				}
			}
		}
	}
	for i := 0; i < nstreams; i++ {
		server := rng.Intn(2) == 0
		negotiated := rng.Intn(4) == 0
		frames, msgs := genConformantStream(rng, server, negotiated, 1+rng.Intn(3), maxLen, rng.Intn(5) == 0, 15)
		if i%4 == 0 {
			// the shape of finding F-C05: a non-final frame larger than the read buffer, then the rest
			k := genKey(rng)
			frames = []Frame{{Fin: false, Op: 2, Masked: server, Key: k, Payload: genPayload(rng, 130+rng.Intn(300), k)},
				{Fin: true, Op: 0, Masked: server, Key: k, Payload: genPayload(rng, rng.Intn(20), k)}}
			msgs = msgs[:1]
		}
		stream, bounds := encodeAll(frames)
		cuts := make([]int, 0, len(stream)+1)
		if len(stream) <= 600 || tier == "thorough" {
			for k := 0; k <= len(stream); k++ {
				cuts = append(cuts, k)
			}
		} else {
			for _, b := range bounds {
				cuts = append(cuts, b-1, b)
			}
			for j := 0; j < 300; j++ {
				cuts = append(cuts, rng.Intn(len(stream)+1))
			}
		}
		// at every frame boundary: the full matrix of fault deliveries with a single glued/unglued chunk
		for _, b := range bounds {
			for fault := 0; fault < 3; fault++ {
				for _, glued := range []bool{false, true} {
					for _, rb := range []int{125, 4096} {
						for _, style := range []int{0, 512} {
							sp := &ReaderSpec{Prop: 5, Server: server, Negotiated: negotiated, RBuf: rb, Chunks: []B{B(stream[:b])}, Fault: fault, Glued: glued,
								Cmp: !negotiated, Drains: true, Note: "frame-boundary"}
							if style == 0 {
								sp.Ops = drainOps(len(msgs) + 2)
							} else {
								for j := 0; j < len(msgs); j++ {
									sp.Ops = append(sp.Ops, ROp{K: 0})
									for r := 0; r < 6; r++ {
										sp.Ops = append(sp.Ops, ROp{K: 1, M: style})
									}
								}
								sp.Ops = append(sp.Ops, drainOps(len(msgs)+2)...)
							}
							out = append(out, sp)
						}
					}
				}
			}
		}
		for _, k := range cuts {
			if k < 0 {
				continue
			}
			for p := 0; p < per; p++ {
				prefix := stream[:k]
				var bnd []int
				for _, b := range bounds {
					if b <= k {
						bnd = append(bnd, b)
					}
				}
				sp := &ReaderSpec{Prop: 5, Server: server, Negotiated: negotiated, RBuf: core.Pick(rng, []int{125, 125, 126, 4096, 16}),
					Chunks: chunkStream(rng, prefix, bnd), Fault: rng.Intn(3), Glued: rng.Intn(2) == 0, Cmp: !negotiated, Drains: true}
				if rng.Intn(3) == 0 {
					sp.Chunks = nil
					if len(prefix) > 0 {
						sp.Chunks = []B{B(prefix)}
					}
				}
				if sp.Fault != 0 && rng.Intn(2) == 0 && k < len(stream) {
					// transient fault: reported once, alone; afterwards the rest of the stream arrives
					sp.Glued = false
					sp.Resume = chunkStream(rng, stream[k:], nil)
					sp.Note = "transient-fault"
				}
				switch rng.Intn(4) {
				case 0:
					sp.Ops = drainOps(len(msgs) + 2)
				default:
					m := core.Pick(rng, []int{1, 7, 125, 512, 4096})
					for j := 0; j < len(msgs); j++ {
						sp.Ops = append(sp.Ops, ROp{K: 0})
						for r := 0; r < 12; r++ {
							sp.Ops = append(sp.Ops, ROp{K: 1, M: m})
						}
					}
					sp.Ops = append(sp.Ops, drainOps(len(msgs)+2)...)
				}
				out = append(out, sp)
			}
		}
	}
	return out
}

// ---------------------------------------------------------------- C06

func c06Gen(rng *rand.Rand, tier string) []core.Spec {
	n := 5000
	if tier == "thorough" {
		n = 100000
	}
	var out []core.Spec
	limits := []int{1, 2, 10, 125, 126, 512, 65535, 65536}
	for i := 0; i < n; i++ {
		server := rng.Intn(2) == 0
		L := core.Pick(rng, limits)
		if L > 600 && (tier != "thorough" && rng.Intn(12) != 0 || rng.Intn(4) != 0) {
			L = core.Pick(rng, []int{1, 2, 10, 125, 126, 512})
		}
		nm := 1 + rng.Intn(4)
		var frames []Frame
		total := func() int {
			switch rng.Intn(6) {
			case 0:
				return L - 1
			case 1, 2:
				return L
			case 3:
				if i%3 == 0 {
					return L + 1
				}
				return L
			case 4:
				if i%3 == 0 {
					return 2 * L
				}
				return rng.Intn(L + 1)
			}
			return rng.Intn(L + 1)
		}
		for m := 0; m < nm; m++ {
			t := total()
			if t < 0 {
				t = 0
			}
			nfrag := 1 + rng.Intn(4)
			rest := t
			for j := 0; j < nfrag; j++ {
				part := rest
				if j < nfrag-1 {
					part = 0
					if rest > 0 {
						part = rng.Intn(rest + 1)
					}
				}
				rest -= part
				op := 0
				if j == 0 {
					op = 1 + rng.Intn(2)
				}
				frames = append(frames, fillerFrame(rng, server, op, j == nfrag-1, part))
				if rng.Intn(4) == 0 {
					frames = append(frames, fillerFrame(rng, server, 9+rng.Intn(2), true, rng.Intn(126)))
				}
			}
		}
		note := ""
		if i%10 == 0 {
			// header-only frame claiming an enormous length
			f := fillerFrame(rng, server, 1+rng.Intn(2), rng.Intn(2) == 0, 0)
			f.LenForm = 2
			f.Decl = u64p(core.Pick(rng, []uint64{1<<63 - 1, 1 << 62, 1 << 63, ^uint64(0), 1 << 40}))
			frames = append(frames, f)
			note = "huge-declared-length"
		}
		if i%10 == 5 {
			// running sum of a fragmented message overflows int64 (or just does not): a non-empty
			// first fragment, then a continuation header claiming close to 2^63 bytes
			part := 1 + rng.Intn(L)
			frames = append(frames, fillerFrame(rng, server, 1+rng.Intn(2), false, part))
			if rng.Intn(3) == 0 {
				frames = append(frames, fillerFrame(rng, server, 9+rng.Intn(2), true, rng.Intn(20)))
			}
			f := fillerFrame(rng, server, 0, rng.Intn(2) == 0, rng.Intn(40))
			f.LenForm = 2
			f.Decl = u64p(core.Pick(rng, []uint64{1<<63 - 1, 1<<63 - uint64(part), 1<<63 - uint64(part) - 1, 1<<63 - uint64(part) + 1, 1 << 62}))
			frames = append(frames, f)
			note = "running-sum-overflow"
		}
		stream, bounds := encodeAll(frames)
		sp := &ReaderSpec{Prop: 6, Server: server, RBuf: core.Pick(rng, rbufChoices), Chunks: chunkStream(rng, stream, bounds), Fault: 0, Cmp: true, Drains: true, Note: note}
		sp.StaleWDL = rng.Intn(3) == 0
		// application-installed handlers: the 1009 close is the library's own, whatever the close handler does
		sp.Custom = rng.Intn(4) == 0
		if i%10 == 5 && rng.Intn(2) == 0 {
			L = 0
		}
		if i%10 == 0 && rng.Intn(3) == 0 {
			L = 0 // no limit: the declared length alone must not drive allocation
		}
		sp.Ops = append([]ROp{{K: 4, L: uint64(L)}}, genReadProgram(rng, nm)...)
		sp.Ops = append(sp.Ops, drainOps(nm+3)...)
		out = append(out, sp)
	}
	// the limit counts wire bytes: a compressed message of at most L wire bytes is read in full however
	// far it inflates past L
	for _, server := range []bool{false, true} {
		for _, L := range []int{64, 256, 1000} {
			for _, plain := range []int{L + 1, 4 * L, 5000, 40000} {
				var z bytes.Buffer
				fw, _ := flate.NewWriter(&z, 6)
				fw.Write(bytes.Repeat([]byte("abcdefgh"), plain/8+1)[:plain])
				fw.Flush()
				wire := z.Bytes()[:z.Len()-4]
				if len(wire) > L {
					continue
				}
				k := genKey(rng)
				for _, frames := range [][]Frame{
					{{Fin: true, Rsv: 4, Op: 1, Masked: server, Key: k, Payload: wire}},
					{{Fin: false, Rsv: 4, Op: 1, Masked: server, Key: k, Payload: wire[:len(wire)/2]}, {Fin: true, Op: 0, Masked: server, Key: k, Payload: wire[len(wire)/2:]}},
				} {
					frames = append(frames, fillerFrame(rng, server, 2, true, 3))
					stream, bounds := encodeAll(frames)
					out = append(out, &ReaderSpec{Prop: 6, Server: server, Negotiated: true, RBuf: core.Pick(rng, rbufChoices), Chunks: chunkStream(rng, stream, bounds), Cmp: true, Drains: true,
						Note: "compressed-within-wire-limit", Ops: []ROp{{K: 4, L: uint64(L)}, {K: 3}, {K: 3}, {K: 3}}})
				}
			}
		}
	}
	// the shape of F-C06: abandoned fragmented message, then a message within the limit
	for _, L := range []int{10, 125, 512} {
		for server := 0; server < 2; server++ {
			fr := []Frame{fillerFrame(rng, server == 1, 2, false, L-4), fillerFrame(rng, server == 1, 0, true, 4), fillerFrame(rng, server == 1, 1, true, L-3)}
			stream, _ := encodeAll(fr)
			out = append(out, &ReaderSpec{Prop: 6, Server: server == 1, Chunks: []B{stream}, Cmp: true, Drains: true, Note: "abandon-then-within-limit",
				Ops: []ROp{{K: 4, L: uint64(L)}, {K: 0}, {K: 3}, {K: 3}}})
		}
	}
	return out
}

// ---------------------------------------------------------------- C08

func c08Gen(rng *rand.Rand, tier string) []core.Spec {
	n := 2500
	if tier == "thorough" {
		n = 50000
	}
	var out []core.Spec
	for i := 0; i < n; i++ {
		server := rng.Intn(2) == 0
		frames, msgs := genConformantStream(rng, server, false, rng.Intn(4), 400, rng.Intn(2) == 0, 60)
		stream, bounds := encodeAll(frames)
		sp := &ReaderSpec{Prop: 8, Server: server, RBuf: core.Pick(rng, rbufChoices), Chunks: chunkStream(rng, stream, bounds), Fault: 0, Cmp: true, Drains: true}
		sp.Custom = rng.Intn(2) == 0
		if sp.Custom && rng.Intn(3) == 0 {
			sp.HFail = []int{rng.Intn(4)}
			sp.HTimeout = rng.Intn(2) == 0
		}
		sp.StaleWDL = rng.Intn(4) == 0
		sp.Ops = append(genReadProgram(rng, len(msgs)), drainOps(len(msgs)+3)...)
		if rng.Intn(3) == 0 {
			// a read limit every message fits under (messages are at most 400 bytes): control frames,
			// however many, are not counted
			sp.Ops = append([]ROp{{K: 4, L: 400}}, sp.Ops...)
		}
		out = append(out, sp)
	}
	// every accepted close code, reasons up to 123 bytes, multi-byte UTF-8 at the boundary
	codes := []int{1000, 1001, 1002, 1003, 1007, 1008, 1009, 1010, 1011, 3000, 3999, 4000, 4999}
	for _, code := range codes {
		for _, reason := range []string{"", "x", strings.Repeat("r", 123), strings.Repeat("é", 61) + "z", "日本語"} {
			for server := 0; server < 2; server++ {
				f := fillerFrame(rng, server == 1, 8, true, 0)
				f.Payload = append([]byte{byte(code >> 8), byte(code)}, reason...)
				stream, _ := encodeAll([]Frame{fillerFrame(rng, server == 1, 9, true, 125), f})
				out = append(out, &ReaderSpec{Prop: 8, Server: server == 1, Chunks: []B{stream}, Cmp: true, Drains: true, Custom: code%2 == 0, Ops: drainOps(3), Note: "close-codes"})
			}
		}
	}
	return out
}

// ---------------------------------------------------------------- C17 (server side)

func c17Gen(rng *rand.Rand, tier string) []core.Spec {
	nstreams := 25
	if tier == "thorough" {
		nstreams = 300
	}
	var out []core.Spec
	for i := 0; i < nstreams; i++ {
		negotiated := rng.Intn(4) == 0
		frames, msgs := genConformantStream(rng, true, negotiated, 1+rng.Intn(3), 120, rng.Intn(4) == 0, 15)
		stream, _ := encodeAll(frames)
		if len(stream) > 300 {
			stream = stream[:0]
			frames, msgs = genConformantStream(rng, true, negotiated, 1, 60, false, 10)
			stream, _ = encodeAll(frames)
		}
		for k := 0; k <= len(stream); k++ {
			for _, hs := range []int{16, 256, 257, 4096} {
				if k > hs {
					continue
				}
				rb := core.Pick(rng, []int{0, 0, 1, 255, 256, 4096})
				rest := stream[k:]
				var chunks []B
				if len(rest) > 0 {
					if rng.Intn(2) == 0 {
						chunks = []B{B(rest)}
					} else {
						chunks = chunkStream(rng, rest, nil)
					}
				}
				sp := &ReaderSpec{Prop: 17, Server: true, Negotiated: negotiated, RBuf: rb, BrSize: hs, Buffered: B(stream[:k]), Chunks: chunks,
					Fault: 0, Cmp: true, Drains: true, ViaUpgrade: true}
				// off the reuse path the library must take from the hijacked reader only what that reader has
				// buffered: a reader whose source is not the connection (and is at its end) shows any over-read
				sp.DetachedBr = (rb != 0 || hs <= 256) && rng.Intn(2) == 0
				if rng.Intn(2) == 0 {
					sp.Ops = drainOps(len(msgs) + 2)
				} else {
					sp.Ops = append(genReadProgram(rng, len(msgs)), drainOps(len(msgs)+2)...)
				}
				out = append(out, sp)
			}
		}
	}
	// client side: the server sends "101 response + frames"; every split of that byte string across two transport reads
	ncl := 8
	if tier == "thorough" {
		ncl = 60
	}
	for i := 0; i < ncl; i++ {
		negotiated := rng.Intn(4) == 0
		frames, msgs := genConformantStream(rng, false, negotiated, 1+rng.Intn(3), 100, rng.Intn(4) == 0, 15)
		stream, _ := encodeAll(frames)
		if len(stream) > 250 {
			continue
		}
		respLen := 129
		if negotiated {
			respLen += 103
		}
		for k := 0; k <= respLen+len(stream); k++ {
			sp := &ReaderSpec{Prop: 17, Server: false, Negotiated: negotiated, RBuf: core.Pick(rng, []int{0, 1, 16, 64, 124, 125, 256, 4096}), Chunks: []B{B(stream)},
				Fault: 0, Cmp: true, Drains: true, ViaDial: true, DialSplit: k, Ops: drainOps(len(msgs) + 2), Note: "client"}
			if len(stream) == 0 {
				sp.Chunks = nil
			}
			out = append(out, sp)
		}
	}
	return out
}

// ---------------------------------------------------------------- C07 (i) arbitrary bytes as a frame stream

func c07rGen(rng *rand.Rand, tier string) []core.Spec {
	n := 8000
	if tier == "thorough" {
		n = 300000
	}
	var out []core.Spec
	for i := 0; i < n; i++ {
		server := rng.Intn(2) == 0
		negotiated := rng.Intn(2) == 0
		var stream []byte
		switch rng.Intn(4) {
		case 0:
			stream = core.RandBytes(rng, rng.Intn(200))
		case 1: // random headers with plausible structure
			for j := rng.Intn(6); j >= 0; j-- {
				f := fillerFrame(rng, rng.Intn(4) != 0 == server, rng.Intn(16), rng.Intn(2) == 0, rng.Intn(140))
				f.Rsv = core.Pick(rng, []int{0, 0, 0, 4, 2, 1, 7})
				f.LenForm = rng.Intn(3)
				if rng.Intn(8) == 0 {
					f.Decl = u64p(rng.Uint64())
				}
				stream = append(stream, f.Encode()...)
			}
		default: // mutated conformant stream
			frames, _ := genConformantStream(rng, server, negotiated, 1+rng.Intn(3), 300, rng.Intn(3) == 0, 30)
			stream, _ = encodeAll(frames)
			for j := rng.Intn(4); j > 0 && len(stream) > 0; j-- {
				switch rng.Intn(3) {
				case 0:
					stream[rng.Intn(len(stream))] ^= byte(1 << rng.Intn(8))
				case 1:
					p := rng.Intn(len(stream))
					stream = append(stream[:p], stream[p+1:]...)
				default:
					stream = stream[:rng.Intn(len(stream)+1)]
				}
			}
		}
		sp := &ReaderSpec{Prop: 7, Server: server, Negotiated: negotiated, RBuf: core.Pick(rng, rbufChoices), Chunks: chunkStream(rng, stream, nil),
			Fault: rng.Intn(3), Glued: rng.Intn(3) == 0, Cmp: !negotiated, Drains: false, Custom: rng.Intn(2) == 0}
		sp.Ops = append(genReadProgram(rng, 1+rng.Intn(3)), drainOps(4)...)
		out = append(out, sp)
	}
	// the documented panic after 1000 failed reads
	for _, server := range []bool{false, true} {
		ops := make([]ROp, 1003)
		out = append(out, &ReaderSpec{Prop: 7, Server: server, Chunks: nil, Fault: 0, Cmp: true, Ops: ops, Note: "1000-reads"})
	}
	return out
}

func regReader(id string, rule string, gen func(*rand.Rand, string) []core.Spec, exhaustive func(string) bool) {
	core.Register(&core.Prop{ID: id, Rule: rule, Gen: withNilHandlers(gen), Exec: readerExec, Decode: decodeReaderSpec, Shrink: shrinkReader, Clauses: readerClauses, Exhaustive: exhaustive})
}

func init() {
	for k, v := range map[int]string{
		20: "a handler was invoked with something that is not a control frame preceding the violation",
		21: "no error was returned although the stream contains a framing violation",
		22: "handler log differs from the control frames before the violation",
		23: "no close frame with status 1002 was written after the violation",
		30: "a transport read request is out of proportion to the bytes received",
		31: "more than the read limit was delivered for the over-limit message",
		32: "no close frame with status 1009 was written",
		33: "reading a message exceeding the limit did not fail with ErrReadLimit",
		40: "handler log is not the control frames of the stream in wire order",
		41: "handler log incomplete or too long after draining reads",
		42: "the failing handler's error was not the final, permanent read error",
		43: "write-backs are not one pong per ping (same payload) / one close echo",
		44: "write-backs incomplete after draining reads",
		45: "the read error after a close frame is not CloseError(code, reason)",
		50: "panic",
	} {
		readerClauses[k] = v
	}
	readerClauses[18] = "a compressed message that the Spec inflate rejects was delivered as a message"
	readerClauses[19] = "ReadMessage returned data although the stream holds no further message"
	regReader("C04", "conformant prefixes (0-2 messages, optionally leaving a fragmented message open) followed by one violating frame of each class (RSV1-3, reserved opcodes, fragmented/oversized control, continuation when idle, data inside a message, wrong MASK, bad close code, non-UTF-8 reason, 64-bit length with top bit) and a suffix that must never be looked at; plus the full header alphabet 256x256 bytes x {idle,in-message} x role x negotiated (quick: a 1/8 slice with random phase; thorough: all 524288); non-trivial = non-empty stream", c04Gen, func(t string) bool { return t == "thorough" })
	regReader("C05", "conformant streams cut at every byte offset (quick: 40 streams <= ~600 bytes) x fault kind {EOF, timeout, other} x {fault alone, fault glued to the last bytes} x chunkings x ReadBufferSize {16,125,126,4096} x read sizes {ReadMessage, 1, 7, 125, 512, 4096}; includes the non-final-frame-larger-than-buffer shape", c05Gen, nil)
	regReader("C06", "limits {1,2,10,125,126,512,65535,65536} x message totals {L-1, L, L+1, 2L, random} x fragmentations with interleaved control frames x read histories (full/partial/abandoned) + header-only frames declaring 2^40..2^64-1 bytes, with and without a limit", c06Gen, nil)
	regReader("C08", "conformant streams dense in ping/pong/close frames at every position (payloads 0..125), recording handlers (optionally failing at the i-th call) or default handlers; every accepted close code x reasons up to 123 bytes incl. multi-byte UTF-8", c08Gen, nil)
	regReader("C17", "server side: Upgrader.Upgrade with a hijacked bufio.Reader of size {16,256,257,4096} preloaded with the first k bytes of the frame stream, every k, rest in the socket (whole or re-chunked), ReadBufferSize {0,1,255,256,4096}", c17Gen, nil)
	regReader("C07r", "frame-stream entry point: random bytes, structurally plausible random frames (any opcode/RSV/length form/declared length), and mutated conformant streams (bit flips, deletions, truncation) x roles x negotiated x buffer sizes x fault kinds; plus the documented 1000-read panic", c07rGen, nil)
}
