package props

import (
	"encoding/json"
	"math/rand"
	"strconv"
	"strings"

	"verif/harness/core"
)

// C02m: several connections whose write programs are interleaved op by op (one goroutine per
// connection, a turn-taking scheduler): what package-level state they share - the flate writer
// pools - must not let one connection's messages leak into or corrupt another's.  Every
// connection is judged on its own by the C02 / C10 predicates.

type MultiSpec struct {
	Conns []*WriterSpec `json:"conns"`
	Sched []int         `json:"sched"` // the connection that performs its next op, in order
	SharedPool bool      `json:"shared_pool,omitempty"` // the pooled connections share one BufferPool
}

func multiExec(s core.Spec) core.Exec {
	sp := s.(*MultiSpec)
	n := len(sp.Conns)
	shared := &sharedFree{}
	type msg struct{ done bool }
	req := make([]chan msg, n)
	grant := make([]chan struct{}, n)
	tapes := make([]string, n)
	panicked := make([]bool, n)
	fin := make(chan int, n)
	for i := range sp.Conns {
		req[i] = make(chan msg)
		grant[i] = make(chan struct{})
		c := *sp.Conns[i]
		i := i
		if c.Pooled && sp.SharedPool {
			c.shared = shared
		}
		c.turn = func(int) { req[i] <- msg{}; <-grant[i] }
		c.finish = func() {}
		go func() {
			defer func() {
				if r := recover(); r != nil {
					// e.g. compress/flate panicking because two connections drive one flate.Writer
					panicked[i] = true
					req[i] <- msg{done: true}
					fin <- i
				}
			}()
			ex, _ := writerRun(&c)
			tapes[i] = ex.Tape
			req[i] <- msg{done: true}
			fin <- i
		}()
	}
	alive := make([]bool, n)
	waiting := make([]bool, n) // the connection is parked in turn()
	for i := range alive {
		alive[i] = true
	}
	// wait until connection i is parked before its next op, or has finished
	settle := func(i int) {
		if !alive[i] || waiting[i] {
			return
		}
		m := <-req[i]
		if m.done {
			alive[i] = false
		} else {
			waiting[i] = true
		}
	}
	for i := 0; i < n; i++ {
		settle(i)
	}
	step := func(i int) {
		if !alive[i] || !waiting[i] {
			return
		}
		waiting[i] = false
		grant[i] <- struct{}{}
		settle(i) // the op has been performed when the connection asks for its next turn
	}
	for _, i := range sp.Sched {
		if i >= 0 && i < n {
			step(i)
		}
	}
	for i := 0; i < n; i++ { // whatever the schedule left over, in connection order
		for alive[i] {
			step(i)
		}
	}
	for i := range panicked {
		if panicked[i] {
			return core.Exec{Tape: "70 1 0 0 1", Tags: []string{"PANIC", core.Tag("conns:%d", n)}, Nontrivial: true}
		}
	}
	t := core.NewTape(25)
	t.N(n)
	var sb strings.Builder
	sb.WriteString(t.String())
	wrote := false
	for _, tp := range tapes {
		f := strings.Fields(tp)
		// drop the kind number of the sub-tape (and C02's mask-hook flag is never set here)
		sb.WriteString(" " + strconv.Itoa(len(f)-1) + " " + strings.Join(f[1:], " "))
		if len(f) > 40 {
			wrote = true
		}
	}
	return core.Exec{Tape: sb.String(), Tags: []string{core.Tag("conns:%d", n)}, Nontrivial: wrote}
}

func c02mGen(rng *rand.Rand, tier string) []core.Spec {
	n := 150
	if tier == "thorough" {
		n = 4000
	}
	var out []core.Spec
	for i := 0; i < n; i++ {
		sp := &MultiSpec{SharedPool: rng.Intn(2) == 0}
		nc := 2 + rng.Intn(3)
		for k := 0; k < nc; k++ {
			c := &WriterSpec{Prop: 20, Server: rng.Intn(2) == 0, WBuf: core.Pick(rng, []int{125, 1024, 0}), Negotiated: rng.Intn(4) != 0, FailAt: -1}
			if sp.SharedPool {
				// same buffer size everywhere: a pool hands any buffer to any connection
				c.Pooled, c.WBuf, c.Negotiated = true, 1024, rng.Intn(3) == 0
			}
			// 1-3 messages by NextWriter / Write / Close (so that compressed writers stay open across
			// the other connections' turns), sometimes closed twice, sometimes left to the implicit close
			for m := 1 + rng.Intn(3); m > 0; m-- {
				c.Ops = append(c.Ops, WOp{K: 1, Ty: 1 + rng.Intn(2)})
				for w := 1 + rng.Intn(3); w > 0; w-- {
					c.Ops = append(c.Ops, WOp{K: 2, Data: genWPayload(rng, core.Pick(rng, []int{0, 5, 200, 1500}))})
				}
				if rng.Intn(5) != 0 {
					c.Ops = append(c.Ops, WOp{K: 5})
					if rng.Intn(3) == 0 {
						c.Ops = append(c.Ops, WOp{K: 5})
					}
				}
				if rng.Intn(4) == 0 {
					c.Ops = append(c.Ops, WOp{K: 0, Ty: 2, Data: genWPayload(rng, rng.Intn(300))})
				}
			}
			if k == 0 && rng.Intn(2) == 0 {
				// the first connection loses its transport part-way
				c.FailAt, c.FailKind = rng.Intn(6), rng.Intn(2)
			}
			sp.Conns = append(sp.Conns, c)
		}
		total := 0
		for _, c := range sp.Conns {
			total += len(c.Ops)
		}
		for j := 0; j < total+4; j++ {
			sp.Sched = append(sp.Sched, rng.Intn(nc))
		}
		out = append(out, sp)
	}
	return out
}

func init() {
	core.Register(&core.Prop{
		ID:   "C02m",
		Rule: "2-4 connections (roles, buffer sizes, compression negotiated on three in four) whose write programs (messages through NextWriter / Write / Close, writers closed twice or left to the implicit close, WriteMessage in between; the first connection's transport failing at a random operation in half of the cases) are interleaved op by op in a random order, so that compressed writers of different connections are open at the same time and the package-level flate writer pool is shared; each connection's log is judged on its own (Spec decoder + Spec inflate + the abstract writer)",
		Gen:  c02mGen,
		Exec: multiExec,
		Decode: func(raw json.RawMessage) (core.Spec, error) {
			var s MultiSpec
			err := json.Unmarshal(raw, &s)
			return &s, err
		},
		Clauses: c02mClauses(),
	})
}

func c02mClauses() map[int]string {
	m := map[int]string{50: "a write call panicked"}
	for k, v := range writerClauses {
		m[k] = v
	}
	return m
}
