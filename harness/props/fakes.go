package props

import (
	"bufio"
	"bytes"
	"errors"
	"io"
	"net"
	"net/http"
	"sync"
	"time"
)

// ---------------------------------------------------------------- scripted / recording net.Conn

type timeoutErr struct{}

func (timeoutErr) Error() string   { return "verif: i/o timeout" }
func (timeoutErr) Timeout() bool   { return true }
func (timeoutErr) Temporary() bool { return true }

var errOther = errors.New("verif: transport failure")

// fault kinds: 0 EOF, 1 timeout, 2 other
func faultErr(k int) error {
	switch k {
	case 0:
		return io.EOF
	case 1:
		return timeoutErr{}
	}
	return errOther
}

func errKind(err error) int {
	switch {
	case err == nil:
		return 0
	case err == io.EOF:
		return 1
	}
	if ne, ok := err.(net.Error); ok && ne.Timeout() {
		return 2
	}
	if err == errOther {
		return 3
	}
	return 4
}

type Event struct {
	Kind string // write, setwdl, setdl, setrdl, close
	Data []byte
	DL   time.Time
}

// ScriptConn: reads follow a script of chunks then a fault; writes and deadline calls are
// recorded; the FailOp-th write-side operation (0-based; -1 never) fails with FailKind.
type ScriptConn struct {
	mu       sync.Mutex
	Chunks   [][]byte
	Fault    int
	Glued    bool // fault delivered together with the last chunk
	MaxRead  int  // largest request seen
	Reads    int
	Delivered int // bytes handed to the reader so far
	Events   []Event
	FailOp   int
	FailKind int // 0 error, 1 timeout, 2 short write (ShortN bytes) + error
	ShortN   int
	ops      int
	failed   bool
	Closed   bool
	// Resume: the fault is transient: it is reported once (alone, never together with bytes),
	// after which the transport goes on delivering these chunks (then fails for good).
	Resume [][]byte
}

func NewScriptConn(chunks [][]byte, fault int, glued bool) *ScriptConn {
	cs := make([][]byte, 0, len(chunks))
	for _, c := range chunks {
		if len(c) > 0 {
			cs = append(cs, c)
		}
	}
	return &ScriptConn{Chunks: cs, Fault: fault, Glued: glued, FailOp: -1}
}

func (c *ScriptConn) Read(p []byte) (int, error) {
	c.mu.Lock()
	defer c.mu.Unlock()
	c.Reads++
	if len(p) > c.MaxRead {
		c.MaxRead = len(p)
	}
	if len(c.Chunks) == 0 {
		if len(c.Resume) > 0 {
			c.Chunks, c.Resume = c.Resume, nil
		}
		return 0, faultErr(c.Fault)
	}
	if len(p) == 0 {
		return 0, nil
	}
	ch := c.Chunks[0]
	if len(ch) <= len(p) {
		n := copy(p, ch)
		c.Delivered += n
		c.Chunks = c.Chunks[1:]
		if len(c.Chunks) == 0 && c.Glued {
			c.Glued = false
			return n, faultErr(c.Fault)
		}
		return n, nil
	}
	n := copy(p, ch[:len(p)])
	c.Delivered += n
	c.Chunks[0] = ch[n:]
	return n, nil
}

func (c *ScriptConn) wop() (fail bool) {
	i := c.ops
	c.ops++
	return c.FailOp >= 0 && i == c.FailOp
}

func (c *ScriptConn) failErr() error {
	if c.FailKind == 1 {
		return timeoutErr{}
	}
	return errOther
}

func (c *ScriptConn) Write(p []byte) (int, error) {
	c.mu.Lock()
	defer c.mu.Unlock()
	if c.wop() {
		n := 0
		if c.FailKind == 2 {
			n = c.ShortN
			if n > len(p) {
				n = len(p)
			}
			if n == len(p) && n > 0 {
				n--
			}
		}
		c.Events = append(c.Events, Event{Kind: "write-fail", Data: append([]byte(nil), p[:n]...)})
		return n, c.failErr()
	}
	c.Events = append(c.Events, Event{Kind: "write", Data: append([]byte(nil), p...)})
	return len(p), nil
}

func (c *ScriptConn) SetWriteDeadline(t time.Time) error {
	c.mu.Lock()
	defer c.mu.Unlock()
	if c.wop() {
		c.Events = append(c.Events, Event{Kind: "setwdl-fail", DL: t})
		return c.failErr()
	}
	c.Events = append(c.Events, Event{Kind: "setwdl", DL: t})
	return nil
}
func (c *ScriptConn) SetDeadline(t time.Time) error {
	c.mu.Lock()
	defer c.mu.Unlock()
	if c.wop() {
		c.Events = append(c.Events, Event{Kind: "setdl-fail", DL: t})
		return c.failErr()
	}
	c.Events = append(c.Events, Event{Kind: "setdl", DL: t})
	return nil
}
func (c *ScriptConn) SetReadDeadline(t time.Time) error {
	c.mu.Lock()
	defer c.mu.Unlock()
	c.Events = append(c.Events, Event{Kind: "setrdl", DL: t})
	return nil
}
func (c *ScriptConn) Close() error {
	c.mu.Lock()
	defer c.mu.Unlock()
	c.Closed = true
	c.Events = append(c.Events, Event{Kind: "close"})
	return nil
}
func (c *ScriptConn) LocalAddr() net.Addr  { return &net.TCPAddr{IP: net.IPv4(127, 0, 0, 1), Port: 1} }
func (c *ScriptConn) RemoteAddr() net.Addr { return &net.TCPAddr{IP: net.IPv4(127, 0, 0, 1), Port: 2} }

// Written returns the concatenation of all successful write payloads (and partial ones).
func (c *ScriptConn) Written() []byte {
	c.mu.Lock()
	defer c.mu.Unlock()
	var b bytes.Buffer
	for _, e := range c.Events {
		if e.Kind == "write" || e.Kind == "write-fail" {
			b.Write(e.Data)
		}
	}
	return b.Bytes()
}

// ---------------------------------------------------------------- recording ResponseWriter + Hijacker

type FakeRW struct {
	H          http.Header
	Status     int
	Body       bytes.Buffer
	Conn       net.Conn
	Hijacked   bool
	HijackCalled bool
	HijackErr  error
	BrSize     int
	Buffered   []byte // bytes already in the hijacked bufio.Reader
	BwSize     int
	Detached   bool // the bufio.Reader handed out reads from a source of its own that ends after Buffered
}

func (w *FakeRW) Header() http.Header { return w.H }
func (w *FakeRW) WriteHeader(s int) {
	if w.Status == 0 {
		w.Status = s
	}
}
func (w *FakeRW) Write(p []byte) (int, error) {
	if w.Status == 0 {
		w.Status = 200
	}
	return w.Body.Write(p)
}
func (w *FakeRW) Hijack() (net.Conn, *bufio.ReadWriter, error) {
	w.HijackCalled = true
	if w.HijackErr != nil {
		return nil, nil, w.HijackErr
	}
	w.Hijacked = true
	brs, bws := w.BrSize, w.BwSize
	if brs == 0 {
		brs = 4096
	}
	if bws == 0 {
		bws = 4096
	}
	var br *bufio.Reader
	if w.Detached {
		br = bufio.NewReaderSize(bytes.NewReader(w.Buffered), brs)
		br.Peek(len(w.Buffered))
	} else if len(w.Buffered) > 0 {
		// a reader whose buffer already holds w.Buffered and whose source is the conn
		br = bufio.NewReaderSize(io.MultiReader(bytes.NewReader(w.Buffered), w.Conn), brs)
		br.Peek(len(w.Buffered))
	} else {
		br = bufio.NewReaderSize(w.Conn, brs)
	}
	return w.Conn, bufio.NewReadWriter(br, bufio.NewWriterSize(w.Conn, bws)), nil
}

func NewFakeRW(conn net.Conn) *FakeRW { return &FakeRW{H: http.Header{}, Conn: conn} }
