package props

import (
	"bufio"
	"io"
	"bytes"
	"crypto/sha1"
	"encoding/base64"
	"encoding/json"
	"fmt"
	"math/rand"
	"net"
	"net/http"
	"net/textproto"
	"net/url"
	"sort"
	"strings"
	"sync"
	"time"

	"verif/harness/core"

	"github.com/gorilla/websocket"
)

// ---------------------------------------------------------------- reactive scripted conn for Dial

// reactConn collects what the client writes; at the first Read it asks respond() for the bytes
// the server sends (in chunks) and then plays them, followed by a fault.
type reactConn struct {
	mu       sync.Mutex
	written  bytes.Buffer
	respond  func(req []byte) [][]byte
	chunks   [][]byte
	ready    bool
	fault    int
	events   []string
	ops      int
	failAt   int // -1 none; index over all operations (read, write, setdl, setrdl, setwdl)
	failKind int // 0 error 1 timeout 2 EOF(read only, else error)
	closed   int
	lastDL   time.Time
	dlArmed  bool
	ioNoDL   int // I/O operations performed with no deadline armed
}

func (c *reactConn) op(kind string) (fail bool) {
	i := c.ops
	c.ops++
	c.events = append(c.events, kind)
	return c.failAt >= 0 && i == c.failAt
}
func (c *reactConn) ferr(read bool) error {
	switch c.failKind {
	case 1:
		return timeoutErr{}
	case 2:
		if read {
			return errEOFlike
		}
	}
	return errOther
}

var errEOFlike = fmt.Errorf("EOF")

func (c *reactConn) Read(p []byte) (int, error) {
	c.mu.Lock()
	defer c.mu.Unlock()
	if !c.dlArmed {
		c.ioNoDL++
	}
	if c.op("read") {
		if c.failKind == 2 {
			return 0, io.EOF
		}
		return 0, c.ferr(true)
	}
	if !c.ready {
		c.ready = true
		if c.respond != nil {
			c.chunks = c.respond(c.written.Bytes())
		}
	}
	for len(c.chunks) > 0 && len(c.chunks[0]) == 0 {
		c.chunks = c.chunks[1:]
	}
	if len(c.chunks) == 0 {
		return 0, faultErr(c.fault)
	}
	n := copy(p, c.chunks[0])
	c.chunks[0] = c.chunks[0][n:]
	return n, nil
}
func (c *reactConn) Write(p []byte) (int, error) {
	c.mu.Lock()
	defer c.mu.Unlock()
	if !c.dlArmed {
		c.ioNoDL++
	}
	if c.op("write") {
		return 0, c.ferr(false)
	}
	c.written.Write(p)
	return len(p), nil
}
func (c *reactConn) setdl(kind string, t time.Time) error {
	c.mu.Lock()
	defer c.mu.Unlock()
	if c.op(kind) {
		return c.ferr(false)
	}
	if kind == "setdl" {
		c.lastDL = t
		c.dlArmed = !t.IsZero()
		if t.IsZero() {
			c.events[len(c.events)-1] = "setdl-zero"
		}
	}
	return nil
}
func (c *reactConn) SetDeadline(t time.Time) error      { return c.setdl("setdl", t) }
func (c *reactConn) SetReadDeadline(t time.Time) error  { return c.setdl("setrdl", t) }
func (c *reactConn) SetWriteDeadline(t time.Time) error { return c.setdl("setwdl", t) }
func (c *reactConn) Close() error {
	c.mu.Lock()
	defer c.mu.Unlock()
	c.closed++
	c.events = append(c.events, "close")
	return nil
}
func (c *reactConn) LocalAddr() net.Addr  { return &net.TCPAddr{IP: net.IPv4(127, 0, 0, 1), Port: 1} }
func (c *reactConn) RemoteAddr() net.Addr { return &net.TCPAddr{IP: net.IPv4(127, 0, 0, 1), Port: 2} }

// independent request parser (no net/http): request line + header multimap with canonical names
type parsedReq struct {
	Method, Target string
	Hdr            map[string][]string
	Order          []string
}

func parseRequest(b []byte) (*parsedReq, bool) {
	i := bytes.Index(b, []byte("\r\n\r\n"))
	if i < 0 {
		return nil, false
	}
	lines := strings.Split(string(b[:i]), "\r\n")
	f := strings.SplitN(lines[0], " ", 3)
	if len(f) != 3 {
		return nil, false
	}
	pr := &parsedReq{Method: f[0], Target: f[1], Hdr: map[string][]string{}}
	for _, l := range lines[1:] {
		j := strings.Index(l, ":")
		if j < 0 {
			return nil, false
		}
		k := textproto.CanonicalMIMEHeaderKey(l[:j])
		pr.Hdr[k] = append(pr.Hdr[k], strings.TrimPrefix(l[j+1:], " "))
		pr.Order = append(pr.Order, k)
	}
	return pr, true
}

func acceptFor(key string) string {
	h := sha1.Sum([]byte(key + "258EAFA5-E914-47DA-95CA-C5AB0DC85B11"))
	return base64.StdEncoding.EncodeToString(h[:])
}

// ---------------------------------------------------------------- C14 spec

type ReplySpec struct {
	Status     int    `json:"status"`
	Reason     string `json:"reason"`
	Hdr        []KV   `json:"hdr"`         // names as sent
	AcceptMode int    `json:"accept_mode"` // 0 correct 1 random 2 other key 3 absent 4 wrong first then correct 5 correct with junk appended 6 one letter in the other case 7 upper-cased 8 one character replaced
	BodyLen    int    `json:"body_len,omitempty"`
}

type DialSpec struct {
	Prop        int       `json:"prop"`
	URL         string    `json:"url"`
	Subprotos   []string  `json:"subprotocols,omitempty"`
	Compression bool      `json:"enable_compression"`
	Caller      []KV      `json:"caller_header,omitempty"`
	Reply       ReplySpec `json:"reply"`
	Note        string    `json:"note,omitempty"`
	// ViaNewClient: the handshake goes through the deprecated NewClient(netConn, u, header, 0, 0) with
	// u = url.Parse(URL) (documented as Dialer.Dial on u.String() over the given connection); only when
	// the URL parses and neither subprotocols nor compression are requested (NewClient has no such options)
	ViaNewClient bool `json:"via_new_client,omitempty"`
	// SplitReply: the server's reply reaches the client in pieces - the header block, then the body
	// in runs of 1..700 bytes (SplitSeed) - instead of one segment
	SplitReply bool  `json:"split_reply,omitempty"`
	SplitSeed  int64 `json:"split_seed,omitempty"`
}

func buildReply(rs *ReplySpec, key string) ([]byte, http.Header) {
	var b bytes.Buffer
	fmt.Fprintf(&b, "HTTP/1.1 %d %s\r\n", rs.Status, rs.Reason)
	hdr := http.Header{}
	add := func(k, v string) {
		fmt.Fprintf(&b, "%s: %s\r\n", k, v)
		ck := textproto.CanonicalMIMEHeaderKey(k)
		hdr[ck] = append(hdr[ck], strings.TrimRight(strings.TrimLeft(v, " \t"), " \t"))
	}
	for _, kv := range rs.Hdr {
		for _, v := range kv.V {
			add(string(kv.K), string(v))
		}
	}
	switch rs.AcceptMode {
	case 0:
		add("Sec-WebSocket-Accept", acceptFor(key))
	case 1:
		add("Sec-WebSocket-Accept", base64.StdEncoding.EncodeToString([]byte("01234567890123456789")))
	case 2:
		add("Sec-WebSocket-Accept", acceptFor("dGhlIHNhbXBsZSBub25jZQ=="))
	case 4:
		add("Sec-WebSocket-Accept", "bogus")
		add("sec-websocket-accept", acceptFor(key))
	case 5:
		add("Sec-WebSocket-Accept", acceptFor(key)+"x")
	case 6, 7, 8:
		// near misses of the right digest: one letter in the other case, all upper case, one
		// character replaced (base64 is case sensitive: each is the digest of something else)
		a := []byte(acceptFor(key))
		switch rs.AcceptMode {
		case 6:
			for i, ch := range a {
				if ch >= 'a' && ch <= 'z' {
					a[i] = ch - 32
					break
				} else if ch >= 'A' && ch <= 'Z' {
					a[i] = ch + 32
					break
				}
			}
		case 7:
			a = []byte(strings.ToUpper(string(a)))
		default:
			if a[5] == 'A' {
				a[5] = 'B'
			} else {
				a[5] = 'A'
			}
		}
		add("Sec-WebSocket-Accept", string(a))
	}
	if rs.BodyLen > 0 || rs.Status != 101 {
		fmt.Fprintf(&b, "Content-Length: %d\r\n", rs.BodyLen)
	}
	b.WriteString("\r\n")
	b.Write(bytes.Repeat([]byte("b"), rs.BodyLen))
	return b.Bytes(), hdr
}

func schemeCode(s string) int {
	switch s {
	case "ws":
		return 0
	case "wss":
		return 1
	}
	return 2
}

func dialExec(s core.Spec) core.Exec {
	sp := s.(*DialSpec)
	var conn *reactConn
	dialed := 0
	var replyHdr http.Header
	bodyAvail := 0
	var reqSeen *parsedReq
	d := websocket.Dialer{Subprotocols: sp.Subprotos, EnableCompression: sp.Compression}
	d.NetDial = func(network, addr string) (net.Conn, error) {
		dialed++
		conn = &reactConn{failAt: -1}
		conn.respond = func(req []byte) [][]byte {
			pr, ok := parseRequest(req)
			key := ""
			if ok {
				reqSeen = pr
				if v := pr.Hdr["Sec-Websocket-Key"]; len(v) > 0 {
					key = v[0]
				}
			}
			rb, _ := buildReply(&sp.Reply, key)
			// what websocket will see of it: the header as net/http parses it (oracle)
			if pr, perr := http.ReadResponse(bufio.NewReader(bytes.NewReader(rb)), &http.Request{Method: "GET"}); perr == nil {
				replyHdr = pr.Header
				var bb bytes.Buffer
				bb.ReadFrom(pr.Body)
				bodyAvail = bb.Len()
			}
			if sp.SplitReply {
				if i := bytes.Index(rb, []byte("\r\n\r\n")); i >= 0 {
					r2 := rand.New(rand.NewSource(sp.SplitSeed))
					out := [][]byte{rb[:i+4]}
					for rest := rb[i+4:]; len(rest) > 0; {
						k := 1 + r2.Intn(700)
						if k > len(rest) {
							k = len(rest)
						}
						out = append(out, rest[:k])
						rest = rest[k:]
					}
					return out
				}
			}
			return [][]byte{rb}
		}
		return conn, nil
	}
	caller := http.Header{}
	sorted := append([]KV(nil), sp.Caller...)
	sort.SliceStable(sorted, func(i, j int) bool { return bytes.Compare(sorted[i].K, sorted[j].K) < 0 })
	for _, kv := range sorted {
		caller[string(kv.K)] = append(caller[string(kv.K)], strs(kv.V)...)
	}
	var c *websocket.Conn
	var resp *http.Response
	var err error
	theURL := sp.URL
	if u0, e0 := url.Parse(sp.URL); sp.ViaNewClient && e0 == nil && len(sp.Subprotos) == 0 && !sp.Compression {
		theURL = u0.String()
		nc, _ := d.NetDial("tcp", u0.Host)
		dialed = 0
		c, resp, err = websocket.NewClient(nc, u0, caller, 0, 0)
	} else {
		c, resp, err = d.Dial(sp.URL, caller)
	}

	pu, perr := url.Parse(theURL)
	t := core.NewTape(sp.Prop)
	if perr != nil {
		// url.Parse itself refuses: outside the model (oracle failure); encode as "other scheme"
		t.N(2).N(0).Str("")
	} else {
		t.N(schemeCode(pu.Scheme)).Bool(pu.User != nil).Str(pu.Host)
	}
	key := ""
	if reqSeen != nil {
		if v := reqSeen.Hdr["Sec-Websocket-Key"]; len(v) > 0 {
			key = v[0]
		}
	}
	t.Str(key).StrList(sp.Subprotos).Bool(sp.Compression)
	keys := []string{}
	for k := range caller {
		keys = append(keys, k)
	}
	sort.Strings(keys)
	t.N(len(keys))
	for _, k := range keys {
		t.Str(k).StrList(caller[k])
	}
	t.N(sp.Reply.Status)
	for _, k := range []string{"Upgrade", "Connection", "Sec-Websocket-Accept", "Sec-Websocket-Extensions", "Sec-Websocket-Protocol"} {
		t.StrList(replyHdr[k])
	}
	t.N(bodyAvail)
	sent := conn != nil && conn.written.Len() > 0
	t.Bool(sent)
	if perr == nil {
		t.Str(pu.RequestURI())
	} else {
		t.Str("")
	}

	tags := []string{}
	if theURL != sp.URL || (sp.ViaNewClient && theURL == sp.URL && len(sp.Subprotos) == 0 && !sp.Compression && perr == nil) {
		tags = append(tags, "via:NewClient")
	}
	switch {
	case err == nil && c != nil:
		cw, cr := c.VerifCompressionNegotiated()
		t.N(4).Bool(cw && cr).Str(c.Subprotocol())
		if cw != cr {
			tags = append(tags, "compression-half-installed")
		}
		tags = append(tags, "outcome:connected")
	case err == websocket.ErrBadHandshake:
		n := 0
		if resp != nil && resp.Body != nil {
			var buf bytes.Buffer
			buf.ReadFrom(resp.Body)
			n = buf.Len()
		}
		t.N(2).N(n)
		tags = append(tags, "outcome:bad-handshake")
	case err == sentinels["errInvalidCompression"]:
		t.N(3)
		tags = append(tags, "outcome:invalid-compression")
	case err == sentinels["errMalformedURL"] || (perr != nil && err != nil && dialed == 0):
		t.N(0)
		tags = append(tags, "outcome:malformed-url")
	case err != nil && strings.HasPrefix(err.Error(), "websocket: duplicate header not allowed: "):
		t.N(1)
		tags = append(tags, "outcome:duplicate-header")
	default:
		t.N(9)
		tags = append(tags, "outcome:other-error")
	}
	if sent && reqSeen != nil && (err == nil || err == websocket.ErrBadHandshake || err == sentinels["errInvalidCompression"]) {
		host := ""
		if v := reqSeen.Hdr["Host"]; len(v) > 0 {
			host = v[0]
		}
		t.Str(reqSeen.Target).Str(host)
		hk := []string{}
		for k := range reqSeen.Hdr {
			if k != "Host" && k != "User-Agent" {
				hk = append(hk, k)
			}
		}
		sort.Strings(hk)
		t.N(len(hk))
		for _, k := range hk {
			t.Str(k).StrList(reqSeen.Hdr[k])
		}
	}
	if dialed > 0 && !sent {
		tags = append(tags, "dialed-without-sending")
	}
	return core.Exec{Tape: t.String(), Tags: tags, Nontrivial: true}
}

func decodeDial(raw json.RawMessage) (core.Spec, error) {
	var s DialSpec
	err := json.Unmarshal(raw, &s)
	return &s, err
}

func genReply(rng *rand.Rand) ReplySpec {
	rs := ReplySpec{Status: 101, Reason: "Switching Protocols"}
	mode := func() int {
		switch rng.Intn(10) {
		case 0:
			return 1
		case 1:
			return 2
		}
		return 0
	}
	rs.Hdr = append(rs.Hdr, KV{K: B(core.Pick(rng, []string{"Upgrade", "upgrade", "UPGRADE"})), V: genTokenList(rng, "websocket", mode())})
	rs.Hdr = append(rs.Hdr, KV{K: B(core.Pick(rng, []string{"Connection", "connection"})), V: genTokenList(rng, "upgrade", mode())})
	switch rng.Intn(12) {
	case 0:
		rs.Status, rs.Reason = core.Pick(rng, []int{200, 400, 403, 404, 426, 500, 100, 301}), "Status"
	case 1:
		rs.Hdr = rs.Hdr[:1]
	case 2:
		rs.Hdr = rs.Hdr[1:]
	}
	rs.AcceptMode = core.Pick(rng, []int{0, 0, 0, 0, 0, 0, 1, 2, 3, 4, 5, 6, 7, 8})
	if rng.Intn(3) == 0 {
		exts := []string{"permessage-deflate; server_no_context_takeover; client_no_context_takeover", "permessage-deflate", "permessage-deflate; server_no_context_takeover",
			"permessage-deflate; client_no_context_takeover", "foo, permessage-deflate; client_no_context_takeover; server_no_context_takeover", "bar; x=1",
			"permessage-deflate; client_no_context_takeover; server_no_context_takeover; client_max_window_bits=10", "PERMESSAGE-DEFLATE; server_no_context_takeover; client_no_context_takeover",
			"permessage-deflate; server_no_context_takeover=1; client_no_context_takeover=\"x\""}
		var vs []B
		for n := 1 + rng.Intn(2); n > 0; n-- {
			vs = append(vs, B(core.Pick(rng, exts)))
		}
		rs.Hdr = append(rs.Hdr, KV{K: B("Sec-WebSocket-Extensions"), V: vs})
	}
	if rng.Intn(4) == 0 {
		rs.Hdr = append(rs.Hdr, KV{K: B("Sec-WebSocket-Protocol"), V: []B{B(core.Pick(rng, []string{"chat", "x", ""}))}})
	}
	if rs.Status != 101 || rng.Intn(8) == 0 {
		rs.BodyLen = core.Pick(rng, []int{0, 1, 1023, 1024, 1025, 5000})
		if rs.Status == 101 {
			rs.BodyLen = 0
		}
	}
	return rs
}

func c14Gen(rng *rand.Rand, tier string) []core.Spec {
	n := 3000
	if tier == "thorough" {
		n = 80000
	}
	var out []core.Spec
	hosts := []string{"example.com", "example.com:8080", "[::1]", "[::1]:9000", "127.0.0.1:80", "EXAMPLE.com", "a-b.c"}
	for i := 0; i < n; i++ {
		scheme := core.Pick(rng, []string{"ws", "ws", "ws", "wss", "http", "https", "", "WS", "ftp"})
		if scheme == "wss" {
			scheme = "ws" // TLS paths are C18's
		}
		user := core.Pick(rng, []string{"", "", "", "u@", "u:p@", ":@"})
		path := core.Pick(rng, []string{"", "/", "/chat", "/a/b?x=1&y=2", "/%41?q=%20", "?only=query", "/a#frag"})
		u := scheme + "://" + user + core.Pick(rng, hosts) + path
		if scheme == "" {
			u = core.Pick(rng, hosts) + path
		}
		sp := &DialSpec{Prop: 14, URL: u, Compression: rng.Intn(2) == 0, Reply: genReply(rng)}
		if rng.Intn(3) == 0 {
			sp.Subprotos = core.Pick(rng, [][]string{{"chat"}, {"chat", "superchat"}, {"a", "b", "c"}})
		}
		if rng.Intn(2) == 0 {
			names := []string{"X-Custom", "Cookie", "Origin", "Host", "host", "Authorization", "Sec-Websocket-Protocol", "sec-websocket-protocol",
				"Sec-WebSocket-Key", "sec-websocket-key", "Sec-Websocket-Key", "upgrade", "Upgrade", "CONNECTION", "Sec-WebSocket-Version", "sec-websocket-extensions", "Sec-Websocket-Extensions", "User-Agent-X"}
			for k := 1 + rng.Intn(2); k > 0; k-- {
				name := core.Pick(rng, names)
				if rng.Intn(3) != 0 && strings.Contains(strings.ToLower(name), "sec-websocket-") && !strings.Contains(strings.ToLower(name), "protocol") {
					name = core.Pick(rng, []string{"X-Custom", "Cookie", "Origin", "Host"})
				}
				dup := false
				for _, kv := range sp.Caller {
					if strings.EqualFold(string(kv.K), name) {
						dup = true
					}
				}
				if dup {
					continue
				}
				sp.Caller = append(sp.Caller, KV{K: B(name), V: []B{B(core.Pick(rng, []string{"v1", "other.example", "AAAAAAAAAAAAAAAAAAAAAA==", "h2c", "chat"}))}})
			}
		}
		if rng.Intn(3) == 0 {
			sp.SplitReply, sp.SplitSeed = true, rng.Int63()
		}
		// one case in five goes through the deprecated NewClient (which has neither option)
		if rng.Intn(5) == 0 {
			sp.ViaNewClient, sp.Compression, sp.Subprotos = true, false, nil
		}
		out = append(out, sp)
	}
	return out
}

func shrinkDial(s core.Spec) []core.Spec {
	sp := s.(*DialSpec)
	var out []core.Spec
	cp := func() *DialSpec { c := *sp; return &c }
	for i := range sp.Caller {
		c := cp()
		c.Caller = append(append([]KV(nil), sp.Caller[:i]...), sp.Caller[i+1:]...)
		out = append(out, c)
	}
	if len(sp.Subprotos) > 0 {
		c := cp()
		c.Subprotos = nil
		out = append(out, c)
	}
	if sp.Compression {
		c := cp()
		c.Compression = false
		out = append(out, c)
	}
	for i := range sp.Reply.Hdr {
		if i < 2 {
			continue
		}
		c := cp()
		c.Reply.Hdr = append(append([]KV(nil), sp.Reply.Hdr[:i]...), sp.Reply.Hdr[i+1:]...)
		out = append(out, c)
	}
	if sp.Reply.BodyLen > 0 {
		c := cp()
		c.Reply.BodyLen = 0
		out = append(out, c)
	}
	return out
}

// C15, client half: replies that announce permessage-deflate with both, one or none of the
// no-context-takeover parameters, in every arrangement
func c15rGen(rng *rand.Rand, tier string) []core.Spec {
	params := [][]string{
		{}, {"server_no_context_takeover"}, {"client_no_context_takeover"},
		{"server_no_context_takeover", "client_no_context_takeover"}, {"client_no_context_takeover", "server_no_context_takeover"},
		{"server_no_context_takeover", "client_max_window_bits=15"}, {"client_no_context_takeover", "server_max_window_bits=10"},
		{"server_no_context_takeover", "client_no_context_takeover", "client_max_window_bits=10"},
		{"server_no_context_takeover", "server_no_context_takeover"}, {"client_max_window_bits"},
	}
	var out []core.Spec
	for _, ps := range params {
		ext := "permessage-deflate"
		for _, p := range ps {
			ext += core.Pick(rng, []string{"; ", ";", " ; "}) + p
		}
		for _, arrangement := range []int{0, 1, 2, 3, 4, 5} {
			var lines []B
			switch arrangement {
			case 0:
				lines = []B{B(ext)}
			case 1:
				lines = []B{B("foo, " + ext)}
			case 2:
				lines = []B{B("bar; x=1"), B(ext)}
			case 3:
				lines = []B{B(ext + ", baz")}
			case 4:
				lines = []B{B(ext), B("permessage-deflate; server_no_context_takeover; client_no_context_takeover")}
			default: // a first line that goes wrong after some parameters were read must not leak them into the next line
				lines = []B{B("x-other; server_no_context_takeover; client_no_context_takeover; level=9 junk"), B(ext)}
			}
			for _, enabled := range []bool{true, false} {
				rs := ReplySpec{Status: 101, Reason: "Switching Protocols"}
				rs.Hdr = append(rs.Hdr, KV{K: B("Upgrade"), V: []B{B("websocket")}}, KV{K: B("Connection"), V: []B{B("Upgrade")}},
					KV{K: B("Sec-WebSocket-Extensions"), V: lines})
				out = append(out, &DialSpec{Prop: 22, URL: "ws://example.com/x", Compression: enabled, Reply: rs})
			}
		}
	}
	// and no extension header at all
	for _, enabled := range []bool{true, false} {
		rs := ReplySpec{Status: 101, Reason: "Switching Protocols"}
		rs.Hdr = append(rs.Hdr, KV{K: B("Upgrade"), V: []B{B("websocket")}}, KV{K: B("Connection"), V: []B{B("Upgrade")}})
		out = append(out, &DialSpec{Prop: 22, URL: "ws://example.com/x", Compression: enabled, Reply: rs})
	}
	return out
}

var dialClauses = map[int]string{
	133: "Dial returned a connection although the 101 announced permessage-deflate without both no-context-takeover parameters",
	134: "the 101 announced permessage-deflate with both parameters but the client does not use compression",
	135: "the client uses compression although the 101 did not announce permessage-deflate",
	120: "Dial returned a connection although the reply does not prove acceptance of this request (101 + Upgrade + Connection + Accept for this key)",
	121: "a reply that proves acceptance (well-formed token lists) was refused with ErrBadHandshake",
	122: "more than 1024 body bytes kept with ErrBadHandshake",
	123: "the URL / header was refused, yet a request was sent",
	117: "the Host header of the request is neither the URL's host (as written: brackets, port) nor the caller's override",
	118: "fewer body bytes were kept with ErrBadHandshake than the reply carried (up to 1024)",
	119: "a URL that is not ws/wss or that carries userinfo was not refused as malformed",
	124: "the request target is not the URL's path and query",
	125: "Upgrade / Connection / Sec-WebSocket-Version of the request are not the library's values exactly once",
	126: "the request does not carry exactly one fresh 16-byte Sec-WebSocket-Key",
	127: "permessage-deflate offered although disabled, or not offered although enabled",
	128: "configured subprotocols are not what the request offers",
	199: "malformed observation",
}

func init() {
	_ = time.Second
	core.Register(&core.Prop{
		ID:      "C14",
		Rule:    "Dialer.Dial through NetDial onto a scripted conn: URLs from components (schemes ws/http/https/ftp/none/upper-case, userinfo variants, hosts incl. IPv6 and ports, paths, queries, fragments) x Dialer settings (Subprotocols, EnableCompression) x caller header maps incl. Host, non-canonical spellings of protocol-owned names x replies (status codes, Upgrade/Connection token lists with case/OWS/extra tokens/near misses/several lines, Accept correct/random/for another key/absent/duplicated/with junk, extension and protocol lines, bodies 0..5000 bytes); the request is parsed by the harness's own parser",
		Gen:     c14Gen,
		Exec:    dialExec,
		Decode:  decodeDial,
		Shrink:  shrinkDial,
		Clauses: dialClauses,
	})
	core.Register(&core.Prop{
		ID:         "C15r",
		Rule:       "Dialer.Dial onto a scripted conn whose valid 101 reply carries Sec-WebSocket-Extensions lines announcing permessage-deflate with every subset/order of {server_no_context_takeover, client_no_context_takeover} plus window-bits parameters, alone, after another extension, on a second line, followed by another, or twice; Dialer.EnableCompression on and off (exhaustive over this matrix)",
		Gen:        c15rGen,
		Exec:       dialExec,
		Decode:     decodeDial,
		Shrink:     shrinkDial,
		Clauses:    dialClauses,
		Exhaustive: func(string) bool { return true },
	})
}
