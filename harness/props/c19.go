package props

import (
	crand "crypto/rand"
	"encoding/json"
	"math/rand"
	"sync"
	"time"

	"verif/harness/core"

	"github.com/gorilla/websocket"
)

// C19 one PreparedMessage shared by several connections

type PConn struct {
	Server     bool `json:"server"`
	Negotiated bool `json:"negotiated"`
}
type PStep struct {
	Conn int  `json:"conn"`
	K    int  `json:"k"` // 0 send, 1 EnableWriteCompression, 2 SetCompressionLevel, 3 mutate the caller's slice
	Bv   bool `json:"b,omitempty"`
	L    int  `json:"l,omitempty"`
}
type PrepSpec struct {
	Conns []PConn `json:"conns"`
	Ty    int     `json:"ty"`
	Data  B       `json:"data"`
	Steps []PStep `json:"steps"`
	// Concurrent: the setting changes of Steps are applied first, then every connection sends the
	// message once, all at the same time; the mask source is held at its first Read until all
	// senders are under way, so that a rendering is in progress while the others arrive
	Concurrent bool `json:"concurrent,omitempty"`
}

type gateReader struct {
	once    sync.Once
	release chan struct{}
}

func (g *gateReader) Read(p []byte) (int, error) {
	g.once.Do(func() {
		select {
		case <-g.release:
		case <-time.After(2 * time.Second):
		}
	})
	return crand.Read(p)
}

func prepExec(s core.Spec) core.Exec {
	sp := s.(*PrepSpec)
	original := append([]byte(nil), sp.Data...)
	caller := append([]byte(nil), sp.Data...)
	pm, perr := websocket.NewPreparedMessage(sp.Ty, caller)
	t := core.NewTape(19)
	t.N(len(sp.Conns))
	type cst struct {
		c     *websocket.Conn
		log   []wEvent
		wcomp bool
		level int
	}
	conns := make([]*cst, len(sp.Conns))
	for i, pc := range sp.Conns {
		cs := &cst{wcomp: true, level: 1}
		wc := &wConn{log: &cs.log, failAt: -1}
		cs.c = websocket.VerifNewConn(wc, pc.Server, 0, 0, nil, nil, pc.Negotiated)
		conns[i] = cs
		t.Bool(pc.Server).N(0).Bool(false).Bool(pc.Negotiated)
	}
	if perr != nil {
		// creation refused (e.g. control message over 125 bytes): no sends possible
		t.N(0).N(0).N(len(sp.Conns))
		for range sp.Conns {
			t.N(0)
		}
		return core.Exec{Tape: t.String(), Tags: []string{"creation-refused"}, Nontrivial: false}
	}
	ops := core.NewTape(0)
	nops := 0
	var res []int
	isData := sp.Ty == 1 || sp.Ty == 2
	steps := sp.Steps
	if sp.Concurrent {
		steps = nil
		for _, st := range sp.Steps {
			if st.K != 0 {
				steps = append(steps, st)
			}
		}
	}
	for _, st := range steps {
		if st.Conn >= len(conns) {
			continue
		}
		cs := conns[st.Conn]
		switch st.K {
		case 0:
			var wcs, ccs [][]byte
			if sp.Conns[st.Conn].Negotiated && cs.wcomp && isData {
				x := newShadow(cs.level)
				wcs = x.write(original)
				ccs = x.flush()
			}
			before := len(cs.log)
			err := cs.c.WritePreparedMessage(pm)
			var pkeys [][]byte
			for _, e := range cs.log[before:] {
				if e.kind == 2 || e.kind == 3 {
					pkeys = append(pkeys, frameKeys(e.full)...)
				}
			}
			ops.N(st.Conn).N(10).N(1).N(sp.Ty).Bytes(original)
			ops.N(0) // no implicit-close chunks
			ops.BytesList(pkeys)
			ops.BytesList(wcs)
			ops.BytesList(ccs)
			res = append(res, werrCode(err))
			nops++
		case 1:
			cs.c.EnableWriteCompression(st.Bv)
			cs.wcomp = st.Bv
			ops.N(st.Conn).N(8).Bool(st.Bv)
			res = append(res, 0)
			nops++
		case 2:
			err := cs.c.SetCompressionLevel(st.L)
			if err == nil {
				cs.level = st.L
			}
			ops.N(st.Conn).N(9).Z(st.L)
			res = append(res, werrCode(err))
			nops++
		case 3:
			for i := range caller {
				caller[i] ^= 0xff
			}
		}
	}
	if sp.Concurrent {
		gate := &gateReader{release: make(chan struct{})}
		hookMu.Lock()
		restore := websocket.VerifSetMaskRand(gate)
		errs := make([]error, len(conns))
		var wg sync.WaitGroup
		start := make(chan struct{})
		for i := range conns {
			wg.Add(1)
			go func(i int) {
				defer wg.Done()
				<-start
				errs[i] = conns[i].c.WritePreparedMessage(pm)
			}(i)
		}
		close(start)
		time.Sleep(300 * time.Microsecond)
		close(gate.release)
		wg.Wait()
		restore()
		hookMu.Unlock()
		for i, cs := range conns {
			var wcs, ccs [][]byte
			if sp.Conns[i].Negotiated && cs.wcomp && isData {
				x := newShadow(cs.level)
				wcs = x.write(original)
				ccs = x.flush()
			}
			var pkeys [][]byte
			for _, e := range cs.log {
				if e.kind == 2 || e.kind == 3 {
					pkeys = append(pkeys, frameKeys(e.full)...)
				}
			}
			ops.N(i).N(10).N(1).N(sp.Ty).Bytes(original)
			ops.N(0)
			ops.BytesList(pkeys)
			ops.BytesList(wcs)
			ops.BytesList(ccs)
			res = append(res, werrCode(errs[i]))
			nops++
		}
	}
	full := t.String() + " " + itoa(nops)
	if o := ops.String(); len(o) > 2 {
		full += o[1:]
	}
	ob := core.NewTape(len(res))
	for _, r := range res {
		ob.N(r)
	}
	ob.N(len(conns))
	wrote := false
	for _, cs := range conns {
		ob.N(len(cs.log))
		for _, e := range cs.log {
			ob.N(e.kind)
			switch e.kind {
			case 0, 1:
				ob.N(e.dl)
			case 2, 3:
				ob.Bytes(e.data)
				wrote = true
			}
		}
	}
	full += " " + ob.String()
	return core.Exec{Tape: full, Tags: []string{core.Tag("ty:%d", sp.Ty), "len:" + core.SizeClass(len(sp.Data)), core.Tag("conns:%d", len(conns))}, Nontrivial: wrote}
}

func itoa(n int) string { b, _ := json.Marshal(n); return string(b) }

func c19Gen(rng *rand.Rand, tier string) []core.Spec {
	n := 500
	if tier == "thorough" {
		n = 20000
	}
	var out []core.Spec
	for i := 0; i < n; i++ {
		sp := &PrepSpec{Ty: core.Pick(rng, []int{1, 2, 1, 2, 9, 10, 8})}
		ln := core.Pick(rng, []int{0, 1, 125, 126, 4095, 4096, 4097, 9000, rng.Intn(300)})
		if i%25 == 0 {
			ln = core.Pick(rng, []int{65535, 65536, 65537}) // the 16-bit / 64-bit length boundary of the rendered frames
		}
		if sp.Ty >= 8 {
			ln = core.Pick(rng, []int{0, 2, 125, 126})
		}
		sp.Data = genWPayload(rng, ln)
		if sp.Ty == 8 && ln >= 2 {
			sp.Data[0], sp.Data[1] = 0x03, 0xe8
		}
		for k := 2 + rng.Intn(5); k > 0; k-- {
			sp.Conns = append(sp.Conns, PConn{Server: rng.Intn(2) == 0, Negotiated: rng.Intn(2) == 0})
		}
		for k := 4 + rng.Intn(12); k > 0; k-- {
			st := PStep{Conn: rng.Intn(len(sp.Conns))}
			switch rng.Intn(8) {
			case 0:
				st.K, st.Bv = 1, rng.Intn(2) == 0
			case 1:
				st.K, st.L = 2, core.Pick(rng, []int{-2, -1, 0, 1, 5, 9, 10})
			case 2:
				st.K = 3
			}
			sp.Steps = append(sp.Steps, st)
		}
		out = append(out, sp)
	}
	return out
}

func c19cGen(rng *rand.Rand, tier string) []core.Spec {
	n := 150
	if tier == "thorough" {
		n = 3000
	}
	var out []core.Spec
	for i := 0; i < n; i++ {
		sp := &PrepSpec{Ty: core.Pick(rng, []int{1, 2, 2, 9}), Concurrent: true}
		sp.Data = genWPayload(rng, core.Pick(rng, []int{0, 5, 125, 4096, 4097, 9000, 20000}))
		if sp.Ty >= 8 {
			sp.Data = genWPayload(rng, core.Pick(rng, []int{0, 2, 125}))
		}
		// several connections per key, so that senders meet at the same cache entry
		for k := 3 + rng.Intn(6); k > 0; k-- {
			switch rng.Intn(4) {
			case 0:
				sp.Conns = append(sp.Conns, PConn{Server: true, Negotiated: rng.Intn(2) == 0})
			case 1:
				sp.Conns = append(sp.Conns, PConn{Server: false, Negotiated: true})
			default:
				sp.Conns = append(sp.Conns, PConn{Server: false, Negotiated: false})
			}
		}
		for k := rng.Intn(4); k > 0; k-- {
			st := PStep{Conn: rng.Intn(len(sp.Conns)), K: 1, Bv: rng.Intn(2) == 0}
			if rng.Intn(2) == 0 {
				st.K, st.L = 2, core.Pick(rng, []int{-2, 1, 9})
			}
			sp.Steps = append(sp.Steps, st)
		}
		out = append(out, sp)
	}
	return out
}

func init() {
	core.Register(&core.Prop{
		ID:     "C19c",
		Serial: true,
		Rule:   "one PreparedMessage shared by 3-8 connections (several per cache key: client/server x compression negotiated/enabled x level), all sending it at the same moment from their own goroutines while the mask source is held at its first Read so that a rendering is in progress when the other senders arrive; each connection's log is judged as in C19 (Spec decoder + model)",
		Gen:    c19cGen,
		Exec:   prepExec,
		Decode: func(raw json.RawMessage) (core.Spec, error) {
			var s PrepSpec
			err := json.Unmarshal(raw, &s)
			return &s, err
		},
		Clauses: writerClauses,
	})
	core.Register(&core.Prop{
		ID:   "C19",
		Rule: "one PreparedMessage (text/binary of 0..9000 bytes incl. sizes around the 4096-byte internal buffer; ping/pong/close of 0..126 bytes) shared by 2-6 connections drawn from {client, server} x {compression negotiated or not}; 4-15 steps: send to a random connection | EnableWriteCompression | SetCompressionLevel | flip every byte of the caller's slice; each connection's log is decoded by the Spec decoder and compared with WriteMessage's meaning and with the model's cache semantics",
		Gen:  c19Gen,
		Exec: prepExec,
		Decode: func(raw json.RawMessage) (core.Spec, error) {
			var s PrepSpec
			err := json.Unmarshal(raw, &s)
			return &s, err
		},
		Clauses: writerClauses,
	})
}
