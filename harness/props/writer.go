package props

import (
	"errors"
	"bytes"
	"compress/flate"
	"encoding/json"
	"io"
	"math/rand"
	"net"
	"reflect"
	"strconv"
	"strings"
	"sync"
	"time"
	"unsafe"

	"verif/harness/core"

	"github.com/gorilla/websocket"
)

// ---------------------------------------------------------------- write programs

type WOp struct {
	K      int  `json:"k"` // 0 WriteMessage 1 NextWriter 2 Write 3 WriteString 4 ReadFrom 5 Close 6 WriteControl 7 SetWriteDeadline 8 EnableWriteCompression 9 SetCompressionLevel 10 WritePreparedMessage
	Ty     int  `json:"ty,omitempty"`
	Data   B    `json:"data,omitempty"`
	Chunks []B  `json:"chunks,omitempty"`
	DL     int  `json:"dl,omitempty"` // deadline identity: 0 zero, 1 past, 2.. future
	Bv     bool `json:"b,omitempty"`
	L      int  `json:"l,omitempty"`
	PID    int  `json:"pid,omitempty"`
}

type WriterSpec struct {
	Prop       int   `json:"prop"`
	Server     bool  `json:"server"`
	WBuf       int   `json:"wbuf"`
	Pooled     bool  `json:"pooled"`
	Negotiated bool  `json:"negotiated"`
	Ops        []WOp `json:"ops"`
	FailAt     int   `json:"fail_at"` // index of the transport operation that fails, -1 = none
	FailKind   int   `json:"fail_kind,omitempty"`
	ShortN     int   `json:"short_n,omitempty"`
	Hook       bool  `json:"mask_hook,omitempty"` // mask keys drawn from the harness's counter source
	Note       string `json:"note,omitempty"`
	// interleaving with other connections (C02m): called before every op / after the last one
	turn   func(i int)
	finish func()
	shared *sharedFree // the free list of a BufferPool shared with other connections
}

var sentinels = websocket.VerifErrors()

func werrCode(err error) int {
	switch {
	case err == nil:
		return 0
	case err == websocket.ErrCloseSent:
		return 1
	case err == sentinels["errWriteClosed"]:
		return 2
	case err == sentinels["errBadWriteOpCode"]:
		return 3
	case err == sentinels["errInvalidControlFrame"]:
		return 4
	case err == sentinels["errWriteTimeout"]:
		return 5
	case err == errOther:
		return 6
	}
	if _, ok := err.(timeoutErr); ok {
		return 7
	}
	msg := err.Error()
	switch {
	case strings.Contains(msg, "unexpected bytes at end of flate stream"):
		return 10
	case strings.Contains(msg, "invalid compression level"):
		return 9
	case strings.Contains(msg, "internal error"):
		return 8
	}
	return 11
}

var dlTimes = []time.Time{{}, time.Unix(1000, 0), time.Unix(4000000000, 0), time.Unix(4000000001, 0), time.Unix(4000000002, 0)}

func dlID(t time.Time) int {
	for i, x := range dlTimes {
		if x.Equal(t) {
			return i
		}
	}
	return 99
}

// ---------------------------------------------------------------- recording transport + pool sharing one log

type wEvent struct {
	kind int // 0 setdl 1 setdl-fail 2 write 3 write-fail 4 get 5 put
	dl   int
	data []byte // accepted bytes
	full []byte // attempted bytes
}

type wConn struct {
	net.Conn
	log      *[]wEvent
	ops      int
	failAt   int
	failKind int
	shortN   int
}

func (c *wConn) fails() bool { i := c.ops; c.ops++; return c.failAt >= 0 && i == c.failAt }
func (c *wConn) err() error {
	if c.failKind == 1 {
		return timeoutErr{}
	}
	return errOther
}
func (c *wConn) SetWriteDeadline(t time.Time) error {
	if c.fails() {
		*c.log = append(*c.log, wEvent{kind: 1, dl: dlID(t)})
		return c.err()
	}
	*c.log = append(*c.log, wEvent{kind: 0, dl: dlID(t)})
	return nil
}
func (c *wConn) Write(p []byte) (int, error) {
	cp := append([]byte(nil), p...)
	if c.fails() {
		n := 0
		if c.failKind == 2 {
			n = c.shortN
			if n > len(p) {
				n = len(p)
			}
			if n == len(p) && n > 0 {
				n--
			}
		}
		*c.log = append(*c.log, wEvent{kind: 3, data: cp[:n], full: cp})
		return n, c.err()
	}
	*c.log = append(*c.log, wEvent{kind: 2, data: cp, full: cp})
	return len(p), nil
}
func (c *wConn) Close() error                       { return nil }
func (c *wConn) SetDeadline(t time.Time) error      { return nil }
func (c *wConn) SetReadDeadline(t time.Time) error  { return nil }
func (c *wConn) Read(p []byte) (int, error)         { return 0, io.EOF }
func (c *wConn) LocalAddr() net.Addr                { return &net.TCPAddr{} }
func (c *wConn) RemoteAddr() net.Addr               { return &net.TCPAddr{} }

// instrumented BufferPool: identifies buffers, poisons released ones, checks on reuse
type tPool struct {
	log       *[]wEvent
	free      []interface{}
	lastGiven unsafe.Pointer
	viol      int
	shared    *sharedFree
}

func bufOf(v interface{}) []byte {
	rv := reflect.ValueOf(v)
	if rv.Kind() != reflect.Struct || rv.NumField() != 1 {
		return nil
	}
	f := rv.Field(0)
	if f.Kind() != reflect.Slice || f.Len() == 0 {
		return nil
	}
	return unsafe.Slice((*byte)(unsafe.Pointer(f.Pointer())), f.Len())
}

const poison = 0xA5

// several connections may share one free list (C02m): every connection keeps its own event log
// and its own "which buffer was I given" check
type sharedFree struct{ free []interface{} }

func (p *tPool) fl() *[]interface{} {
	if p.shared != nil {
		return &p.shared.free
	}
	return &p.free
}

func (p *tPool) checkPoison() {
	for _, v := range *p.fl() {
		for _, b := range bufOf(v) {
			if b != poison {
				p.viol = 1
				return
			}
		}
	}
}

func (p *tPool) Get() interface{} {
	*p.log = append(*p.log, wEvent{kind: 4})
	fl := p.fl()
	if len(*fl) == 0 {
		p.lastGiven = nil
		return nil
	}
	p.checkPoison()
	v := (*fl)[len(*fl)-1]
	*fl = (*fl)[:len(*fl)-1]
	b := bufOf(v)
	if len(b) > 0 {
		p.lastGiven = unsafe.Pointer(&b[0])
	}
	return v
}

func (p *tPool) Put(v interface{}) {
	*p.log = append(*p.log, wEvent{kind: 5})
	b := bufOf(v)
	if len(b) == 0 {
		p.viol = 2
		return
	}
	if p.lastGiven != nil && unsafe.Pointer(&b[0]) != p.lastGiven {
		p.viol = 2
	}
	for i := range b {
		b[i] = poison
	}
	fl := p.fl()
	for _, x := range *fl {
		if bx := bufOf(x); len(bx) > 0 && &bx[0] == &b[0] {
			p.viol = 2 // the same buffer is in the pool twice
		}
	}
	*fl = append(*fl, v)
}

// counter mask source
type counterReader struct {
	mu sync.Mutex
	n  uint32
}

func (c *counterReader) Read(p []byte) (int, error) {
	c.mu.Lock()
	defer c.mu.Unlock()
	for i := 0; i+4 <= len(p); i += 4 {
		c.n++
		p[i], p[i+1], p[i+2], p[i+3] = byte(c.n>>24), byte(c.n>>16), byte(c.n>>8), byte(c.n)
	}
	return len(p), nil
}

var hookMu sync.Mutex

// shadow of flate.Writer's chunking: what it writes downstream during each call
type chunkRec struct{ chunks [][]byte }

func (r *chunkRec) Write(p []byte) (int, error) {
	r.chunks = append(r.chunks, append([]byte(nil), p...))
	return len(p), nil
}
func (r *chunkRec) take() [][]byte { c := r.chunks; r.chunks = nil; return c }

type shadow struct {
	rec *chunkRec
	fw  *flate.Writer
}

func newShadow(level int) *shadow {
	rec := &chunkRec{}
	fw, _ := flate.NewWriter(rec, level)
	return &shadow{rec, fw}
}
func (s *shadow) write(p []byte) [][]byte { s.fw.Write(p); return s.rec.take() }
func (s *shadow) flush() [][]byte        { s.fw.Flush(); return s.rec.take() }

func frameKeys(buf []byte) [][]byte {
	var keys [][]byte
	for len(buf) >= 2 {
		l7 := int(buf[1] & 127)
		masked := buf[1]&128 != 0
		off := 2
		n := l7
		switch l7 {
		case 126:
			if len(buf) < 4 {
				return keys
			}
			n = int(buf[2])<<8 | int(buf[3])
			off = 4
		case 127:
			if len(buf) < 10 {
				return keys
			}
			n = 0
			for i := 2; i < 10; i++ {
				n = n<<8 | int(buf[i])
			}
			off = 10
		}
		if masked {
			if len(buf) < off+4 {
				return keys
			}
			keys = append(keys, append([]byte(nil), buf[off:off+4]...))
			off += 4
		}
		if off+n > len(buf) || n < 0 {
			return keys
		}
		buf = buf[off+n:]
	}
	return keys
}

func tapeChunks(t *core.Tape, cs [][]byte) { t.BytesList(cs) }

func writerExec(s core.Spec) core.Exec {
	e, _ := writerRun(s.(*WriterSpec))
	return e
}

// writerRun executes the program on a real Conn; also returns the bytes accepted by the transport.
func writerRun(sp *WriterSpec) (core.Exec, []byte) {
	var log []wEvent
	conn := &wConn{log: &log, failAt: sp.FailAt, failKind: sp.FailKind, shortN: sp.ShortN}
	var pool *tPool
	var bp websocket.BufferPool
	if sp.Pooled {
		pool = &tPool{log: &log, shared: sp.shared}
		bp = pool
	}
	if sp.Hook {
		hookMu.Lock()
		restore := websocket.VerifSetMaskRand(&counterReader{})
		defer func() { restore(); hookMu.Unlock() }()
	}
	c := websocket.VerifNewConn(conn, sp.Server, 0, sp.WBuf, bp, nil, sp.Negotiated)

	in := core.NewTape(sp.Prop)
	if sp.Prop == 2 {
		in.Bool(sp.Hook)
	}
	in.Bool(sp.Server).N(sp.WBuf).Bool(sp.Pooled).Bool(sp.Negotiated)

	ops := core.NewTape(0)
	var res, cnt []int
	var w io.WriteCloser
	wcomp := true
	level := 1
	var sh *shadow // shadow of the flate writer behind the open compressed writer, if any
	wIsFlate := false
	prepared := map[int]*websocket.PreparedMessage{}
	var skipKeyEvents [][2]int
	open := false
	extraOps := 0
	tags := []string{}
	isData := func(t int) bool { return t == 1 || t == 2 }
	implicit := func() [][]byte {
		// chunks flate emits when the open compressed writer is closed implicitly
		if sh != nil {
			cs := sh.flush()
			sh = nil
			return cs
		}
		return nil
	}
	var lastW io.WriteCloser // the writer closed last (an application may close it again, e.g. by a deferred Close)
	if sp.finish != nil {
		defer sp.finish()
	}
	for oi, op := range sp.Ops {
		if sp.turn != nil {
			sp.turn(oi)
		}
		var err error
		switch op.K {
		case 0:
			ic := implicit()
			var wc, cc [][]byte
			if sp.Negotiated && wcomp && isData(op.Ty) {
				x := newShadow(level)
				wc = x.write(op.Data)
				cc = x.flush()
			}
			err = c.WriteMessage(op.Ty, op.Data)
			w, wIsFlate = nil, false
			open = false
			ops.N(0).N(op.Ty).Bytes(op.Data)
			tapeChunks(ops, ic)
			tapeChunks(ops, wc)
			tapeChunks(ops, cc)
			tags = append(tags, "op:WriteMessage", "len:"+core.SizeClass(len(op.Data)))
		case 11:
			// WriteJSON of a value encoding/json refuses: documented as NextWriter(TextMessage), Encode,
			// Close - the encode error is returned and an empty text message goes out.  On the tape it is
			// WriteMessage(TextMessage, nil), whose transport and pool events are the same.
			ic := implicit()
			var wc, cc [][]byte
			if sp.Negotiated && wcomp {
				x := newShadow(level)
				wc = x.write(nil)
				cc = x.flush()
			}
			if sp.FailAt >= 0 {
				// with a transport fault planned the encode error would mask the write error: send
				// the equivalent empty text message instead
				err = c.WriteMessage(websocket.TextMessage, nil)
			} else {
				err = c.WriteJSON(make(chan int))
				var ute *json.UnsupportedTypeError
				if errors.As(err, &ute) {
					err = nil
				}
			}
			w, wIsFlate = nil, false
			open = false
			ops.N(0).N(1).Bytes(nil)
			tapeChunks(ops, ic)
			tapeChunks(ops, wc)
			tapeChunks(ops, cc)
			tags = append(tags, "op:WriteJSON-unencodable")
		case 1:
			ic := implicit()
			var nw io.WriteCloser
			nw, err = c.NextWriter(op.Ty)
			open = false
			if err == nil {
				w = nw
				open = true
				wIsFlate = strings.Contains(reflect.TypeOf(nw).String(), "flate")
				if wIsFlate {
					sh = newShadow(level)
				}
			}
			ops.N(1).N(op.Ty)
			tapeChunks(ops, ic)
			tags = append(tags, "op:NextWriter")
		case 2, 3:
			if w == nil {
				ops.N(7).N(0) // no handle yet: encode as a harmless SetWriteDeadline(zero)
				c.SetWriteDeadline(time.Time{})
				break
			}
			var wc [][]byte
			if wIsFlate && sh != nil {
				wc = sh.write(op.Data)
			}
			if op.K == 3 {
				_, err = io.WriteString(w, string(op.Data))
			} else {
				_, err = w.Write(op.Data)
			}
			if op.K == 3 && wIsFlate {
				ops.N(2) // flateWriteWrapper has no WriteString: io.WriteString falls back to Write
			} else {
				ops.N(op.K)
			}
			ops.Bytes(op.Data)
			tapeChunks(ops, wc)
			tags = append(tags, "op:Write", "len:"+core.SizeClass(len(op.Data)))
		case 4:
			if w == nil || wIsFlate {
				ops.N(7).N(0)
				c.SetWriteDeadline(time.Time{})
				break
			}
			var rs []io.Reader
			var cs [][]byte
			for _, ch := range op.Chunks {
				if len(ch) > 0 {
					rs = append(rs, &oneShot{b: ch, glued: op.Bv})
					cs = append(cs, ch)
				}
			}
			_, err = w.(io.ReaderFrom).ReadFrom(io.MultiReader(rs...))
			ops.N(4)
			if !op.Bv && len(cs) > 0 {
				// the source reports io.EOF separately: one more Read that returns no bytes
				cs = append(cs, []byte{})
			}
			tapeChunks(ops, cs)
			tags = append(tags, "op:ReadFrom")
		case 5:
			if w == nil && lastW != nil && op.Bv {
				// Close of an already closed writer
				err = lastW.Close()
				ops.N(5)
				tapeChunks(ops, nil)
				tags = append(tags, "op:Close-again")
				break
			}
			if w == nil {
				ops.N(7).N(0)
				c.SetWriteDeadline(time.Time{})
				break
			}
			lastW = w
			var cc [][]byte
			if wIsFlate && sh != nil {
				cc = sh.flush()
				sh = nil
			}
			err = w.Close()
			open = false
			ops.N(5)
			tapeChunks(ops, cc)
			tags = append(tags, "op:Close")
		case 6:
			err = c.WriteControl(op.Ty, op.Data, dlTimes[op.DL])
			ops.N(6).N(op.Ty).Bytes(op.Data).N(op.DL)
			tags = append(tags, "op:WriteControl")
		case 7:
			c.SetWriteDeadline(dlTimes[op.DL])
			ops.N(7).N(op.DL)
		case 8:
			c.EnableWriteCompression(op.Bv)
			wcomp = op.Bv
			ops.N(8).Bool(op.Bv)
		case 9:
			err = c.SetCompressionLevel(op.L)
			if err == nil {
				level = op.L
			}
			ops.N(9).Z(op.L)
		case 10:
			if !sp.Server && w != nil && open {
				var cc [][]byte
				if wIsFlate && sh != nil {
					cc = sh.flush()
					sh = nil
				}
				cerr := w.Close()
				open = false
				ops.N(5)
				tapeChunks(ops, cc)
				res = append(res, werrCode(cerr))
				cnt = append(cnt, len(log))
				extraOps++
			}
			ic := implicit()
			pm := prepared[op.PID]
			if pm == nil {
				pm, err = websocket.NewPreparedMessage(op.Ty, op.Data)
				if err != nil {
					ops.N(7).N(0)
					c.SetWriteDeadline(time.Time{})
					err = nil
					break
				}
				prepared[op.PID] = pm
			}
			var wc, cc [][]byte
			if sp.Negotiated && wcomp && isData(op.Ty) {
				x := newShadow(level)
				wc = x.write(op.Data)
				cc = x.flush()
			}
			before := len(log)
			err = c.WritePreparedMessage(pm)
			skipKeyEvents = append(skipKeyEvents, [2]int{before, len(log)})
			var pkeys [][]byte
			for _, e := range log[before:] {
				if e.kind == 2 || e.kind == 3 {
					pkeys = append(pkeys, frameKeys(e.full)...)
				}
			}
			if len(pkeys) == 0 && !sp.Server {
				// the frame did not reach the transport; render privately to learn the keys is impossible: give zeros
				pkeys = nil
			}
			w, wIsFlate = nil, false
			open = false
			ops.N(10).N(op.PID).N(op.Ty).Bytes(op.Data)
			tapeChunks(ops, ic)
			ops.BytesList(pkeys)
			tapeChunks(ops, wc)
			tapeChunks(ops, cc)
			tags = append(tags, "op:WritePrepared")
		}
		res = append(res, werrCode(err))
		cnt = append(cnt, len(log))
	}
	// mask keys of the frames that reached the transport (prepared sends excluded)
	var keys [][]byte
	if !sp.Server {
		for i, e := range log {
			skip := false
			for _, r := range skipKeyEvents {
				if i >= r[0] && i < r[1] {
					skip = true
				}
			}
			if !skip && (e.kind == 2 || e.kind == 3) {
				ks := frameKeys(e.full)
				if len(ks) > 0 {
					keys = append(keys, ks[0])
				} else {
					keys = append(keys, []byte{0, 0, 0, 0})
				}
			}
		}
	}
	in.BytesList(keys)
	if sp.FailAt >= 0 {
		in.N(1).N(sp.FailAt).N(sp.FailKind).N(sp.ShortN)
	} else {
		in.N(0)
	}
	opsStr := strings.SplitN(ops.String(), " ", 2)
	full := in.String() + " " + strconv.Itoa(len(sp.Ops)+extraOps)
	if len(opsStr) > 1 {
		full += " " + opsStr[1]
	}
	o := core.NewTape(len(res))
	for _, r := range res {
		o.N(r)
	}
	o.N(len(cnt))
	for _, x := range cnt {
		o.N(x)
	}
	o.N(len(log))
	for _, e := range log {
		o.N(e.kind)
		switch e.kind {
		case 0, 1:
			o.N(e.dl)
		case 2, 3:
			o.Bytes(e.data)
		}
	}
	o.Bool(c.VerifWriteBufHeld())
	viol := 0
	if pool != nil {
		pool.checkPoison()
		viol = pool.viol
	}
	o.N(viol)
	full += " " + o.String()
	tags = append(tags, core.Tag("role:server=%v", sp.Server), core.Tag("wbuf:%d", sp.WBuf), core.Tag("pooled:%v", sp.Pooled), core.Tag("negotiated:%v", sp.Negotiated))
	if sp.FailAt >= 0 {
		tags = append(tags, core.Tag("fault:kind%d", sp.FailKind))
	}
	if sp.Note != "" {
		tags = append(tags, "note:"+sp.Note)
	}
	var wire []byte
	for _, e := range log {
		if e.kind == 2 || e.kind == 3 {
			wire = append(wire, e.data...)
		}
	}
	return core.Exec{Tape: full, Tags: tags, Nontrivial: len(log) > 0}, wire
}

// reader that returns its bytes in one Read (or as much as fits), then io.EOF
// (glued: the last bytes are returned together with io.EOF, as an io.Reader may)
type oneShot struct {
	b     []byte
	glued bool
}

func (o *oneShot) Read(p []byte) (int, error) {
	if len(o.b) == 0 {
		return 0, io.EOF
	}
	n := copy(p, o.b)
	o.b = o.b[n:]
	if o.glued && len(o.b) == 0 {
		return n, io.EOF
	}
	return n, nil
}

func decodeWriterSpec(raw json.RawMessage) (core.Spec, error) {
	var s WriterSpec
	err := json.Unmarshal(raw, &s)
	return &s, err
}

// ---------------------------------------------------------------- generators

var wbufChoices = []int{1, 2, 16, 125, 126, 1024, 4096, 0}

func genWLen(rng *rand.Rand, wbuf int, max int) int {
	if wbuf == 0 {
		wbuf = 4096
	}
	for {
		var n int
		switch rng.Intn(5) {
		case 0:
			n = core.Pick(rng, boundaryLens)
		case 1:
			k := 1 + rng.Intn(3)
			n = k*wbuf + rng.Intn(3) - 1
		case 2:
			n = core.Pick(rng, []int{2 * wbuf, 2*wbuf + 1, 2*(wbuf+14) - 1, 2 * (wbuf + 14), 2*(wbuf+14) + 1})
		case 3:
			n = rng.Intn(300)
		default:
			n = rng.Intn(20)
		}
		if n >= 0 && n <= max {
			return n
		}
	}
}

func genWPayload(rng *rand.Rand, n int) []byte {
	b := make([]byte, n)
	switch rng.Intn(4) {
	case 0:
	case 1:
		for i := range b {
			b[i] = byte('a' + i%7)
		}
	default:
		rng.Read(b)
	}
	return b
}

func genCtlOp(rng *rand.Rand, allowClose bool) WOp {
	ty := 9 + rng.Intn(2)
	if allowClose && rng.Intn(6) == 0 {
		ty = 8
	}
	n := core.Pick(rng, []int{0, 1, 2, 124, 125, rng.Intn(126)})
	d := genWPayload(rng, n)
	if ty == 8 && n >= 2 {
		d[0], d[1] = 0x03, 0xe8
	}
	return WOp{K: 6, Ty: ty, Data: d, DL: core.Pick(rng, []int{0, 2, 3})}
}

// one message by a random API route; returns ops
func genMessageOps(rng *rand.Rand, wbuf int, maxLen int, negotiated bool, allowPrepared bool, pid *int) []WOp {
	ty := 1 + rng.Intn(2)
	n := genWLen(rng, wbuf, maxLen)
	data := genWPayload(rng, n)
	switch r := rng.Intn(10); {
	case r < 3:
		if rng.Intn(10) == 0 {
			return []WOp{{K: 11}} // WriteJSON of an unencodable value
		}
		return []WOp{{K: 0, Ty: ty, Data: data}}
	case r < 4 && allowPrepared:
		*pid++
		return []WOp{{K: 10, Ty: ty, Data: data, PID: *pid}}
	default:
		ops := []WOp{{K: 1, Ty: ty}}
		rest := data
		for len(rest) > 0 || rng.Intn(6) == 0 {
			k := len(rest)
			if rng.Intn(3) != 0 && len(rest) > 0 {
				k = rng.Intn(len(rest) + 1)
			}
			part := rest[:k]
			rest = rest[k:]
			switch rng.Intn(5) {
			case 0:
				ops = append(ops, WOp{K: 3, Data: part})
			case 1:
				var chunks []B
				p := part
				for len(p) > 0 {
					c := 1 + rng.Intn(len(p))
					chunks = append(chunks, B(p[:c]))
					p = p[c:]
				}
				if negotiated {
					ops = append(ops, WOp{K: 2, Data: part})
				} else {
					ops = append(ops, WOp{K: 4, Chunks: chunks, Bv: rng.Intn(2) == 0})
				}
			default:
				ops = append(ops, WOp{K: 2, Data: part})
			}
			if rng.Intn(5) == 0 {
				ops = append(ops, genCtlOp(rng, false))
			}
			if len(ops) > 12 {
				ops = append(ops, WOp{K: 2, Data: rest})
				rest = nil
			}
		}
		if rng.Intn(6) != 0 {
			ops = append(ops, WOp{K: 5})
		} // else: left to the implicit close of the next NextWriter / WriteMessage
		return ops
	}
}

func genWriteProgram(rng *rand.Rand, wbuf int, negotiated bool, nmsgs, maxLen int, invalids bool, closeProb int) []WOp {
	var ops []WOp
	// keep the number of frames per message moderate: the Spec's defragmentation is quadratic in it
	if wbuf > 0 && wbuf*2500 < maxLen {
		maxLen = wbuf * 2500
	}
	pid := 0
	for i := 0; i < nmsgs; i++ {
		if negotiated && rng.Intn(4) == 0 {
			if rng.Intn(2) == 0 {
				ops = append(ops, WOp{K: 8, Bv: rng.Intn(2) == 0})
			} else {
				ops = append(ops, WOp{K: 9, L: core.Pick(rng, []int{-2, -1, 0, 1, 3, 6, 9, 10, -3})})
			}
		}
		if rng.Intn(5) == 0 {
			ops = append(ops, WOp{K: 7, DL: core.Pick(rng, []int{0, 2, 3, 4})})
		}
		if rng.Intn(3) == 0 {
			ops = append(ops, genCtlOp(rng, false))
		}
		if invalids && rng.Intn(3) == 0 {
			switch rng.Intn(5) {
			case 0:
				ops = append(ops, WOp{K: 6, Ty: core.Pick(rng, []int{0, 1, 2, 3, 7, 11, 15}), Data: B("x"), DL: 0})
			case 1:
				ops = append(ops, WOp{K: 6, Ty: 9, Data: genWPayload(rng, 126+rng.Intn(100)), DL: 0})
			case 2:
				ops = append(ops, WOp{K: 0, Ty: core.Pick(rng, []int{0, 3, 7, 11, 100}), Data: B("y")})
			case 3:
				ops = append(ops, WOp{K: 0, Ty: 9 + rng.Intn(2), Data: genWPayload(rng, 126+rng.Intn(50))})
			default:
				ops = append(ops, WOp{K: 1, Ty: core.Pick(rng, []int{0, 4, 12})})
			}
		}
		ops = append(ops, genMessageOps(rng, wbuf, maxLen, negotiated, true, &pid)...)
		if rng.Intn(100) < closeProb {
			switch rng.Intn(3) {
			case 0:
				ops = append(ops, WOp{K: 6, Ty: 8, Data: B("\x03\xe8bye"), DL: 0})
			case 1:
				ops = append(ops, WOp{K: 0, Ty: 8, Data: B("\x03\xe9")})
			default:
				ops = append(ops, WOp{K: 1, Ty: 8}, WOp{K: 2, Data: B("\x03\xe8")}, WOp{K: 5})
			}
		}
	}
	// control messages through the message writer
	if rng.Intn(3) == 0 {
		ops = append(ops, WOp{K: 0, Ty: 9 + rng.Intn(2), Data: genWPayload(rng, core.Pick(rng, []int{0, 5, 100, 125}))})
	}
	if rng.Intn(4) == 0 {
		ops = append(ops, WOp{K: 1, Ty: 10}, WOp{K: 2, Data: genWPayload(rng, core.Pick(rng, []int{3, 100, 125}))}, WOp{K: 5})
	}
	return ops
}

func shrinkWriter(s core.Spec) []core.Spec {
	sp := s.(*WriterSpec)
	var out []core.Spec
	cp := func() *WriterSpec { c := *sp; return &c }
	if len(sp.Ops) > 1 {
		c := cp()
		c.Ops = sp.Ops[:len(sp.Ops)/2]
		out = append(out, c)
		for i := 0; i < len(sp.Ops) && i < 40; i++ {
			c := cp()
			c.Ops = append(append([]WOp(nil), sp.Ops[:i]...), sp.Ops[i+1:]...)
			out = append(out, c)
		}
	}
	for i, op := range sp.Ops {
		if len(op.Data) > 0 {
			c := cp()
			c.Ops = append([]WOp(nil), sp.Ops...)
			no := op
			no.Data = op.Data[:len(op.Data)/2]
			c.Ops[i] = no
			out = append(out, c)
		}
	}
	if sp.Pooled {
		c := cp()
		c.Pooled = false
		out = append(out, c)
	}
	if sp.Negotiated {
		c := cp()
		c.Negotiated = false
		out = append(out, c)
	}
	return out
}

var writerClauses = map[int]string{
	60: "the bytes written are not a sequence of whole frames",
	61: "a written frame violates RFC 6455 / RFC 7692 framing rules for this role",
	62: "a compressed message on the wire does not inflate",
	63: "the messages on the wire are not exactly the messages of the successful write calls, in call order (type, RSV1, payload)",
	64: "mask keys were not drawn afresh from the mask source for every frame",
	70: "something was handed to the transport after a transport failure",
	71: "a write call reported success after a transport failure",
	72: "a frame was written without SetWriteDeadline first",
	73: "an invalid write request put something on the wire",
	74: "a frame was written under a deadline other than the one in force (the latest SetWriteDeadline, or WriteControl's own)",
	75: "bytes were written while the deadline armed on the transport was not the one in force for that frame (a transport honouring deadlines may refuse a valid message, or let a control frame outlive its deadline)",
	80: "pool used although none configured",
	81: "BufferPool Get/Put do not alternate",
	82: "the connection holds a buffer it did not Get, or dropped one without Put",
	83: "a released buffer was touched, or a different buffer was returned",
	84: "WriteControl touched the pool, or WritePreparedMessage took a buffer",
	85: "a pool buffer is held although no message is in progress",
	86: "a message writer handed bytes to the transport while the connection did not hold the pool buffer (after Put / before Get)",
	160: "a write call reported success after a close frame had been sent",
	161: "a valid write request after a close frame did not fail with ErrCloseSent",
	162: "NextWriter succeeded after a close frame had been sent",
	163: "a message writer opened before the close frame reported its message as sent",
	164: "bytes were written to the transport after a close frame",
	98: "model oracle ran short (harness/model bug)",
}

func c02Gen(rng *rand.Rand, tier string) []core.Spec {
	n := 800
	big := 16
	if tier == "thorough" {
		n = 30000
		big = 400
	}
	var out []core.Spec
	for i := 0; i < n; i++ {
		wbuf := core.Pick(rng, wbufChoices)
		negotiated := rng.Intn(3) == 0
		maxLen := 9000
		if i < big {
			maxLen = 70000
		}
		sp := &WriterSpec{Prop: 2, Server: rng.Intn(2) == 0, WBuf: wbuf, Pooled: rng.Intn(2) == 0, Negotiated: negotiated, FailAt: -1, Hook: i%16 == 0}
		sp.Ops = genWriteProgram(rng, wbuf, negotiated, 1+rng.Intn(5), maxLen, true, 8)
		out = append(out, sp)
	}
	// control-type writers fed by ReadFrom: valid and oversized payloads, the source reporting EOF with
	// the data or separately, smallest and ordinary buffers (an oversized control message must be
	// refused without a byte on the wire, never fragmented)
	for _, server := range []bool{false, true} {
		for _, wbuf := range []int{1, 125, 126, 300} {
			for _, n := range []int{100, 125, 126, 200, 251, 400} {
				data := genWPayload(rng, n)
				for _, glued := range []bool{false, true} {
					out = append(out, &WriterSpec{Prop: 2, Server: server, WBuf: wbuf, FailAt: -1, Note: "control-writer-ReadFrom",
						Ops: []WOp{{K: 1, Ty: 9}, {K: 4, Chunks: []B{B(data[:n/2]), B(data[n/2:])}, Bv: glued}, {K: 5}, {K: 0, Ty: 2, Data: B("next")}}})
				}
			}
		}
	}
	// single frames whose payload sits on a length-encoding boundary (125/126, 65535/65536): by the
	// server's direct path (WriteMessage, one large Write) and by a write buffer that holds exactly
	// that many payload bytes
	for _, n := range []int{125, 126, 127, 65534, 65535, 65536, 65537} {
		data := genWPayload(rng, n)
		for _, server := range []bool{true, false} {
			out = append(out, &WriterSpec{Prop: 2, Server: server, WBuf: 4096, FailAt: -1, Note: "length-boundary",
				Ops: []WOp{{K: 0, Ty: 2, Data: data}, {K: 1, Ty: 1}, {K: 2, Data: data}, {K: 5}}})
			out = append(out, &WriterSpec{Prop: 2, Server: server, WBuf: n + 14, FailAt: -1, Note: "length-boundary",
				Ops: []WOp{{K: 1, Ty: 2}, {K: 2, Data: append(append([]byte{}, data...), 7, 7, 7)}, {K: 5}, {K: 0, Ty: 1, Data: data}}})
		}
	}
	return out
}

// C09 (sequential half): a close frame sent at some step by each path, with or without a message
// writer open, then more calls of every kind
func c09wGen(rng *rand.Rand, tier string) []core.Spec {
	n := 40
	if tier == "thorough" {
		n = 1500
	}
	var out []core.Spec
	closeBody := B("\x03\xe8bye")
	for i := 0; i < n; i++ {
		for path := 0; path < 4; path++ {
			for open := 0; open < 3; open++ {
				wbuf := core.Pick(rng, wbufChoices)
				negotiated := rng.Intn(4) == 0
				sp := &WriterSpec{Prop: 21, Server: rng.Intn(2) == 0, WBuf: wbuf, Pooled: rng.Intn(2) == 0, Negotiated: negotiated, FailAt: -1}
				pid := 100
				var ops []WOp
				if rng.Intn(2) == 0 {
					ops = append(ops, genMessageOps(rng, wbuf, 600, negotiated, true, &pid)...)
					if k := ops[len(ops)-1].K; k != 0 && k != 5 && k != 10 {
						ops = append(ops, WOp{K: 5})
					}
					// one time in three that earlier message hits a transport failure (an error or a missed
					// deadline, nothing written): the close and everything after it must then fail too
					if rng.Intn(3) == 0 {
						sp.FailAt, sp.FailKind = rng.Intn(3), rng.Intn(2)
					}
				}
				// a message writer opened before the close: empty, with buffered bytes, or with a frame already flushed
				ew := wbuf
				if ew == 0 {
					ew = 4096
				}
				if ew < 125 {
					ew = 125
				}
				switch open {
				case 1:
					ops = append(ops, WOp{K: 1, Ty: 1 + rng.Intn(2)}, WOp{K: 2, Data: genWPayload(rng, rng.Intn(20))})
				case 2:
					ops = append(ops, WOp{K: 1, Ty: 1 + rng.Intn(2)}, WOp{K: 2, Data: genWPayload(rng, ew+1+rng.Intn(50))})
				}
				switch path {
				case 0:
					ops = append(ops, WOp{K: 6, Ty: 8, Data: closeBody, DL: core.Pick(rng, []int{0, 2})})
				case 1:
					ops = append(ops, WOp{K: 0, Ty: 8, Data: closeBody})
				case 2:
					ops = append(ops, WOp{K: 1, Ty: 8}, WOp{K: 2, Data: closeBody}, WOp{K: 5})
				default:
					pid++
					ops = append(ops, WOp{K: 10, Ty: 8, Data: closeBody, PID: pid})
				}
				if open != 0 && path == 0 {
					// the writer opened before the close: more bytes, then its Close
					if rng.Intn(2) == 0 {
						ops = append(ops, WOp{K: 2, Data: genWPayload(rng, core.Pick(rng, []int{0, 3, ew + 5}))})
					}
					ops = append(ops, WOp{K: 5})
				}
				// afterwards: every kind of call
				for j, m := 0, 2+rng.Intn(5); j < m; j++ {
					switch rng.Intn(7) {
					case 0:
						ops = append(ops, WOp{K: 0, Ty: 1 + rng.Intn(2), Data: genWPayload(rng, genWLen(rng, wbuf, 600))})
					case 1:
						ops = append(ops, genCtlOp(rng, true))
					case 2:
						pid++
						ops = append(ops, WOp{K: 10, Ty: core.Pick(rng, []int{1, 2, 8, 9}), Data: genWPayload(rng, rng.Intn(100)), PID: pid})
					case 3:
						ops = append(ops, WOp{K: 1, Ty: core.Pick(rng, []int{1, 2, 9, 8})}, WOp{K: 2, Data: genWPayload(rng, rng.Intn(100))}, WOp{K: 5})
					case 4:
						ops = append(ops, WOp{K: 0, Ty: core.Pick(rng, []int{8, 9, 10}), Data: genWPayload(rng, rng.Intn(100))})
					case 5:
						ops = append(ops, WOp{K: 0, Ty: core.Pick(rng, []int{0, 3, 11}), Data: B("z")})
					default:
						ops = append(ops, WOp{K: 7, DL: core.Pick(rng, []int{0, 2, 3})})
					}
				}
				sp.Ops = ops
				out = append(out, sp)
			}
		}
	}
	return out
}

func c10Gen(rng *rand.Rand, tier string) []core.Spec {
	n := 300
	if tier == "thorough" {
		n = 6000
	}
	var out []core.Spec
	for i := 0; i < n; i++ {
		wbuf := core.Pick(rng, wbufChoices)
		negotiated := rng.Intn(4) == 0
		base := &WriterSpec{Prop: 10, Server: rng.Intn(2) == 0, WBuf: wbuf, Pooled: rng.Intn(2) == 0, Negotiated: negotiated, FailAt: -1}
		base.Ops = genWriteProgram(rng, wbuf, negotiated, 1+rng.Intn(3), 3000, true, 5)
		out = append(out, base)
		// count transport operations, then fail each of them in turn
		ex := writerExecCount(base)
		for k := 0; k < ex && k < 60; k++ {
			for kind := 0; kind < 3; kind++ {
				c := *base
				c.FailAt, c.FailKind = k, kind
				if kind == 2 {
					c.ShortN = core.Pick(rng, []int{0, 1, 5, 1 << 20})
				}
				out = append(out, &c)
			}
		}
	}
	// invalid requests that must leave the wire and the connection untouched: an oversized control
	// message fed to a control-type writer by ReadFrom / io.Copy (smallest and ordinary buffers, the
	// source reporting EOF with the data or separately), followed by a valid message
	for _, server := range []bool{false, true} {
		for _, wbuf := range []int{1, 125, 126, 300} {
			for _, n := range []int{125, 126, 200, 251, 400} {
				data := genWPayload(rng, n)
				for _, glued := range []bool{false, true} {
					for _, ty := range []int{8, 9, 10} {
						out = append(out, &WriterSpec{Prop: 10, Server: server, WBuf: wbuf, FailAt: -1, Note: "control-writer-ReadFrom",
							Ops: []WOp{{K: 1, Ty: ty}, {K: 4, Chunks: []B{B(data[:n/2]), B(data[n/2:])}, Bv: glued}, {K: 5}, {K: 0, Ty: 2, Data: B("next")}}})
					}
				}
			}
		}
	}
	return out
}

// writerExecCount counts the transport operations of a fault-free run (the positions at which a
// fault can be planted).  A program that panics or does not return on this tree has none: its
// fault-free run reports that.
func writerExecCount(sp *WriterSpec) int {
	ch := make(chan int, 1)
	go func() {
		defer func() {
			if recover() != nil {
				ch <- 0
			}
		}()
		ch <- writerExecCount1(sp)
	}()
	select {
	case n := <-ch:
		return n
	case <-time.After(10 * time.Second):
		return 0
	}
}

func writerExecCount1(sp *WriterSpec) (n int) {
	var log []wEvent
	conn := &wConn{log: &log, failAt: -1}
	c := websocket.VerifNewConn(conn, sp.Server, 0, sp.WBuf, nil, nil, sp.Negotiated)
	var w io.WriteCloser
	prepared := map[int]*websocket.PreparedMessage{}
	for _, op := range sp.Ops {
		switch op.K {
		case 0:
			c.WriteMessage(op.Ty, op.Data)
			w = nil
		case 1:
			if nw, err := c.NextWriter(op.Ty); err == nil {
				w = nw
			}
		case 2, 3:
			if w != nil {
				w.Write(op.Data)
			}
		case 4:
			if rf, ok := w.(io.ReaderFrom); ok && w != nil {
				var all []byte
				for _, ch := range op.Chunks {
					all = append(all, ch...)
				}
				rf.ReadFrom(bytes.NewReader(all))
			}
		case 5:
			if w != nil {
				w.Close()
			}
		case 6:
			c.WriteControl(op.Ty, op.Data, dlTimes[op.DL])
		case 8:
			c.EnableWriteCompression(op.Bv)
		case 9:
			c.SetCompressionLevel(op.L)
		case 10:
			pm := prepared[op.PID]
			if pm == nil {
				var err error
				pm, err = websocket.NewPreparedMessage(op.Ty, op.Data)
				if err != nil {
					continue
				}
				prepared[op.PID] = pm
			}
			c.WritePreparedMessage(pm)
		}
	}
	return conn.ops
}

func c20Gen(rng *rand.Rand, tier string) []core.Spec {
	n := 1500
	if tier == "thorough" {
		n = 40000
	}
	var out []core.Spec
	for i := 0; i < n; i++ {
		wbuf := core.Pick(rng, wbufChoices)
		negotiated := rng.Intn(4) == 0
		sp := &WriterSpec{Prop: 20, Server: rng.Intn(2) == 0, WBuf: wbuf, Pooled: rng.Intn(8) != 0, Negotiated: negotiated, FailAt: -1}
		sp.Ops = genWriteProgram(rng, wbuf, negotiated, 1+rng.Intn(4), 3000, true, 8)
		if rng.Intn(3) == 0 {
			// abandoned writer at the end
			sp.Ops = append(sp.Ops, WOp{K: 1, Ty: 2}, WOp{K: 2, Data: genWPayload(rng, rng.Intn(50))})
		}
		if rng.Intn(3) == 0 {
			k := writerExecCount(sp)
			if k > 0 {
				sp.FailAt, sp.FailKind = rng.Intn(k), rng.Intn(3)
				sp.ShortN = rng.Intn(10)
			}
		}
		out = append(out, sp)
	}
	return out
}

func regWriter(id, rule string, gen func(*rand.Rand, string) []core.Spec) {
	core.Register(&core.Prop{ID: id, Rule: rule, Gen: gen, Exec: writerExec, Decode: decodeWriterSpec, Shrink: shrinkWriter, Clauses: writerClauses})
}

func init() {
	regWriter("C02", "write programs of 1-5 messages by every API route (WriteMessage | NextWriter + Write/WriteString/ReadFrom splits + Close or implicit close | WritePreparedMessage), payload lengths from the boundary set (0,1,125,126,65535,65536, k*wbuf+-1, 2*wbuf(+1), 2*(wbuf+14)+-1) and random, interleaved WriteControl, compression toggles and level changes, invalid requests, occasional close by each path; both roles, WriteBufferSize {1,2,16,125,126,1024,4096,default}, pool on/off, compression negotiated or not; 1 in 16 cases with the mask source swapped for a counter; non-trivial = something reached the transport", c02Gen)
	regWriter("C10", "for each generated write program, the fault-free run and one run per (k, kind): the k-th transport operation (SetWriteDeadline or Write) fails with {error, timeout, short write of 0/1/5/len-1 bytes + error}; programs contain invalid requests at random positions and deadlines {zero, t2, t3, t4}", c10Gen)
	regWriter("C09w", "write programs in which a close frame is sent by each of the four paths (WriteControl | WriteMessage | NextWriter+Write+Close | WritePreparedMessage), with no writer open, a writer holding buffered bytes, or a writer that has already flushed a frame; then the open writer's Write/Close and 2-6 further calls of every kind (data messages by every route, control messages by both routes, prepared messages incl. closes, invalid requests)", c09wGen)
	regWriter("C20", "write programs as in C02 (incl. invalid requests, abandoned writers, closes) on connections with an instrumented BufferPool that identifies buffers, poisons released ones and checks the poison on reuse and at the end; one third with a transport fault at a random operation", c20Gen)
}
