package props

import (
	"strings"
	"context"
	"crypto/tls"
	"encoding/json"
	"math/rand"
	"net"
	"net/http"
	"net/url"
	"time"

	"verif/harness/core"

	"github.com/gorilla/websocket"
)

// ---------------------------------------------------------------- C18: dial paths

type PathSpec struct {
	Prop       int    `json:"prop"`
	NetDial    bool   `json:"netdial"`
	NetDialCtx bool   `json:"netdialcontext"`
	NetDialTLS bool   `json:"netdialtlscontext"`
	ServerName string `json:"server_name,omitempty"`
	WSS        bool   `json:"wss"`
	Host       string `json:"host"`
	Proxy      string `json:"proxy,omitempty"` // "", http, https, socks5
	ProxyHost  string `json:"proxy_host,omitempty"`
	User       *string `json:"user,omitempty"`
	Pass       *string `json:"pass,omitempty"`
	Cert       int    `json:"cert"`
	ProxyReply string `json:"proxy_reply,omitempty"`
	HostHeader string `json:"host_header,omitempty"` // caller-supplied Host request header: must not influence the dial plan or the TLS name
	// C16
	Timeout    bool `json:"timeout,omitempty"`
	FailAt     int  `json:"fail_at"`
	FailKind   int  `json:"fail_kind,omitempty"`
	BadReply   int  `json:"bad_reply,omitempty"` // 0 real upgrade, 1 negative reply (403), 2 garbage
}

func (sp *PathSpec) dialer(w *world) (*websocket.Dialer, string) {
	d := &websocket.Dialer{TLSClientConfig: &tls.Config{RootCAs: getPKI().pool, ServerName: sp.ServerName}}
	if sp.NetDial {
		h := w.hook("netdial")
		d.NetDial = func(network, addr string) (net.Conn, error) { return h(context.Background(), network, addr) }
	}
	if sp.NetDialCtx {
		d.NetDialContext = w.hook("ctx")
	}
	if sp.NetDialTLS {
		d.NetDialTLSContext = w.hook("tls")
	}
	if sp.Proxy != "" {
		pu := &url.URL{Scheme: sp.Proxy, Host: sp.ProxyHost}
		if sp.User != nil {
			if sp.Pass != nil {
				pu.User = url.UserPassword(*sp.User, *sp.Pass)
			} else {
				pu.User = url.User(*sp.User)
			}
		}
		d.Proxy = func(*http.Request) (*url.URL, error) { return pu, nil }
	}
	if sp.Timeout {
		d.HandshakeTimeout = 30 * time.Second
		if sp.FailKind == 3 {
			d.HandshakeTimeout = 40 * time.Millisecond // the faulting operation stalls until it has passed
		}
	}
	scheme := "ws"
	if sp.WSS {
		scheme = "wss"
	}
	return d, scheme + "://" + sp.Host + "/x"
}

func hostPort(h string, tls bool) string {
	u := &url.URL{Host: h, Scheme: "http"}
	if tls {
		u.Scheme = "https"
	}
	hp, _ := websocket.VerifHostPortNoPort(u)
	return hp
}

func pathWorld(sp *PathSpec) *world {
	w := &world{certMode: sp.Cert, proxyKind: sp.Proxy, proxyReply: sp.ProxyReply, failAt: sp.FailAt, failKind: sp.FailKind}
	if sp.Proxy != "" {
		w.proxyHost = sp.ProxyHost
		if sp.Proxy != "socks5" {
			// the address the library will dial for the proxy (default port added): computed by an
			// independent rule here: host has a port iff it contains ':' outside brackets
			w.proxyHost = withDefaultPort(sp.ProxyHost, sp.Proxy == "https")
		}
	}
	switch sp.BadReply {
	case 1:
		w.backendReply = func(string) []byte {
			return []byte("HTTP/1.1 403 Forbidden\r\nContent-Length: 2\r\n\r\nno")
		}
	case 2:
		w.backendReply = func(string) []byte { return []byte("garbage\r\n\r\n") }
	}
	return w
}

func withDefaultPort(h string, tls bool) string {
	hasPort := false
	depth := 0
	for i := 0; i < len(h); i++ {
		switch h[i] {
		case '[':
			depth++
		case ']':
			depth--
			hasPort = false
		case ':':
			if depth == 0 {
				hasPort = true
			}
		}
	}
	if hasPort {
		return h
	}
	if tls {
		return h + ":443"
	}
	return h + ":80"
}

func pathExec(s core.Spec) core.Exec {
	sp := s.(*PathSpec)
	w := pathWorld(sp)
	d, u := sp.dialer(w)
	done := make(chan struct{})
	var c *websocket.Conn
	var err error
	panicked := false
	go func() {
		defer close(done)
		defer func() {
			if r := recover(); r != nil {
				panicked = true
				err = errOther
			}
		}()
		var hdr http.Header
		if sp.HostHeader != "" {
			hdr = http.Header{"Host": {sp.HostHeader}}
		}
		c, _, err = d.Dial(u, hdr)
	}()
	hung := false
	select {
	case <-done:
	case <-time.After(20 * time.Second):
		hung = true
	}
	ok := !hung && err == nil && c != nil

	t := core.NewTape(18)
	t.Bool(sp.NetDial).Bool(sp.NetDialCtx).Bool(sp.NetDialTLS).Str(sp.ServerName).Bool(sp.WSS).Str(sp.Host)
	if sp.Proxy == "" {
		t.N(0)
	} else {
		t.N(1).N(map[string]int{"http": 0, "https": 1, "socks5": 2}[sp.Proxy]).Str(sp.ProxyHost)
		if sp.User != nil {
			t.N(1).Str(*sp.User)
		} else {
			t.N(0)
		}
		if sp.Pass != nil {
			t.N(1).Str(*sp.Pass)
		} else {
			t.N(0)
		}
	}
	t.N(sp.Cert).Bool(sp.ProxyReply == "")
	// observation
	w.mu.Lock()
	fn, addr := 3, ""
	firstTLS := false
	firstSNI := ""
	if len(w.hops) > 0 {
		fn = map[string]int{"tls": 0, "ctx": 1, "netdial": 2}[w.hops[0].fn]
		addr = w.hops[0].addr
	}
	nhops := len(w.hops)
	w.mu.Unlock()
	if c != nil {
		c.Close()
	}
	for _, fc := range w.conns {
		fc.Conn.Close()
	}
	w.wg.Wait()
	w.mu.Lock()
	if len(w.hops) > 0 {
		firstTLS, firstSNI = w.hops[0].sawTLS, w.hops[0].sni
	}
	connects := append([]string(nil), w.connects...)
	auths := append([]string(nil), w.auths...)
	socks := append([]string(nil), w.socksTgt...)
	btls := append([]string(nil), w.backendTLS...)
	afterRefusal := w.afterRefusal
	w.mu.Unlock()
	t.N(fn).Str(addr)
	if firstTLS {
		t.N(1).Str(firstSNI)
	} else {
		t.N(0)
	}
	t.StrList(connects).StrList(auths).StrList(socks).StrList(btls).N(afterRefusal).Bool(ok)
	tags := []string{core.Tag("proxy:%s", sp.Proxy), core.Tag("wss:%v", sp.WSS), core.Tag("cert:%d", sp.Cert), core.Tag("ok:%v", ok), core.Tag("hops:%d", nhops)}
	if hung {
		tags = append(tags, "HUNG")
	}
	if panicked || hung {
		return core.Exec{Tape: "18 998", Tags: append(tags, "PANIC-OR-HANG"), Nontrivial: true}
	}
	return core.Exec{Tape: t.String(), Tags: tags, Nontrivial: true}
}

func strp(s string) *string { return &s }

func c18Gen(rng *rand.Rand, tier string) []core.Spec {
	var out []core.Spec
	hosts := []string{"backend.test", "backend.test:8443", "alias.test:443"}
	plainHosts := []string{"backend.test", "backend.test:8080", "127.0.0.1:9", "[::1]:9000", "[2001:db8::1]"}
	stride := 2
	if tier == "thorough" {
		stride = 1
	}
	idx := rng.Intn(stride)
	for _, proxy := range []string{"", "http", "https", "socks5"} {
		for _, wss := range []bool{false, true} {
			for mask := 1; mask < 8; mask++ { // at least one custom dial function: everything stays in memory
				for cred := 0; cred < 3; cred++ {
					if proxy == "" && cred > 0 {
						continue
					}
					for cert := 0; cert < 3; cert++ {
						if !wss && cert > 0 {
							continue
						}
						hs := plainHosts
						if wss {
							hs = hosts
						}
						for _, h := range hs {
							firstHTTPS := (proxy == "" && wss) || proxy == "https"
							if mask&3 == 0 && !firstHTTPS {
								continue // the first hop would use the real default dialer
							}
							idx++
							if idx%stride != 0 {
								continue
							}
							sp := &PathSpec{Prop: 18, NetDial: mask&1 != 0, NetDialCtx: mask&2 != 0, NetDialTLS: mask&4 != 0, WSS: wss, Host: h, Proxy: proxy, Cert: cert, FailAt: -1}
							if proxy != "" {
								sp.ProxyHost = core.Pick(rng, []string{"proxy.test", "proxy.test:3128"})
								if proxy == "socks5" {
									sp.ProxyHost = "proxy.test:1080"
								}
								switch cred {
								case 1:
									sp.User = strp("user")
								case 2:
									sp.User, sp.Pass = strp(core.Pick(rng, []string{"user", "us@er", "u%20r"})), strp(core.Pick(rng, []string{"pw", "", "p:w", "p@ss/w%rd", "p w"}))
								}
								if proxy != "socks5" && rng.Intn(8) == 0 {
									sp.ProxyReply = core.Pick(rng, []string{"HTTP/1.1 407 Proxy Authentication Required", "HTTP/1.1 407", "HTTP/1.1 502 Bad Gateway", "HTTP/1.1 201 Created"})
								}
							}
							if wss && rng.Intn(6) == 0 {
								sp.ServerName = "alias.test"
							}
							if rng.Intn(3) == 0 {
								sp.HostHeader = core.Pick(rng, []string{"other.test", "other.test:443", "proxy.test"})
							}
							out = append(out, sp)
						}
					}
				}
			}
		}
	}
	// every CONNECT reply class on both kinds of HTTP proxy: only 200 opens the tunnel
	for _, proxy := range []string{"http", "https"} {
		for _, wss := range []bool{false, true} {
			for _, reply := range []string{"HTTP/1.1 200 OK", "HTTP/1.1 200", "HTTP/1.1 201 Created", "HTTP/1.1 202 Accepted", "HTTP/1.1 204 No Content", "HTTP/1.1 299 X",
				"HTTP/1.1 100 Continue", "HTTP/1.1 301 Moved", "HTTP/1.1 407 Proxy Authentication Required", "HTTP/1.1 407", "HTTP/1.1 502 Bad Gateway", "HTTP/1.0 200 OK"} {
				h := "backend.test"
				sp := &PathSpec{Prop: 18, NetDialCtx: true, WSS: wss, Host: h, Proxy: proxy, ProxyHost: "proxy.test:3128", FailAt: -1, ProxyReply: reply}
				if strings.Contains(reply, " 200") {
					sp.ProxyReply = ""
					if reply != "HTTP/1.1 200 OK" {
						continue
					}
				}
				out = append(out, sp)
			}
		}
	}
	return out
}

// ---------------------------------------------------------------- C16: fault at every operation

func traceCodes(ev []string) []int {
	m := map[string]int{"read": 0, "write": 1, "setdl": 2, "setdl0": 3, "setwdl": 4, "setwdl0": 5, "setrdl": 6, "setrdl0": 7, "close": 8, "fail": 9}
	var out []int
	for _, e := range ev {
		out = append(out, m[e])
	}
	return out
}

func cleanupExec(s core.Spec) core.Exec {
	sp := s.(*PathSpec)
	w := pathWorld(sp)
	d, u := sp.dialer(w)
	done := make(chan struct{})
	var c *websocket.Conn
	var err error
	panicked := false
	go func() {
		defer close(done)
		defer func() {
			if r := recover(); r != nil {
				panicked = true
				err = errOther
			}
		}()
		c, _, err = d.Dial(u, nil)
	}()
	hung := false
	select {
	case <-done:
	case <-time.After(20 * time.Second):
		hung = true
	}
	ok := !hung && err == nil && c != nil
	var ev []string
	w.mu.Lock()
	if len(w.conns) > 0 {
		fc := w.conns[0]
		fc.mu.Lock()
		ev = append([]string(nil), fc.events...)
		fc.mu.Unlock()
	}
	w.mu.Unlock()
	if c != nil {
		c.Close()
	}
	for _, fc := range w.conns {
		fc.Conn.Close()
	}
	w.wg.Wait()
	// early I/O: the library's own TLS handshake on the first hop precedes the deadline
	early := (sp.Proxy == "" && sp.WSS && !sp.NetDialTLS) || (sp.Proxy == "https" && !sp.NetDialTLS)
	// every dial function that takes a context got one that carries the deadline
	ctxok := true
	w.mu.Lock()
	for _, h := range w.hops {
		if sp.Timeout && h.fn != "netdial" && !h.ctxDL {
			ctxok = false
		}
	}
	w.mu.Unlock()
	t := core.NewTape(16)
	t.Bool(false).Bool(sp.Timeout).Bool(early).Bool(ctxok)
	t.Bool(ok)
	for _, x := range traceCodes(ev) {
		t.N(x)
	}
	tags := []string{core.Tag("path:%s wss=%v", sp.Proxy, sp.WSS), core.Tag("ok:%v", ok), core.Tag("failkind:%d", sp.FailKind)}
	if hung {
		tags = append(tags, "HUNG")
	}
	if (err == nil) != (c != nil) {
		tags = append(tags, "conn-and-error-disagree")
	}
	if panicked || hung {
		return core.Exec{Tape: "16 998", Tags: append(tags, "PANIC-OR-HANG"), Nontrivial: true}
	}
	return core.Exec{Tape: t.String(), Tags: tags, Nontrivial: len(ev) > 0}
}

func c16Gen(rng *rand.Rand, tier string) []core.Spec {
	var out []core.Spec
	bases := []*PathSpec{
		{NetDialCtx: true, Host: "backend.test"},
		{NetDial: true, Host: "backend.test:8080"},
		{NetDialCtx: true, WSS: true, Host: "backend.test"},
		{NetDialCtx: true, NetDialTLS: true, WSS: true, Host: "backend.test"},
		{NetDialCtx: true, Host: "backend.test", Proxy: "http", ProxyHost: "proxy.test:3128"},
		{NetDialCtx: true, WSS: true, Host: "backend.test", Proxy: "http", ProxyHost: "proxy.test:3128"},
		{NetDialCtx: true, WSS: true, Host: "backend.test", Proxy: "https", ProxyHost: "proxy.test"},
		{NetDialCtx: true, Host: "backend.test", Proxy: "socks5", ProxyHost: "proxy.test:1080"},
		{NetDialCtx: true, Host: "backend.test", Proxy: "http", ProxyHost: "proxy.test:3128", ProxyReply: "HTTP/1.1 407"},
		{NetDialCtx: true, WSS: true, Host: "backend.test", Cert: 1},
		{NetDialCtx: true, WSS: true, Host: "backend.test", Cert: 2},
	}
	for _, b := range bases {
		for _, timeout := range []bool{false, true} {
			for _, bad := range []int{0, 1, 2} {
				base := *b
				base.Prop, base.Timeout, base.BadReply, base.FailAt = 16, timeout, bad, -1
				out = append(out, &base)
				if bad != 0 && tier != "thorough" {
					continue
				}
				// count the operations of the fault-free run, then fail each in turn
				w := pathWorld(&base)
				d, u := base.dialer(w)
				var c *websocket.Conn
				func() {
					defer func() { recover() }()
					c, _, _ = d.Dial(u, nil)
				}()
				n := 0
				var evs []string
				if len(w.conns) > 0 {
					n = w.conns[0].ops
					for _, e := range w.conns[0].events {
						if e != "close" && e != "fail" {
							evs = append(evs, e)
						}
					}
				}
				// deadline calls made by the x/net SOCKS5 dialer ignore their errors: not failure points
				skip := map[int]bool{}
				if base.Proxy == "socks5" {
					var dls []int
					for i, e := range evs {
						if e == "setdl" || e == "setdl0" {
							dls = append(dls, i)
						}
					}
					for j, i := range dls {
						if j != 0 && j < len(dls)-2 {
							skip[i] = true
						}
					}
				}
				if c != nil {
					c.Close()
				}
				for _, fc := range w.conns {
					fc.Conn.Close()
				}
				w.wg.Wait()
				for k := 0; k < n; k++ {
					if skip[k] {
						continue
					}
					for kind := 0; kind < 3; kind++ {
						if tier != "thorough" && kind != k%3 && k > 6 {
							continue
						}
						cse := base
						cse.FailAt, cse.FailKind = k, kind
						out = append(out, &cse)
					}
					if base.Timeout && (tier == "thorough" || k%2 == 0) && (len(evs) <= k || !strings.HasPrefix(evs[k], "set")) {
						// the peer goes silent at this read / write: the operation returns only when the
						// handshake deadline has passed
						cse := base
						cse.FailAt, cse.FailKind = k, 3
						out = append(out, &cse)
					}
				}
			}
		}
	}
	// server side: Upgrade after hijack
	for _, timeout := range []bool{false, true} {
		for k := -1; k < 3; k++ {
			out = append(out, &HSWrap{Timeout: timeout, FailAt: k})
		}
	}
	return out
}

// server-side C16 case: Upgrade with a failing hijacked connection
type HSWrap struct {
	Timeout bool `json:"timeout"`
	FailAt  int  `json:"fail_at"`
	Server  bool `json:"server_side"`
}

func cleanupAnyExec(s core.Spec) core.Exec {
	if hw, ok := s.(*HSWrap); ok {
		rng := rand.New(rand.NewSource(1))
		sp := validHS(rng, 12)
		sp.Timeout = hw.Timeout
		r := hsRequest(sp)
		sc := NewScriptConn(nil, 0, false)
		sc.FailOp = hw.FailAt
		w := NewFakeRW(sc)
		u := websocket.Upgrader{CheckOrigin: func(*http.Request) bool { return true }}
		if hw.Timeout {
			u.HandshakeTimeout = time.Hour
		}
		c, err := u.Upgrade(w, r, nil)
		t := core.NewTape(16)
		t.Bool(true).Bool(hw.Timeout).Bool(false).Bool(true).Bool(err == nil && c != nil)
		for _, e := range sc.Events {
			switch e.Kind {
			case "write":
				t.N(1)
			case "write-fail":
				t.N(1).N(9)
			case "setwdl":
				if e.DL.IsZero() {
					t.N(5)
				} else {
					t.N(4)
				}
			case "setwdl-fail":
				if e.DL.IsZero() {
					t.N(5).N(9)
				} else {
					t.N(4).N(9)
				}
			case "setdl":
				if e.DL.IsZero() {
					t.N(3)
				} else {
					t.N(2)
				}
			case "setdl-fail":
				if e.DL.IsZero() {
					t.N(3).N(9)
				} else {
					t.N(2).N(9)
				}
			case "close":
				t.N(8)
			}
		}
		return core.Exec{Tape: t.String(), Tags: []string{"side:server"}, Nontrivial: true}
	}
	return cleanupExec(s)
}

func init() {
	decPath := func(raw json.RawMessage) (core.Spec, error) {
		var probe struct {
			Server bool `json:"server_side"`
		}
		json.Unmarshal(raw, &probe)
		var hw HSWrap
		if err := json.Unmarshal(raw, &hw); err == nil && probe.Server {
			return &hw, nil
		}
		var s PathSpec
		err := json.Unmarshal(raw, &s)
		return &s, err
	}
	core.Register(&core.Prop{
		ID:         "C18",
		Rule:       "the matrix {no proxy, http, https, socks5} x {ws, wss} x every non-empty subset of {NetDial, NetDialContext, NetDialTLSContext} x proxy credentials {none, user, user:password} x backend certificate {valid for the host, for another host, untrusted CA} x URL hosts with and without ports incl. IPv6 literals (quick: every second row), on an in-memory network whose proxies (HTTP CONNECT, TLS, SOCKS5) and TLS backends record what they see; occasional proxy refusals (407 with and without reason phrase, 502, 201) and TLSClientConfig.ServerName",
		Gen:        c18Gen,
		Exec:       pathExec,
		Decode:     decPath,
		Exhaustive: func(t string) bool { return t == "thorough" },
		Clauses: map[int]string{
			160: "Dial succeeded over TLS although the backend's certificate is not valid for the URL's host",
			161: "Dial succeeded although the proxy refused the CONNECT",
			162: "the Proxy-Authorization sent with CONNECT is not Basic base64(user:password) of the configured (decoded) credentials, or credentials were sent although none/only a user name was configured",
			163: "the TLS session that reached the backend through the proxy was not opened for the URL's host (or TLSClientConfig.ServerName)",
			164: "a ws:// connection through a proxy was wrapped in TLS towards the backend",
			165: "the first hop was not dialed with the dial function the Dialer configures for it",
			166: "the client went on sending after the proxy had answered CONNECT with a status other than 200",
		},
	})
	core.Register(&core.Prop{
		ID:   "C16",
		Rule: "dial paths {direct ws (NetDial / NetDialContext), direct wss with library TLS, wss through NetDialTLSContext, http proxy + ws/wss, https proxy + wss, socks5, proxy refusal, backend with wrong / untrusted certificate} x {HandshakeTimeout set or not} x {real upgrade, 403 reply, garbage reply}; each first run fault-free to count the operations on the dialed connection, then once per (operation index, fault kind in {error, timeout, EOF}); server side: Upgrade with each operation on the hijacked connection failing",
		Gen:  c16Gen,
		Exec: cleanupAnyExec,
		Decode: decPath,
		Clauses: map[int]string{
			170: "the handshake succeeded but the connection was closed or a deadline was left armed",
			171: "the handshake failed but the network connection was not closed (or something happened to it after Close)",
			172: "handshake I/O happened before the configured deadline was armed",
			173: "the handshake succeeded but the connection was handed over with a read or write deadline still armed",
			174: "a dial function was given a context without the handshake deadline",
		},
	})
}
