package props

import (
	"encoding/json"
	"math/rand"

	"verif/harness/core"

	"github.com/gorilla/websocket"
)

// C01j: WriteJSON on one connection, ReadJSON on a connection of the opposite role

type JSONSpec struct {
	Server bool              `json:"server"` // role of the writer
	WBuf   int               `json:"wbuf"`
	RBuf   int               `json:"rbuf"`
	Values []json.RawMessage `json:"values"`
	Chunk  int               `json:"chunk"` // transport chunk size on the read side (0: one chunk)
}

func genJSONValue(rng *rand.Rand, depth int) interface{} {
	switch k := rng.Intn(8); {
	case k == 0:
		return nil
	case k == 1:
		return rng.Intn(2) == 0
	case k == 2:
		return float64(rng.Intn(2000000) - 1000000)
	case k == 3:
		return core.Pick(rng, []string{"", "a", "héllo \"w\"\n", " <>&", string(genWPayload(rng, rng.Intn(40)))})
	case k < 6 && depth > 0:
		n := rng.Intn(5)
		a := make([]interface{}, n)
		for i := range a {
			a[i] = genJSONValue(rng, depth-1)
		}
		return a
	case depth > 0:
		m := map[string]interface{}{}
		for i := rng.Intn(5); i > 0; i-- {
			m[core.Pick(rng, []string{"a", "b", "key", "", "x y"})] = genJSONValue(rng, depth-1)
		}
		return m
	}
	return "leaf"
}

func jsonExec(s core.Spec) core.Exec {
	sp := s.(*JSONSpec)
	var log []wEvent
	wc := &wConn{log: &log, failAt: -1}
	cw := websocket.VerifNewConn(wc, sp.Server, 0, sp.WBuf, nil, nil, false)
	var want [][]byte
	for _, raw := range sp.Values {
		var v interface{}
		json.Unmarshal(raw, &v)
		canon, _ := json.Marshal(v)
		want = append(want, canon)
		cw.WriteJSON(v)
	}
	var wire []byte
	for _, e := range log {
		if e.kind == 2 {
			wire = append(wire, e.data...)
		}
	}
	var chunks [][]byte
	if sp.Chunk <= 0 {
		chunks = [][]byte{wire}
	} else {
		for i := 0; i < len(wire); i += sp.Chunk {
			j := i + sp.Chunk
			if j > len(wire) {
				j = len(wire)
			}
			chunks = append(chunks, wire[i:j])
		}
	}
	cr := websocket.VerifNewConn(NewScriptConn(chunks, 0, false), !sp.Server, sp.RBuf, 0, nil, nil, false)
	t := core.NewTape(27)
	t.Bool(sp.Server).BytesList(want).Bytes(wire)
	t.N(len(want))
	for range want {
		var out interface{}
		err := cr.ReadJSON(&out)
		got, _ := json.Marshal(out)
		t.Bytes(got)
		if err != nil {
			t.N(1)
		} else {
			t.N(0)
		}
	}
	return core.Exec{Tape: t.String(), Tags: []string{core.Tag("values:%d", len(want))}, Nontrivial: len(wire) > 0}
}

func c01jGen(rng *rand.Rand, tier string) []core.Spec {
	n := 300
	if tier == "thorough" {
		n = 10000
	}
	var out []core.Spec
	for i := 0; i < n; i++ {
		sp := &JSONSpec{Server: rng.Intn(2) == 0, WBuf: core.Pick(rng, wbufChoices), RBuf: core.Pick(rng, rbufChoices), Chunk: core.Pick(rng, []int{0, 1, 7, 100})}
		for k := 1 + rng.Intn(4); k > 0; k-- {
			raw, _ := json.Marshal(genJSONValue(rng, 3))
			sp.Values = append(sp.Values, raw)
		}
		out = append(out, sp)
	}
	return out
}

func init() {
	core.Register(&core.Prop{
		ID:   "C01j",
		Rule: "1-4 random JSON values (nested arrays / objects / strings with escapes and invalid UTF-8 / numbers / null) sent with WriteJSON on a connection of either role and any write buffer size, the wire re-chunked (1, 7, 100 bytes or whole) into a connection of the opposite role and read with ReadJSON; the wire must carry one text message per value (its encoding/json encoding followed by a newline) and every value must come back equal",
		Gen:  c01jGen,
		Exec: jsonExec,
		Decode: func(raw json.RawMessage) (core.Spec, error) {
			var s JSONSpec
			err := json.Unmarshal(raw, &s)
			return &s, err
		},
		Clauses: map[int]string{60: "the bytes written are not a sequence of whole frames", 61: "a written frame violates the framing rules for this role",
			190: "the wire does not carry exactly one text message per WriteJSON call, each the JSON encoding of the value followed by a newline",
			191: "ReadJSON did not return the values sent, in order, without error"},
	})
}
