package props

import (
	"bytes"
	"encoding/base64"
	"encoding/json"
	"errors"
	"math/rand"
	"net/http"
	"net/url"
	"sort"
	"strings"
	"time"

	"verif/harness/core"

	"github.com/gorilla/websocket"
)

// C12 Server handshake (also used by C13/C15 generators)

type KV struct {
	K B   `json:"k"`
	V []B `json:"v"`
}

type HSSpec struct {
	Prop       int   `json:"prop"`
	Method     B     `json:"method"`
	Host       B     `json:"host"`
	Connection []B   `json:"connection"`
	Upgrade    []B   `json:"upgrade"`
	Version    []B   `json:"version"`
	Key        []B   `json:"key"`
	Protocol   []B   `json:"protocol,omitempty"`
	Extensions []B   `json:"extensions,omitempty"`
	Origin     []B   `json:"origin,omitempty"`
	Subprotos  []B   `json:"subprotocols,omitempty"`
	SubNil     bool  `json:"subprotocols_nil"`
	Compress   bool  `json:"enable_compression"`
	Policy     int   `json:"origin_policy"` // 0 default, 1 custom allow, 2 custom deny
	Timeout    bool  `json:"handshake_timeout"`
	Warm       bool  `json:"warm,omitempty"` // the Upgrader and the response-header map were used for another handshake first
	RH         []KV  `json:"response_header,omitempty"`
	RHNil      bool  `json:"response_header_nil"`
	HijackFail bool  `json:"hijack_fails,omitempty"`
	WriteFail  int   `json:"write_fails_at,omitempty"` // 0 = no failure, k>0: the (k-1)-th conn operation fails
	Note       string `json:"note,omitempty"`
}

func strs(bs []B) []string {
	out := make([]string, len(bs))
	for i, b := range bs {
		out[i] = string(b)
	}
	return out
}

func hsRequest(sp *HSSpec) *http.Request {
	r := &http.Request{Method: string(sp.Method), Host: string(sp.Host), Header: http.Header{}, URL: &url.URL{Path: "/"}, Proto: "HTTP/1.1", ProtoMajor: 1, ProtoMinor: 1}
	set := func(k string, v []B) {
		if len(v) > 0 {
			r.Header[k] = strs(v)
		}
	}
	set("Connection", sp.Connection)
	set("Upgrade", sp.Upgrade)
	set("Sec-Websocket-Version", sp.Version)
	set("Sec-Websocket-Key", sp.Key)
	set("Sec-Websocket-Protocol", sp.Protocol)
	set("Sec-Websocket-Extensions", sp.Extensions)
	set("Origin", sp.Origin)
	return r
}

func hsExec(s core.Spec) core.Exec {
	sp := s.(*HSSpec)
	r := hsRequest(sp)
	sc := NewScriptConn(nil, 0, false)
	if sp.WriteFail > 0 {
		sc.FailOp = sp.WriteFail - 1
	}
	w := NewFakeRW(sc)
	if sp.HijackFail {
		w.HijackErr = errors.New("verif: hijack refused")
	}
	var rh http.Header
	sorted := append([]KV(nil), sp.RH...)
	sort.SliceStable(sorted, func(i, j int) bool { return bytes.Compare(sorted[i].K, sorted[j].K) < 0 })
	if !sp.RHNil {
		rh = http.Header{}
		for _, kv := range sorted {
			rh[string(kv.K)] = append(rh[string(kv.K)], strs(kv.V)...)
		}
	}
	u := websocket.Upgrader{}
	if sp.Warm {
		// the same Upgrader value (and the same response-header map) served another client first,
		// under another configuration: nothing of that may carry over
		u.EnableCompression = true
		u.CheckOrigin = func(*http.Request) bool { return true }
		var offers []string
		for _, p := range sp.Protocol {
			for _, tok := range strings.Split(string(p), ",") {
				if tok = strings.TrimSpace(tok); tok != "" && !strings.ContainsAny(tok, "\" \t\r\n()<>@;:\\/[]?={}") {
					offers = append(offers, tok)
				}
			}
		}
		offers = append(offers, "warm")
		u.Subprotocols = offers
		wr, _ := http.NewRequest("GET", "http://warm.example/", nil)
		wr.Header = http.Header{"Connection": {"Upgrade"}, "Upgrade": {"websocket"}, "Sec-Websocket-Version": {"13"}, "Sec-Websocket-Key": {"dGhlIHNhbXBsZSBub25jZQ=="},
			"Sec-Websocket-Protocol": {strings.Join(offers, ", ")}, "Sec-Websocket-Extensions": {"permessage-deflate"}}
		if wc, werr := u.Upgrade(NewFakeRW(NewScriptConn(nil, 0, false)), wr, rh); werr == nil {
			wc.Close()
		}
		u.Subprotocols, u.CheckOrigin = nil, nil
	}
	u.EnableCompression = sp.Compress
	if !sp.SubNil {
		u.Subprotocols = strs(sp.Subprotos)
		if u.Subprotocols == nil {
			u.Subprotocols = []string{}
		}
	}
	switch sp.Policy {
	case 1:
		u.CheckOrigin = func(*http.Request) bool { return true }
	case 2:
		u.CheckOrigin = func(*http.Request) bool { return false }
	}
	if sp.Timeout {
		u.HandshakeTimeout = time.Hour
	}
	c, err := u.Upgrade(w, r, rh)

	t := core.NewTape(sp.Prop)
	t.Bytes(sp.Method).Bytes(sp.Host)
	for _, l := range [][]B{sp.Connection, sp.Upgrade, sp.Version, sp.Key, sp.Protocol, sp.Extensions, sp.Origin} {
		t.N(len(l))
		for _, x := range l {
			t.Bytes(x)
		}
	}
	urlOK := false
	var urlHost []byte
	if len(sp.Origin) > 0 {
		if pu, perr := url.Parse(string(sp.Origin[0])); perr == nil {
			urlOK, urlHost = true, []byte(pu.Host)
		}
	}
	t.OptBytes(urlOK, urlHost)
	if sp.SubNil {
		t.N(0)
	} else {
		t.N(1).N(len(sp.Subprotos))
		for _, x := range sp.Subprotos {
			t.Bytes(x)
		}
	}
	t.Bool(sp.Compress).N(sp.Policy).Bool(sp.Timeout)
	if sp.RHNil {
		t.N(0)
	} else {
		// merged per key, sorted by key: what ranging over the map yields up to order
		keys := []string{}
		for k := range rh {
			keys = append(keys, k)
		}
		sort.Strings(keys)
		t.N(1).N(len(keys))
		for _, k := range keys {
			t.Str(k).StrList(rh[k])
		}
	}
	t.Bool(!sp.HijackFail).Bool(sp.WriteFail == 0)

	tags := []string{}
	switch {
	case err == nil && c != nil:
		resp := sc.Written()
		body := bytes.TrimSuffix(resp, []byte("\r\n\r\n"))
		lines := bytes.Split(body, []byte("\r\n"))
		nfixed := 4
		for nfixed < len(lines) && (bytes.HasPrefix(lines[nfixed], []byte("Sec-WebSocket-Protocol: ")) || bytes.HasPrefix(lines[nfixed], []byte("Sec-WebSocket-Extensions: "))) {
			nfixed++
		}
		if nfixed > len(lines) {
			nfixed = len(lines)
		}
		app := append([][]byte(nil), lines[nfixed:]...)
		keyOf := func(l []byte) string {
			if i := bytes.Index(l, []byte(": ")); i >= 0 {
				return string(l[:i])
			}
			return string(l)
		}
		sort.SliceStable(app, func(i, j int) bool { return keyOf(app[i]) < keyOf(app[j]) })
		t.N(1).N(len(lines))
		for _, l := range lines[:nfixed] {
			t.Bytes(l)
		}
		for _, l := range app {
			t.Bytes(l)
		}
		cw, cr := c.VerifCompressionNegotiated()
		t.Bool(cw && cr).Str(c.Subprotocol())
		if cw != cr {
			tags = append(tags, "compression-half-installed")
		}
		tags = append(tags, "outcome:upgraded")
	case w.Hijacked:
		t.N(3)
		tags = append(tags, "outcome:write-failed")
	case sp.HijackFail && w.HijackCalled && w.Status == 500:
		t.N(2)
		tags = append(tags, "outcome:hijack-failed")
	default:
		up := 0
		if w.H.Get("Upgrade") != "" {
			up = 1
		}
		t.N(0).N(w.Status).N(up)
		tags = append(tags, core.Tag("outcome:rejected-%d", w.Status))
		if _, ok := err.(websocket.HandshakeError); !ok {
			tags = append(tags, "error-not-HandshakeError")
		}
	}
	return core.Exec{Tape: t.String(), Tags: tags, Nontrivial: true}
}

// ---------------------------------------------------------------- generators

var owsChoices = []string{"", " ", "\t", "  ", " \t "}

func tokenCase(rng *rand.Rand, s string) string { return flipCase(rng, s) }

func genTokenList(rng *rand.Rand, want string, mode int) []B {
	// mode 0: contains want; 1: near miss; 2: malformed
	others := []string{"keep-alive", "close", "h2c", "foo", "TE", "x-y.z", "Upgrade-Insecure", "websockets", "xupgrade", "upgradex", "web socket"}
	nlines := 1 + rng.Intn(2)
	var lines []B
	placed := false
	for i := 0; i < nlines; i++ {
		var elems []string
		for j := rng.Intn(3); j > 0; j-- {
			o := core.Pick(rng, others)
			if o == "web socket" && mode != 2 {
				o = "ws"
			}
			elems = append(elems, o)
		}
		if mode == 0 && !placed && (i == nlines-1 || rng.Intn(2) == 0) {
			pos := rng.Intn(len(elems) + 1)
			elems = append(elems[:pos], append([]string{tokenCase(rng, want)}, elems[pos:]...)...)
			placed = true
		}
		if mode == 1 {
			elems = append(elems, core.Pick(rng, []string{want + "s", "x" + want, want + ";q=1", want[:len(want)-1], want + " x", strings.ToUpper(want) + "_"}))
		}
		if mode == 2 {
			elems = append(elems, core.Pick(rng, []string{"", "@", "a b", "\"" + want + "\"", "(" + want + ")"}), tokenCase(rng, want))
		}
		var sb strings.Builder
		for k, e := range elems {
			if k > 0 {
				sb.WriteString(",")
			}
			sb.WriteString(core.Pick(rng, owsChoices) + e + core.Pick(rng, owsChoices))
		}
		lines = append(lines, B(sb.String()))
	}
	return lines
}

func genChallengeKey(rngx *rand.Rand) B {
	switch rngx.Intn(10) {
	case 0:
		return B("")
	case 1:
		n := core.Pick(rngx, []int{0, 1, 15, 17, 20, 32})
		return B(base64.StdEncoding.EncodeToString(core.RandBytes(rngx, n)))
	case 2:
		k := base64.StdEncoding.EncodeToString(core.RandBytes(rngx, 16))
		return B(core.Pick(rngx, []string{k[:len(k)-1], k + "=", "!" + k[1:], k[:10] + "\r\n" + k[10:], strings.TrimRight(k, "="), k + "AAAA"}))
	case 3:
		return B(base64.URLEncoding.EncodeToString(core.RandBytes(rngx, 16)))
	}
	return B(base64.StdEncoding.EncodeToString(core.RandBytes(rngx, 16)))
}

func genExtOffer(rng *rand.Rand) []B {
	opts := []string{"permessage-deflate", "permessage-deflate; client_max_window_bits", "permessage-deflate; server_no_context_takeover; client_no_context_takeover",
		"x-webkit-deflate-frame", "foo, permessage-deflate", "permessage-deflate; client_max_window_bits=\"15\"", "permessage-deflate;server_max_window_bits=10, bar;x=y",
		"PERMESSAGE-DEFLATE", "permessage-deflate-x", "foo; a=\"b\\\"c\", permessage-deflate", "permessage-deflate; a=\"unterminated", ";", "permessage-deflate junk", "",
		// quoted parameter values that contain commas, escaped quotes and escaped backslashes: what looks like a list
		// element inside the quotes is no offer; what follows a properly closed quoted string is
		"foo; x=\"a\\\", permessage-deflate, b\\\"\"", "foo; x=\"a, permessage-deflate\"", "foo; x=\"a\\\\\", permessage-deflate",
		"x-custom; note=\"a\\\", permessage-deflate, b\\\"\"; k=v", "foo; x=\"\\\"\", permessage-deflate; client_no_context_takeover"}
	n := rng.Intn(3)
	var out []B
	for i := 0; i < n; i++ {
		out = append(out, B(core.Pick(rng, opts)))
	}
	return out
}

func genRH(rng *rand.Rand) ([]KV, bool) {
	if rng.Intn(4) == 0 {
		return nil, true
	}
	var out []KV
	keys := []string{"X-Custom", "Set-Cookie", "Sec-Websocket-Protocol", "Server", "X-A", "Sec-Websocket-Extensions"}
	for j := rng.Intn(4); j > 0; j-- {
		k := core.Pick(rng, keys)
		if k == "Sec-Websocket-Extensions" && rng.Intn(4) != 0 {
			k = "X-B"
		}
		var vs []B
		for n := 1 + rng.Intn(2); n > 0; n-- {
			switch rng.Intn(5) {
			case 0:
				vs = append(vs, B("v\r\nInjected: yes"))
			case 1:
				vs = append(vs, B(core.RandBytes(rng, rng.Intn(8))))
			case 2:
				vs = append(vs, B("a\nb\x00c\x7f\x80\xff\t"))
			default:
				vs = append(vs, B(core.Pick(rng, []string{"chat", "x", "superchat", "", "a b"})))
			}
		}
		out = append(out, KV{K: B(k), V: vs})
	}
	return out, false
}

func validHS(rng *rand.Rand, prop int) *HSSpec {
	return &HSSpec{Prop: prop, Method: B("GET"), Host: B("example.com"), Connection: []B{B("Upgrade")}, Upgrade: []B{B("websocket")},
		Version: []B{B("13")}, Key: []B{B(base64.StdEncoding.EncodeToString(core.RandBytes(rng, 16)))}, SubNil: true, RHNil: true, Policy: 1}
}

func c12Gen(rng *rand.Rand, tier string) []core.Spec {
	n := 6000
	if tier == "thorough" {
		n = 150000
	}
	var out []core.Spec
	for i := 0; i < n; i++ {
		sp := validHS(rng, 12)
		mode := func() int {
			switch rng.Intn(8) {
			case 0:
				return 1
			case 1:
				return 2
			}
			return 0
		}
		sp.Connection = genTokenList(rng, "upgrade", mode())
		sp.Upgrade = genTokenList(rng, "websocket", mode())
		if rng.Intn(6) == 0 {
			sp.Version = genTokenList(rng, "13", mode())
		}
		if rng.Intn(10) == 0 {
			sp.Version = []B{B(core.Pick(rng, []string{"8", "12", "130", "13, 8", "8, 13", "13 ", ""}))}
		}
		if rng.Intn(12) == 0 {
			sp.Method = B(core.Pick(rng, []string{"POST", "get", "HEAD", "CONNECT", ""}))
		}
		sp.Key = []B{genChallengeKey(rng)}
		if rng.Intn(10) == 0 {
			sp.Key = append(sp.Key, genChallengeKey(rng))
		}
		if rng.Intn(20) == 0 {
			sp.Key = nil
		}
		if rng.Intn(3) == 0 {
			sp.Protocol = []B{B(core.Pick(rng, []string{"chat", "chat, superchat", " superchat ,chat", "x", "", "a,,b", "Chat", "chat "}))}
		}
		switch rng.Intn(4) {
		case 0:
			sp.SubNil = false
			sp.Subprotos = []B{B("superchat"), B("chat")}
		case 1:
			sp.SubNil = false
			sp.Subprotos = nil
		case 2:
			sp.SubNil = false
			sp.Subprotos = []B{B(core.Pick(rng, []string{"chat", "x", "b"}))}
		}
		sp.Extensions = genExtOffer(rng)
		sp.Compress = rng.Intn(2) == 0
		sp.Policy = rng.Intn(3)
		if sp.Policy == 0 && rng.Intn(2) == 0 {
			o, _ := c13Origin(rng, string(sp.Host))
			sp.Origin = []B{B(o)}
		}
		sp.Timeout = rng.Intn(2) == 0
		sp.Warm = rng.Intn(3) == 0
		sp.RH, sp.RHNil = genRH(rng)
		if rng.Intn(25) == 0 {
			sp.HijackFail = true
		}
		if rng.Intn(25) == 0 {
			sp.WriteFail = 1 + rng.Intn(3)
			if !sp.Timeout && sp.WriteFail == 3 {
				sp.WriteFail = 2
			}
		}
		out = append(out, sp)
	}
	// the documented witness of the header injection finding
	w := validHS(rng, 12)
	w.RHNil = false
	w.RH = []KV{{K: B("Sec-Websocket-Protocol"), V: []B{B("x\r\nEvil: y")}}}
	w.Note = "subprotocol-injection"
	out = append(out, w)
	return out
}

func shrinkHS(s core.Spec) []core.Spec {
	sp := s.(*HSSpec)
	var out []core.Spec
	cp := func() *HSSpec { c := *sp; return &c }
	if len(sp.RH) > 0 {
		for i := range sp.RH {
			c := cp()
			c.RH = append(append([]KV(nil), sp.RH[:i]...), sp.RH[i+1:]...)
			out = append(out, c)
		}
	}
	for _, f := range []func(c *HSSpec){
		func(c *HSSpec) { c.Extensions = nil },
		func(c *HSSpec) { c.Protocol = nil },
		func(c *HSSpec) { c.Origin = nil },
		func(c *HSSpec) { c.Connection = []B{B("Upgrade")} },
		func(c *HSSpec) { c.Upgrade = []B{B("websocket")} },
		func(c *HSSpec) { c.Version = []B{B("13")} },
		func(c *HSSpec) { c.SubNil, c.Subprotos = true, nil },
		func(c *HSSpec) { c.Compress = false },
		func(c *HSSpec) { c.Timeout = false },
		func(c *HSSpec) { c.Policy = 1 },
	} {
		c := cp()
		f(c)
		out = append(out, c)
	}
	return out
}

var hsClauses = map[int]string{
	101: "a valid opening handshake (all list headers inside the 1#token grammar) was refused",
	102: "cross-origin request upgraded",
	103: "426 reply without an Upgrade header",
	104: "failure reply is not an HTTP error status",
	105: "an invalid opening handshake was upgraded",
	106: "CR or LF inside a line of the 101 response",
	107: "status / Upgrade / Connection / Sec-WebSocket-Accept lines of the 101 response are wrong",
	108: "the 101 response has extra lines (header injection)",
	109: "duplicate protocol or extension line in the 101 response",
	110: "selected subprotocol was not offered by the client or is not supported by the server",
	111: "permessage-deflate announced although not enabled or not offered",
	112: "hijack reported failed although it succeeded",
	113: "response write reported failed although it succeeded",
	199: "malformed observation",
}

func decodeHS(raw json.RawMessage) (core.Spec, error) {
	var s HSSpec
	err := json.Unmarshal(raw, &s)
	return &s, err
}

func init() {
	core.Register(&core.Prop{
		ID:      "C12",
		Rule:    "upgrade requests from the handshake grammar (methods; Connection/Upgrade/Version token lists with arbitrary OWS, case, extra tokens, several lines, near-miss tokens such as websockets/xupgrade/upgrade;q=1, malformed elements; keys of decoded length 0..32, invalid base64, CR/LF inside, URL alphabet; subprotocol offers; extension offers with parameters, quoted strings and junk) x Upgrader settings (Subprotocols nil/empty/lists, EnableCompression, CheckOrigin default/allow/deny, HandshakeTimeout) x responseHeader maps with arbitrary bytes incl. CR/LF/NUL/0x7f/0x80+ and a Sec-Websocket-Protocol entry x hijack / write failures; every case is non-trivial",
		Gen:     c12Gen,
		Exec:    hsExec,
		Decode:  decodeHS,
		Shrink:  shrinkHS,
		Clauses: hsClauses,
	})
}
