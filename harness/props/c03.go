package props

import (
	"math/rand"

	"verif/harness/core"
)

// C03 The reader decodes any conformant peer stream.

func c03Gen(rng *rand.Rand, tier string) []core.Spec {
	n := 1500
	big := 12
	if tier == "thorough" {
		n = 40000
		big = 300
	}
	var out []core.Spec
	for i := 0; i < n; i++ {
		server := rng.Intn(2) == 0
		negotiated := rng.Intn(3) == 0
		nm := 1 + rng.Intn(4)
		maxLen := 3000
		if i < big {
			maxLen = 70000
			nm = 1 + rng.Intn(2)
		}
		frames, msgs := genConformantStream(rng, server, negotiated, nm, maxLen, rng.Intn(3) == 0, 25)
		stream, bounds := encodeAll(frames)
		nprog := 2
		for p := 0; p < nprog; p++ {
			sp := &ReaderSpec{Prop: 3, Server: server, Negotiated: negotiated, RBuf: core.Pick(rng, rbufChoices),
				Chunks: chunkStream(rng, stream, bounds), Fault: 0, Glued: rng.Intn(4) == 0, Cmp: true, Drains: true}
			sp.Custom = rng.Intn(3) == 0
			if !sp.Custom && rng.Intn(8) == 0 {
				sp.PreClose, sp.Cmp = true, false
			}
			sp.Ops = append(genReadProgram(rng, len(msgs)), drainOps(len(msgs)+2)...)
			out = append(out, sp)
		}
	}
	return out
}

func shrinkReader(s core.Spec) []core.Spec {
	sp := s.(*ReaderSpec)
	var out []core.Spec
	cp := func() *ReaderSpec { c := *sp; return &c }
	// merge all chunks
	if len(sp.Chunks) > 1 {
		c := cp()
		var all B
		for _, ch := range sp.Chunks {
			all = append(all, ch...)
		}
		c.Chunks = []B{all}
		out = append(out, c)
	}
	// drop ops from the end, then single ops
	if len(sp.Ops) > 1 {
		c := cp()
		c.Ops = sp.Ops[:len(sp.Ops)/2]
		c.Drains = false
		out = append(out, c)
		c2 := cp()
		c2.Ops = sp.Ops[:len(sp.Ops)-1]
		c2.Drains = false
		out = append(out, c2)
		for i := 0; i < len(sp.Ops) && i < 30; i++ {
			c3 := cp()
			c3.Ops = append(append([]ROp(nil), sp.Ops[:i]...), sp.Ops[i+1:]...)
			c3.Drains = false
			out = append(out, c3)
		}
	}
	if sp.RBuf != 0 {
		c := cp()
		c.RBuf = 0
		out = append(out, c)
	}
	if sp.Glued {
		c := cp()
		c.Glued = false
		out = append(out, c)
	}
	if sp.Custom {
		c := cp()
		c.Custom = false
		c.HFail = nil
		out = append(out, c)
	}
	// truncate the stream from the end
	if len(sp.Chunks) > 0 {
		last := sp.Chunks[len(sp.Chunks)-1]
		if len(last) > 1 {
			c := cp()
			c.Chunks = append(append([]B(nil), sp.Chunks[:len(sp.Chunks)-1]...), last[:len(last)/2])
			out = append(out, c)
		}
		c := cp()
		c.Chunks = sp.Chunks[:len(sp.Chunks)-1]
		out = append(out, c)
	}
	return out
}

func init() {
	core.Register(&core.Prop{
		ID:     "C03",
		Rule:   "conformant streams from the harness's own frame encoder (1-4 messages, fragment sizes >= 0 incl. empty frames, 7/16/64-bit lengths, random and pathological mask keys, ping/pong between any two frames, optional close, deflated messages at Go flate levels -2..9 when negotiated) x transport chunkings {whole, 1 byte, frame boundaries, random} x ReadBufferSize {0,1,16,124..126,200,256,257,512,4096} x read programs {ReadMessage | NextReader+Read of mixed sizes | abandon part-way | stale reads}; both roles; non-trivial = non-empty stream and at least one op; distinct by full tape",
		Gen:    withNilHandlers(c03Gen),
		Exec:   readerExec,
		Decode: decodeReaderSpec,
		Shrink: shrinkReader,
		Clauses: readerClauses,
	})
}

var readerClauses = map[int]string{
	10: "NextReader/ReadMessage succeeded although the stream holds no further message",
	11: "wrong message type",
	12: "delivered bytes are not the message's bytes",
	13: "end of message signalled before the true end, or for a partially received message",
	14: "an error was returned although the next message was completely available",
	15: "after NextReader/ReadMessage failed, a later call returned something else",
	16: "ReadMessage reported a partial or wrong message as complete",
	17: "messages remain undelivered after draining reads",
	24: "NextReader/ReadMessage panicked before the documented threshold of 1000 failed calls",
	90: "frames written back by the reader are not well-formed",
	96: "Spec inflate rejects a stream the generator considers valid (harness/spec bug)",
	97: "generated stream is not conformant (harness bug)",
	98: "model ran out of fuel (model bug)",
}
