// facts: regenerates coq/gen/Consts.v from /repo's current working tree: compiled constants and
// tables (through the verif hook) plus syntactic facts read off the source with go/parser.
package main

import (
	"fmt"
	"go/ast"
	"go/parser"
	"go/token"
	"os"
	"path/filepath"
	"sort"
	"strconv"
	"strings"

	"github.com/gorilla/websocket"
)

func bytesLit(s string) string {
	parts := make([]string, len(s))
	for i := 0; i < len(s); i++ {
		parts[i] = strconv.Itoa(int(s[i]))
	}
	return "[" + strings.Join(parts, ";") + "]"
}

func coqBool(b bool) string {
	if b {
		return "true"
	}
	return "false"
}

type srcFacts struct {
	fset  *token.FileSet
	files map[string]*ast.File
}

func load(repo string) *srcFacts {
	sf := &srcFacts{fset: token.NewFileSet(), files: map[string]*ast.File{}}
	for _, name := range []string{"conn.go", "util.go", "client.go", "server.go", "compression.go", "prepared.go", "proxy.go"} {
		f, err := parser.ParseFile(sf.fset, filepath.Join(repo, name), nil, 0)
		if err != nil {
			fmt.Fprintln(os.Stderr, "facts: parse", name, err)
			os.Exit(2)
		}
		sf.files[name] = f
	}
	return sf
}

func imports(f *ast.File, path string) (string, bool) {
	for _, im := range f.Imports {
		if p, _ := strconv.Unquote(im.Path.Value); p == path {
			if im.Name != nil {
				return im.Name.Name, true
			}
			return filepath.Base(path), true
		}
	}
	return "", false
}

func isSel(e ast.Expr, x, sel string) bool {
	s, ok := e.(*ast.SelectorExpr)
	if !ok || s.Sel.Name != sel {
		return false
	}
	id, ok := s.X.(*ast.Ident)
	return ok && id.Name == x
}

// maskRand is declared as `var maskRand = rand.Reader` with rand = crypto/rand
func (sf *srcFacts) maskRandIsCryptoRand() bool {
	f := sf.files["conn.go"]
	name, ok := imports(f, "crypto/rand")
	if !ok {
		return false
	}
	found := false
	for _, d := range f.Decls {
		gd, ok := d.(*ast.GenDecl)
		if !ok || gd.Tok != token.VAR {
			continue
		}
		for _, s := range gd.Specs {
			vs := s.(*ast.ValueSpec)
			for i, n := range vs.Names {
				if n.Name == "maskRand" && i < len(vs.Values) && isSel(vs.Values[i], name, "Reader") {
					found = true
				}
			}
		}
	}
	// and nothing outside test files assigns to it
	assigned := false
	for fname, ff := range sf.files {
		_ = fname
		ast.Inspect(ff, func(n ast.Node) bool {
			if as, ok := n.(*ast.AssignStmt); ok {
				for _, l := range as.Lhs {
					if id, ok := l.(*ast.Ident); ok && id.Name == "maskRand" {
						assigned = true
					}
				}
			}
			return true
		})
	}
	return found && !assigned
}

func funcDecl(f *ast.File, recv, name string) *ast.FuncDecl {
	for _, d := range f.Decls {
		fd, ok := d.(*ast.FuncDecl)
		if !ok || fd.Name.Name != name {
			continue
		}
		if recv == "" && fd.Recv == nil {
			return fd
		}
		if recv != "" && fd.Recv != nil && len(fd.Recv.List) == 1 {
			t := fd.Recv.List[0].Type
			if st, ok := t.(*ast.StarExpr); ok {
				t = st.X
			}
			if id, ok := t.(*ast.Ident); ok && id.Name == recv {
				return fd
			}
		}
	}
	return nil
}

// newMaskKey fills its result from maskRand via io.ReadFull
func (sf *srcFacts) newMaskKeyReadsMaskRand() bool {
	fd := funcDecl(sf.files["conn.go"], "", "newMaskKey")
	if fd == nil {
		return false
	}
	ok := false
	ast.Inspect(fd, func(n ast.Node) bool {
		if c, isCall := n.(*ast.CallExpr); isCall && isSel(c.Fun, "io", "ReadFull") && len(c.Args) == 2 {
			if id, isID := c.Args[0].(*ast.Ident); isID && id.Name == "maskRand" {
				ok = true
			}
		}
		return true
	})
	return ok
}

func (sf *srcFacts) challengeKeyFromCryptoRand() bool {
	f := sf.files["util.go"]
	name, ok := imports(f, "crypto/rand")
	if !ok {
		return false
	}
	fd := funcDecl(f, "", "generateChallengeKey")
	if fd == nil {
		return false
	}
	res := false
	ast.Inspect(fd, func(n ast.Node) bool {
		if c, isCall := n.(*ast.CallExpr); isCall && isSel(c.Fun, "io", "ReadFull") && len(c.Args) == 2 && isSel(c.Args[0], name, "Reader") {
			res = true
		}
		return true
	})
	return res
}

// every call that hands bytes to the transport (c.conn.Write, net.Buffers.WriteTo(c.conn)) sits
// in (*Conn).write / (*Conn).writeBufs / (*Conn).WriteControl; writeBufs is called only from write;
// in write and WriteControl the receive from c.mu comes before the first transport call and a
// deferred send to c.mu releases it.
func (sf *srcFacts) transportWritesOnlyUnderMu() bool {
	f := sf.files["conn.go"]
	okAll := true
	isConnWrite := func(c *ast.CallExpr) bool {
		s, ok := c.Fun.(*ast.SelectorExpr)
		if !ok {
			return false
		}
		if s.Sel.Name == "Write" || s.Sel.Name == "WriteTo" {
			// receiver or argument mentions .conn
			mentions := false
			ast.Inspect(c, func(n ast.Node) bool {
				if se, ok := n.(*ast.SelectorExpr); ok && se.Sel.Name == "conn" {
					mentions = true
				}
				return true
			})
			return mentions
		}
		return false
	}
	for _, d := range f.Decls {
		fd, ok := d.(*ast.FuncDecl)
		if !ok || fd.Body == nil {
			continue
		}
		name := fd.Name.Name
		var firstWrite, firstRecv token.Pos
		callsWriteBufs := false
		deferRelease := false
		ast.Inspect(fd.Body, func(n ast.Node) bool {
			switch x := n.(type) {
			case *ast.CallExpr:
				if isConnWrite(x) && firstWrite == 0 {
					firstWrite = x.Pos()
				}
				if s, ok := x.Fun.(*ast.SelectorExpr); ok && s.Sel.Name == "writeBufs" {
					callsWriteBufs = true
				}
			case *ast.UnaryExpr:
				if x.Op == token.ARROW {
					if s, ok := x.X.(*ast.SelectorExpr); ok && s.Sel.Name == "mu" && firstRecv == 0 {
						firstRecv = x.Pos()
					}
				}
			case *ast.DeferStmt:
				ast.Inspect(x, func(m ast.Node) bool {
					if ss, ok := m.(*ast.SendStmt); ok {
						if s, ok := ss.Chan.(*ast.SelectorExpr); ok && s.Sel.Name == "mu" {
							deferRelease = true
						}
					}
					return true
				})
			}
			return true
		})
		if callsWriteBufs && name != "write" {
			okAll = false
		}
		if firstWrite != 0 {
			switch name {
			case "write", "WriteControl":
				if firstRecv == 0 || firstRecv > firstWrite || !deferRelease {
					okAll = false
				}
			case "writeBufs":
			default:
				okAll = false
			}
		}
	}
	return okAll
}

// in write and WriteControl: writeFatal(ErrCloseSent) is guarded by the message type being
// CloseMessage and textually follows the transport write
func (sf *srcFacts) closeMarkInsideLock() bool {
	f := sf.files["conn.go"]
	for _, fn := range []string{"write", "WriteControl"} {
		fd := funcDecl(f, "Conn", fn)
		if fd == nil {
			return false
		}
		found := false
		ast.Inspect(fd.Body, func(n ast.Node) bool {
			ifs, ok := n.(*ast.IfStmt)
			if !ok {
				return true
			}
			be, ok := ifs.Cond.(*ast.BinaryExpr)
			if !ok || be.Op != token.EQL {
				return true
			}
			if id, ok := be.Y.(*ast.Ident); !ok || id.Name != "CloseMessage" {
				return true
			}
			ast.Inspect(ifs.Body, func(m ast.Node) bool {
				if c, ok := m.(*ast.CallExpr); ok {
					if s, ok := c.Fun.(*ast.SelectorExpr); ok && s.Sel.Name == "writeFatal" && len(c.Args) == 1 {
						if id, ok := c.Args[0].(*ast.Ident); ok && id.Name == "ErrCloseSent" {
							found = true
						}
					}
				}
				return true
			})
			return true
		})
		if !found {
			return false
		}
	}
	return true
}

// string literals mentioning permessage-deflate in a file
func (sf *srcFacts) deflateLiterals(file string) []string {
	var res []string
	ast.Inspect(sf.files[file], func(n ast.Node) bool {
		if bl, ok := n.(*ast.BasicLit); ok && bl.Kind == token.STRING {
			if s, err := strconv.Unquote(bl.Value); err == nil && strings.Contains(s, "permessage-deflate") {
				res = append(res, s)
			}
		}
		return true
	})
	return res
}

func main() {
	repo := "/repo"
	if len(os.Args) > 1 {
		repo = os.Args[1]
	}
	facts := websocket.VerifFacts()
	sf := load(repo)
	var b strings.Builder
	b.WriteString("(* GENERATED by harness/cmd/facts from /repo's working tree on every check run. Do not edit. *)\n")
	b.WriteString("From Coq Require Import List NArith ZArith.\nImport ListNotations.\nOpen Scope N_scope.\n\n")
	keys := make([]string, 0, len(facts))
	for k := range facts {
		keys = append(keys, k)
	}
	sort.Strings(keys)
	for _, k := range keys {
		switch v := facts[k].(type) {
		case int:
			if strings.Contains(k, "CompressionLevel") {
				fmt.Fprintf(&b, "Definition c_%s : Z := (%d)%%Z.\n", k, v)
			} else {
				fmt.Fprintf(&b, "Definition c_%s : N := %d.\n", k, v)
			}
		case string:
			fmt.Fprintf(&b, "Definition c_%s : list N := %s.\n", k, bytesLit(v))
		case [][2]int:
			parts := []string{}
			for _, p := range v {
				parts = append(parts, fmt.Sprintf("(%d, %s)", p[0], coqBool(p[1] == 1)))
			}
			fmt.Fprintf(&b, "Definition c_%s : list (N * bool) := [%s].\n", k, strings.Join(parts, "; "))
		case []int:
			parts := []string{}
			for _, p := range v {
				parts = append(parts, coqBool(p == 1))
			}
			fmt.Fprintf(&b, "Definition c_%s : list bool := [%s].\n", k, strings.Join(parts, ";"))
		}
	}
	b.WriteString("\n(* syntactic facts (go/parser) *)\n")
	fmt.Fprintf(&b, "Definition f_mask_rand_is_crypto_rand : bool := %s.\n", coqBool(sf.maskRandIsCryptoRand()))
	fmt.Fprintf(&b, "Definition f_new_mask_key_reads_mask_rand : bool := %s.\n", coqBool(sf.newMaskKeyReadsMaskRand()))
	fmt.Fprintf(&b, "Definition f_challenge_key_from_crypto_rand : bool := %s.\n", coqBool(sf.challengeKeyFromCryptoRand()))
	fmt.Fprintf(&b, "Definition f_transport_writes_only_under_mu : bool := %s.\n", coqBool(sf.transportWritesOnlyUnderMu()))
	fmt.Fprintf(&b, "Definition f_close_mark_inside_lock : bool := %s.\n", coqBool(sf.closeMarkInsideLock()))
	for _, file := range []string{"client.go", "server.go"} {
		lits := sf.deflateLiterals(file)
		parts := []string{}
		for _, l := range lits {
			parts = append(parts, bytesLit(l))
		}
		fmt.Fprintf(&b, "Definition s_deflate_literals_%s : list (list N) := [%s].\n", strings.TrimSuffix(file, ".go"), strings.Join(parts, "; "))
	}
	os.Stdout.WriteString(b.String())
}
