package main

import (
	"fmt"
	"math/rand"
	"os"

	"verif/harness/core"
)

// dumpTapes writes the case tapes of a property to a file (debugging aid).
func dumpTapes(prop, tier string, seed int64, path string) {
	p := core.Registry[prop]
	rng := rand.New(rand.NewSource(seed))
	specs := p.Gen(rng, tier)
	f, _ := os.Create(path)
	defer f.Close()
	for _, s := range specs {
		e := p.Exec(s)
		fmt.Fprintln(f, e.Tape)
	}
}
