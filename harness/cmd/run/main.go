// run: executes one property's correspondence check against the real library built from
// /repo (tag verif) and prints a JSON result.
package main

import (
	"encoding/json"
	"flag"
	"fmt"
	"os"

	"verif/harness/core"
	_ "verif/harness/props"
)

func main() {
	prop := flag.String("prop", "", "property id")
	tier := flag.String("tier", "quick", "quick|thorough")
	seed := flag.Int64("seed", 1, "PRNG seed")
	judge := flag.String("judge", "/verif/ocaml/driver", "path of the extracted judge")
	corpus := flag.String("corpus", "/verif/corpus", "corpus directory")
	replayDir := flag.String("replaydir", "/verif/replay", "where replay files go")
	known := flag.String("known", "/verif/KNOWN_FINDINGS.txt", "known findings file")
	replay := flag.String("replay", "", "replay a single case file")
	out := flag.String("out", "", "result file (default stdout)")
	workers := flag.Int("workers", 16, "parallelism")
	dump := flag.String("dump", "", "write case tapes to this file and exit")
	flag.Parse()
	if *dump != "" {
		dumpTapes(*prop, *tier, *seed, *dump)
		return
	}
	p, ok := core.Registry[*prop]
	if !ok {
		fmt.Fprintln(os.Stderr, "unknown property", *prop)
		os.Exit(2)
	}
	res, err := core.Run(p, core.Options{Tier: *tier, Seed: *seed, JudgePath: *judge, CorpusDir: *corpus, ReplayDir: *replayDir, KnownPath: *known, Replay: *replay, Workers: *workers})
	if err != nil {
		fmt.Fprintln(os.Stderr, "run failed:", err)
		os.Exit(2)
	}
	b, _ := json.MarshalIndent(res, "", " ")
	if *out != "" {
		os.WriteFile(*out, b, 0o644)
	} else {
		os.Stdout.Write(b)
		fmt.Println()
	}
}
