#!/bin/sh
# Offline build of the whole framework from files on disk: harness, Consts.v, Coq development,
# extraction, OCaml judge.  Run once after a fresh restore (checks also rebuild incrementally).
set -e
cd "$(dirname "$0")"
export GOFLAGS=-mod=mod GOPROXY=off GOSUMDB=off GOTOOLCHAIN=local
mkdir -p work evidence replay harness/bin
cp /repo/go.sum harness/go.sum
(cd harness && go build -tags verif -o bin/ ./cmd/...)
./harness/bin/facts /repo > coq/gen/Consts.v.new
if ! cmp -s coq/gen/Consts.v.new coq/gen/Consts.v; then mv coq/gen/Consts.v.new coq/gen/Consts.v; else rm coq/gen/Consts.v.new; fi
cd coq
{ echo "-Q . WS"; echo "-arg -w -arg -notation-overridden,-deprecated-syntactic-definition,-deprecated-hint-without-locality,-deprecated-instance-without-locality"; for d in gen Base Spec Model Proofs Cases Props Tests; do ls $d/*.v 2>/dev/null | sort; done; } > _CoqProject.new
if ! cmp -s _CoqProject.new _CoqProject; then mv _CoqProject.new _CoqProject; else rm _CoqProject.new; fi
coq_makefile -f _CoqProject -o Makefile
timeout 3000 make -j16
cd ../ocaml
coqc -Q ../coq WS Extract.v
rm -f Extract.vo Extract.glob .Extract.aux Extract.vos Extract.vok
ocamlfind ocamlopt -O3 -w -a -package str model.mli model.ml driver.ml -o driver
echo "setup ok"
