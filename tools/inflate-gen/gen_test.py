#!/usr/bin/env python3
"""Differential test generator for Inflate.v.

Writes
  InflateTest.v    -- Coq [inflate] against python3 zlib (raw deflate, wbits=-15)
  cases.txt        -- the same inputs, one per line, for the Go cross-check (gocheck/main.go)
and, when gocheck's output file go_out.txt exists (run `make gocheck` or see run_all.sh),
  InflateGoTest.v  -- Coq [inflate_ext] against Go's compress/flate reader as gorilla/websocket uses it.

Deterministic: fixed seed.
"""
import os, random, sys, zlib

HERE = os.path.dirname(os.path.abspath(__file__))
TAIL = bytes([0, 0, 255, 255, 1, 0, 0, 255, 255])
rng = random.Random(20260930)

# ---------------------------------------------------------------- payload shapes
text = (b"The quick brown fox jumps over the lazy dog; RFC 7692 permessage-deflate. " * 60)[:3000]
skew = bytes(rng.choice(b"aaaaaaabbbbcccdde \n") for _ in range(2000))
shapes = [
    ("empty", b""),
    ("one", b"\x41"),
    ("hello", b"Hello"),
    ("rand300", bytes(rng.randrange(256) for _ in range(300))),
    ("text3000", text),
    ("allbytes", bytes(range(256))),
    ("skew2000", skew),
]
zeros = ("zeros70000", bytes(70000))

levels = [0, 1, 6, 9]
strategies = [("default", zlib.Z_DEFAULT_STRATEGY), ("fixed", zlib.Z_FIXED),
              ("huffonly", zlib.Z_HUFFMAN_ONLY), ("rle", zlib.Z_RLE)]


def split3(d):
    n = len(d)
    return [d[: n // 3], d[n // 3: 2 * n // 3], d[2 * n // 3:]]


def compress_sync(d, level, strat, nseg):
    c = zlib.compressobj(level, zlib.DEFLATED, -15, 9, strat)
    out = b""
    segs = [d] if nseg == 1 else split3(d)
    for s in segs:
        out += c.compress(s)
        out += c.flush(zlib.Z_SYNC_FLUSH)
    assert out[-4:] == b"\x00\x00\xff\xff"
    return out[:-4]


def compress_finish(d, level, strat):
    c = zlib.compressobj(level, zlib.DEFLATED, -15, 9, strat)
    return c.compress(d) + c.flush(zlib.Z_FINISH)


def zlib_inflate(s):
    """Some(bytes) iff zlib decodes a complete stream (eof reached), else None."""
    d = zlib.decompressobj(-15)
    try:
        out = d.decompress(s)
        out += d.flush()
    except zlib.error:
        return None
    return out if d.eof else None


# ---------------------------------------------------------------- valid cases
valid = []  # (name, wire payload without tail, data)
for sname, d in shapes:
    for lv in levels:
        for stname, st in strategies:
            for nseg in (1, 3):
                valid.append(("%s_l%d_%s_%d" % (sname, lv, stname, nseg), compress_sync(d, lv, st, nseg), d))
for lv, (stname, st), nseg in [(0, strategies[0], 1), (6, strategies[0], 1), (1, strategies[1], 3), (9, strategies[3], 1), (6, strategies[2], 3)]:
    valid.append(("%s_l%d_%s_%d" % (zeros[0], lv, stname, nseg), compress_sync(zeros[1], lv, st, nseg), zeros[1]))

for name, p, d in valid:
    assert zlib_inflate(p + TAIL) == d, name

# ---------------------------------------------------------------- malformed cases (no tail)
malformed = []  # (name, stream)


def add(name, s):
    malformed.append((name, bytes(s)))


fin_dyn = compress_finish(skew, 6, zlib.Z_DEFAULT_STRATEGY)
fin_fix = compress_finish(b"Hello, hello, hello, hello!", 6, zlib.Z_FIXED)
fin_sto = compress_finish(b"Hello stored", 0, zlib.Z_DEFAULT_STRATEGY)
fin_txt = compress_finish(text, 9, zlib.Z_DEFAULT_STRATEGY)
assert fin_dyn[0] & 6 == 4 and fin_fix[0] & 6 == 2 and fin_sto[0] & 6 == 0

# truncations of complete (Z_FINISH) streams
for nm, s in (("dyn", fin_dyn), ("fix", fin_fix), ("sto", fin_sto), ("txt", fin_txt)):
    for off in sorted(set([0, 1, 2, 3, 4, 5, 7, 10, len(s) // 3, len(s) // 2, len(s) - 2, len(s) - 1])):
        if 0 <= off < len(s):
            add("trunc_%s_%d" % (nm, off), s[:off])
# sync-flushed streams without the tail are incomplete
for nm in ("hello_l6_default_1", "text3000_l6_default_3", "rand300_l0_default_1", "empty_l6_default_1"):
    p = [v for v in valid if v[0] == nm][0][1]
    add("notail_" + nm, p)
    add("notail4_" + nm, p + b"\x00\x00\xff\xff")
# flipped bits in the header bytes of the dynamic stream (HLIT/HDIST/HCLEN, code length code lengths)
for byte in range(0, 12):
    for bit in (0, 3, 6) if byte % 2 == 0 else (1, 5, 7):
        s = bytearray(fin_dyn)
        s[byte] ^= 1 << bit
        add("flip_dyn_%d_%d" % (byte, bit), s)
# flipped bits in the body of fixed / text streams
for byte, bit in ((0, 0), (0, 1), (0, 2), (1, 0), (2, 7), (5, 3), (len(fin_fix) - 1, 0), (len(fin_fix) - 2, 6)):
    s = bytearray(fin_fix)
    s[byte] ^= 1 << bit
    add("flip_fix_%d_%d" % (byte, bit), s)
# block type 3
add("type3_final", [0x07, 0, 0, 0, 0])
add("type3_nonfinal", [0x06, 0, 0, 0, 0])
add("type3_after_block", [0, 0, 0, 255, 255, 0x07, 0, 0])
# bad stored lengths
add("stored_bad_nlen", [1, 5, 0, 0xfb, 0xff, 1, 2, 3, 4, 5])
add("stored_bad_nlen2", [1, 5, 0, 5, 0, 1, 2, 3, 4, 5])
add("stored_good", [1, 5, 0, 0xfa, 0xff, 1, 2, 3, 4, 5])
add("stored_short_data", [1, 5, 0, 0xfa, 0xff, 1, 2, 3, 4])
add("stored_short_hdr", [1, 5, 0, 0xfa])
add("stored_trailing", [1, 2, 0, 0xfd, 0xff, 9, 8, 7, 6, 5])
add("stored_nonfinal_only", [0, 2, 0, 0xfd, 0xff, 9, 8])
# fixed block: distance too far back (length 3, distance 1 with no output yet): 1 01 0000001 00000
add("fixed_dist_too_far", [0x03 | (0b1000000 << 3) & 0xff, 0x02, 0x00, 0x00])
# fixed block: literal/length symbol 286 (code 11000110) and distance symbol 30
add("fixed_sym286", [0x1b, 0x03, 0x00, 0x00])
# a dynamic header asking for 30+ distance codes / 286+ literal codes
add("dyn_hlit_31", [0x05 | (31 << 3) & 0xff, 31 >> 5, 0, 0, 0, 0])
add("dyn_hdist_31", [0x05, 0xe0 | 0x1f, 0, 0, 0, 0])
# hand-made: the degenerate distance code (one code of length 1) -- accepted by zlib and Go
# and an incomplete literal code -- rejected by both; taken from zlib's test/infcover.c
add("infcover_invalid_lengths", bytes.fromhex("04000000"))  # "invalid code lengths set"? (stored/dyn header)
add("infcover_bad_counts", bytes.fromhex("fc0000"))
add("infcover_incomplete_lens", bytes.fromhex("04c0810800000000209fab"))
add("infcover_missing_eob", bytes.fromhex("0400feff"))
add("infcover_bad_litlen", bytes.fromhex("040024498400"))
add("infcover_bad_dist", bytes.fromhex("040024e9ff6d"))
add("infcover_no_eob2", bytes.fromhex("0400244900"))
add("infcover_dist_too_far", bytes.fromhex("0200000000"))
add("infcover_fast_invalid_dist", bytes.fromhex("0300001f00"))
add("infcover_fast_invalid_litlen", bytes.fromhex("1b070000"))
add("infcover_window_end", bytes.fromhex("ed0001010000ffff0000"))
add("infcover_2nd_level", bytes.fromhex("edcf0100000000fe00"))
add("infcover_long_dist", bytes.fromhex("edc10101000000402010ff7f7f"))
add("infcover_degenerate_dist", bytes.fromhex("0580490592b60000"))  # not from infcover: flips around a known-good stream

# crafted dynamic-Huffman headers (degenerate / incomplete / over-subscribed code sets ...), random
# dynamic blocks and random mutations, selected by fuzz.py
fz = os.path.join(HERE, "fuzz_cases.txt")
if os.path.exists(fz):
    for ln in open(fz):
        n, h = ln.split()
        add("fz_" + n, b"" if h == "-" else bytes.fromhex(h))

expect_m = [(n, s, zlib_inflate(s)) for n, s in malformed]


# ---------------------------------------------------------------- output
def coq_list(b):
    """Coq term for a byte string: literal pieces of at most 1500 elements, long runs as [repeat]."""
    b = bytes(b)
    pieces = []
    i = 0
    lit = []

    def flush():
        for j in range(0, len(lit), 1500):
            pieces.append("[" + ";".join(str(x) for x in lit[j:j + 1500]) + "]")
        del lit[:]
    while i < len(b):
        j = i
        while j < len(b) and b[j] == b[i]:
            j += 1
        if j - i >= 64:
            flush()
            pieces.append("repeat %d (N.to_nat %d)" % (b[i], j - i))
        else:
            lit.extend(b[i:j])
        i = j
    flush()
    if not pieces:
        return "[]"
    return pieces[0] if len(pieces) == 1 else "(" + " ++ ".join(pieces) + ")"


def coq_data(d, defs):
    """name of a Definition holding d"""
    if d not in defs:
        nm = "d%d" % len(defs)
        defs[d] = nm
    return defs[d]


def data_defs(defs):
    out = []
    for d, nm in defs.items():
        out.append("Definition %s : bytes := %s." % (nm, coq_list(d)))
    return out


PRELUDE = """(* GENERATED by gen_test.py -- do not edit. *)
Require Import WS.Base.Bytes.
Require Import AG.Inflate.

Definition opt_beq (a b:option bytes) : bool :=
  match a, b with Some x, Some y => beq x y | None, None => true | _, _ => false end.
(* indices of the cases on which [f] disagrees with the expectation *)
Fixpoint failures {A} (chk:A -> bool) (i:N) (l:list A) : list N :=
  match l with [] => [] | c :: r => if chk c then failures chk (i+1) r else i :: failures chk (i+1) r end.
"""

defs = {}
lines = [PRELUDE]
body = []
body.append("(* valid streams: (wire payload, expected data); the reader appends ws_tail *)")
body.append("Definition valid_cases : list (bytes * bytes) := [")
body.append(";\n".join("(* %s *) (%s, %s)" % (n, coq_list(p), coq_data(d, defs)) for n, p, d in valid))
body.append("].")
body.append("(* malformed / raw streams, no tail appended: (stream, zlib's verdict) *)")
body.append("Definition raw_cases : list (bytes * option bytes) := [")
body.append(";\n".join("(* %s *) (%s, %s)" % (n, coq_list(s), "None" if e is None else "Some " + coq_data(e, defs))
                       for n, s, e in expect_m))
body.append("].")
lines += data_defs(defs)
lines += body
lines.append("""
Definition chk_valid (c:bytes * bytes) : bool := opt_beq (inflate (fst c ++ ws_tail)) (Some (snd c)).
Definition chk_raw (c:bytes * option bytes) : bool := opt_beq (inflate (fst c)) (snd c).

Lemma n_valid : length valid_cases = %d%%nat. Proof. reflexivity. Qed.
Lemma n_raw : length raw_cases = %d%%nat. Proof. reflexivity. Qed.
Lemma n_raw_rejected : length (filter (fun c => match snd c with None => true | _ => false end) raw_cases) = %d%%nat.
Proof. reflexivity. Qed.

(* agreement with python3 zlib %s *)
Theorem valid_agree : failures chk_valid 0 valid_cases = [].
Proof. vm_cast_no_check (eq_refl (@nil N)). Qed.
Theorem raw_agree : failures chk_raw 0 raw_cases = [].
Proof. vm_cast_no_check (eq_refl (@nil N)). Qed.
""" % (len(valid), len(expect_m), sum(1 for _, _, e in expect_m if e is None), zlib.ZLIB_VERSION))
open(os.path.join(HERE, "InflateTest.v"), "w").write("\n".join(lines))

with open(os.path.join(HERE, "cases.txt"), "w") as f:
    for n, p, d in valid:
        f.write("valid %s %s\n" % (n, p.hex() or "-"))
    for n, s, e in expect_m:
        f.write("raw %s %s\n" % (n, s.hex() or "-"))

with open(os.path.join(HERE, "shapes.txt"), "w") as f:
    for n, d in shapes + [zeros]:
        f.write("%s %s\n" % (n, d.hex() or "-"))

print("valid cases: %d, raw cases: %d (zlib rejects %d)" %
      (len(valid), len(expect_m), sum(1 for _, _, e in expect_m if e is None)))

# ---------------------------------------------------------------- Go cross-check file
go_out = os.path.join(HERE, "go_out.txt")
if os.path.exists(go_out):
    # lines:  <kind> <name> <payload hex> <tail verdict> <tail out hex> <raw verdict> <raw out hex>
    # verdict in {ok, eof, corrupt, other:<msg>}
    rows = []
    for ln in open(go_out):
        w = ln.split()
        if not w:
            continue
        kind, name, ph, tv, to, rv, ro = w
        unhex = lambda h: b"" if h == "-" else bytes.fromhex(h)
        rows.append((kind, name, unhex(ph), tv, unhex(to), rv, unhex(ro)))
    defs = {}

    def res(v, o):
        if v == "ok":
            return "RDone " + coq_data(o, defs)
        if v == "eof":
            return "RMore"
        if v == "corrupt":
            return "RBad"
        raise SystemExit("unexpected Go verdict " + v)

    body = ["Definition go_cases : list (bytes * rr * rr) := ["]
    body.append(";\n".join("(* %s %s *) (%s, %s, %s)" % (k, n, coq_list(p), res(tv, to), res(rv, ro))
                           for k, n, p, tv, to, rv, ro in rows))
    body.append("].")
    g = [PRELUDE, """
(* Go's verdict: nil error and output / io.ErrUnexpectedEOF / flate.CorruptInputError *)
Inductive rr := RDone (d:bytes) | RMore | RBad.
Definition rr_of (r:inflate_result) : rr :=
  match r with Done d _ => RDone d | NeedMore => RMore | Corrupt => RBad end.
Definition rr_eqb (a b:rr) : bool :=
  match a, b with RDone x, RDone y => beq x y | RMore, RMore => true | RBad, RBad => true | _, _ => false end.
(* acceptance only: Some d exactly when Go returns err == nil, with the same d *)
Definition rr_acc (a b:rr) : bool :=
  match a, b with RDone x, RDone y => beq x y | RDone _, _ => false | _, RDone _ => false | _, _ => true end.
"""]
    g += data_defs(defs)
    g += body
    g.append("""
(* (payload, Go on payload ++ ws_tail through io.MultiReader, Go on payload alone) *)
Definition chk_tail (c:bytes * rr * rr) : bool := let '(p, t, _) := c in rr_acc (rr_of (inflate_ext (p ++ ws_tail))) t.
Definition chk_tail_class (c:bytes * rr * rr) : bool := let '(p, t, _) := c in rr_eqb (rr_of (inflate_ext (p ++ ws_tail))) t.
Definition chk_raw (c:bytes * rr * rr) : bool := let '(p, _, r) := c in rr_acc (rr_of (inflate_ext p)) r.
Definition chk_raw_class (c:bytes * rr * rr) : bool := let '(p, _, r) := c in rr_eqb (rr_of (inflate_ext p)) r.

Lemma n_go : length go_cases = %d%%nat. Proof. reflexivity. Qed.

(* the required property: inflate (payload ++ ws_tail) = Some d exactly when Go's err == nil, same d *)
Theorem go_tail_agree : failures chk_tail 0 go_cases = [].
Proof. vm_cast_no_check (eq_refl (@nil N)). Qed.
Theorem go_raw_agree : failures chk_raw 0 go_cases = [].
Proof. vm_cast_no_check (eq_refl (@nil N)). Qed.
(* stronger: the error class (ErrUnexpectedEOF vs CorruptInputError) agrees too *)
Theorem go_tail_class_agree : failures chk_tail_class 0 go_cases = [].
Proof. vm_cast_no_check (eq_refl (@nil N)). Qed.
Theorem go_raw_class_agree : failures chk_raw_class 0 go_cases = [].
Proof. vm_cast_no_check (eq_refl (@nil N)). Qed.
""" % len(rows))
    open(os.path.join(HERE, "InflateGoTest.v"), "w").write("\n".join(g))
    print("go cases: %d" % len(rows))
