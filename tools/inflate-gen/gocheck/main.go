// Cross-check oracle: Go's compress/flate reader used the way gorilla/websocket uses it.
//
//	gocheck <dir>
//
// reads <dir>/cases.txt ("<kind> <name> <hex payload>") and <dir>/shapes.txt ("<name> <hex data>"),
// adds payloads produced by Go's own flate.Writer (levels -2..9, Write + Flush, last 4 bytes removed),
// and writes <dir>/go_out.txt:
//
//	<kind> <name> <payload hex> <verdict with ws tail> <output hex> <verdict without tail> <output hex>
//
// verdict: ok (err == nil) | eof (io.ErrUnexpectedEOF) | corrupt (flate.CorruptInputError).
package main

import (
	"bufio"
	"bytes"
	"compress/flate"
	"encoding/hex"
	"errors"
	"fmt"
	"io"
	"os"
	"path/filepath"
	"strings"
)

const tail = "\x00\x00\xff\xff\x01\x00\x00\xff\xff"

func hx(b []byte) string {
	if len(b) == 0 {
		return "-"
	}
	return hex.EncodeToString(b)
}

func unhx(s string) []byte {
	if s == "-" {
		return nil
	}
	b, err := hex.DecodeString(s)
	if err != nil {
		panic(err)
	}
	return b
}

func verdict(out []byte, err error) (string, string) {
	var ce flate.CorruptInputError
	switch {
	case err == nil:
		return "ok", hx(out)
	case errors.Is(err, io.ErrUnexpectedEOF):
		return "eof", "-"
	case errors.As(err, &ce):
		return "corrupt", "-"
	default:
		return "other:" + strings.ReplaceAll(err.Error(), " ", "_"), "-"
	}
}

func withTail(p []byte) (string, string) {
	r := flate.NewReader(io.MultiReader(bytes.NewReader(p), strings.NewReader(tail)))
	return verdict(io.ReadAll(r))
}

func raw(p []byte) (string, string) {
	r := flate.NewReader(bytes.NewReader(p))
	return verdict(io.ReadAll(r))
}

func goCompress(d []byte, level, nseg int) []byte {
	var buf bytes.Buffer
	w, err := flate.NewWriter(&buf, level)
	if err != nil {
		panic(err)
	}
	n := len(d)
	segs := [][]byte{d}
	if nseg == 3 {
		segs = [][]byte{d[:n/3], d[n/3 : 2*n/3], d[2*n/3:]}
	}
	for _, s := range segs {
		if _, err := w.Write(s); err != nil {
			panic(err)
		}
		if err := w.Flush(); err != nil {
			panic(err)
		}
	}
	b := buf.Bytes()
	if !bytes.HasSuffix(b, []byte(tail[:4])) {
		panic("flush did not end with 00 00 ff ff")
	}
	return b[:len(b)-4]
}

func main() {
	dir := os.Args[1]
	out, err := os.Create(filepath.Join(dir, "go_out.txt"))
	if err != nil {
		panic(err)
	}
	defer out.Close()
	w := bufio.NewWriter(out)
	defer w.Flush()
	emit := func(kind, name string, p []byte) {
		tv, to := withTail(p)
		rv, ro := raw(p)
		fmt.Fprintf(w, "%s %s %s %s %s %s %s\n", kind, name, hx(p), tv, to, rv, ro)
	}

	f, err := os.Open(filepath.Join(dir, "cases.txt"))
	if err != nil {
		panic(err)
	}
	sc := bufio.NewScanner(f)
	sc.Buffer(make([]byte, 1<<20), 1<<26)
	for sc.Scan() {
		fs := strings.Fields(sc.Text())
		if len(fs) != 3 {
			continue
		}
		emit(fs[0], fs[1], unhx(fs[2]))
	}
	f.Close()

	f, err = os.Open(filepath.Join(dir, "shapes.txt"))
	if err != nil {
		return // no shapes: only judge the given cases
	}
	sc = bufio.NewScanner(f)
	sc.Buffer(make([]byte, 1<<20), 1<<26)
	for sc.Scan() {
		fs := strings.Fields(sc.Text())
		if len(fs) != 2 {
			continue
		}
		d := unhx(fs[1])
		for level := -2; level <= 9; level++ {
			for _, nseg := range []int{1, 3} {
				if len(d) > 10000 && !(nseg == 1 && (level == -2 || level == 0 || level == 1 || level == 6)) {
					continue
				}
				p := goCompress(d, level, nseg)
				// sanity: Go decodes its own output
				if v, o := withTail(p); v != "ok" || o != hx(d) {
					panic("go round trip failed: " + fs[0])
				}
				emit("gow", fmt.Sprintf("%s_l%d_%d", fs[0], level, nseg), p)
			}
		}
	}
	f.Close()
}
