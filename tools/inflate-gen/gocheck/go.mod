module gocheck

go 1.23
