#!/usr/bin/env python3
"""Three-way fuzz: python3 zlib  vs  Go compress/flate (gocheck)  vs  the extracted Coq model (ml/driver).

Builds hand-crafted and random dynamic-Huffman blocks (complete, incomplete, degenerate, over-subscribed
code sets; missing end-of-block; bad repeats; ...), plus random byte/bit mutations of valid streams.
Prints every disagreement.  Usage: fuzz.py [N_random] ; needs gocheck/gocheck and ml/driver built.
Writes fuzz/cases.txt, fuzz/go_out.txt, fuzz/ml_out.txt and fuzz/interesting.txt.
"""
import os, random, subprocess, sys, zlib

HERE = os.path.dirname(os.path.abspath(__file__))
FZ = os.path.join(HERE, "fuzz")
os.makedirs(FZ, exist_ok=True)
TAIL = bytes([0, 0, 255, 255, 1, 0, 0, 255, 255])
rng = random.Random(1951)
NRAND = int(sys.argv[1]) if len(sys.argv) > 1 else 3000


class BW:
    def __init__(self):
        self.bits = []

    def put(self, v, n):  # LSB first
        for i in range(n):
            self.bits.append((v >> i) & 1)

    def code(self, c, n):  # Huffman code, MSB first
        for i in range(n - 1, -1, -1):
            self.bits.append((c >> i) & 1)

    def bytes(self):
        b = self.bits + [0] * (-len(self.bits) % 8)
        return bytes(sum(b[i + j] << j for j in range(8)) for i in range(0, len(b), 8))


def canon(lens):
    """canonical codes (RFC 1951 3.2.2); works for incomplete sets; garbage (but deterministic) if over-subscribed"""
    mx = max(lens) if lens else 0
    cnt = [0] * (mx + 2)
    for l in lens:
        cnt[l] += 1
    cnt[0] = 0
    code = 0
    nxt = [0] * (mx + 2)
    for b in range(1, mx + 1):
        code = (code + cnt[b - 1]) << 1
        nxt[b] = code
    out = {}
    for s, l in enumerate(lens):
        if l:
            out[s] = (nxt[l] & ((1 << l) - 1), l)
            nxt[l] += 1
    return out


CLORDER = [16, 17, 18, 0, 8, 7, 9, 6, 10, 5, 11, 4, 12, 3, 13, 2, 14, 1, 15]


def rle_lens(lens, use_rep=True):
    """encode a length vector into code-length-code symbols [(sym, extra, nbits)]"""
    out = []
    i = 0
    while i < len(lens):
        l = lens[i]
        j = i
        while j < len(lens) and lens[j] == l:
            j += 1
        run = j - i
        if use_rep and l == 0 and run >= 11:
            r = min(run, 138)
            out.append((18, r - 11, 7))
            i += r
        elif use_rep and l == 0 and run >= 3:
            r = min(run, 10)
            out.append((17, r - 3, 3))
            i += r
        elif use_rep and l != 0 and run >= 4:
            out.append((l, 0, 0))
            r = min(run - 1, 6)
            out.append((16, r - 3, 2))
            i += 1 + r
        else:
            out.append((l, 0, 0))
            i += 1
    return out


def random_complete(nsym, maxlen, rng, used=None):
    """random complete prefix code over a random subset of nsym symbols: returns length vector"""
    k = rng.randint(2, max(2, min(nsym, 40))) if used is None else used
    # start with k leaves by repeatedly splitting
    leaves = [1, 1]
    while len(leaves) < k:
        cand = [i for i, l in enumerate(leaves) if l < maxlen]
        if not cand:
            break
        i = rng.choice(cand)
        l = leaves.pop(i)
        leaves += [l + 1, l + 1]
    lens = [0] * nsym
    for s, l in zip(rng.sample(range(nsym), len(leaves)), leaves):
        lens[s] = l
    return lens


def dyn_block(litlens, distlens, syms, final=1, cl_lens=None, cl_syms=None, hlit=None, hdist=None, hclen=None, w=None, ret_w=False):
    """syms: list of ('lit', v) | ('eob',) | ('match', lensym, lenextra, nle, distsym, dextra, nde) | ('raw', v, n)"""
    w = w or BW()
    w.put(final, 1)
    w.put(2, 2)
    nlit = len(litlens) if hlit is None else hlit
    ndist = len(distlens) if hdist is None else hdist
    w.put(nlit - 257, 5)
    w.put(ndist - 1, 5)
    seq = cl_syms if cl_syms is not None else rle_lens(list(litlens) + list(distlens))
    if cl_lens is None:
        used = sorted(set(s for s, _, _ in seq))
        # complete code over used symbols (at least 2 symbols)
        pad = [s for s in range(19) if s not in used]
        while len(used) < 2:
            used.append(pad.pop())
        leaves = [1, 1]
        while len(leaves) < len(used):
            i = min(range(len(leaves)), key=lambda i: leaves[i])
            l = leaves.pop(i)
            leaves += [l + 1, l + 1]
        cl_lens = [0] * 19
        for s, l in zip(used, sorted(leaves)):
            cl_lens[s] = l
        assert max(cl_lens) <= 7
    order = [cl_lens[o] for o in CLORDER]
    n = 19
    while n > 4 and order[n - 1] == 0:
        n -= 1
    if hclen is not None:
        n = hclen
    w.put(n - 4, 4)
    for i in range(n):
        w.put(order[i], 3)
    clc = canon(cl_lens)
    for s, e, nb in seq:
        if s not in clc:
            return None
        w.code(*clc[s])
        w.put(e, nb)
    lc = canon(list(litlens))
    dc = canon(list(distlens))
    for t in syms:
        if t[0] == 'lit':
            if t[1] not in lc:
                return None
            w.code(*lc[t[1]])
        elif t[0] == 'eob':
            if 256 not in lc:
                return None
            w.code(*lc[256])
        elif t[0] == 'match':
            _, ls, le, nle, ds, de, nde = t
            if ls not in lc or ds not in dc:
                return None
            w.code(*lc[ls])
            w.put(le, nle)
            w.code(*dc[ds])
            w.put(de, nde)
        elif t[0] == 'raw':
            w.put(t[1], t[2])
    return w if ret_w else w.bytes()


cases = []  # (name, bytes)


def add(name, b):
    if b is not None:
        cases.append((name, bytes(b)))


# ------------------------------------------------------------ hand-crafted
def lit_vec(pairs, n=257):
    v = [0] * n
    for s, l in pairs:
        v[s] = l
    return v


L2 = lit_vec([(65, 1), (256, 1)])                      # complete: 'A', EOB
add("ok_lit2_dist_empty", dyn_block(L2, [0], [('lit', 65), ('eob',)]))
add("ok_lit2_dist_single1", dyn_block(L2, [1], [('lit', 65), ('eob',)]))
L3 = lit_vec([(65, 2), (256, 2), (257, 1)], 258)      # 'A', EOB, len3
add("dist_single1_used", dyn_block(L3, [1], [('lit', 65), ('match', 257, 0, 0, 0, 0, 0), ('eob',)]))
add("dist_single1_unassigned_code", dyn_block(L3, [1], [('lit', 65), ('raw', 0, 1), ('raw', 1, 1), ('eob',)]))
add("dist_empty_used", dyn_block(L3, [0], [('lit', 65), ('raw', 0, 1), ('raw', 0, 1), ('eob',)]))
add("dist_single_len2", dyn_block(L3, [2], [('lit', 65), ('eob',)]))
add("dist_two_len1", dyn_block(L3, [1, 1], [('lit', 65), ('match', 257, 0, 0, 0, 0, 0), ('match', 257, 0, 0, 1, 0, 0), ('eob',)]))
add("dist_two_len1_far", dyn_block(L3, [1, 1], [('lit', 65), ('match', 257, 0, 0, 1, 0, 0), ('match', 257, 0, 0, 1, 0, 0), ('eob',)]))
add("dist_incomplete_1_2", dyn_block(L3, [1, 2], [('lit', 65), ('eob',)]))
add("dist_single1_second", dyn_block(L3, [0, 1], [('lit', 65), ('lit', 65), ('match', 257, 0, 0, 1, 0, 0), ('eob',)]))
add("dist_oversub", dyn_block(L3, [1, 1, 1], [('lit', 65), ('eob',)]))
add("lit_only_eob_len1", dyn_block(lit_vec([(256, 1)]), [0], [('eob',)]))
add("lit_only_eob_len1_bad_code", dyn_block(lit_vec([(256, 1)]), [0], [('raw', 1, 1), ('raw', 0, 7)]))
add("lit_only_eob_len2", dyn_block(lit_vec([(256, 2)]), [0], [('eob',)]))
add("lit_single_lit_len1_no_eob", dyn_block(lit_vec([(65, 1)]), [0], [('lit', 65), ('lit', 65)]))
add("lit_incomplete_2_2", dyn_block(lit_vec([(65, 2), (256, 2)]), [0], [('lit', 65), ('eob',)]))
add("lit_incomplete_1_2", dyn_block(lit_vec([(65, 1), (256, 2)]), [0], [('lit', 65), ('eob',)]))
add("lit_oversub", dyn_block(lit_vec([(65, 1), (66, 1), (256, 1)]), [0], [('lit', 65), ('eob',)]))
add("lit_no_eob_complete", dyn_block(lit_vec([(65, 1), (66, 1)]), [0], [('lit', 65), ('lit', 66), ('lit', 65)] * 4))
add("lit_empty", dyn_block([0] * 257, [0], [('raw', 0, 8)]))
add("lit_len15", dyn_block(lit_vec([(65, 1), (66, 2), (67, 3), (68, 4), (69, 5), (70, 6), (71, 7), (72, 8), (73, 9), (74, 10), (75, 11), (76, 12), (77, 13), (78, 14), (79, 15), (256, 15)]),
                           [0], [('lit', 79), ('lit', 65), ('lit', 78), ('eob',)]))
add("lit_286_syms", dyn_block(lit_vec([(65, 1), (256, 2), (285, 2)], 286), [1], [('lit', 65), ('match', 285, 0, 0, 0, 0, 0), ('eob',)]))
add("hlit_287", dyn_block(lit_vec([(65, 1), (256, 1)], 287), [0], [('lit', 65), ('eob',)]))
add("hlit_288", dyn_block(lit_vec([(65, 1), (256, 1)], 288), [0], [('lit', 65), ('eob',)]))
add("hdist_30", dyn_block(L3, [1] + [0] * 29, [('lit', 65), ('match', 257, 0, 0, 0, 0, 0), ('eob',)]))
add("hdist_31", dyn_block(L3, [1] + [0] * 30, [('lit', 65), ('eob',)]))
add("hdist_32", dyn_block(L3, [1] + [0] * 31, [('lit', 65), ('eob',)]))
add("dist_sym29", dyn_block(L3, [0] * 29 + [1], [('lit', 65), ('match', 257, 0, 0, 29, 0, 13), ('eob',)]))
# code length code oddities
add("cl_rep16_first", dyn_block(L2, [0], [('lit', 65), ('eob',)], cl_syms=[(16, 0, 2)] + rle_lens(L2 + [0])))
add("cl_rep_overflow", dyn_block(L2, [0], [('lit', 65), ('eob',)], cl_syms=rle_lens(L2 + [0])[:-1] + [(18, 127, 7)]))
add("cl_rep16_cross_boundary", dyn_block(lit_vec([(65, 2), (66, 2), (255, 2), (256, 2)]), [2, 2, 2, 2],
                                         [('lit', 65), ('lit', 66), ('lit', 255), ('eob',)],
                                         cl_syms=[(0, 0, 0)] * 65 + [(2, 0, 0), (2, 0, 0)] + [(18, 138 - 11, 7), (18, 50 - 11, 7)] + [(2, 0, 0), (16, 5 - 3, 2)]))
add("cl_single_sym18_len1", dyn_block([0] * 257, [0], [('raw', 0, 8)], cl_lens=[0] * 18 + [1],
                                      cl_syms=[(18, 127, 7), (18, 120 - 11, 7)]))
add("cl_single_sym0_len1", dyn_block([0] * 257, [0], [('raw', 0, 8)], cl_lens=[1] + [0] * 18, cl_syms=[(0, 0, 0)] * 258))
add("cl_single_sym8_len1", dyn_block([8] * 257, [8], [('raw', 0, 8)], cl_lens=[0] * 8 + [1] + [0] * 10, cl_syms=[(8, 0, 0)] * 258))
add("cl_single_len2", dyn_block([0] * 257, [0], [('raw', 0, 8)], cl_lens=[0] * 18 + [2], cl_syms=[(18, 127, 7), (18, 120 - 11, 7)]))
add("cl_empty", dyn_block(L2, [0], [('raw', 0, 8)], cl_lens=[0] * 19, cl_syms=[]))
add("cl_incomplete_1_2", dyn_block(L2, [0], [('lit', 65), ('eob',)], cl_lens=[2] + [1] + [0] * 17))
add("cl_oversub", dyn_block(L2, [0], [('lit', 65), ('eob',)], cl_lens=[1, 1, 1] + [0] * 16))
add("cl_hclen19_len7", dyn_block(L2, [0], [('lit', 65), ('eob',)],
                                 cl_lens=[1, 2, 3, 4, 5, 6, 7, 7] + [0] * 11))
# truncations of a good crafted block at every byte
good = dyn_block(L3, [1, 1], [('lit', 65), ('match', 257, 0, 0, 0, 0, 0), ('lit', 65), ('match', 257, 0, 0, 1, 0, 0), ('eob',)])
for i in range(len(good)):
    add("good_trunc_%d" % i, good[:i])
add("good_full", good)
# non-final crafted block followed by nothing / by a final stored block
nf = dyn_block(L2, [0], [('lit', 65), ('eob',)], final=0)
add("nonfinal_then_nothing", nf)
w2 = dyn_block(L2, [0], [('lit', 65), ('eob',)], final=0, ret_w=True)
add("nonfinal_dyn_then_final_dyn", dyn_block(L3, [1], [('lit', 65), ('match', 257, 0, 0, 0, 0, 0), ('eob',)], w=w2))
w2 = dyn_block(L2, [0], [('lit', 65), ('eob',)], final=0, ret_w=True)
w2.put(1, 1); w2.put(1, 2); w2.code(0x30 + 66, 8); w2.code(0, 7)      # final fixed block: 'B', EOB
add("nonfinal_dyn_then_final_fixed", w2.bytes())
w2 = dyn_block(L2, [0], [('lit', 65), ('eob',)], final=0, ret_w=True)
w2.put(1, 1); w2.put(0, 2)                                             # final stored block after a partial byte
add("nonfinal_dyn_then_final_stored", w2.bytes() + bytes([1, 0, 254, 255, 66]))
w2 = dyn_block(L2, [0], [('lit', 65), ('eob',)], final=0, ret_w=True)
w2.put(1, 1); w2.put(3, 2)
add("nonfinal_dyn_then_type3", w2.bytes())

# ------------------------------------------------------------ random dynamic blocks
LEXT = [0] * 8 + [1] * 4 + [2] * 4 + [3] * 4 + [4] * 4 + [5] * 4 + [0]
DEXT = [0, 0, 0, 0] + [i // 2 for i in range(2, 28)]
for k in range(NRAND):
    nlit = rng.randint(257, 286)
    ndist = rng.randint(1, 30)
    ll = random_complete(nlit, 15, rng)
    if rng.random() < 0.8 and ll[256] == 0:
        # make sure EOB has a code most of the time: swap with some coded symbol
        j = rng.choice([i for i, l in enumerate(ll) if l])
        ll[256], ll[j] = ll[j], 0
    mode = rng.random()
    if mode < 0.15:
        dl = [0] * ndist
    elif mode < 0.3:
        dl = [0] * ndist
        dl[rng.randrange(ndist)] = 1
    elif ndist >= 2:
        dl = random_complete(ndist, 15, rng, used=rng.randint(2, ndist))
    else:
        dl = [rng.choice([0, 1, 2])]
    # perturb
    p = rng.random()
    if p < 0.15:
        i = rng.randrange(nlit)
        ll[i] = rng.randint(0, 15)
    elif p < 0.3:
        i = rng.randrange(ndist)
        dl[i] = rng.randint(0, 15)
    syms = []
    lits = [i for i in range(min(256, nlit)) if ll[i]]
    lens_ = [i for i in range(257, nlit) if ll[i]]
    dists = [i for i in range(ndist) if dl[i]]
    for _ in range(rng.randint(0, 30)):
        if lens_ and dists and rng.random() < 0.4:
            ls = rng.choice(lens_)
            ds = rng.choice(dists[: max(1, len(dists) // 3)] if rng.random() < 0.7 else dists)
            syms.append(('match', ls, rng.getrandbits(LEXT[ls - 257]) if LEXT[ls - 257] else 0, LEXT[ls - 257],
                         ds, rng.getrandbits(DEXT[ds]) if DEXT[ds] else 0, DEXT[ds]))
        elif lits:
            syms.append(('lit', rng.choice(lits)))
    if ll[256] and rng.random() < 0.9:
        syms.append(('eob',))
    kw = {}
    q = rng.random()
    if q < 0.05:
        kw['hlit'] = rng.choice([287, 288])
    elif q < 0.1:
        kw['hdist'] = rng.choice([31, 32])
    try:
        b = dyn_block(ll, dl, syms, final=rng.choice([0, 1, 1]), **kw)
    except AssertionError:
        b = None
    if b is not None:
        if rng.random() < 0.1:
            b = b[: rng.randrange(len(b) + 1)]
        add("rnd_%d" % k, b)

# ------------------------------------------------------------ mutations of zlib streams
base = []
for lv, st in ((6, zlib.Z_DEFAULT_STRATEGY), (9, zlib.Z_FIXED), (1, zlib.Z_RLE), (6, zlib.Z_HUFFMAN_ONLY)):
    d = bytes(rng.choice(b"aaaaaaabbbbcccdde \n") for _ in range(rng.randint(100, 600)))
    c = zlib.compressobj(lv, zlib.DEFLATED, -15, 9, st)
    base.append(c.compress(d) + c.flush(zlib.Z_FINISH))
    c = zlib.compressobj(lv, zlib.DEFLATED, -15, 9, st)
    base.append((c.compress(d) + c.flush(zlib.Z_SYNC_FLUSH))[:-4])
for k in range(NRAND // 2):
    s = bytearray(rng.choice(base))
    for _ in range(rng.randint(1, 3)):
        i = rng.randrange(min(len(s), 40) if rng.random() < 0.6 else len(s))
        s[i] ^= 1 << rng.randrange(8)
    add("mut_%d" % k, s)


# ------------------------------------------------------------ run the three decoders
def zl(s):
    d = zlib.decompressobj(-15)
    try:
        out = d.decompress(s) + d.flush()
    except zlib.error as e:
        return ("corrupt", b"", str(e))
    return ("ok", out, "") if d.eof else ("eof", b"", "")


hx = lambda b: b.hex() or "-"
with open(os.path.join(FZ, "cases.txt"), "w") as f:
    for n, b in cases:
        f.write("fz %s %s\n" % (n, hx(b)))
subprocess.check_call([os.path.join(HERE, "gocheck", "gocheck"), FZ])
go = {}
for ln in open(os.path.join(FZ, "go_out.txt")):
    w = ln.split()
    go[w[1]] = (w[3], w[4], w[5], w[6])
inp = "".join("%s %s\n" % (n, hx(b)) for n, b in cases) + "".join("%s+tail %s\n" % (n, hx(b + TAIL)) for n, b in cases)
ml_out = subprocess.run([os.path.join(HERE, "ml", "driver")], input=inp.encode(), stdout=subprocess.PIPE, check=True).stdout.decode()
open(os.path.join(FZ, "ml_out.txt"), "w").write(ml_out)
ml = {}
for ln in ml_out.splitlines():
    w = ln.split()
    ml[w[0]] = (w[1], w[2])

stats = {}
diffs = []
with open(os.path.join(FZ, "interesting.txt"), "w") as f:
    for n, b in cases:
        zr, zt = zl(b), zl(b + TAIL)
        g = go[n]
        m_raw, m_tail = ml[n], ml[n + "+tail"]
        key = (zr[0], g[2], m_raw[0])
        stats[key] = stats.get(key, 0) + 1
        # acceptance + output
        z_acc = (zr[0] == "ok", hx(zr[1]) if zr[0] == "ok" else "-")
        g_acc = (g[2] == "ok", g[3])
        m_acc = (m_raw[0] == "ok", m_raw[1])
        zt_acc = (zt[0] == "ok", hx(zt[1]) if zt[0] == "ok" else "-")
        gt_acc = (g[0] == "ok", g[1])
        mt_acc = (m_tail[0] == "ok", m_tail[1])
        tags = []
        if m_acc != g_acc or mt_acc != gt_acc:
            tags.append("MODEL-vs-GO-ACCEPT")
        if z_acc != g_acc or zt_acc != gt_acc:
            tags.append("ZLIB-vs-GO-ACCEPT")
        if m_raw[0] != g[2] or m_tail[0] != g[0]:
            tags.append("MODEL-vs-GO-CLASS")
        if zr[0] != g[2]:
            tags.append("zlib-vs-go-class")
        if tags:
            diffs.append((n, tags))
            f.write("%s %s %s zlib=%s/%s(%s) go=%s/%s model=%s/%s\n" % (n, ",".join(tags), hx(b), zr[0], zt[0], zr[2], g[2], g[0], m_raw[0], m_tail[0]))

# crafted cases and a sample of the random ones go into the Coq-checked tests (see gen_test.py)
with open(os.path.join(HERE, "fuzz_cases.txt"), "w") as f:
    nr = nm = 0
    for n, b in cases:
        if n.startswith("rnd_"):
            nr += 1
            if nr > 150:
                continue
        if n.startswith("mut_"):
            nm += 1
            if nm > 100:
                continue
        f.write("%s %s\n" % (n, hx(b)))

print("cases:", len(cases))
print("(zlib raw, go raw, model raw) verdict counts:")
for k in sorted(stats):
    print("  ", k, stats[k])
cnt = {}
for n, tags in diffs:
    for t in tags:
        cnt[t] = cnt.get(t, 0) + 1
print("disagreement counts:", cnt)
for n, tags in diffs:
    if any(t.isupper() for t in tags):
        print("  ", n, tags)
