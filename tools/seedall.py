#!/usr/bin/env python3
"""Apply every seeded change in /verif/seeded/*/ to /repo in turn, run the property's quick check, undo.
   Writes seeded/RESULTS.json and prints one line per seed.  /repo must be clean; nothing else may use /repo meanwhile."""
import os, subprocess, json, glob, re, sys
os.environ.update({"GOFLAGS": "-mod=mod", "GOPROXY": "off", "GOSUMDB": "off", "GOTOOLCHAIN": "local"})
def sh(cmd, cwd=None):
    p = subprocess.run(cmd, shell=True, cwd=cwd, stdout=subprocess.PIPE, stderr=subprocess.STDOUT, text=True)
    return p.returncode, p.stdout
rc, out = sh("git status --porcelain", "/repo")
if out.strip():
    print("/repo not clean"); sys.exit(2)
only = sys.argv[1:]
res = []
for d in sorted(glob.glob("/verif/seeded/C*-*")):
    name = os.path.basename(d)
    if only and name not in only and name.split("-")[0] not in only:
        continue
    pid = name.split("-")[0]
    meta = json.load(open(os.path.join(d, "meta.json")))
    try:
        rc, out = sh("git apply %s/patch.diff" % d, "/repo")
        if rc != 0:
            res.append({"seed": name, "applies": False}); print(name, "PATCH DOES NOT APPLY"); continue
        rc, out = sh("./check %s" % pid, "/verif")
        lines = [l for l in out.splitlines() if l.startswith("VIOLATION")]
        concrete = [l for l in lines if "no-failing-input-found" not in l]
        clause = ""
        if concrete:
            rp = concrete[0].split("replay=")[1].split()[0]
            try:
                r = json.load(open(rp)); clause = "%s clause %s: %s" % (r.get("harness", ""), r.get("clause", ""), r.get("clause_text", "") or r.get("kind", ""))
            except Exception: pass
        elif lines:
            rp = lines[0].split("replay=")[1].split()[0]
            try:
                r = json.load(open(rp)); clause = r.get("note", "") or r.get("broken", "")
            except Exception: pass
        summary = [l for l in out.splitlines() if " quick: " in l]
        res.append({"seed": name, "property": pid, "summary": meta.get("summary"), "needs": meta.get("needs"), "rc": rc,
                    "violations": len(lines), "with_failing_input": len(concrete), "first": clause, "check_line": summary[-1] if summary else ""})
        print(name, "rc=%d" % rc, "violations=%d" % len(lines), "concrete=%d" % len(concrete), "|", clause[:150])
    finally:
        sh("git checkout -- .", "/repo")
sh("git checkout -- evidence", "/verif")
if only and os.path.exists("/verif/seeded/RESULTS.json"):
    # a partial run replaces the entries of the seeds it ran
    by = {r["seed"]: r for r in res}
    old = json.load(open("/verif/seeded/RESULTS.json"))
    res = sorted([by.pop(r["seed"], r) for r in old] + list(by.values()), key=lambda r: r["seed"])
json.dump(res, open("/verif/seeded/RESULTS.json", "w"), indent=1)
