"""Per-property metadata shared by ./check (evidence) and tools/mkmanifest.py (MANIFEST.json)."""

TRUSTED_BASE_COMMON = [
    "Coq 8.16.1 kernel incl. vm_compute (native_compute not used); coqchk re-check in the thorough tier",
    "no axioms declared; Print Assumptions output of every property theorem is recorded in this file",
    "extraction: ExtrOcamlBasic only (bool, option, unit, list, prod, sumbool, sumor, andb, orb mapped to OCaml); N/Z/positive/nat stay extracted inductives; OCaml 4.13.1; ocaml/driver.ml (tape I/O)",
    "Go harness (generators, scripted transports, observation logging), harness/cmd/facts (Consts.v generator), ./check",
    "/repo/verif_hooks.go (build tag verif, add-only accessors)",
    "the correspondence check is differential testing: agreement of model and implementation is established on the cases run, not for all inputs",
]

PROPS = {
    "C13": {
        "technique": "Coq proof (iff characterisation of the origin rule on the Gallina model, all byte strings) + differential correspondence of checkSameOrigin/Upgrade against the extracted model",
        "level_text": "Theorem C13_origin_policy: for every Host, Origin list and url.Parse oracle, the origin stage passes iff there is no Origin or the parsed host equals Host byte-for-byte after ASCII lowering; corollaries for look-alike bytes and length. Tied to the code by running Upgrader{}.Upgrade and checkSameOrigin on generated (Host, Origin) pairs and judging them with the extracted Spec predicate.",
        "level_note": "url.Parse is an oracle (its real answer is recorded per case and given to the model); net/http header canonicalisation is trusted; agreement is on the cases run.",
        "assumptions": ["url.Parse(origin).Host is taken from the real net/url on every case (oracle)"],
        "trusted_base": ["net/url.Parse as an oracle (Section variable url_host_of)"],
        "design_ref": "7/C13",
    },
}
