"""Per-property metadata shared by ./check (evidence) and tools/mkmanifest.py (MANIFEST.json)."""

TRUSTED_BASE_COMMON = [
    "Coq 8.16.1 kernel incl. vm_compute (native_compute not used); coqchk re-check in the thorough tier",
    "no axioms declared; Print Assumptions output of every property theorem is recorded in this file",
    "extraction: ExtrOcamlBasic only (bool, option, unit, list, prod, sumbool, sumor, andb, orb mapped to OCaml); N/Z/positive/nat stay extracted inductives; OCaml 4.13.1; ocaml/driver.ml (tape I/O)",
    "Go harness (generators, scripted transports, observation logging), harness/cmd/facts (Consts.v generator), ./check",
    "/repo/verif_hooks.go (build tag verif, add-only accessors)",
    "the correspondence check is differential testing: agreement of model and implementation is established on the cases run, not for all inputs",
]

READER_TB = ["compress/flate's reader is replaced by the Gallina inflate (Spec/Inflate.v, differentially tested against Go and zlib); bufio.Reader and io.ReadAll are re-implemented in the model (Model/Bufio.v, read_all) and exercised against the real ones on every case",
             "io.ReadAll's capacity growth schedule is an oracle read off the Go runtime by the harness"]

PROPS = {
    "C03": {
        "harness": ["C03"],
        "technique": "Coq proof (induction over arbitrary conformant frame lists and arbitrary bufio/transport states) + differential correspondence of the real reader against the extracted model and Spec decoder",
        "level_text": "Theorems C03_reader_decodes_partial / C03_end_only_at_true_end / C03_independent_of_chunking_and_buffers: for every conformant uncompressed frame list (any fragmentation, empty frames, any mask keys, all length forms, pings/pongs anywhere), every role, every read-buffer size >= 125, every initial buffering, every transport chunking and fault delivery, every ReadAll growth schedule, the ReadMessage loop returns exactly the encoded messages in order, answers pings, and reports the end only at the true end. Partial w.r.t. the property text: compressed messages, NextReader+Read of arbitrary sizes, abandonment and close frames are decided by the correspondence check (and Props/C06, C08) only.",
        "level_note": "model = Model/Reader.v + Model/Bufio.v (hand-written, tied by the correspondence on every run); theorem covers uncompressed streams and the ReadMessage loop with default handlers; flate inflate is Spec code validated against Go",
        "assumptions": ["transport never returns (0, nil)", "frame lists shorter than 2^63 bytes"],
        "trusted_base": READER_TB,
        "design_ref": "7/C03",
    },
    "C05": {
        "harness": ["C05"],
        "technique": "Coq proof (every cut offset of every conformant stream, every fault kind and delivery, every chunking and buffer size, by induction over the frame list and case analysis on where the cut falls) + correspondence at every cut offset x fault delivery on the real reader",
        "level_text": "Theorems C05_cut_stream_whole_messages_then_error (complete messages delivered intact and in order, then a real error with exactly the received part of the truncated message, nothing queued for a truncated control frame, everything afterwards fails), C05_error_is_not_eof, C05_reader_eof_only_at_true_end (io.Reader level, any state: io.EOF only after the final frame was consumed completely - the repaired defect), C05_partial_message_reader_never_eof (NextReader + Read of any sizes), C05_errors_are_permanent (any operation sequence).",
        "level_note": "uncompressed streams and default handlers in the stream-level theorems; compressed messages and the flate reader's buffering are decided by the correspondence check (Spec predicate only, no model equality, for compressed + faulted cases)",
        "assumptions": ["transport never returns (0, nil)", "streams shorter than 2^63 bytes"],
        "trusted_base": READER_TB,
        "design_ref": "7/C05",
    },
    "C06": {
        "harness": ["C06"],
        "technique": "Coq proof (accounting invariant over arbitrary frame lists, limits and abandonment points; instrumented request-size bound) + differential correspondence with limits/fragmentations/histories/huge declared lengths",
        "level_text": "Theorems C06_next_message_within_limit_is_read (completeness + history independence from ANY abandonment point, any fragmentation, control frames not counted), C06_count_restarts_with_each_message, C06_history_independent, C06_over_limit_never_complete (ErrReadLimit, <= L bytes delivered, 1009 close, permanent), C06_crossing_frame_refused_before_payload (only the header consumed; overflow >= 2^63 refused without close), C06_top_bit_length_refused, C06_request_sizes_bounded (every request to the buffered transport <= max(125, app buffer, 8192)).",
        "level_note": "uncompressed streams (with compression the limit counts wire bytes; exercised by the correspondence only); real allocator behaviour is measured (largest transport request) not proved",
        "assumptions": ["default handlers", "frame lists shorter than 2^63 bytes for the message-level theorems"],
        "trusted_base": READER_TB,
        "design_ref": "7/C06",
    },
    "C13": {
        "harness": ["C13"],
        "technique": "Coq proof (iff characterisation of the origin rule on the Gallina model, all byte strings) + differential correspondence of checkSameOrigin/Upgrade against the extracted model",
        "level_text": "Theorem C13_origin_policy: for every Host, Origin list and url.Parse oracle, the origin stage passes iff there is no Origin or the parsed host equals Host byte-for-byte after ASCII lowering; corollaries for look-alike bytes and length. Tied to the code by running Upgrader{}.Upgrade and checkSameOrigin on generated (Host, Origin) pairs and judging them with the extracted Spec predicate.",
        "level_note": "url.Parse is an oracle (its real answer is recorded per case and given to the model); net/http header canonicalisation is trusted; agreement is on the cases run.",
        "assumptions": ["url.Parse(origin).Host is taken from the real net/url on every case (oracle)"],
        "trusted_base": ["net/url.Parse as an oracle (Section variable url_host_of)"],
        "design_ref": "7/C13",
    },
    "C15": {
        "harness": ["C15"],
        "technique": "Coq proof (agreement for all offer lines and settings; kernel evaluation of parseExtensions on the literals regenerated from the source) + real Dialer vs real Upgrader correspondence",
        "level_text": "Theorems C15_endpoints_agree (for every offer-line list reaching the Upgrader and every setting, the Dialer's decision on the Upgrader's reply equals the Upgrader's), C15_setting_matrix (compression iff both enabled), C15_client_requires_both_parameters, C15_tied_to_upgrade / C15_tied_to_validate_reply (these are the decisions inside the handshake models), C15_literals_from_source. Message flow with toggles is C01/C02.",
        "level_note": "net/http (de)serialisation of the extension header is an oracle; the literals are read from the source by go/parser on every run",
        "assumptions": [],
        "trusted_base": ["net/http header parsing/serialisation (oracle)"],
        "design_ref": "7/C15",
    },
    "C17": {
        "harness": ["C17"],
        "technique": "Coq proof (the reader built at the handshake boundary has pending = buffered ++ socket for every split and size; C03's theorem then applies) + correspondence through real Upgrade / Dial at every split offset",
        "level_text": "Theorems C17_reader_sees_the_whole_stream and C17_messages_after_handshake_delivered: for every split of the stream between the hijacked bufio.Reader and the socket, every ReadBufferSize and hijacked reader size, every socket chunking and fault, the connection's reader sees exactly the bytes following the handshake and delivers the messages they encode. Client side: http.ReadResponse consuming exactly the header block is an oracle; every split of 101+frames is run through the real Dial.",
        "level_note": "server side proved on the model of Upgrade's reader choice (upgrade_reader) and brNetConn; client side relies on the net/http oracle and the correspondence",
        "assumptions": ["hijacked reader holds at most its capacity"],
        "trusted_base": READER_TB + ["net/http: Hijack hands over its bufio.Reader; ReadResponse leaves the bytes after the header block in the reader"],
        "design_ref": "7/C17",
    },
}
