#!/usr/bin/env python3
"""Insert /verif/tools/design_sec11.md (with the seeded-change table built from seeded/RESULTS.json) into DESIGN.md before Appendix A,
   replacing an earlier section 11 if present."""
import json, re
res = json.load(open('/verif/seeded/RESULTS.json'))
rows = ["Forty changes to gorilla/websocket (two per property) were written by sub-agents that were given nothing",
        "but the text of one property and a scratch worktree of /repo, with the brief: break the property, keep the",
        "package compiling and the pinned suite passing, make the failure need something specific, and demonstrate it",
        "with a test. Each was confirmed (demo passes on the clean tree and fails with the change; suite passes with",
        "it), stored under `seeded/<id>-<n>/` (`patch.diff`, `demo_test.go`, `meta.json`) and run against the property's",
        "quick check with `tools/seedrun.sh` (apply to /repo, check, `git checkout -- .`). `tools/seedall.py` re-runs",
        "them all and writes `seeded/RESULTS.json`, from which this table is generated. \"concrete\" = number of",
        "VIOLATION lines whose replay is a failing input (the rest end in no-failing-input-found).",
        "",
        "| seed | change | caught by (first concrete violation) | VIOLATION lines (concrete) |",
        "|------|--------|--------------------------------------|----------------------------|"]
for r in res:
    if not r.get('applies', True):
        rows.append("| %s | (patch does not apply) | - | - |" % r['seed']); continue
    summ = (r.get('summary') or '').replace('|', '/').replace('\n', ' ')
    if len(summ) > 230: summ = summ[:227] + '...'
    first = (r.get('first') or '').replace('|', '/').replace('\n', ' ')
    if len(first) > 200: first = first[:197] + '...'
    rows.append("| %s | %s | %s | %d (%d) |" % (r['seed'], summ, first or ('exit %d' % r['rc']), r['violations'], r['with_failing_input']))
missed = [r['seed'] for r in res if r.get('rc') == 0]
rows.append("")
rows.append("Missed on the final run: %s." % (', '.join(missed) if missed else 'none'))
rows.append("""
Eleven of the forty were missed, or caught only as a correspondence break without a failing input, by the
checks as they stood when the seed arrived; each miss was a hole in a generator or a missing Spec clause, and
was closed by strengthening the machinery (never by special-casing the seed):
C06-2 (running sums that overflow int64 were not generated; this also exposed the defect fixed in b4843a2),
C05-2 (faults were always permanent: transient timeouts added, justified by C05_errors_are_permanent),
C02-1 (no frame of exactly 65536 bytes: length-boundary frames by every route), C09-1 (diverged gated runs
were cut short: now completed and judged by the Spec), C09-2 (no sequential close-by-each-path programs:
harness C09w), C11-2 (no clause for "ErrCloseSent without a close frame": clause 153), C01-1 (ReadFrom
sources that report EOF with data), C07-1 (a panic under Upgrade is now a Spec failure, clause 50),
C14-1 (Accept values differing from the digest only in letter case), C15-1 (scripted replies with one
no-context-takeover parameter: harness C15r), C18-1/C18-2 (caller Host header, credentials that need
escaping, clauses 162-164), C19-1 (concurrent senders: harness C19c), C20-2 (clause 86 and the wire
predicate in pooled runs).""")
sec = open('/verif/tools/design_sec11.md').read().replace('SEEDED_TABLE', '\n'.join(rows))
d = open('/verif/DESIGN.md').read()
d = re.sub(r'## 11\. As built.*?(?=## Appendix A\.)', '', d, flags=re.S)
i = d.index('## Appendix A.')
d = d[:i] + sec + '\n--------------------------------------------------------------------------------------------\n\n' + d[i:]
open('/verif/DESIGN.md', 'w').write(d)
print("ok", len(res), "seeds; missed:", missed)
