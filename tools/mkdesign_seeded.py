#!/usr/bin/env python3
"""Insert /verif/tools/design_sec11.md (with the seeded-change table built from seeded/RESULTS.json) into DESIGN.md before Appendix A,
   replacing an earlier section 11 if present."""
import json, re
res = json.load(open('/verif/seeded/RESULTS.json'))
rows = ["%d changes to gorilla/websocket were written by sub-agents that were given nothing but the text of one" % len(res),
        "property and a scratch worktree of /repo, with the brief: break the property, keep the package compiling and",
        "the pinned suite passing, make the failure need something specific, and demonstrate it with a test. Round 1:",
        "two per property (`seeded/Cxx-n`); round 2, after the machinery had been strengthened and three more defects",
        "repaired: three per property, asked for mechanisms a reviewer would not think of first (`seeded/Cxx-r2n`);",
        "round 3: thirty more, each agent confined to one file other than conn.go (`seeded/Cxx-r3<file>n`); round 4: twenty",
        "more, cooperating edits and history-dependent leaks (`seeded/Cxx-r4n`); round 5: twenty more for the ten",
        "properties round 4 had left out, same brief plus rarely used entry points and non-default options (`seeded/Cxx-r5n`);",
        "round 6: the same brief for the other ten properties (`seeded/Cxx-r6n`); rounds 7 and 8: once more for each half,",
        "the agents now also given the one-line summaries of all earlier changes to their property and told to find",
        "something else (`seeded/Cxx-r7n`, `seeded/Cxx-r8n`).",
        "Each was confirmed (demo passes on the clean tree and fails with the change; suite passes with it), stored",
        "with `patch.diff`, `demo_test.go`, `meta.json`, and run against the property's quick check with",
        "`tools/seedrun.sh` (apply to /repo, check, `git checkout -- .`). `tools/seedall.py` re-runs them all and",
        "writes `seeded/RESULTS.json`, from which this table is generated. \"concrete\" = number of VIOLATION lines",
        "whose replay is a failing input (the rest end in no-failing-input-found).",
        "",
        "| seed | change | caught by (first concrete violation) | VIOLATION lines (concrete) |",
        "|------|--------|--------------------------------------|----------------------------|"]
for r in res:
    if not r.get('applies', True):
        rows.append("| %s | (patch does not apply) | - | - |" % r['seed']); continue
    summ = (r.get('summary') or '').replace('|', '/').replace('\n', ' ')
    if len(summ) > 230: summ = summ[:227] + '...'
    first = (r.get('first') or '').replace('|', '/').replace('\n', ' ')
    if len(first) > 200: first = first[:197] + '...'
    rows.append("| %s | %s | %s | %d (%d) |" % (r['seed'], summ, first or ('exit %d' % r['rc']), r['violations'], r['with_failing_input']))
missed = [r['seed'] for r in res if r.get('rc') == 0]
rows.append("")
rows.append("Missed on the final run: %s." % (', '.join(missed) if missed else 'none'))
noconc = [r['seed'] for r in res if r.get('rc') != 0 and r.get('with_failing_input', 0) == 0]
rows.append("Caught without a failing input (proof obligation or correspondence broken, or the harness could not complete): %s." % (', '.join(noconc) if noconc else 'none'))
rows.append("""
Round 1: eleven of the forty were missed, or caught only as a correspondence break without a failing input,
by the checks as they stood when the seed arrived; each miss was a hole in a generator or a missing Spec
clause, and was closed by strengthening the machinery (never by special-casing the seed):
C06-2 (running sums that overflow int64 were not generated; this also exposed the defect fixed in b4843a2),
C05-2 (faults were always permanent: transient timeouts added, justified by C05_errors_are_permanent),
C02-1 (no frame of exactly 65536 bytes: length-boundary frames by every route), C09-1 (diverged gated runs
were cut short: now completed and judged by the Spec), C09-2 (no sequential close-by-each-path programs:
harness C09w), C11-2 (no clause for "ErrCloseSent without a close frame": clause 153), C01-1 (ReadFrom
sources that report EOF with data), C07-1 (a panic under Upgrade is now a Spec failure, clause 50),
C14-1 (Accept values differing from the digest only in letter case), C15-1 (scripted replies with one
no-context-takeover parameter: harness C15r), C18-1/C18-2 (caller Host header, credentials that need
escaping, clauses 162-164), C19-1 (concurrent senders: harness C19c), C20-2 (clause 86 and the wire
predicate in pooled runs).

Round 2: of the sixty, fourteen were missed or caught without a failing input at first:
C02-r23 (a flate.Writer pooled twice corrupts another connection's message: new harness C02m interleaves the
write programs of several connections op by op and judges each connection on its own; a panic inside
compress/flate is a Spec failure), C03-r23 (JoinMessages was not exercised: harness C03j), C04-r22 (1002 not
sent when the application's own write deadline has passed: reader cases now run with a stale write deadline),
C05-r22 (cut exactly where a read fills the application's buffer: deterministic family), C05-r23 (BFINAL
stream followed by a 0x00 fragment and an empty final fragment), C07-r21 (a hang made ./check exit without
a VIOLATION line: timeouts are handled and the hostile-header harness reports a hang after 5 s and skips the
rest after three), C08-r22 (handler errors that are timeout net.Errors), C10-r21 (WriteControl queued behind
a failing frame: clause 154 "the transport was used again after it had failed", harness C10c with frequent
Conn.Close), C10-r23 (frames under a stale deadline: clause 74 on deadline values), C11-r23 (C19c now also
runs under C11), C14-r21 (short reads of the entropy source: harness C14k), C16-r22 (read deadline left armed
by Upgrade: clause 173), C19-r22 (a prepared close must be the last frame and later sends must fail).
C06-r22 (ReadMessage pre-sizing its buffer from the declared length) makes the harness run out of memory or
time: reported as a violation without a failing input; C07r's clause 30 catches the same idea (C07-r22) as a
concrete input. C12-r23 (backslash handling in quoted strings) and C14-r21's syntactic half are caught by
the model correspondence / the regenerated facts only.

Round 3: thirty more, each agent restricted to one file other than conn.go (mask.go, compression.go, join.go /
json.go, prepared.go, proxy.go, util.go, server.go, client.go), seeds `seeded/Cxx-r3<file>n`. Ten were missed
at first: C01-r3mask1 (a zero-length Read resets the unmasking position: the bufio model was not faithful
for zero-length reads; model repaired, proofs adapted, zero-length reads generated), C01-r3mask2 (a fast path
for slices of 4096 bytes or more: write / read buffers of 8192 and 16384 bytes with messages at and beyond
them), C03-r3comp2 (bytes returned together with io.EOF by the flate reader dropped: only BFINAL-terminated
streams show it; first filed under C01, whose peers are the library's own writer, which never sends them),
C03-r3join3 (ReadJSON: harness C01j now also runs under C03), C14-r3util143 (parameters of a malformed
extension line leaking into the next line: arrangement added to C15r, which now also runs under C14),
C16-r3proxy162 (the handshake context not handed to the forward dialer: clause 174), C16-r3proxy163 (a leak
only when the failing read returns after the context has expired: fault kind "the peer goes silent until the
deadline has passed"), C18-r3proxy181 (2xx CONNECT replies taken for success: every reply class is tried and
clause 166 counts what the client still sends after a refusal), C18-r3proxy183 (SOCKS5 first hop bypassing the
caller's dial function: clause 165), C19-r3prep1 (payload copy off by six at exactly 65536 bytes: 64 KiB
payloads in the generator).

Round 4: twenty more (`seeded/Cxx-r4n`), asked for two cooperating edits at different sites, history-dependent
state leaks needing three or more calls or frames, or role-and-configuration-specific behaviour - no
single-line boundary tweaks. Eight were missed at first: C02-r41 (a control-type writer fed by ReadFrom on the
smallest buffer is fragmented: control writers fed by ReadFrom are now generated - which exhibited the defect
fixed in a3660fa on the unchanged tree), C04-r41 (an invalid close code with a reason of 100 bytes or more: the
1002 close would exceed 125 bytes and was dropped; long reasons generated), C06-r42 (ReadMessage pre-sizing
its buffer from the claimed length: new serial harness C06a reads TotalAlloc around one read of a frame that
claims 32 MiB .. 2^63-1 bytes; it also turns C06-r22 into a concrete input), C08-r42 (control payloads counted
against the read limit: C08 cases now set a limit every message fits under), C12-r41 (a subprotocol set
cached on the Upgrader across reconfiguration) and C15-r42 (the extension line parked in the application's
response-header map): a third of the C12 cases now run after a warm-up handshake on the same Upgrader value and
the same header map under another configuration, and the C12 harness also runs under C15; C17-r41 (the
hijacked reader read beyond what it has buffered: half of the non-reuse cases hand out a bufio.Reader whose
source is not the connection), C17-r42 (client read buffers below 125 bytes), C20-r42 (a remembered pool item
returned in place of the connection's own buffer after another connection had taken it: the interleaved
multi-connection harness C02m shares one BufferPool in half of its cases and is judged by C20's predicates
too). C12-r23 / C12-r3util123 (backslash escapes in quoted extension parameters) are now concrete inputs as
well: the Spec's list splitting knows quoted strings.

Round 5: twenty more (`seeded/Cxx-r5n`) for C01 C03 C05 C07 C09 C11 C14 C16 C18 C19, same brief as round 4 plus
"reachable only through a rarely used public entry point or a non-default option". Six were missed at first:
C01-r52 (JoinMessages dropping the bytes that arrive together with io.EOF: JoinMessages now has a model,
Model/Join.v, theorems C03_join_*, and a call-by-call correspondence harness C03k with failures glued to the last
bytes and buffers above the read buffer; C03k also runs under C01), C03-r52 (messageReader.Close detaching the
reader + flateReadWrapper.Close closing its source: a BFINAL-terminated compressed message is reported complete
before its final frame arrived; new harness C03e records how many stream bytes the transport had delivered when
each message was returned, clause 182), C05-r52 (Reads on a failed reader counting towards NextReader's 1000-call
panic: reads after the failure followed by 1001 NextReader calls are generated, clause 20 = panic before the
documented threshold), C07-r51 (SetPongHandler(nil) no longer restoring the default: every fourth default-handler
reader case now calls Set*Handler(nil) first), C09-r52 (a recorded write timeout treated as retryable, so the
close and later writes go out: C09w programs now may hit a transport failure before the close), C14-r52 (the
deprecated NewClient skipping the URL checks: a fifth of the C14 cases go through NewClient, clause 119 = a
non-ws/wss URL or one with userinfo not refused). C01-r51 (write deadline cached in Conn.write but not in
WriteControl) was caught by the correspondence only; clause 75 (the deadline armed on the transport when bytes
are written is the one in force for that frame) makes it a concrete input for C01 and C10. A panic raised on
the calling goroutine of any case is now a kind-70 tape (clause 50) instead of the end of the harness run.

Round 6: twenty more (`seeded/Cxx-r6n`) for C02 C04 C06 C08 C10 C12 C13 C15 C17 C20 with the round-5 brief. Four
were missed at first: C06-r62 (the 1009 close routed through the application's close handler: a quarter of the
C06 cases now install handlers), C10-r62 (an oversized control message fed to a control-type writer by ReadFrom
on the smallest buffer goes out fragmented instead of being refused: that family, already in C02, is now in C10
too), C13-r61 (a package-level cache of the last accepted (Origin, Host) pair whose halves come from different
requests: half of the C13 cases are now preceded by one to three earlier handshakes in the same process - the
request naming this origin's own host, refused requests for this host, other requests of the run - and the
harness runs serially), C15-r61 (an abandoned compressed message leaves the "compressed" flag set for the next,
uncompressed one: message flow after the handshake is C15's last sentence, so C15 now also runs the round-trip
and reader harnesses C01 and C03, which exhibit it).

Round 7: eighteen more (`seeded/Cxx-r7n`; the C18 agent delivered nothing) for the round-5 properties, the agents
given the summaries of the earlier changes and asked for different code paths. Five were missed at first:
C03-r71 (the default ping handler passing on ErrCloseSent from its pong: an eighth of the C03 cases now read on a
connection whose application already sent its close), C05-r72 (after a fault inside a compressed message a second
Read answers io.EOF: raw Reads on compressed messages were outside the Spec walk; io.EOF for a partly received
compressed message is now clause 13 there too, and cut compressed messages are read on after the first error),
C07-r71 (a type assertion to *tls.Conn on the unparsable-reply path, reached with a TLSClientConfig on a ws://
URL: C07d Dialers now carry one in half the cases), C11-r72 (WritePreparedMessage leaving isWriting set when
the write fails: a false "concurrent write" panic on the third call; the sequential close programs C09w exhibit it
and now run under C11 as well), C14-r72 (the rejected reply's body cut to what was already buffered when no
timeout is configured: a third of the C14 replies now arrive in pieces; clause 118 = fewer body bytes kept than
the reply carried). C14-r71 (Host: ::1 for ws://[::1]/) was caught by the correspondence only; clause 117 (the
Host header is the URL's host as written or the caller's override) makes it concrete.

Round 8: twenty more (`seeded/Cxx-r8n`) for the round-6 properties, same arrangement. Eight were missed at first,
the largest share since round 1 - the agents, told what had been done, went for entry points and options the
harness had never used: C02-r82 (a PreparedMessage's private rendering connection kept and re-targeted, its
compressor never cleared: RSV1 on a connection without the extension) and C15-r81 (one cache entry shared by
connections with and without negotiated compression) are exhibited by the PreparedMessage sharing harness C19, which
now also runs under C02 and C15; C15-r82 (a pooled truncWriter put back with four stale bytes after a write failed
in the middle of a compressed multi-frame message: the next compressed message on another connection is corrupt) is
exhibited by the multi-connection harness C02m, now also under C15; C04-r82 (a Dialer with EnableCompression
installing the decompressor before the 101 is read: RSV1 accepted although the server declined) - a third of the
client C04 cases now come from a real Dial whose offer was declined; C06-r82 (the limit applied to the inflated
size) - compressed messages of at most L wire bytes inflating to up to 40000 bytes must be read in full, and the
C06 Spec now inflates what lies within the limit; C08-r82 (handlers given a string aliasing the read buffer) - the
harness's handlers keep the very strings they were given and look at them only when the run is over; C13-r82
(the TLS server name taking the Host header's place) - a fifth of the C13 requests carry a TLS state whose
ServerName is the origin's host, the Host, or a third name; C20-r81 (WriteJSON returning the encode error
without closing its writer: the pool buffer stays with an idle connection) - write programs now contain WriteJSON
of an unencodable value, which must behave as the empty text message it sends.""")
sec = open('/verif/tools/design_sec11.md').read().replace('SEEDED_TABLE', '\n'.join(rows))
d = open('/verif/DESIGN.md').read()
d = re.sub(r'## 11\. As built.*?(?=## Appendix A\.)', '', d, flags=re.S)
i = d.index('## Appendix A.')
d = d[:i] + sec + '\n--------------------------------------------------------------------------------------------\n\n' + d[i:]
open('/verif/DESIGN.md', 'w').write(d)
print("ok", len(res), "seeds; missed:", missed)
