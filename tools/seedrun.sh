#!/bin/bash
# usage: seedrun.sh <seed-dir> <check-id>...   : apply a seeded change to /repo, run the given checks, undo.
# With VERIFY=1 first confirms that the demo fails with the change and passes without, and that the pinned suite passes with it.
set -u
export GOFLAGS=-mod=mod GOPROXY=off GOSUMDB=off GOTOOLCHAIN=local
d=$(readlink -f "$1"); shift
cd /repo || exit 2
if [ -n "$(git status --porcelain)" ]; then echo "/repo not clean"; exit 2; fi
restore() { git -C /repo checkout -- . ; rm -f /repo/zz_demo_test.go; git -C /verif checkout -- evidence; }
trap restore EXIT
if [ "${VERIFY:-0}" = 1 ]; then
  cp "$d/demo_test.go" /repo/zz_demo_test.go
  if go test -count=1 -run 'TestDemo' . >/tmp/seed-demo-clean.log 2>&1; then echo "demo on clean tree: PASS (ok)"; else echo "demo on clean tree: FAIL (bad seed)"; tail -5 /tmp/seed-demo-clean.log; fi
  rm -f /repo/zz_demo_test.go
fi
git apply "$d/patch.diff" || { echo "patch does not apply"; exit 2; }
if [ "${VERIFY:-0}" = 1 ]; then
  if go test -count=1 ./... >/tmp/seed-suite.log 2>&1; then echo "suite with change: PASS (ok)"; else echo "suite with change: FAIL (bad seed)"; tail -5 /tmp/seed-suite.log; fi
  cp "$d/demo_test.go" /repo/zz_demo_test.go
  if go test -count=1 -run 'TestDemo' . >/tmp/seed-demo.log 2>&1; then echo "demo with change: PASS (bad seed)"; else echo "demo with change: FAIL (ok)"; fi
  rm -f /repo/zz_demo_test.go
fi
for c in "$@"; do
  out=$(cd /verif && ./check $c 2>&1); rc=$?
  echo "== $c rc=$rc"; echo "$out" | grep -E 'VIOLATION|KNOWN|obligations' | head -5
done
