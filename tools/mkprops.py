#!/usr/bin/env python3
"""Copy theorem statements out of a Proofs file into a Props file:  mkprops.py Proofs/X.v PREFIX name1 name2 ...
   prints  Theorem PREFIX_name binders : statement.  Proof. exact (name args). Qed.  Print Assumptions ..."""
import sys, re
src = open(sys.argv[1]).read()
prefix = sys.argv[2]
for name in sys.argv[3:]:
    m = re.search(r'\n(Theorem|Lemma|Corollary)\s+' + re.escape(name) + r'\b', src)
    if not m:
        sys.stderr.write("missing " + name + "\n"); continue
    start = m.end()
    end = src.index('\nProof', start)
    body = src[start:end].rstrip()
    assert body.endswith('.')
    body = body[:-1]
    # split binders from statement at the first ':' at depth 0
    depth = 0; idx = None
    for i, ch in enumerate(body):
        if ch in '([{': depth += 1
        elif ch in ')]}': depth -= 1
        elif ch == ':' and depth == 0 and body[i:i+2] != ':=':
            idx = i; break
    binders, stmt = body[:idx], body[idx+1:]
    names = []
    depth = 0; cur = ''
    toks = re.findall(r'\([^()]*\)|\{[^{}]*\}|\S+', binders)
    for t in toks:
        if t.startswith('(') or t.startswith('{'):
            inner = t[1:-1].split(':')[0]
            names += inner.split()
        else:
            names.append(t)
    print("Theorem %s_%s%s :%s." % (prefix, name, binders.rstrip(), stmt))
    print("Proof. exact (%s %s). Qed." % (name, ' '.join(names)))
    print("Print Assumptions %s_%s.\n" % (prefix, name))
