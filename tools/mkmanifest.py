#!/usr/bin/env python3
"""Regenerates /verif/MANIFEST.json from tools/propmeta.py."""
import json, os, sys
sys.path.insert(0, os.path.dirname(os.path.abspath(__file__)))
from propmeta import PROPS
VERIF = os.path.dirname(os.path.dirname(os.path.abspath(__file__)))
allids = [json.loads(l)["id"] for l in open(os.path.join(VERIF, "properties.jsonl"))]
NA_REASONS = {}
try:
    from propmeta import NOT_APPLICABLE
    NA_REASONS = NOT_APPLICABLE
except ImportError:
    pass
checks = []
for pid in allids:
    if pid not in PROPS:
        continue
    m = PROPS[pid]
    checks.append({
        "property_id": pid,
        "quick_cmd": "./check %s --tier quick" % pid,
        "thorough_cmd": "./check %s --tier thorough" % pid,
        "evidence_file": "/verif/evidence/%s.json" % pid,
        "replay_cmd_template": "./check %s --replay {path}" % pid,
        "engine": "coq-model+correspondence",
        "level_claimed": {"category": "proof", "text": m["level_text"], "design_ref": "DESIGN.md section " + m.get("design_ref", "7")},
        "level_note": m["level_note"],
        "technique": m["technique"],
    })
na = [{"property_id": pid, "reason": NA_REASONS.get(pid, "not yet built in this tree: the Coq model and correspondence check for this property are still under construction (see DESIGN.md section 9 build order); no claim is made until its check is registered")}
      for pid in allids if pid not in PROPS]
manifest = {
    "version": 1,
    "setup_cmd": "./setup.sh",
    "hooks": {
        "guard": "verif",
        "enable": "go build -tags verif (harness module /verif/harness with replace github.com/gorilla/websocket => /repo)",
        "baseline_off_cmd": "cd /repo && GOFLAGS=-mod=mod GOPROXY=off go test -vet=off -count=1 -timeout 25m ./...",
        "source_commits": [l.strip() for l in open(os.path.join(VERIF, "HOOK_COMMITS.txt")) if l.strip()] if os.path.exists(os.path.join(VERIF, "HOOK_COMMITS.txt")) else [],
        "add_only": True,
    },
    "engines": [
        {"name": "coq-model+correspondence", "path": "/verif/coq, /verif/ocaml, /verif/harness, /verif/check",
         "serves_properties": [c["property_id"] for c in checks],
         "kind_free_text": "Gallina model + theorems (Coq 8.16.1), generated Consts.v, extracted OCaml judge, Go differential harness against /repo built with -tags verif"},
    ],
    "checks": checks,
    "not_applicable": na,
    "notes": "All checks share one Coq development (coq/), rebuilt incrementally under a lock; see DESIGN.md.",
}
json.dump(manifest, open(os.path.join(VERIF, "MANIFEST.json"), "w"), indent=1)
print("MANIFEST.json: %d checks, %d not_applicable" % (len(checks), len(na)))
