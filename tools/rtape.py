#!/usr/bin/env python3
"""Pretty-print a reader-case tape (from a replay file or stdin)."""
import sys, json
def main():
    src = sys.argv[1]
    if src.endswith('.json'):
        tape = json.load(open(src))['tape']
    else:
        tape = open(src).read()
    t = [int(x) for x in tape.split()]
    i = [1]
    def n(): x = t[i[0]]; i[0] += 1; return x
    def bs():
        l = n(); b = bytes(t[i[0]:i[0]+l]); i[0] += l; return b
    def err():
        c = n()
        if c == 2: return ('close', n(), bs())
        if c == 8: return ('handler', n())
        return {0:'nil',1:'EOF',3:'timeout',4:'other',5:'buffull',6:'proto',7:'readlimit',9:'internal',10:'flate'}.get(c, c)
    print('kind', t[0], 'server', n(), 'negotiated', n(), 'custom', n(), 'hfail', [n() for _ in range(n())])
    caps = [n() for _ in range(n())]
    print('rbuf', n(), 'brsize', n(), 'buffered', bs().hex())
    nch = n(); chunks = [bs() for _ in range(nch)]
    print('chunks', [len(c) for c in chunks][:40], 'stream', b''.join(chunks).hex()[:400])
    print('fault', n(), 'glued', n())
    ops = []
    for _ in range(n()):
        k = n()
        ops.append({0:'Next',3:'ReadMessage'}.get(k) or ({1:'Read',2:'ReadStale',4:'SetLimit'}[k], n()))
    print('ops', ops)
    print('cmp', n(), 'drains', n(), 'sure', n())
    # extras unknown count: results start with count; try to parse greedily
    save = i[0]
    i[0] = save; print("via", n()); save = i[0]
    for extra in range(0, 1):
        i[0] = save + extra
        try:
            res = []
            for _ in range(n()):
                k = n()
                if k == 0: res.append(('Next', n(), err()))
                elif k == 1: d = bs(); res.append(('Data', len(d), d[:16].hex(), err()))
                elif k == 2: ty = n(); d = bs(); res.append(('Msg', ty, len(d), d[:16].hex(), err()))
                elif k == 3: res.append('unit')
                else: res.append('PANIC')
            h = []
            for _ in range(n()):
                k = n(); o = n()
                if k == 2: h.append(('close', o, n(), bs()))
                else: h.append((['ping','pong'][k], o, bs()))
            w = bs(); mr = n()
            if i[0] == len(t):
                print('extra', t[save:save+extra]); print('results', res); print('hlog', h); print('wraw', w.hex()); print('maxread', mr)
                return
        except Exception as e:
            pass
    print('could not parse observation')
main()
