(* C01 / C03, JSON: WriteJSON(v) puts on the wire one text message whose payload is the JSON
   encoding of v followed by a newline (encoding/json's Encoder), and ReadJSON on the peer decodes
   each message back into the same value.  JSON itself is encoding/json's (oracle: the harness
   hands over the canonical encodings); the judge checks framing and equality. *)
Require Import WS.Base.Bytes WS.Base.Tape WS.Spec.Frame.

Record jscase := { js_server : bool; js_want : list bytes; js_wire : bytes; js_got : list (bytes * N) }.
Definition p_jscase : P jscase :=
  sv <- pBool ;; w <- pList pBytes ;; wi <- pBytes ;; g <- pList (pPair pBytes pN) ;;
  ret {| js_server := sv; js_want := w; js_wire := wi; js_got := g |}.

Fixpoint msgs_are (evs:list (N * bool * bytes)) (want:list bytes) : bool :=
  match evs, want with
  | [], [] => true
  | (t, c, d) :: er, w :: wr => (t =? 1) && negb c && beq d (w ++ [10]) && msgs_are er wr
  | _, _ => false
  end.
Fixpoint got_are (got:list (bytes * N)) (want:list bytes) : bool :=
  match got, want with
  | [], [] => true
  | (g, e) :: gr, w :: wr => (e =? 0) && beq g w && got_are gr wr
  | _, _ => false
  end.

Definition judge (t:tape) : tape :=
  match p_jscase t with
  | None => v_badtape
  | Some (k, _) =>
      let '(fs, tl) := parse_frames (js_wire k) in
      match tl with
      | TEnd =>
          if negb (wf_wire (negb (js_server k)) false fs) then v_specfail 61 []
          else if negb (msgs_are (data_msgs (events_of (map fst fs))) (js_want k)) then v_specfail 190 []
          else if negb (got_are (js_got k) (js_want k)) then v_specfail 191 []
          else v_agree
      | _ => v_specfail 60 []
      end
  end.
