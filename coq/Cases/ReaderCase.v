(* Shared case format of the read-path properties (C03 C04 C05 C06 C08 C17 C07-i):
   decode the harness tape, run the model, encode its observation, and the Spec-level helpers
   (expected messages of a stream, walking the API results against them). *)
Require Import WS.Base.Bytes WS.Base.Tape WS.gen.Consts WS.Spec.Frame WS.Spec.Utf8 WS.Spec.Conformance.
Require Import WS.Model.Bufio WS.Model.Reader WS.Model.Server.

Record rcase := {
  k_cfg : rcfg;
  k_rbuf : nat;
  k_buffered : bytes;          (* bytes already inside the bufio.Reader the Conn was given *)
  k_script : script;
  k_ops : list rop;
  k_limit0 : N;
  k_cmp : bool;                (* compare the model's observation too (false: Spec only) *)
  k_drains : bool;             (* the op list ends with reads until an error *)
  k_sure : N                   (* stream bytes delivered by transport reads that reported no error *)
}.

(* newConn: a supplied bufio.Reader keeps its size (bufio's minimum is 16); otherwise
   ReadBufferSize 0 means the default and anything below a control payload is raised to it *)
Definition eff_size (rb_req brsize:N) : nat :=
  N.to_nat (if brsize =? 0
            then (if rb_req =? 0 then c_defaultReadBufferSize
                  else if rb_req <? c_maxControlFramePayloadSize then c_maxControlFramePayloadSize else rb_req)
            else N.max brsize 16).

Definition p_errk : P errk := x <- pN ;; ret (match x with 0 => EEOF | 1 => ETimeout | _ => EOther end).
Definition p_op : P rop :=
  t <- pN ;;
  match t with
  | 0 => ret ONext
  | 1 => m <- pNat ;; ret (ORead m)
  | 2 => m <- pNat ;; ret (OReadStale m)
  | 3 => ret OReadMessage
  | 4 => l <- pN ;; ret (OSetLimit l)
  | _ => pfail
  end.

Definition p_rcase : P rcase :=
  sv <- pBool ;; ng <- pBool ;; cu <- pBool ;; hf <- pList pNat ;; cp <- pList pN ;;
  rbq <- pN ;; brs <- pN ;; bf <- pBytes ;;
  ch <- pList pBytes ;; fl <- p_errk ;; gl <- pBool ;;
  ops <- pList p_op ;; cmp <- pBool ;; dr <- pBool ;; sure <- pN ;; via <- pBool ;;
  let sock := {| chunks := ch; fault := fl; glued := gl |} in
  (* via = the Conn was made by Upgrader.Upgrade from a hijacked bufio.Reader of size brs holding bf
     (Model/Server.v upgrade_reader); otherwise newConn's own rule (a supplied reader keeps its size) *)
  let b := if via then upgrade_reader rbq brs bf sock else mk_bufio (eff_size rbq brs) bf sock in
  ret {| k_cfg := {| server := sv; negotiated := ng; custom_handlers := cu; handler_fail := hf; caps := cp |};
         k_rbuf := bsize b;
         k_buffered := bbuf b;
         k_script := src b;
         k_ops := ops; k_limit0 := 0; k_cmp := cmp; k_drains := dr; k_sure := sure |}.

(* ---- observations ---- *)
Definition e_err (e:option rerr) : tape :=
  match e with
  | None => [0]
  | Some RIoEOF => [1]
  | Some (RClose c t) => 2 :: c :: eBytes t
  | Some RTimeout => [3]
  | Some ROther => [4]
  | Some RBufFull => [5]
  | Some RProto => [6]
  | Some RReadLimit => [7]
  | Some (RHandler i) => [8; i]
  | Some RInternal => [9]
  | Some RFlate => [10]
  end.
Definition p_err : P (option rerr) :=
  t <- pN ;;
  match t with
  | 0 => ret None
  | 1 => ret (Some RIoEOF)
  | 2 => c <- pN ;; x <- pBytes ;; ret (Some (RClose c x))
  | 3 => ret (Some RTimeout)
  | 4 => ret (Some ROther)
  | 5 => ret (Some RBufFull)
  | 6 => ret (Some RProto)
  | 7 => ret (Some RReadLimit)
  | 8 => i <- pN ;; ret (Some (RHandler i))
  | 9 => ret (Some RInternal)
  | 10 => ret (Some RFlate)
  | _ => ret (Some RInternal)
  end.

Definition e_rout (r:rout) : tape :=
  match r with
  | RNext ty e => 0 :: (match e with None => ty | _ => 0 end) :: e_err e
  | RData d e => 1 :: eBytes d ++ e_err e
  | RMsg ty d e => 2 :: (match e with None => ty | _ => 0 end) :: eBytes d ++ e_err e
  | RUnit => [3]
  | RPanic => [4]
  end.
Definition p_rout : P rout :=
  t <- pN ;;
  match t with
  | 0 => ty <- pN ;; e <- p_err ;; ret (RNext ty e)
  | 1 => d <- pBytes ;; e <- p_err ;; ret (RData d e)
  | 2 => ty <- pN ;; d <- pBytes ;; e <- p_err ;; ret (RMsg ty d e)
  | 3 => ret RUnit
  | _ => ret RPanic
  end.

Definition e_hev (h:hev) : tape :=
  match h with
  | HPing o p => 0 :: N.of_nat o :: eBytes p
  | HPong o p => 1 :: N.of_nat o :: eBytes p
  | HClose o c t => 2 :: N.of_nat o :: c :: eBytes t
  end.
Definition p_hev : P hev :=
  t <- pN ;; o <- pNat ;;
  match t with
  | 0 => p <- pBytes ;; ret (HPing o p)
  | 1 => p <- pBytes ;; ret (HPong o p)
  | _ => c <- pN ;; x <- pBytes ;; ret (HClose o c x)
  end.

(* write-backs, normalised: (opcode, payload); a 1002 close keeps only its status code *)
Definition norm_wire (f:frame) : N * bytes :=
  if (opcode f =? 8) && beq (firstn 2 (payload f)) [3;234] then (8, [3;234]) else (opcode f, payload f).
Definition norm_wback (w:wback) : N * bytes :=
  match w with
  | WPong p => (10, p)
  | WCloseEcho b => if beq (firstn 2 b) [3;234] then (8, [3;234]) else (8, b)
  | WCloseProto => (8, [3;234])
  | WCloseTooBig => (8, [3;241])
  end.
Definition e_wb (x:N * bytes) : tape := fst x :: eBytes (snd x).

Record robs := { o_res : list rout; o_hlog : list hev; o_wraw : bytes; o_maxread : N }.
Definition p_robs : P robs :=
  rs <- pList p_rout ;; hs <- pList p_hev ;; w <- pBytes ;; mr <- pN ;;
  ret {| o_res := rs; o_hlog := hs; o_wraw := w; o_maxread := mr |}.

Definition obs_tape (rs:list rout) (hs:list hev) (wb:list (N*bytes)) : tape :=
  eList e_rout rs ++ eList e_hev hs ++ eList e_wb wb.

Section WithInflate.
Variable inflate : bytes -> option bytes.

Definition run_model (k:rcase) : list rout * rst :=
  let b := mk_bufio (k_rbuf k) (k_buffered k) (k_script k) in
  run_ops inflate (k_cfg k) (init_rst b) (k_ops k).

Definition model_tape (k:rcase) : tape * bool :=
  let '(rs, s) := run_model k in
  (obs_tape rs (hlog s) (map norm_wback (wlog s)), outoffuel s).

(* the implementation's write-backs decoded by the Spec decoder; None = not well-formed *)
Definition decode_wraw (k:rcase) (w:bytes) : option (list (N * bytes)) :=
  let '(fs, t) := parse_frames w in
  match t with
  | TEnd => if wf_wire (negb (server (k_cfg k))) false fs then Some (map (fun x => norm_wire (fst x)) fs) else None
  | _ => None
  end.

(* the whole byte stream the peer sent *)
Definition full_stream (k:rcase) : bytes := k_buffered k ++ stream_of (k_script k).

Definition inflate_msg (m:emsg) : option emsg :=
  if e_comp m then
    if e_complete m then
      match inflate (e_data m ++ ws_tail) with
      | Some d => Some {| e_ty := e_ty m; e_comp := true; e_data := d; e_complete := true; e_corrupt := false; e_end := e_end m |}
      | None => Some {| e_ty := e_ty m; e_comp := true; e_data := []; e_complete := true; e_corrupt := true; e_end := e_end m |}
      end
    else Some {| e_ty := e_ty m; e_comp := true; e_data := []; e_complete := false; e_corrupt := false; e_end := 0 |}
  else Some m.

(* ---- walking API results against the expected messages ----
   state: remaining expected messages, the message being read (its undelivered rest, whether
   it is complete, whether it is compressed), the sticky error of NextReader/ReadMessage.
   Returns the first violated clause:
     10 a NextReader/ReadMessage succeeded although no (further) message exists
     11 wrong message type          12 delivered bytes are not the message's bytes
     13 end of message signalled before the message's true end (or for a partial message)
     14 a complete message was expected but an error was returned while it was fully available
     15 after NextReader/ReadMessage failed, a later call returned something else
     16 ReadMessage reported a partial or wrong message as complete
     18 a compressed message that the Spec inflate rejects was delivered
     19 ReadMessage returned data although the stream holds no further message *)
Record wst := { w_todo : list emsg; w_cur : option (bytes * bool * bool * bool (* must *)); w_sticky : option (option rerr);
                w_done : N (* messages reported complete *); w_started : N;
                w_beyond : bool (* the last expected message was abandoned while in progress *) }.

Definition is_prefix (a b:bytes) : bool := beq a (firstn (length a) b).

(* [sure]: stream bytes delivered by transport reads that reported no error; a complete
   message ending within them must be delivered without error *)
Definition must (sure:N) (m:emsg) : bool := e_complete m && negb (e_corrupt m) && (e_end m <=? sure).

Definition walk_step (sure:N) (s:wst) (r:rout) : wst + N :=
  match w_sticky s with
  | Some e0 =>
      match r with
      | RNext _ e => if beq (e_err e) (e_err e0) then inl s else inr 15
      | RMsg _ d e => if beq (e_err e) (e_err e0) && beq d [] then inl s else inr 15
      | RData d e => match d, e with [], Some _ => inl s | _, _ => inr 15 end
      | _ => inl s
      end
  | None =>
      let s := match r, w_todo s, w_cur s with
               | (RNext _ _ | RMsg _ _ _), [], Some _ =>
                   {| w_todo := []; w_cur := w_cur s; w_sticky := None; w_done := w_done s; w_started := w_started s; w_beyond := true |}
               | _, _, _ => s
               end in
      match r with
      | RNext ty None =>
          match w_todo s with
          | [] => inr 10
          | m :: rest =>
              if negb (ty =? e_ty m) then inr 11
              else inl {| w_todo := rest; w_cur := Some (e_data m, e_complete m, e_comp m, must sure m); w_sticky := None;
                          w_done := w_done s; w_started := w_started s + 1; w_beyond := w_beyond s |}
          end
      | RNext _ (Some e) =>
          match w_todo s with
          | m :: _ => if must sure m then inr 14
                      else inl {| w_todo := w_todo s; w_cur := None; w_sticky := Some (Some e); w_done := w_done s; w_started := w_started s; w_beyond := w_beyond s |}
          | [] => inl {| w_todo := []; w_cur := None; w_sticky := Some (Some e); w_done := w_done s; w_started := w_started s; w_beyond := w_beyond s |}
          end
      | RData d e =>
          match w_cur s with
          | None => match d with [] => inl s | _ => inr 12 end
          | Some (rest, complete, comp, mst) =>
              if comp then
                (* raw Reads on a compressed message: the bytes are flate's business, but io.EOF must
                   not be reported for a message that was only partly received *)
                match e with
                | Some RIoEOF => if complete then inl s else inr 13
                | _ => inl s
                end
              else if negb (is_prefix d rest) then inr 12
              else
                let rest' := skipn (length d) rest in
                match e with
                | None => inl {| w_todo := w_todo s; w_cur := Some (rest', complete, comp, mst); w_sticky := None; w_done := w_done s; w_started := w_started s; w_beyond := w_beyond s |}
                | Some RIoEOF =>
                    match rest' with
                    | [] => if complete then inl {| w_todo := w_todo s; w_cur := None; w_sticky := None; w_done := w_done s + 1; w_started := w_started s; w_beyond := w_beyond s |}
                            else inr 13
                    | _ => inr 13
                    end
                | Some _ => if mst then inr 14
                            else inl {| w_todo := w_todo s; w_cur := None; w_sticky := None; w_done := w_done s; w_started := w_started s; w_beyond := w_beyond s |}
                end
          end
      | RMsg ty d None =>
          match w_todo s with
          | [] => inr 10
          | m :: rest =>
              if negb (ty =? e_ty m) then inr 11
              else if e_corrupt m then inr 18
              else if negb (e_complete m) then inr 16
              else if negb (beq d (e_data m)) then inr 16
              else inl {| w_todo := rest; w_cur := None; w_sticky := None; w_done := w_done s + 1; w_started := w_started s + 1; w_beyond := w_beyond s |}
          end
      | RMsg _ d (Some e) =>
          match w_todo s with
          | m :: rest =>
              if must sure m then inr 14
              else if match e with RFlate => true | _ => false end   (* decompressor error: not a connection error *)
              then inl {| w_todo := rest; w_cur := None; w_sticky := None; w_done := w_done s; w_started := w_started s + 1; w_beyond := w_beyond s |}
              else if negb (e_comp m) && negb (is_prefix d (e_data m)) then inr 12
              else inl {| w_todo := w_todo s; w_cur := None; w_sticky := Some (Some e); w_done := w_done s; w_started := w_started s; w_beyond := w_beyond s |}
          | [] => match d with
                  | [] => if match e with RFlate => true | _ => false end then inl s else
                          inl {| w_todo := []; w_cur := None; w_sticky := Some (Some e); w_done := w_done s; w_started := w_started s; w_beyond := w_beyond s |}
                  | _ => inr 19
                  end
          end
      | _ => inl s
      end
  end.

Fixpoint walk_ops (allow:N) (s:wst) (ors:list (rop * rout)) : wst + N :=
  match ors with
  | [] => inl s
  | (OReadStale _, _) :: rest => walk_ops allow s rest   (* a stale reader is outside every claim *)
  | (_, r) :: rest => match walk_step allow s r with inl s' => walk_ops allow s' rest | inr c => inr c end
  end.
Definition walk (allow:N) (s:wst) (ops:list rop) (rs:list rout) : wst + N :=
  walk_ops allow s (combine ops rs).

Definition walk0 (ms:list emsg) : wst :=
  {| w_todo := ms; w_cur := None; w_sticky := None; w_done := 0; w_started := 0; w_beyond := false |}.

Fixpoint all_some {A} (l:list (option A)) : option (list A) :=
  match l with
  | [] => Some []
  | Some x :: r => match all_some r with Some xs => Some (x :: xs) | None => None end
  | None :: _ => None
  end.

(* expected control events of the accepted prefix *)
Definition expected_ctl (good:list frame) : list (N * bytes) := ctl_events (events_of good).

Definition hev_norm (h:hev) : N * bytes :=
  match h with
  | HPing _ p => (9, p)
  | HPong _ p => (10, p)
  | HClose _ c t => (8, if c =? 1005 then [] else be_enc 2 c ++ t)
  end.
Definition ctl_norm (x:N * bytes) : N * bytes :=
  (* a 1-byte close body is reported to the handler as "no status" *)
  if (fst x =? 8) && (blen (snd x) <? 2) then (8, []) else x.

Definition pair_eqb (a b:N * bytes) : bool := (fst a =? fst b) && beq (snd a) (snd b).
Fixpoint list_eqb {A} (eq:A -> A -> bool) (a b:list A) : bool :=
  match a, b with
  | [], [] => true
  | x :: a', y :: b' => eq x y && list_eqb eq a' b'
  | _, _ => false
  end.
Fixpoint is_prefix_l {A} (eq:A -> A -> bool) (a b:list A) : bool :=
  match a, b with
  | [], _ => true
  | x :: a', y :: b' => eq x y && is_prefix_l eq a' b'
  | _, _ => false
  end.

(* generic judge skeleton: spec is given the decoded case and observation *)
Definition judge_reader (spec:rcase -> robs -> option (N * tape)) (t:tape) : tape :=
  match p_rcase t with
  | None => v_badtape
  | Some (k, t') =>
    match p_robs t' with
    | None => v_badtape
    | Some (o, _) =>
      match spec k o with
      | Some (cl, d) => v_specfail cl d
      | None =>
        if negb (k_cmp k) then v_agree else
        match decode_wraw k (o_wraw o) with
        | None => v_specfail 90 []     (* write-backs are not well-formed frames *)
        | Some wb =>
          let impl := obs_tape (o_res o) (o_hlog o) wb in
          let '(m, oof) := model_tape k in
          if oof then v_specfail 98 [] (* model ran out of fuel: model bug *)
          else if beq m impl then v_agree else v_mismatch m
        end
      end
    end
  end.
End WithInflate.
