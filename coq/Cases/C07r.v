(* C07 (i): arbitrary bytes as a frame stream.  Spec-on-impl: no panic other than the documented
   one after 1000 failed reads, requests to the transport bounded independently of declared
   lengths; whatever is delivered before the first bad frame is what the Spec decoder finds. *)
Require Import WS.Base.Bytes WS.Base.Tape WS.Spec.Frame WS.Spec.Conformance WS.Spec.Inflate.
Require Import WS.Model.Bufio WS.Model.Reader WS.Cases.ReaderCase.
Require WS.Cases.C06.

Fixpoint failed_nexts (rs:list rout) : nat :=
  match rs with
  | [] => 0
  | RNext _ (Some _) :: r | RMsg _ _ (Some _) :: r => S (failed_nexts r)
  | _ :: r => failed_nexts r
  end.

Definition spec (k:rcase) (o:robs) : option (N * tape) :=
  let bound := N.max (N.max (N.of_nat (k_rbuf k)) 8192) (N.max (C06.max_read_arg (k_ops k)) (2 * blen (full_stream k) + 512)) in
  if existsb (fun r => match r with RPanic => true | _ => false end) (o_res o) && Nat.ltb (failed_nexts (o_res o)) 999
  then Some (50, [])                                                     (* panic *)
  else if bound <? o_maxread o then Some (30, [o_maxread o])
  else
    let '(good, st) := scan_stream (server (k_cfg k)) (negotiated (k_cfg k)) (full_stream k) in
    match all_some (map (inflate_msg inflate) (expected_msgs good st)) with
    | None => None      (* corrupt deflate data: no claim on content *)
    | Some ms => match walk (k_sure k) (walk0 ms) (k_ops k) (o_res o) with
                 | inr c => Some (c, [])
                 | inl _ => None
                 end
    end.

Definition judge : tape -> tape := judge_reader inflate spec.
