Require Import WS.Base.Bytes WS.Base.Tape.
Require WS.Cases.C13.

Definition judge_any (kind:N) (t:tape) : tape :=
  match kind with
  | 13 => C13.judge t
  | _ => v_badtape
  end.
