Require Import WS.Base.Bytes WS.Base.Tape.
Require WS.Cases.C13 WS.Cases.C03 WS.Cases.C04 WS.Cases.C05 WS.Cases.C06 WS.Cases.C08 WS.Cases.C17 WS.Cases.C07r.
Require WS.Cases.C02 WS.Cases.C10 WS.Cases.C20 WS.Cases.C12 WS.Cases.C14 WS.Cases.C15 WS.Cases.C01 WS.Cases.C09 WS.Cases.C19 WS.Cases.C16 WS.Cases.C18 WS.Cases.C07x WS.Cases.C09w WS.Cases.C15r WS.Cases.C03j WS.Cases.C02m WS.Cases.C14k WS.Cases.C01j WS.Cases.C03k WS.Cases.C03e.

Definition judge_any (kind:N) (t:tape) : tape :=
  match kind with
  | 13 => C13.judge t
  | 1 => C01.judge t
  | 2 => C02.judge t
  | 3 => C03.judge t
  | 4 => C04.judge t
  | 5 => C05.judge t
  | 6 => C06.judge t
  | 7 => C07r.judge t
  | 8 => C08.judge t
  | 9 => C09.judge t
  | 11 => C09.judge t
  | 10 => C10.judge t
  | 12 => C12.judge t
  | 14 => C14.judge t
  | 15 => C15.judge t
  | 16 => C16.judge t
  | 17 => C17.judge t
  | 18 => C18.judge t
  | 19 => C19.judge t
  | 20 => C20.judge t
  | 70 => C07x.judge t
  | 21 => C09w.judge t
  | 22 => C15r.judge t
  | 24 => C03j.judge t
  | 25 => C02m.judge t
  | 26 => C14k.judge t
  | 27 => C01j.judge t
  | 28 => C03k.judge t
  | 29 => C03e.judge t
  | _ => v_badtape
  end.
