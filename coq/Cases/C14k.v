(* C14k: the challenge key of a request is 16 bytes of the entropy source, base64 encoded
   (RFC 6455 4.1: "a randomly selected 16-byte value"), however the source hands them out. *)
Require Import WS.Base.Bytes WS.Base.Tape WS.Spec.Base64.

Definition judge (t:tape) : tape :=
  match (s <- pBytes ;; k <- pBytes ;; ret (s, k)) t with
  | Some ((s, k), _) =>
      if (16 <=? blen s) && beq k (b64_encode (firstn 16 s)) then v_agree else v_specfail 129 []
  | None => v_badtape
  end.
