(* C15 Both endpoints agree on compression.  Input: the two EnableCompression settings and the
   Sec-WebSocket-Extensions lines as the server saw them (possibly rewritten on the way).
   Observation: which ends installed the (de)compressor, and whether messages flowed. *)
Require Import WS.Base.Bytes WS.Base.Tape WS.Spec.Handshake WS.Model.Util WS.Model.Server WS.Model.Client.

Record ncase := { n_dec : bool; n_uec : bool; n_offers : list bytes }.
Definition p_ncase : P ncase :=
  d <- pBool ;; u <- pBool ;; o <- pList pBytes ;; ret {| n_dec := d; n_uec := u; n_offers := o |}.

(* the Upgrader's decision and the extension line of its 101 response *)
Definition server_compress (k:ncase) : bool :=
  n_uec k && existsb (fun e => beq (ext_name e) permessage_deflate) (parse_extensions (n_offers k)).

Definition ext_value : bytes := permessage_deflate ++ [59;32] ++ server_nct ++ [59;32] ++ client_nct.
Definition reply_ext_lines (k:ncase) : list bytes := if server_compress k then [ext_value] else [].

(* the Dialer's decision on that reply *)
Definition client_result (k:ncase) : option bool :=
  match first_deflate (parse_extensions (reply_ext_lines k)) with
  | Some e => if ext_has server_nct e && ext_has client_nct e then Some true else None
  | None => Some false
  end.

(* observation: client_connected client_compress server_compress flow_ok rsv1_seen_without_negotiation *)
Definition model (k:ncase) : tape :=
  match client_result k with
  | Some c => [1; if c then 1 else 0; if server_compress k then 1 else 0; 1; 0]
  | None => [0; 0; if server_compress k then 1 else 0; 1; 0]
  end.

Definition spec (k:ncase) (obs:tape) : option (N * tape) :=
  match obs with
  | [conn; cc; sc; flow; rsv] =>
      if (conn =? 1) && negb (cc =? sc) then Some (130, [cc; sc])           (* one end compresses, the other does not *)
      else if (conn =? 1) && (flow =? 0) then Some (131, [])                (* messages did not flow intact *)
      else if (rsv =? 1) then Some (132, [])                                (* RSV1 on the wire without negotiation *)
      else None
  | _ => Some (199, [])
  end.

Definition judge : tape -> tape := judge_with p_ncase spec model.
