(* C02m: several connections run interleaved; every connection's case is judged on its own by the
   predicates of C10 (which include C02's wire predicate for fault-free runs), by those of C20 (the
   connections may share one BufferPool) and by the model. *)
Require Import WS.Base.Bytes WS.Base.Tape WS.Model.Writer WS.Cases.WriterCase.
Require WS.Cases.C10 WS.Cases.C20.

Fixpoint judge_all (n:nat) (t:tape) : tape :=
  match n with
  | O => v_agree
  | S n' =>
      match t with
      | len :: rest =>
          match take (N.to_nat len) rest with
          | Some (sub, rest') =>
              match C10.judge sub with
              | 0 :: _ => match C20.judge sub with
                          | 0 :: _ => judge_all n' rest'
                          | v => v
                          end
              | v => v
              end
          | None => v_badtape
          end
      | [] => v_badtape
      end
  end.

Definition judge (t:tape) : tape :=
  match t with
  | n :: rest => judge_all (N.to_nat n) rest
  | [] => v_badtape
  end.
