(* C03, JoinMessages call by call (kind 28): joinReader.Read with a list of buffer sizes over a
   scripted transport, judged against the model of join.go (Model/Join.v, theorems in
   Proofs/JoinP.v) and against the Spec clause of Cases/C03j.v.

   TAPE (decimal numbers; encodings of Base/Tape.v: Bool = one number, 0 = false, anything
   else = true; N / Nat = one number; Bytes b = len(b) then the bytes; List = number of items
   then the items).  Field order:
     -- the case: EXACTLY what [ReaderCase.p_rcase] parses --
      1 server            Bool       isServer of the reading Conn
      2 negotiated        Bool       must be 0 (1: verdict [3], outside the model's domain)
      3 custom_handlers   Bool       0
      4 handler_fail      List Nat   empty: 0
      5 caps              List N     empty: 0 (io.ReadAll schedule, not used)
      6 ReadBufferSize    N          as requested from newConn (0 = default 4096, < 125 raised to 125)
      7 bufio.Reader size N          size of a supplied bufio.Reader, 0 = none supplied
      8 buffered          Bytes      bytes already inside that bufio.Reader
      9 chunks            List Bytes the transport's successive Read results
     10 fault             N          0 io.EOF | 1 timeout | anything else: other error
     11 glued             Bool       the fault is delivered together with the last chunk
     12 ops               List op    leave empty: 0
     13 cmp               Bool       1
     14 drains            Bool       0 (not used)
     15 sure              N          0 (not used)
     16 via               Bool       1 = Conn made by Upgrader.Upgrade from a hijacked reader
     -- the join part --
     17 term              Bytes
     18 sizes             List Nat   len(p) of the successive joinReader.Read calls (0 allowed)
     -- the observation --
     19 calls             List of (Bytes, error): one entry per Read call made, in order: the n
                          bytes returned, then the error as [ReaderCase.e_err]:
                            0 nil | 1 io.EOF | 2 code len text.. *CloseError (unexpected EOF =
                            2 1006 14 117 110 101 120 112 101 99 116 101 100 32 69 79 70) |
                            3 timeout | 4 other transport error | 5 bufio.ErrBufferFull |
                            6 protocol error | 7 ErrReadLimit | 8 i handler error | 9 internal | 10 flate
                          a call that panics ("repeated read on failed websocket connection") has
                          no entry and ends the list; the model's run stops there too
   VERDICT
     [3]                      bad tape (also: negotiated = 1 or a compressed message met: outside
                              the model's domain)
     1 :: i :: model          the i-th call (from 0; = the shorter length when one list is a strict
                              prefix of the other) differs from the model; model = the model's whole
                              observation in the encoding of field 19
     2 :: 98 :: []            the model ran out of fuel (model bug)
     2 :: 181 :: [|d|; |want|] the stream (buffered ++ chunks) is complete and conformant, but the
                              bytes returned (d) are not the messages of the stream each followed by
                              term (want): d = want required once a call has returned an error, d a
                              prefix of want while none has
     2 :: 96/97 :: []         as in C03j (Spec inflate rejects / generator error)
     [0]                      agree
   The Spec clause is evaluated first, then the model is compared.  Worked example at the end of the file. *)
Require Import WS.Base.Bytes WS.Base.Tape WS.Spec.Frame WS.Spec.Conformance WS.Spec.Inflate.
Require Import WS.Model.Bufio WS.Model.Reader WS.Model.Join WS.Cases.ReaderCase.

Record kcase := { q_case : rcase; q_term : bytes; q_sizes : list nat }.
Definition p_kcase : P kcase :=
  k <- p_rcase ;; tm <- pBytes ;; sz <- pList pNat ;;
  ret {| q_case := k; q_term := tm; q_sizes := sz |}.

Definition p_jout : P jout := d <- pBytes ;; e <- p_err ;; ret (d, e).
Definition e_jout (o:jout) : tape := eBytes (fst o) ++ e_err (snd o).
Definition p_jobs : P (list jout) := pList p_jout.
Definition e_jobs (os:list jout) : tape := eList e_jout os.

(* the model's observation and its final state *)
Definition model (q:kcase) : list jout * jstate :=
  let k := q_case q in
  let b := mk_bufio (k_rbuf k) (k_buffered k) (k_script k) in
  join_steps inflate (k_cfg k) (init_jstate (init_rst b) (q_term q)) (q_sizes q).

(* index of the first call on which the two observations differ *)
Fixpoint first_diff (i:N) (a b:list jout) : option N :=
  match a, b with
  | [], [] => None
  | x :: a', y :: b' => if beq (e_jout x) (e_jout y) then first_diff (i + 1) a' b' else Some i
  | _, _ => Some i
  end.

Definition has_error (os:list jout) : bool :=
  existsb (fun o : jout => match snd o with Some _ => true | None => false end) os.

(* the Spec clause of C03j on the concatenation of the bytes returned *)
Definition spec (q:kcase) (obs:list jout) : option (N * tape) :=
  let k := q_case q in
  let srv := server (k_cfg k) in
  let ng := negotiated (k_cfg k) in
  let '(good, st) := scan_stream srv ng (full_stream k) in
  match st with
  | SEnd =>
      if negb (conformant srv ng (full_stream k)) then None   (* outside the clause *)
      else
      match all_some (map (inflate_msg inflate) (expected_msgs good st)) with
      | None => Some (96, [])
      | Some ms =>
          if existsb (fun m => negb (e_complete m) || e_corrupt m) ms then Some (97, [])
          else
            let want := flat_map (fun m => e_data m ++ q_term q) ms in
            let d := flat_map fst obs in
            (* everything must have arrived once an error was returned when the transport ends with
               EOF; a timeout or other failure delivered together with the last bytes of a message
               legitimately ends the joined stream before that message's terminator *)
            if (if has_error obs && errk_eqb (fault (k_script k)) EEOF then beq d want else is_prefix d want) then None
            else Some (181, [blen d; blen want])
      end
  | _ => None                                               (* incomplete stream: outside the clause *)
  end.

Definition judge (t:tape) : tape :=
  match p_kcase t with
  | None => v_badtape
  | Some (q, t') =>
    match p_jobs t' with
    | None => v_badtape
    | Some (obs, _) =>
      if negotiated (k_cfg (q_case q)) then v_badtape else
      let '(mo, st) := model q in
      if outoffuel (jconn st) then v_specfail 98 []
      else if jood st then v_badtape
      else match spec q obs with
           | Some (cl, d) => v_specfail cl d
           | None => match first_diff 0 obs mo with
                     | Some i => v_mismatch (i :: e_jobs mo)
                     | None => v_agree
                     end
           end
    end
  end.

(* ---- worked example (documented in REPORT.md) ----
   server side; stream = text "Hi" (masked, key 1 2 3 4) then a ping "p" (key 5 6 7 8), i.e. the bytes
   129 130 1 2 3 4 73 107 | 137 129 5 6 7 8 117, delivered in two chunks of 5 and 10 bytes, then
   EOF (not glued); ReadBufferSize 125; term = "\r\n"; read sizes 1 10 10 10 10. *)
Definition ex_case : tape :=
  [1; 0; 0;  0;  0;  125; 0;  0;  2; 5; 129;130;1;2;3; 10; 4;73;107;137;129;5;6;7;8;117;  0; 0;  0;  1; 0; 0; 0;
   2; 13;10;  5; 1;10;10;10;10].
Definition ex_obs : tape :=
  [5;  1;72; 0;  1;105; 0;  2;13;10; 0;  0; 0;  0; 2;1006;14;117;110;101;120;112;101;99;116;101;100;32;69;79;70].

Example ex_agree : judge (ex_case ++ ex_obs) = [0].
Proof. vm_compute. reflexivity. Qed.

(* the implementation splits "\r\n" and returns no error on the fifth call: the third call differs *)
Example ex_mismatch :
  judge (ex_case ++ [5;  1;72; 0;  1;105; 0;  1;13; 0;  1;10; 0;  0; 0]) = 1 :: 2 :: ex_obs.
Proof. vm_compute. reflexivity. Qed.

(* the Spec clause alone: "H", "i\r", io.EOF is not "Hi\r\n" *)
Example ex_spec_clause :
  match p_kcase ex_case with
  | Some (q, _) => spec q [([72], None); ([105;13], None); ([], Some RIoEOF)]
  | None => None
  end = Some (181, [3; 4]).
Proof. vm_compute. reflexivity. Qed.
