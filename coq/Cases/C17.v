(* C17 No bytes lost or reordered at the handshake boundary: the frames follow the handshake in
   the same byte stream (part already in the hijacked bufio.Reader, rest in the socket); the
   messages delivered must be those of the stream, as in C03. *)
Require Import WS.Base.Bytes WS.Base.Tape WS.Cases.ReaderCase WS.Spec.Inflate.
Require WS.Cases.C03.
Definition judge : tape -> tape := judge_reader inflate C03.spec.
