(* C07 (ii)(iii): arbitrary bytes as a server's handshake reply / a proxy's CONNECT reply.
   Observation: did the call panic, hang, or allocate out of proportion to the bytes received.
   (The parsed-reply logic itself is judged against the model by C14 / C18.) *)
Require Import WS.Base.Bytes WS.Base.Tape.

Definition judge (t:tape) : tape :=
  match t with
  | [panicked; hung; alloc; input] =>
      if negb (panicked =? 0) then v_specfail 50 []
      else if negb (hung =? 0) then v_specfail 51 []
      else if (64 * input + 4194304) <? alloc then v_specfail 52 [alloc; input]
      else v_agree
  | _ => v_badtape
  end.
