(* C15, client half: a Dialer against scripted 101 replies whose Sec-WebSocket-Extensions lines
   announce permessage-deflate with both, one or none of the no-context-takeover parameters,
   other extensions first, several lines, upper case, parameters with values.  Same case format
   and model as C14; the Spec clause is the property's: the client compresses only when the 101
   announced permessage-deflate with both parameters, and never ends up connected and disagreeing
   with a server that announced it.  (Spec parsing: plain splitting at ',' and ';' -- the
   generated lines contain no quoted strings; names are compared exactly, as registered.) *)
Require Import WS.Base.Bytes WS.Base.Tape WS.Spec.Handshake WS.Model.Util WS.Model.Server WS.Model.Client.
Require WS.Cases.C14.

Definition s_pmd : bytes := [112;101;114;109;101;115;115;97;103;101;45;100;101;102;108;97;116;101].
Definition s_snct : bytes := [115;101;114;118;101;114;95;110;111;95;99;111;110;116;101;120;116;95;116;97;107;101;111;118;101;114].
Definition s_cnct : bytes := [99;108;105;101;110;116;95;110;111;95;99;111;110;116;101;120;116;95;116;97;107;101;111;118;101;114].

(* an extension element "name; p1; p2=v; ..." -> (name, parameter names) *)
Definition param_name (p:bytes) : bytes := trim_ows (match split_on 61 [] p with n :: _ => n | [] => [] end).
Definition ext_of (el:bytes) : bytes * list bytes :=
  match map trim_ows (split_on 59 [] el) with
  | n :: ps => (n, map param_name ps)
  | [] => ([], [])
  end.
Definition all_exts (lines:list bytes) : list (bytes * list bytes) := map ext_of (flat_map elements lines).
Definition first_pmd (lines:list bytes) : option (list bytes) :=
  match filter (fun e => beq (fst e) s_pmd) (all_exts lines) with e :: _ => Some (snd e) | [] => None end.
Definition has (x:bytes) (l:list bytes) : bool := existsb (beq x) l.

Definition spec (k:C14.dcase) (obs:tape) : option (N * tape) :=
  match obs with
  | 4 :: cc :: _ =>
      match first_pmd (p_extensions (C14.c_reply k)) with
      | Some ps =>
          if negb (has s_snct ps && has s_cnct ps) then Some (133, [cc])   (* connected although a parameter is missing *)
          else if cc =? 0 then Some (134, [])                               (* the server announced compression, the client does not use it *)
          else None
      | None => if cc =? 0 then None else Some (135, [])                    (* compression without any announcement *)
      end
  | _ => None
  end.

Definition judge : tape -> tape := judge_with C14.p_dcase spec C14.model.
