(* Shared case format of the write-path properties (C02 C10 C20 C19, writer half of C01). *)
Require Import WS.Base.Bytes WS.Base.Tape WS.gen.Consts WS.Spec.Frame WS.Spec.WriterSpec WS.Spec.Inflate.
Require Import WS.Model.Writer WS.Model.Prepared.
From RecordUpdate Require Import RecordSet.
Import RecordSetNotations.

(* a prepared message as the harness knows it: type, payload as given at creation, and the
   oracles (mask keys, flate chunks) needed to render it for the key of this send *)
Record psend := { ps_id : nat; ps_ty : N; ps_data : bytes; ps_ic : list bytes; ps_keys : list bytes; ps_wc : list bytes; ps_cc : list bytes }.

Inductive cop :=
| COp (o:wop)
| CPrepared (p:psend).

Record wcase := {
  wk_cfg : wcfg; wk_keys : list bytes; wk_fail : option (nat * fkind); wk_ops : list cop
}.

Definition p_chunks : P (list bytes) := pList pBytes.

Definition p_cop : P cop :=
  t <- pN ;;
  match t with
  | 0 => ty <- pN ;; d <- pBytes ;; ic <- p_chunks ;; wc <- p_chunks ;; cc <- p_chunks ;; ret (COp (WMessage ty d ic wc cc))
  | 1 => ty <- pN ;; ic <- p_chunks ;; ret (COp (WNext ty ic))
  | 2 => d <- pBytes ;; wc <- p_chunks ;; ret (COp (WWrite d wc))
  | 3 => d <- pBytes ;; wc <- p_chunks ;; ret (COp (WWriteString d wc))
  | 4 => ch <- p_chunks ;; ret (COp (WReadFrom ch))
  | 5 => cc <- p_chunks ;; ret (COp (WClose cc))
  | 6 => ty <- pN ;; d <- pBytes ;; dl <- pN ;; ret (COp (WControl ty d dl))
  | 7 => d <- pN ;; ret (COp (WSetDeadline d))
  | 8 => b <- pBool ;; ret (COp (WEnableCompression b))
  | 9 => l <- pZ ;; ret (COp (WSetLevel l))
  | 10 => id <- pNat ;; ty <- pN ;; d <- pBytes ;; ic <- p_chunks ;; ks <- pList pBytes ;; wc <- p_chunks ;; cc <- p_chunks ;;
          ret (CPrepared {| ps_id := id; ps_ty := ty; ps_data := d; ps_ic := ic; ps_keys := ks; ps_wc := wc; ps_cc := cc |})
  | _ => pfail
  end.

Definition p_fail : P (option (nat * fkind)) :=
  b <- pBool ;;
  if b then (k <- pNat ;; f <- pN ;; n <- pN ;;
             ret (Some (k, match f with 0 => FError | 1 => FTimeout | _ => FShort n end)))
  else ret None.

Definition p_wcase : P wcase :=
  sv <- pBool ;; ub <- pN ;; po <- pBool ;; ng <- pBool ;;
  ks <- pList pBytes ;; fa <- p_fail ;; ops <- pList p_cop ;;
  ret {| wk_cfg := {| w_server := sv; w_bufsize := eff_wbuf ub; w_pooled := po; w_negotiated := ng |};
         wk_keys := ks; wk_fail := fa; wk_ops := ops |}.

Definition e_werr (e:option werror) : N :=
  match e with
  | None => 0
  | Some WCloseSent => 1 | Some WWriteClosed => 2 | Some WBadOpCode => 3 | Some WInvalidControl => 4
  | Some WWriteTimeout => 5 | Some (WTransport false) => 6 | Some (WTransport true) => 7
  | Some WInternal => 8 | Some WBadLevel => 9 | Some WFlateTail => 10
  end.

Definition e_tev (e:tev) : tape :=
  match e with
  | TSetDL d => [0; d] | TSetDLFail d => [1; d]
  | TWrite b => 2 :: eBytes b | TWriteFail b => 3 :: eBytes b
  | TGet => [4] | TPut => [5]
  end.
Definition p_tev : P tev :=
  t <- pN ;;
  match t with
  | 0 => d <- pN ;; ret (TSetDL d)
  | 1 => d <- pN ;; ret (TSetDLFail d)
  | 2 => b <- pBytes ;; ret (TWrite b)
  | 3 => b <- pBytes ;; ret (TWriteFail b)
  | 4 => ret TGet
  | _ => ret TPut
  end.

(* wo_cnt: number of events logged when each op returned; wo_pool: 0 = the instrumented pool
   saw nothing wrong, 1 = a released buffer was touched, 2 = a different buffer was returned *)
Record wobs := { wo_res : list N; wo_cnt : list N; wo_evs : list tev; wo_held : bool; wo_pool : N }.
Definition p_wobs : P wobs :=
  rs <- pList pN ;; cs <- pList pN ;; es <- pList p_tev ;; h <- pBool ;; po <- pN ;;
  ret {| wo_res := rs; wo_cnt := cs; wo_evs := es; wo_held := h; wo_pool := po |}.

(* ---- model run (prepared messages keep a cache per prepared-message id) ---- *)
Definition cache := list (nat * prepared).
Definition cache_get (id:nat) (c:cache) : option prepared :=
  match find (fun x => Nat.eqb (fst x) id) c with Some (_, p) => Some p | None => None end.
Definition cache_put (id:nat) (p:prepared) (c:cache) : cache :=
  (id, p) :: filter (fun x => negb (Nat.eqb (fst x) id)) c.

Definition cstep (c:wcfg) (st:wst * cache) (o:cop) : option werror * (wst * cache) :=
  let '(s, ca) := st in
  match o with
  | COp w => let '(e, s) := wstep c s w in (e, (s, ca))
  | CPrepared p =>
      (* WritePreparedMessage first closes a writer the application left open *)
      let s := close_current c (ps_ic p) s in
      let pm := match cache_get (ps_id p) ca with
                | Some pm => pm
                | None => snd (new_prepared (ps_ty p) (ps_data p))
                end in
      let k := key_for c s (ps_ty p) in
      let '(fr, pm) := frame_for k pm (ps_keys p) (ps_wc p) (ps_cc p) in
      let '(e, s) := wstep c s (WPreparedFrame (ps_ty p) fr) in
      (e, (s, cache_put (ps_id p) pm ca))
  end.

Fixpoint crun (c:wcfg) (st:wst * cache) (ops:list cop) : list (option werror * N) * (wst * cache) :=
  match ops with
  | [] => ([], st)
  | o :: r => let '(e, st) := cstep c st o in
              let n := N.of_nat (length (evs (fst st))) in
              let '(es, st) := crun c st r in ((e, n) :: es, st)
  end.

Definition run_wmodel (k:wcase) : list (option werror * N) * wst :=
  let '(es, (s, _)) := crun (wk_cfg k) (init_wst (wk_cfg k) (wk_keys k) (wk_fail k), []) (wk_ops k) in (es, s).

Definition wmodel_tape (k:wcase) : tape * bool :=
  let '(es, s) := run_wmodel k in
  (eList (fun e => [e_werr (fst e)]) es ++ eList (fun e => [snd e]) es ++ eList e_tev (evs s) ++ eBool (held s) ++ [0],
   oracle_short s).

Definition wimpl_tape (o:wobs) : tape :=
  eList (fun e => [e]) (wo_res o) ++ eList (fun e => [e]) (wo_cnt o) ++ eList e_tev (wo_evs o) ++ eBool (wo_held o) ++ [wo_pool o].

(* ---- Spec side ---- *)
Definition aop_of (o:cop) : aop :=
  match o with
  | COp (WMessage ty d _ _ _) => AMessage ty d
  | COp (WNext ty _) => ANext ty
  | COp (WWrite d _) | COp (WWriteString d _) => AWrite d
  | COp (WReadFrom ch) => AWrite (concat ch)
  | COp (WClose _) => AClose
  | COp (WControl ty d _) => AControl ty d
  | COp (WEnableCompression b) => ASetComp b
  | COp (WPreparedFrame ty _) => AOther
  | COp _ => AOther
  | CPrepared p => AMessage (ps_ty p) (ps_data p)
  end.

Definition expected_sent (k:wcase) (o:wobs) : ast :=
  arun (w_negotiated (wk_cfg k)) ast0 (combine (map aop_of (wk_ops k)) (wo_res o)).

(* what the wire carries according to the Spec decoder; compressed messages inflated *)
Definition wire_events (fs:list frame) : option (list sent) :=
  let evs := events_of fs in
  let conv (e:event) : option sent :=
    match e with
    | ECtl op d => Some {| s_ty := op; s_comp := false; s_data := d; s_complete := true |}
    | EMsg ty comp d =>
        if comp then match inflate (d ++ [0;0;255;255;1;0;0;255;255]) with
                     | Some x => Some {| s_ty := ty; s_comp := true; s_data := x; s_complete := true |}
                     | None => None
                     end
        else Some {| s_ty := ty; s_comp := false; s_data := d; s_complete := true |}
    end in
  (fix go (l:list event) : option (list sent) :=
     match l with
     | [] => Some []
     | e :: r => match conv e, go r with Some x, Some xs => Some (x :: xs) | _, _ => None end
     end) evs.

Definition sent_eqb (a b:sent) : bool :=
  (s_ty a =? s_ty b) && Bool.eqb (s_comp a) (s_comp b) && beq (s_data a) (s_data b).
Fixpoint sents_eqb (a b:list sent) : bool :=
  match a, b with
  | [], [] => true
  | x :: a', y :: b' => sent_eqb x y && sents_eqb a' b'
  | _, _ => false
  end.
Fixpoint sents_prefix (a b:list sent) : bool :=
  match a, b with
  | [], _ => true
  | x :: a', y :: b' => sent_eqb x y && sents_prefix a' b'
  | _, _ => false
  end.

Definition judge_writer (spec:wcase -> wobs -> option (N * tape)) (t:tape) : tape :=
  match p_wcase t with
  | None => v_badtape
  | Some (k, t') =>
    match p_wobs t' with
    | None => v_badtape
    | Some (o, _) =>
      match spec k o with
      | Some (cl, d) => v_specfail cl d
      | None =>
        let '(m, short) := wmodel_tape k in
        if short then v_specfail 98 []
        else if beq m (wimpl_tape o) then v_agree else v_mismatch m
      end
    end
  end.
