(* C08 Control frames.  Spec-on-impl: with recording handlers the handler log is the control
   frames of the accepted stream prefix, in wire order, exact payloads, once each (up to the
   first handler that returned an error); with default handlers the write-back is one pong per
   ping with the identical payload and one close echoing the received status code; after a
   close the read error is CloseError(code, reason) (1005 when there is no body); a handler's
   error is what the read returns, permanently. *)
Require Import WS.Base.Bytes WS.Base.Tape WS.Spec.Frame WS.Spec.Conformance WS.Spec.Inflate.
Require Import WS.Model.Bufio WS.Model.Reader WS.Cases.ReaderCase.

Definition want_wback (ctl:list (N * bytes)) : list (N * bytes) :=
  flat_map (fun x => if fst x =? 9 then [(10, snd x)]
                     else if fst x =? 8 then [(8, if blen (snd x) <? 2 then [] else firstn 2 (snd x))]
                     else []) ctl.

Definition close_error_of (f:frame) : rerr :=
  if blen (payload f) <? 2 then RClose 1005 [] else RClose (be_dec (firstn 2 (payload f))) (skipn 2 (payload f)).

Definition first_fail (k:rcase) : option nat :=
  match handler_fail (k_cfg k) with [] => None | x :: r => Some (fold_left Nat.min r x) end.

Definition spec (k:rcase) (o:robs) : option (N * tape) :=
  let '(good, st) := scan_stream (server (k_cfg k)) (negotiated (k_cfg k)) (full_stream k) in
  match st with
  | SViolation _ | SBadLen => Some (97, [])
  | _ =>
    let want := map ctl_norm (expected_ctl good) in
    let hl := map hev_norm (o_hlog o) in
    if custom_handlers (k_cfg k) then
      if negb (is_prefix_l pair_eqb hl want) then Some (40, [])            (* handler log is not the control frames in order *)
      else
        let reach := match first_fail k with
                     | Some i => if Nat.ltb i (length want) then firstn (S i) want else want
                     | None => want end in
        if k_drains k && negb (list_eqb pair_eqb hl reach) then Some (41, [N.of_nat (length hl); N.of_nat (length reach)])
        else
          (* the error of the failing handler is returned and permanent *)
          match first_fail k with
          | Some i =>
              if k_drains k && Nat.ltb i (length want) then
                match last (o_res o) RUnit with
                | RMsg _ _ (Some (RHandler j)) | RNext _ (Some (RHandler j)) => if j =? N.of_nat i then None else Some (42, [])
                | _ => Some (42, [])
                end
              else None
          | None => None
          end
    else
      match decode_wraw k (o_wraw o) with
      | None => Some (90, [])
      | Some wb =>
        let ww := want_wback (expected_ctl good) in
        if negb (is_prefix_l pair_eqb wb ww) then Some (43, [])              (* replies are not pong-per-ping / close echo *)
        else if k_drains k && negb (list_eqb pair_eqb wb ww) then Some (44, [])
        else match st with
             | SClosed f =>
                 if k_drains k then
                   match last (o_res o) RUnit with
                   | RMsg _ _ (Some e) | RNext _ (Some e) =>
                       if beq (e_err (Some e)) (e_err (Some (close_error_of f))) then None else Some (45, [])
                   | _ => Some (45, [])
                   end
                 else None
             | _ => None
             end
      end
  end.

Definition judge : tape -> tape := judge_reader inflate spec.
