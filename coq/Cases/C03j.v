(* C03, JoinMessages: io.ReadAll(JoinMessages(conn, term)) over a complete conformant stream that
   ends with the transport's EOF returns the payloads of all data messages, each followed by
   [term], in order, and then only the end-of-transport error.  Pure Spec-on-impl (JoinMessages is a thin wrapper over
   NextReader that the model does not describe). *)
Require Import WS.Base.Bytes WS.Base.Tape WS.Spec.Frame WS.Spec.Conformance WS.Spec.Inflate.
Require Import WS.Model.Reader WS.Cases.ReaderCase.

Record jcase := { j_server : bool; j_negotiated : bool; j_stream : bytes; j_term : bytes }.
Definition p_jcase : P jcase :=
  sv <- pBool ;; ng <- pBool ;; st <- pBytes ;; tm <- pBytes ;;
  ret {| j_server := sv; j_negotiated := ng; j_stream := st; j_term := tm |}.

Definition spec (k:jcase) (obs:tape) : option (N * tape) :=
  (* at the end of the stream NextReader reports the transport's EOF as close 1006 "unexpected EOF"
     (a frame header was expected); JoinMessages passes that on: the normal end of a joined stream *)
  match (d <- pBytes ;; e <- pN ;; c <- (if e =? 2 then pN else ret 0) ;; ret (d, if (e =? 2) && (c =? 1006) then 0 else e)) obs with
  | None => Some (199, [])
  | Some ((d, e), _) =>
      let '(good, st) := scan_stream (j_server k) (j_negotiated k) (j_stream k) in
      match st with
      | SEnd =>
          match all_some (map (inflate_msg inflate) (expected_msgs good st)) with
          | None => Some (96, [])
          | Some ms =>
              if existsb (fun m => negb (e_complete m) || e_corrupt m) ms then Some (97, [])   (* generator error *)
              else
                let want := flat_map (fun m => e_data m ++ j_term k) ms in
                if negb (e =? 0) then Some (180, [e])                           (* an error although the stream is complete *)
                else if negb (beq d want) then Some (181, [blen d; blen want])   (* not the concatenation of the messages *)
                else None
          end
      | _ => Some (97, [])
      end
  end.

(* no model for this wrapper: the judge is the Spec predicate alone *)
Definition judge (t:tape) : tape :=
  match p_jcase t with
  | None => v_badtape
  | Some (k, obs) => match spec k obs with Some (cl, d) => v_specfail cl d | None => v_agree end
  end.
