(* C04 Framing violations are rejected fail-stop.  Spec-on-impl, from the Spec's own scan of
   the stream: everything before the first violating frame is delivered intact; nothing of that
   frame or after it is delivered or reaches a handler; the error is permanent; a 1002 close is
   written (except for a length with the top bit set). *)
Require Import WS.Base.Bytes WS.Base.Tape WS.Spec.Frame WS.Spec.Conformance WS.Spec.Inflate.
Require Import WS.Model.Bufio WS.Model.Reader WS.Cases.ReaderCase.

Definition is_close_1002 (x:N * bytes) : bool := (fst x =? 8) && beq (firstn 2 (snd x)) [3;234].

Definition spec (k:rcase) (o:robs) : option (N * tape) :=
  let '(good, st) := scan_stream (server (k_cfg k)) (negotiated (k_cfg k)) (full_stream k) in
  match st with
  | SViolation _ | SBadLen =>
    match all_some (map (inflate_msg inflate) (expected_msgs good st)) with
    | None => Some (96, [])
    | Some ms =>
      match walk (blen (full_stream k)) (walk0 ms) (k_ops k) (o_res o) with
      | inr c => Some (c, [])
      | inl s =>
        let hl := map hev_norm (o_hlog o) in
        let want := map ctl_norm (expected_ctl good) in
        if negb (is_prefix_l pair_eqb hl want) then Some (20, [])             (* a handler saw something else *)
        else if k_drains k && match w_sticky s with None => true | Some _ => false end then Some (21, []) (* no error at the violation *)
        else if k_drains k && custom_handlers (k_cfg k) && negb (list_eqb pair_eqb hl want) then Some (22, [])
        else match decode_wraw k (o_wraw o) with
             | None => Some (90, [])
             | Some wb =>
               match st with
               | SViolation _ =>
                   if k_drains k && negb (existsb is_close_1002 wb) then Some (23, [])   (* no 1002 close written *)
                   else None
               | _ => None
               end
             end
      end
    end
  | _ =>
    (* the alphabet sweep also produces acceptable frames: then only the delivery rules apply *)
    match all_some (map (inflate_msg inflate) (expected_msgs good st)) with
    | None => Some (96, [])
    | Some ms => match walk (blen (full_stream k)) (walk0 ms) (k_ops k) (o_res o) with
                 | inr c => Some (c, [])
                 | inl _ => None
                 end
    end
  end.

Definition judge : tape -> tape := judge_reader inflate spec.
