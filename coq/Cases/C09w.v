(* C09, sequential half: write programs in which a close frame is sent at some step by any path
   (WriteControl, WriteMessage, NextWriter+Close, a prepared close), possibly while a message
   writer is open, followed by more calls of every kind.  Spec-on-impl: on the wire the first
   close frame is the last frame and nothing follows it; every later call that would write fails,
   with ErrCloseSent when the request is otherwise valid; the writer left open fails no later
   than its Close. *)
Require Import WS.Base.Bytes WS.Base.Tape WS.Spec.Frame WS.Spec.WriterSpec WS.Model.Writer WS.Cases.WriterCase.

Fixpoint close_is_last (fs:list (frame * bool)) : bool :=
  match fs with
  | [] => true
  | (f, _) :: r => if opcode f =? 8 then match r with [] => true | _ => false end else close_is_last r
  end.

Definition is_ctl_ty (t:N) : bool := (t =? 8) || (t =? 9) || (t =? 10).
Definition valid_msg (ty:N) (d:bytes) : bool := is_data ty || (is_ctl_ty ty && (blen d <=? 125)).

(* [dead]: a close frame went out (an op that sends a close message reported success).
   [open]: a message writer is open.  result codes: 0 nil, 1 ErrCloseSent *)
Fixpoint after_close_ok (dead:bool) (open:option N) (l:list (cop * N)) : option N :=
  match l with
  | [] => None
  | (o, r) :: rest =>
      let ok := r =? 0 in
      match o with
      | COp (WMessage ty d _ _ _) =>
          if dead && ok then Some 160                                   (* a message reported as sent after the close *)
          else if dead && valid_msg ty d && negb (r =? 1) then Some 161 (* valid request: ErrCloseSent expected *)
          else after_close_ok (dead || (ok && (ty =? 8))) None rest
      | CPrepared p =>
          if dead && ok then Some 160
          else if dead && negb (r =? 1) then Some 161
          else after_close_ok (dead || (ok && (ps_ty p =? 8))) None rest
      | COp (WControl ty d dl) =>
          if dead && ok then Some 160
          else if dead && is_ctl_ty ty && (blen d <=? 125) && negb (r =? 1) && negb (r =? 5) then Some 161
          else after_close_ok (dead || (ok && (ty =? 8))) open rest
      | COp (WNext ty _) =>
          if dead && ok then Some 162                                   (* NextWriter succeeded after the close *)
          else if dead && (is_data ty || is_ctl_ty ty) && negb (r =? 1) then Some 161
          else after_close_ok dead (if ok then Some ty else None) rest
      | COp (WClose _) =>
          match open with
          | Some ty =>
              if dead && ok then Some 163                               (* a writer opened before the close reported its message as sent *)
              else after_close_ok (dead || (ok && (ty =? 8))) None rest
          | None => after_close_ok dead None rest
          end
      | COp (WWrite _ _) | COp (WWriteString _ _) | COp (WReadFrom _) =>
          after_close_ok dead (if ok then open else None) rest
      | _ => after_close_ok dead open rest
      end
  end.

Definition spec (k:wcase) (o:wobs) : option (N * tape) :=
  let wire := wire_of (wo_evs o) in
  let '(fs, t) := parse_frames wire in
  (* a transport failure (fault plan) may leave one incomplete frame at the very end (C10) *)
  let tail_ok := match t, wk_fail k with TEnd, _ => true | TPartial _, Some _ => true | _, _ => false end in
  if negb tail_ok then Some (60, [])
  else if negb (wf_wire (negb (w_server (wk_cfg k))) (w_negotiated (wk_cfg k)) fs) then Some (61, [])
  else if negb (close_is_last fs) then Some (164, [])              (* bytes on the wire after a close frame *)
  else match after_close_ok false None (combine (wk_ops k) (wo_res o)) with
       | Some c => Some (c, [])
       | None =>
           match wire_events (map fst fs) with
           | None => Some (62, [])
           | Some evs =>
               match wk_fail k with
               | None => if sents_eqb evs (a_out (expected_sent k o)) then None else Some (63, [])
               | Some _ => None
               end
           end
       end.

Definition judge : tape -> tape := judge_writer spec.
