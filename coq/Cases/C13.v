(* C13 case judge: input = Host, Origin lines, url.Parse oracle answer; observation = what
   Upgrade did (1 = 101 upgraded, 0 = 403, 2 = anything else) and checkSameOrigin's value. *)
Require Import WS.Base.Bytes WS.Base.Tape WS.Model.Fold.

Record case := { host : bytes; origins : list bytes; url_host : option bytes }.

Definition p_case : P case :=
  h <- pBytes ;; os <- pList pBytes ;; uh <- pOpt pBytes ;;
  ret {| host := h; origins := os; url_host := uh |}.

Definition model (c:case) : tape :=
  let ok := check_same_origin (fun _ => url_host c) (origins c) (host c) in
  [if ok then 1 else 0; if ok then 1 else 0].

(* Spec, stated without the model: byte-wise comparison after ASCII lowering *)
Definition same_origin_spec (c:case) : bool :=
  match origins c with
  | [] => true
  | _ => match url_host c with None => false | Some h => beq (lower h) (lower (host c)) end
  end.

Definition spec (c:case) (obs:tape) : option (N * tape) :=
  match obs with
  | [up; direct] =>
      if (up =? 1) && negb (same_origin_spec c) then Some (1, obs)       (* upgraded a cross-origin request *)
      else if (direct =? 1) && negb (same_origin_spec c) then Some (2, obs)
      else None
  | _ => Some (99, obs)
  end.

Definition judge : tape -> tape := judge_with p_case spec model.
