(* C03, "end of message only at the true end", seen from the transport: a ReadMessage loop over a
   conformant stream that the transport hands over piece by piece; the harness records, for every
   message returned complete, how many bytes of the stream the transport had delivered by then.
   Spec-on-impl: the i-th message returned is the i-th message of the stream (type, bytes), and it is
   never reported complete before the transport has delivered the last byte of its final frame
   (the FIN frame must have been received to know that the message ended; for a compressed message
   whose deflate stream ends early with a BFINAL block the reader still has to reach the final frame). *)
Require Import WS.Base.Bytes WS.Base.Tape WS.Spec.Frame WS.Spec.Conformance WS.Spec.Inflate.
Require Import WS.Model.Reader WS.Cases.ReaderCase.

Record ecase := { x_server : bool; x_negotiated : bool; x_stream : bytes }.
Definition p_ecase : P ecase :=
  sv <- pBool ;; ng <- pBool ;; st <- pBytes ;;
  ret {| x_server := sv; x_negotiated := ng; x_stream := st |}.

(* one result: message type, payload, stream bytes delivered by the transport when the call returned *)
Definition p_eres : P (N * bytes * N) := ty <- pN ;; d <- pBytes ;; del <- pN ;; ret (ty, d, del).

Fixpoint ends_ok (ms:list emsg) (rs:list (N * bytes * N)) : option (N * tape) :=
  match rs with
  | [] => None
  | (ty, d, del) :: rs' =>
      match ms with
      | [] => Some (10, [])                                  (* a message although the stream holds no further one *)
      | m :: ms' =>
          if e_corrupt m then None                           (* undecodable compressed message: outside this clause *)
          else if negb (e_complete m) then Some (16, [])     (* a partial message reported complete *)
          else if negb (ty =? e_ty m) then Some (11, [])
          else if negb (beq d (e_data m)) then Some (16, [])
          else if del <? e_end m then Some (182, [del; e_end m])
          else ends_ok ms' rs'
      end
  end.

Definition spec (k:ecase) (obs:tape) : option (N * tape) :=
  match pList p_eres obs with
  | None => Some (199, [])
  | Some (rs, _) =>
      let '(good, st) := scan_stream (x_server k) (x_negotiated k) (x_stream k) in
      match all_some (map (inflate_msg inflate) (expected_msgs good st)) with
      | None => Some (96, [])
      | Some ms => ends_ok ms rs
      end
  end.

(* no model comparison here (the reader model is compared by C03): the judge is the Spec predicate *)
Definition judge (t:tape) : tape :=
  match p_ecase t with
  | None => v_badtape
  | Some (k, obs) => match spec k obs with Some (cl, d) => v_specfail cl d | None => v_agree end
  end.
