(* C18 Proxy tunnelling and TLS on every dial path: the plan computed by Model/Dial.v against
   what the in-memory proxies / backends of the harness saw. *)
Require Import WS.Base.Bytes WS.Base.Tape WS.Model.Util WS.Model.Dial.

Record tcase := {
  t_cfg : dcfg; t_wss : bool; t_host : bytes; t_proxy : option proxy;
  t_cert : N;          (* backend certificate: 0 valid for the host, 1 for another host, 2 untrusted *)
  t_reply_ok : bool    (* the proxy answers CONNECT with 200 *)
}.

Definition p_proxy : P proxy :=
  sc <- pN ;; ho <- pBytes ;; us <- pOpt pBytes ;; pw <- pOpt pBytes ;;
  ret {| px_scheme := match sc with 0 => PHttp | 1 => PHttps | 2 => PSocks5 | _ => POtherScheme end;
         px_host := ho; px_user := us; px_pass := pw |}.
Definition p_tcase : P tcase :=
  nd <- pBool ;; nc <- pBool ;; nt <- pBool ;; sn <- pBytes ;; wss <- pBool ;; ho <- pBytes ;;
  px <- pOpt p_proxy ;; ce <- pN ;; ro <- pBool ;;
  ret {| t_cfg := {| has_netdial := nd; has_netdialctx := nc; has_netdialtls := nt; server_name := sn |};
         t_wss := wss; t_host := ho; t_proxy := px; t_cert := ce; t_reply_ok := ro |}.

Definition e_fn (f:dialfn) : N := match f with FnTLSContext => 0 | FnContext => 1 | FnNetDial => 2 | FnDefault => 3 end.

(* does the library verify the backend's certificate on this plan? *)
Definition backend_verified (k:tcase) (pl:plan) : bool :=
  match t_proxy k with
  | None => match first_tls pl with Some _ => true | None => false end
  | Some _ => match tunnel_tls pl with Some _ => true | None => false end
  end.

(* observation: first-hop function, address, first hop saw TLS (+SNI), CONNECT targets, auth
   values, SOCKS targets, what the backend saw through the tunnel, Dial succeeded *)
Definition model (k:tcase) : tape :=
  let pl := dial_plan (t_cfg k) (t_wss k) (t_host k) (t_proxy k) in
  let http_proxy := match t_proxy k with Some p => match px_scheme p with PHttp | PHttps => true | _ => false end | None => false end in
  let proxied_ok := match t_proxy k with Some _ => t_reply_ok k | None => true end in
  let ok := proxied_ok && (negb (backend_verified k pl) || (t_cert k =? 0)) in
  [e_fn (first_fn pl)] ++ eBytes (first_addr pl)
  ++ eOpt eBytes (first_tls pl)
  ++ eList eBytes (match connect_target pl with Some t => [t] | None => [] end)
  ++ eList eBytes (match connect_target pl with Some _ => [match connect_auth pl with Some a => a | None => [] end] | None => [] end)
  ++ eList eBytes (if via_socks pl then [fst (host_port_no_port (t_host k) (t_wss k))] else [])
  ++ eList eBytes (if proxied_ok && match t_proxy k with Some _ => true | None => false end
                   then [match tunnel_tls pl with Some n => [116;108;115;58] ++ n | None => [45] end] else [])
  ++ [0]
  ++ eBool ok.

(* the observation, decoded *)
Record tobs := { o_fn : N; o_addr : bytes; o_first_tls : option bytes; o_connects : list bytes;
                 o_auths : list bytes; o_socks : list bytes; o_btls : list bytes;
                 o_after_refusal : N (* bytes the proxy still received after refusing the CONNECT *); o_ok : bool }.
Definition p_tobs : P tobs :=
  f <- pN ;; a <- pBytes ;; ft <- pOpt pBytes ;; cs <- pList pBytes ;; au <- pList pBytes ;;
  so <- pList pBytes ;; bt <- pList pBytes ;; ar <- pN ;; ok <- pBool ;;
  ret {| o_fn := f; o_addr := a; o_first_tls := ft; o_connects := cs; o_auths := au; o_socks := so; o_btls := bt;
         o_after_refusal := ar; o_ok := ok |}.

(* what the property says about credentials and names, stated directly *)
Definition want_auth (k:tcase) : option bytes :=
  match t_proxy k with
  | Some p => match px_scheme p, px_user p, px_pass p with
              | (PHttp | PHttps), Some u, Some pw => Some (basic_auth u pw)
              | _, _, _ => None
              end
  | None => None
  end.
Definition tls_name (k:tcase) : bytes :=
  match server_name (t_cfg k) with [] => snd (host_port_no_port (t_host k) (t_wss k)) | n => n end.
Definition tls_tag : bytes := [116;108;115;58].

Definition spec (k:tcase) (obs:tape) : option (N * tape) :=
  (* the last number of the observation is Dial's success flag *)
  let ok := match rev' obs with x :: _ => negb (x =? 0) | [] => false end in
  let pl := dial_plan (t_cfg k) (t_wss k) (t_host k) (t_proxy k) in
  if ok && backend_verified k pl && negb (t_cert k =? 0) then Some (160, [])       (* connected over TLS to a backend whose certificate is not valid for the host *)
  else if ok && match t_proxy k with Some _ => negb (t_reply_ok k) | None => false end then Some (161, [])  (* connected although the proxy refused *)
  else match p_tobs obs with
  | None => Some (199, [])
  | Some (o, _) =>
      (* the first hop goes through the caller's own dial function whenever one is configured
         (NetDialTLSContext for a TLS first hop, else NetDialContext, else NetDial) *)
      if negb (o_after_refusal o =? 0) then Some (166, [o_after_refusal o])    (* a non-200 reply aborts the dial: nothing more is sent *)
      else if negb (o_fn o =? e_fn (first_fn pl)) then Some (165, [o_fn o])
      else
      (* every CONNECT carried exactly the configured credentials (or none) *)
      if negb (forallb (fun a => match want_auth k with Some w => beq a w | None => beq a [] end) (o_auths o)) then Some (162, [])
      (* whatever TLS session reached the backend through a proxy was opened for the URL's host (or the configured ServerName) *)
      else if match t_proxy k with Some _ => true | None => false end && t_wss k
              && negb (forallb (fun x => beq x (tls_tag ++ tls_name k)) (o_btls o)) then Some (163, [])
      (* ws:// through a proxy is never wrapped in TLS towards the backend; wss:// always is *)
      else if match t_proxy k with Some _ => true | None => false end && negb (t_wss k)
              && negb (forallb (fun x => beq x [45]) (o_btls o)) then Some (164, [])
      else None
  end.

Definition judge : tape -> tape := judge_with p_tcase spec model.
