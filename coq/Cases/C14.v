(* C14 Client handshake.  Input: the parsed URL pieces (url.Parse oracle), Dialer settings, the
   caller's header map, the key found in the request that was sent, the reply as parsed by
   net/http (canonical names).  Observation: what Dial returned and the request it sent. *)
Require Import WS.Base.Bytes WS.Base.Tape WS.Spec.Handshake WS.Model.Util WS.Model.Server WS.Model.Client.

Record dcase := {
  c_scheme : scheme; c_user : bool; c_host : bytes; c_key : bytes;
  c_dialer : dialer; c_caller : list (bytes * list bytes);
  c_reply : reply; c_sent : bool;  (* a request reached the network *)
  c_target : bytes                 (* url.RequestURI(): path and query to request (oracle) *)
}.

Definition p_kvs : P (list (bytes * list bytes)) := pList (pPair pBytes (pList pBytes)).
Definition p_lines : P (list bytes) := pList pBytes.

Definition p_dcase : P dcase :=
  sc <- pN ;; us <- pBool ;; ho <- pBytes ;; ke <- pBytes ;;
  sp <- p_lines ;; cm <- pBool ;; ca <- p_kvs ;;
  st <- pN ;; up <- p_lines ;; co <- p_lines ;; ac <- p_lines ;; ex <- p_lines ;; pr <- p_lines ;; bl <- pN ;;
  sent <- pBool ;; tg <- pBytes ;;
  ret {| c_scheme := match sc with 0 => SWs | 1 => SWss | _ => SOther end; c_user := us; c_host := ho; c_key := ke;
         c_dialer := {| d_subprotocols := sp; d_compression := cm |}; c_caller := ca;
         c_reply := {| p_status := st; p_upgrade := up; p_connection := co; p_accept := ac; p_extensions := ex;
                       p_protocol := pr; p_body_len := bl |};
         c_sent := sent; c_target := tg |}.

(* observation:
   0                         errMalformedURL, nothing sent
   1 key                     "duplicate header not allowed", nothing sent
   2 body_kept               ErrBadHandshake with the response
   3                         errInvalidCompression
   4 compress subprotocol    connected
   then, when a request was sent: host, then the header entries sorted by canonical name *)
Fixpoint bytes_leb (a b:bytes) : bool :=
  match a, b with
  | [], _ => true
  | _ :: _, [] => false
  | x :: a', y :: b' => if x <? y then true else if y <? x then false else bytes_leb a' b'
  end.
Fixpoint insert_kv (x:bytes * list bytes) (l:list (bytes * list bytes)) : list (bytes * list bytes) :=
  match l with
  | [] => [x]
  | y :: r => if bytes_leb (fst x) (fst y) then x :: l else y :: insert_kv x r
  end.
Definition sort_kvs (l:list (bytes * list bytes)) : list (bytes * list bytes) := fold_right insert_kv [] l.

Definition e_kvs (l:list (bytes * list bytes)) : tape := eList (fun p => eBytes (fst p) ++ eList eBytes (snd p)) l.

Definition model (k:dcase) : tape :=
  match prepare (c_dialer k) (c_scheme k) (c_user k) (c_host k) (c_key k) (c_caller k) with
  | PMalformed => [0]
  | PDuplicate _ => [1]     (* which of several offending names is reported depends on map order *)
  | PRequest host hdr =>
      let req := eBytes (c_target k) ++ eBytes host ++ e_kvs (sort_kvs (map (fun p => (canonical_key (fst p), snd p)) hdr)) in
      match validate_reply (c_key k) (c_reply k) with
      | VBadHandshake n => 2 :: n :: req
      | VInvalidCompression => 3 :: req
      | VAccepted c sub => 4 :: (if c then 1 else 0) :: eBytes sub ++ req
      end
  end.

Definition s_upgrade := [117;112;103;114;97;100;101].
Definition s_websocket := [119;101;98;115;111;99;107;101;116].
Definition first (l:list bytes) : bytes := match l with x :: _ => x | [] => [] end.

Definition reply_proves_acceptance (k:dcase) : bool :=
  let p := c_reply k in
  (p_status p =? 101) && has_token (p_upgrade p) s_websocket && has_token (p_connection p) s_upgrade
  && beq (first (p_accept p)) (accept_digest (c_key k)).

Definition reply_wf (k:dcase) : bool :=
  forallb line_wf (p_upgrade (c_reply k)) && forallb line_wf (p_connection (c_reply k)).

(* the request as observed: target, Host, header entries *)
Definition p_req : P (bytes * bytes * list (bytes * list bytes)) :=
  tg <- pBytes ;; ho <- pBytes ;; kv <- p_kvs ;; ret (tg, ho, kv).

Definition kv_get (k:bytes) (kv:list (bytes * list bytes)) : list (list bytes) :=
  map snd (filter (fun p => beq (fst p) k) kv).
Definition once_with (k:bytes) (v:bytes) (kv:list (bytes * list bytes)) : bool :=
  match kv_get k kv with [[x]] => beq x v | _ => false end.

Definition request_ok (k:dcase) (r:bytes * bytes * list (bytes * list bytes)) : option N :=
  let '(tg, ho, kv) := r in
  if negb (beq tg (c_target k)) then Some 124                                   (* path / query not preserved *)
  else if negb (beq ho (c_host k)
                || existsb (fun p => beq (canonical_key (fst p)) [72;111;115;116] && beq (first (snd p)) ho) (c_caller k))
       then Some 117                                                             (* Host: the URL's host (brackets, port and all) or the caller's override *)
  else if negb (once_with k_upgrade s_websocket kv) then Some 125               (* Upgrade: websocket, once *)
  else if negb (once_with k_connection [85;112;103;114;97;100;101] kv) then Some 125
  else if negb (once_with k_version [49;51] kv) then Some 125
  else if negb (once_with k_key (c_key k) kv && valid_key (c_key k)) then Some 126   (* one fresh 16-byte key *)
  else if negb (match kv_get k_extensions kv with
                | [] => negb (d_compression (c_dialer k))
                | [[x]] => d_compression (c_dialer k) && beq x offer
                | _ => false end) then Some 127                                  (* offer iff enabled *)
  else if negb (match d_subprotocols (c_dialer k) with
                | [] => true
                | ps => once_with k_protocol (join_comma ps) kv end) then Some 128
  else None.

Definition spec (k:dcase) (obs:tape) : option (N * tape) :=
  let check_req (rest:tape) : option (N * tape) :=
    match p_req rest with
    | Some (r, _) => match request_ok k r with Some c => Some (c, []) | None => None end
    | None => Some (199, [])
    end in
  (* "URLs that are not ws/wss or that carry userinfo are refused before any network activity" *)
  let bad_url := c_user k || match c_scheme k with SOther => true | _ => false end in
  if bad_url && negb (match obs with 0 :: _ => true | _ => false end) then Some (119, []) else
  match obs with
  | 4 :: _ :: rest =>
      if negb (reply_proves_acceptance k) then Some (120, [])                      (* connected without proof *)
      else match pBytes rest with Some (_, r2) => check_req r2 | None => Some (199, []) end
  | 2 :: n :: rest =>
      if reply_proves_acceptance k && reply_wf k then Some (121, [])               (* a proving reply was refused *)
      else if 1024 <? n then Some (122, [n])
      else if n <? N.min 1024 (p_body_len (c_reply k)) then Some (118, [n; p_body_len (c_reply k)])   (* body not kept *)
      else check_req rest
  | 0 :: _ | 1 :: _ => if c_sent k then Some (123, []) else None                   (* refused, yet something was sent *)
  | 3 :: rest => check_req rest
  | _ => Some (199, [])
  end.

Definition judge : tape -> tape := judge_with p_dcase spec model.
