(* C03 The reader decodes any conformant peer stream.  Spec-on-impl: the k-th successful
   NextReader/ReadMessage yields the k-th message encoded by the stream (parsed by the Spec
   decoder, compressed messages inflated by the Spec inflate), bytes in order, end of message
   only at the true end, and no error before the stream is exhausted. *)
Require Import WS.Base.Bytes WS.Base.Tape WS.Spec.Frame WS.Spec.Conformance WS.Spec.Inflate.
Require Import WS.Model.Bufio WS.Model.Reader WS.Cases.ReaderCase.

Definition expected (k:rcase) : option (list emsg) :=
  let '(good, st) := scan_stream (server (k_cfg k)) (negotiated (k_cfg k)) (full_stream k) in
  all_some (map (inflate_msg inflate) (expected_msgs good st)).

Definition spec (k:rcase) (o:robs) : option (N * tape) :=
  if negb (conformant (server (k_cfg k)) (negotiated (k_cfg k)) (full_stream k)) then Some (97, [])  (* harness bug: stream not conformant *)
  else match expected k with
  | None => Some (96, [])                                   (* Spec inflate rejects a generated stream *)
  | Some ms =>
    match walk (blen (full_stream k)) (walk0 ms) (k_ops k) (o_res o) with
    | inr c => Some (c, [])
    | inl s =>
      if k_drains k && negb (match w_todo s with [] => true | _ => false end) then Some (17, [N.of_nat (length (w_todo s))])
      else None
    end
  end.

Definition judge : tape -> tape := judge_reader inflate spec.
