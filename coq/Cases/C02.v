(* C02 Wire well-formedness.  The judge is the Spec decoder (Spec/Frame.v, written from RFC 6455,
   and Spec/Inflate.v from RFC 1951) run on the bytes the real connection handed to its transport:
   whole frames only; masking per role; minimal lengths; RSV discipline; fragmentation discipline;
   control frames unfragmented and <= 125 bytes; and the decoded events are exactly the messages
   of the write calls that reported success, in call order, with RSV1 exactly on messages sent
   while compression was negotiated and enabled. *)
Require Import WS.Base.Bytes WS.Base.Tape WS.Spec.Frame WS.Spec.WriterSpec WS.Model.Writer WS.Cases.WriterCase.

(* mask keys drawn from a counter source (harness hook) must be strictly increasing *)
Fixpoint increasing (last:N) (ks:list bytes) : bool :=
  match ks with [] => true | k :: r => (last <? be_dec k + 1) && increasing (be_dec k + 1) r end.

Definition spec_wire (k:wcase) (o:wobs) (hooked:bool) : option (N * tape) :=
  let wire := wire_of (wo_evs o) in
  let '(fs, t) := parse_frames wire in
  match t with
  | TEnd =>
    if negb (wf_wire (negb (w_server (wk_cfg k))) (w_negotiated (wk_cfg k)) fs) then Some (61, [])
    else match wire_events (map fst fs) with
    | None => Some (62, [])
    | Some evs =>
      let want := a_out (expected_sent k o) in
      if negb (sents_eqb evs want) then Some (63, [N.of_nat (length evs); N.of_nat (length want)])
      else if hooked && negb (increasing 0 (wk_keys k)) then Some (64, [])
      else None
    end
  | _ => Some (60, [])
  end.

Definition judge (t:tape) : tape :=
  (* the first number says whether the mask source was the harness's counter *)
  match t with
  | h :: t' => judge_writer (fun k o => spec_wire k o (negb (h =? 0))) t'
  | [] => v_badtape
  end.
