(* C20 Pooled write buffers: Get when a message starts, Put of that same buffer when it ends
   (Close, implicit close, error); none held between messages; never touched after release. *)
Require Import WS.Base.Bytes WS.Base.Tape WS.Spec.Frame WS.Spec.WriterSpec WS.Model.Writer WS.Cases.WriterCase.
Require WS.Cases.C02.

(* Get and Put alternate, starting with Get *)
Fixpoint alternates (held:bool) (es:list tev) : bool * bool :=
  match es with
  | [] => (true, held)
  | TGet :: r => if held then (false, held) else alternates true r
  | TPut :: r => if held then alternates false r else (false, held)
  | _ :: r => alternates held r
  end.

(* WriteControl never touches the pool; WritePreparedMessage never takes a buffer *)
Fixpoint no_pool_in (prev:N) (l:list (cop * N)) (evs:list tev) : bool :=
  match l with
  | [] => true
  | (o, cnt) :: rest =>
      let mine := firstn (N.to_nat (cnt - prev)) (skipn (N.to_nat prev) evs) in
      (match o with
       | COp (WControl _ _ _) | COp (WSetDeadline _) | COp (WEnableCompression _) | COp (WSetLevel _) =>
           negb (existsb (fun e => match e with TGet | TPut => true | _ => false end) mine)
       | CPrepared _ =>   (* may release the buffer of a writer it closes implicitly; never takes one *)
           negb (existsb (fun e => match e with TGet => true | _ => false end) mine)
       | _ => true
       end) && no_pool_in cnt rest evs
  end.

(* a message writer hands bytes to the transport only while the connection holds the buffer they
   are in: no Write of a data-path operation after the Put (or before the Get) *)
Fixpoint writes_while_held (held:bool) (es:list tev) : bool * bool :=
  match es with
  | [] => (true, held)
  | TGet :: r => writes_while_held true r
  | TPut :: r => writes_while_held false r
  | (TWrite _ | TWriteFail _) :: r => if held then writes_while_held held r else (false, held)
  | _ :: r => writes_while_held held r
  end.
Fixpoint held_after (held:bool) (es:list tev) : bool :=
  match es with [] => held | TGet :: r => held_after true r | TPut :: r => held_after false r | _ :: r => held_after held r end.
Fixpoint data_writes_held (held:bool) (prev:N) (l:list (cop * N)) (evs:list tev) : bool :=
  match l with
  | [] => true
  | (o, cnt) :: rest =>
      let mine := firstn (N.to_nat (cnt - prev)) (skipn (N.to_nat prev) evs) in
      (match o with
       | COp (WControl _ _ _) | CPrepared _ => true
       | _ => fst (writes_while_held held mine)
       end) && data_writes_held (held_after held mine) cnt rest evs
  end.

Definition spec (k:wcase) (o:wobs) : option (N * tape) :=
  if negb (w_pooled (wk_cfg k)) then
    if existsb (fun e => match e with TGet | TPut => true | _ => false end) (wo_evs o) then Some (80, []) else None
  else
    let '(ok, held_end) := alternates false (wo_evs o) in
    if negb ok then Some (81, [])                                         (* Get/Put do not alternate *)
    else if negb (Bool.eqb held_end (wo_held o)) then Some (82, [])       (* buffer held without a Get, or released without a Put *)
    else if negb (wo_pool o =? 0) then Some (83, [wo_pool o])             (* released buffer touched / wrong buffer returned *)
    else if negb (no_pool_in 0 (combine (wk_ops k) (wo_cnt o)) (wo_evs o)) then Some (84, [])
    else if negb (data_writes_held false 0 (combine (wk_ops k) (wo_cnt o)) (wo_evs o)) then Some (86, [])
    else match (match wk_fail k with None => C02.spec_wire k o false | Some _ => None end) with
    | Some (c, d) => Some (c, d)      (* the frames themselves: a buffer reused too early shows up as a corrupt wire *)
    | None =>
      let a := expected_sent k o in
      let open_end := match a_open a with Some _ => true | None => false end in
      if held_end && negb open_end then Some (85, []) else None
    end.

Definition judge : tape -> tape := judge_writer spec.
