(* C05 No silent truncation.  The stream is a conformant stream cut at some offset, then a
   fault.  Spec-on-impl: messages reported complete are exactly (a prefix of) the messages that
   lie wholly inside the received bytes, byte-identical; every message wholly delivered by
   transport reads that reported no error is reported complete (when the program drains); a
   partially received message is never reported complete and its reader never returns io.EOF;
   errors from NextReader/ReadMessage are permanent. *)
Require Import WS.Base.Bytes WS.Base.Tape WS.Spec.Frame WS.Spec.Conformance WS.Spec.Inflate.
Require Import WS.Model.Bufio WS.Model.Reader WS.Cases.ReaderCase.

(* "NextReader returns the same error up to the documented 1000-call threshold": the 1000th failed
   call panics, so a panic preceded by fewer than 999 failed NextReader / ReadMessage results came too
   early (failed ReadMessage calls are all counted, although those that failed while reading the body
   do not count in the implementation: the clause errs on the quiet side) *)
Fixpoint early_panic (n:N) (rs:list rout) : bool :=
  match rs with
  | [] => false
  | RPanic :: _ => n <? 999
  | RNext _ (Some _) :: r => early_panic (n + 1) r
  | RMsg _ _ (Some _) :: r => early_panic (n + 1) r
  | _ :: r => early_panic n r
  end.

Definition spec (k:rcase) (o:robs) : option (N * tape) :=
  let '(good, st) := scan_stream (server (k_cfg k)) (negotiated (k_cfg k)) (full_stream k) in
  if early_panic 0 (o_res o) then Some (24, []) else
  match st with
  | SViolation _ | SBadLen => Some (97, [])
  | _ =>
    match all_some (map (inflate_msg inflate) (expected_msgs good st)) with
    | None => Some (96, [])
    | Some ms =>
      match walk (k_sure k) (walk0 ms) (k_ops k) (o_res o) with
      | inr c => Some (c, [])
      | inl s =>
        if k_drains k && existsb (must (k_sure k)) (w_todo s) then Some (17, [])
        else None
      end
    end
  end.

Definition judge : tape -> tape := judge_reader inflate spec.
