(* C05 No silent truncation.  The stream is a conformant stream cut at some offset, then a
   fault.  Spec-on-impl: messages reported complete are exactly (a prefix of) the messages that
   lie wholly inside the received bytes, byte-identical; every message wholly delivered by
   transport reads that reported no error is reported complete (when the program drains); a
   partially received message is never reported complete and its reader never returns io.EOF;
   errors from NextReader/ReadMessage are permanent. *)
Require Import WS.Base.Bytes WS.Base.Tape WS.Spec.Frame WS.Spec.Conformance WS.Spec.Inflate.
Require Import WS.Model.Bufio WS.Model.Reader WS.Cases.ReaderCase.

Definition spec (k:rcase) (o:robs) : option (N * tape) :=
  let '(good, st) := scan_stream (server (k_cfg k)) (negotiated (k_cfg k)) (full_stream k) in
  match st with
  | SViolation _ | SBadLen => Some (97, [])
  | _ =>
    match all_some (map (inflate_msg inflate) (expected_msgs good st)) with
    | None => Some (96, [])
    | Some ms =>
      match walk (k_sure k) (walk0 ms) (k_ops k) (o_res o) with
      | inr c => Some (c, [])
      | inl s =>
        if k_drains k && existsb (must (k_sure k)) (w_todo s) then Some (17, [])
        else None
      end
    end
  end.

Definition judge : tape -> tape := judge_reader inflate spec.
