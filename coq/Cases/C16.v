(* C16 Handshakes clean up on every failure path: the trace of operations on the network
   connection must be a word of the skeleton language of Model/Dial.v (model side) and satisfy
   the cleanup / deadline predicates (Spec side). *)
Require Import WS.Base.Bytes WS.Base.Tape WS.Model.Dial.

Record xcase := { x_server : bool; x_deadline : bool; x_early : bool;
                  x_ctxok : bool (* every dial function that takes a context got one carrying the deadline *) }.
Definition p_xcase : P xcase :=
  sv <- pBool ;; dl <- pBool ;; ea <- pBool ;; cx <- pBool ;;
  ret {| x_server := sv; x_deadline := dl; x_early := ea; x_ctxok := cx |}.

Definition hev_of (n:N) : hev :=
  match n with
  | 0 => HRead | 1 => HWrite | 2 => HSetDL false | 3 => HSetDL true | 4 => HSetWDL false | 5 => HSetWDL true
  | 6 => HSetRDL false | 7 => HSetRDL true | 8 => HClose | _ => HFail
  end.

(* observation: ok flag then the event codes *)
Definition accepted (k:xcase) (obs:tape) : bool :=
  match obs with
  | ok :: tr =>
      let tr := map hev_of tr in
      if x_server k then server_trace_accepted (x_deadline k) (negb (ok =? 0)) tr
      else client_trace_accepted (x_deadline k) (x_early k) (negb (ok =? 0)) tr
  | [] => false
  end.

(* which of the read / write deadlines are armed after a trace (both clear at the start) *)
Fixpoint armed_after (r w:bool) (tr:list hev) : bool * bool :=
  match tr with
  | [] => (r, w)
  | HSetDL z :: t => armed_after (negb z) (negb z) t
  | HSetWDL z :: t => armed_after r (negb z) t
  | HSetRDL z :: t => armed_after (negb z) w t
  | _ :: t => armed_after r w t
  end.
Definition deadlines_clear (tr:list hev) : bool := let '(r, w) := armed_after false false tr in negb r && negb w.

Definition spec (k:xcase) (obs:tape) : option (N * tape) :=
  match obs with
  | ok :: tr =>
      let okb := negb (ok =? 0) in
      let tr := map hev_of tr in
      if x_deadline k && negb (x_ctxok k) then Some (174, [])   (* the part of the handshake that only the context bounds is unbounded *)
      else if okb && negb (deadlines_clear tr) then Some (173, [])   (* the connection is handed over with a deadline still armed *)
      else if x_server k then
        if okb then (if has_close tr then Some (170, []) else None)
        else (if ends_with_close tr then None else Some (171, []))
      else
        if negb (client_cleanup_ok (x_deadline k) (x_early k) okb tr) then Some (if okb then 170 else 171, [])
        else if negb (client_deadline_ok (x_deadline k) (x_early k) tr) then Some (172, [])
        else None
  | [] => Some (199, [])
  end.

(* "model" = the trace is a word of the skeleton language: the judge reports a mismatch otherwise *)
Definition judge (t:tape) : tape :=
  match p_xcase t with
  | None => v_badtape
  | Some (k, obs) =>
      match spec k obs with
      | Some (cl, d) => v_specfail cl d
      | None => if accepted k obs then v_agree else v_mismatch [9]
      end
  end.
