(* C12 Server handshake.  Input: the request as net/http presents it, the Upgrader settings, the
   application's response header, oracles (url.Parse answer, hijack/write success).  Observation:
   what Upgrade did.  Spec-on-impl is written against Spec/Handshake.v. *)
Require Import WS.Base.Bytes WS.Base.Tape WS.Spec.Handshake WS.Model.Fold WS.Model.Util WS.Model.Server.

Record hcase := {
  h_req : request; h_urlhost : option bytes; h_up : upgrader; h_rh : option rheader;
  h_hijack_ok : bool; h_write_ok : bool
}.

Definition p_lines : P (list bytes) := pList pBytes.
Definition p_hcase : P hcase :=
  me <- pBytes ;; ho <- pBytes ;; co <- p_lines ;; up <- p_lines ;; ve <- p_lines ;; ke <- p_lines ;;
  pr <- p_lines ;; ex <- p_lines ;; ori <- p_lines ;; uh <- pOpt pBytes ;;
  sp <- pOpt p_lines ;; cm <- pBool ;; pol <- pN ;; tmo <- pBool ;;
  rh <- pOpt (pList (pPair pBytes p_lines)) ;; hj <- pBool ;; wr <- pBool ;;
  ret {| h_req := {| q_method := me; q_host := ho; q_connection := co; q_upgrade := up; q_version := ve; q_key := ke;
                     q_protocol := pr; q_extensions := ex; q_origin := ori |};
         h_urlhost := uh;
         h_up := {| u_subprotocols := sp; u_compression := cm;
                    u_origin := match pol with 0 => OriginDefault | 1 => OriginCustom true | _ => OriginCustom false end;
                    u_timeout := tmo |};
         h_rh := rh; h_hijack_ok := hj; h_write_ok := wr |}.

(* observation tape:
   0 status upgrade_hdr(0/1)                      rejected (no hijack)
   1 nlines line...  compress(0/1) subprotocol    upgraded; app header lines stably sorted by key
   2                                              hijack failed
   3                                              response write failed *)
Definition lines_of (resp:bytes) : list bytes :=
  (* the block ends with CRLF CRLF: drop the two empty strings the split leaves *)
  let l := split_crlf [] resp in
  rev' (skipn 2 (rev' l)).

Definition model (k:hcase) : tape :=
  match upgrade (fun _ => h_urlhost k) (h_up k) (h_req k) (h_rh k) (h_hijack_ok k) (h_write_ok k) with
  | Rejected st u => [0; st; if u then 1 else 0]
  | HijackFailed => [2]
  | Upgraded resp c sub => 1 :: eList eBytes (lines_of resp) ++ eBool c ++ eBytes sub
  | WriteFailed _ => [3]
  end.

(* ---- Spec ---- *)
Definition str (l:list N) : bytes := l.
Definition s_upgrade := str [117;112;103;114;97;100;101].
Definition s_websocket := str [119;101;98;115;111;99;107;101;116].
Definition s_13 := str [49;51].
Definition s_get := str [71;69;84].

Definition spec_origin_ok (k:hcase) : bool :=
  match u_origin (h_up k) with
  | OriginCustom b => b
  | OriginDefault =>
      match q_origin (h_req k) with
      | [] => true
      | _ => match h_urlhost k with Some h => beq (lower h) (lower (q_host (h_req k))) | None => false end
      end
  end.

Definition spec_valid (k:hcase) : bool :=
  let q := h_req k in
  beq (q_method q) s_get && has_token (q_connection q) s_upgrade && has_token (q_upgrade q) s_websocket
  && has_token (q_version q) s_13 && valid_key (first (q_key q)) && spec_origin_ok k.

Definition all_wf (k:hcase) : bool :=
  let q := h_req k in
  forallb line_wf (q_connection q) && forallb line_wf (q_upgrade q) && forallb line_wf (q_version q).

(* RFC 7230 list splitting that knows quoted strings (split_list_q) and the offer predicate
   offers_pmd are in Spec/Handshake.v *)
Definition app_ext_header (k:hcase) : bool :=
  match h_rh k with Some h => hhas k_extensions h | None => false end.

Definition starts (p l:bytes) : bool := beq p (firstn (length p) l).
Definition l_accept := str [83;101;99;45;87;101;98;83;111;99;107;101;116;45;65;99;99;101;112;116;58;32].
Definition l_protocol := str [83;101;99;45;87;101;98;83;111;99;107;101;116;45;80;114;111;116;111;99;111;108;58;32].
Definition l_ext := str [83;101;99;45;87;101;98;83;111;99;107;101;116;45;69;120;116;101;110;115;105;111;110;115;58;32].
Definition l_status := str [72;84;84;80;47;49;46;49;32;49;48;49;32].
Definition l_upg := str [85;112;103;114;97;100;101;58;32;119;101;98;115;111;99;107;101;116].
Definition l_conn := str [67;111;110;110;101;99;116;105;111;110;58;32;85;112;103;114;97;100;101].

Definition app_value_count (k:hcase) : nat :=
  match h_rh k with
  | Some h => fold_left (fun a p => if beq (fst p) k_protocol then a else (a + length (snd p))%nat) h 0%nat
  | None => 0%nat
  end.

Definition client_offers (k:hcase) : list bytes := subprotocols (first (q_protocol (h_req k))).

Definition spec (k:hcase) (obs:tape) : option (N * tape) :=
  match obs with
  | 0 :: st :: uh :: _ =>
      (* rejected: must not be a valid handshake when every list header is inside the grammar *)
      if spec_valid k && all_wf k && negb (app_ext_header k) then Some (101, [st])
      else if negb (spec_origin_ok k) && (st =? 101) then Some (102, [])
      else if (st =? 426) && (uh =? 0) then Some (103, [])       (* 426 without an Upgrade header *)
      else if (st <? 400) then Some (104, [st])                  (* failure must be an HTTP error status *)
      else None
  | 1 :: rest =>
      match (pList pBytes) rest with
      | None => Some (199, [])
      | Some (lines, rest2) =>
        if negb (spec_valid k) then Some (105, [])                                        (* upgraded an invalid handshake *)
        else if existsb has_ctl lines then Some (106, [])                                 (* CR/LF inside a line *)
        else
          let want_accept := l_accept ++ accept_digest (first (q_key (h_req k))) in
          let nproto := length (filter (starts l_protocol) lines) in
          let next := length (filter (starts l_ext) lines) in
          if negb (match lines with a :: b :: c :: d :: _ => starts l_status a && beq b l_upg && beq c l_conn && beq d want_accept | _ => false end)
          then Some (107, [])                                                             (* status / Upgrade / Connection / Accept lines *)
          else if negb (Nat.eqb (length lines) (4 + nproto + next + app_value_count k)) then Some (108, [])  (* extra lines: injection *)
          else if Nat.ltb 1 nproto || Nat.ltb 1 next then Some (109, [])
          else
            (* subprotocol: with a server list it must be offered by the client and supported by the server *)
            let sub_line := find (starts l_protocol) lines in
            let sub := match sub_line with Some l => skipn (length l_protocol) l | None => [] end in
            let sub_bad := match u_subprotocols (h_up k), sub_line with
                           | Some server, Some _ => negb (existsb (beq sub) server && existsb (beq sub) (client_offers k))
                           | _, _ => false
                           end in
            if sub_bad then Some (110, [])
            else
              (* permessage-deflate announced only if enabled and offered *)
              let offered := offers_pmd (q_extensions (h_req k)) in
              if Nat.ltb 0 next && negb (u_compression (h_up k) && offered) then Some (111, [])
              else None
      end
  | 2 :: _ => if h_hijack_ok k then Some (112, []) else None
  | 3 :: _ => if h_write_ok k then Some (113, []) else None
  | _ => Some (199, [])
  end.

Definition judge : tape -> tape := judge_with p_hcase spec model.
