(* C01 Message round trip: a write program on one connection, its wire bytes re-chunked into a
   connection of the opposite role, a read program there.  The case is a writer case followed by
   a reader case (whose stream is the bytes the real writer produced).  Spec-on-impl: the wire
   is well-formed and carries exactly the successful writes (C02's predicate); the reader
   delivers what the stream encodes (C03's predicate); and end to end, the data messages
   delivered by ReadMessage are the data messages sent, same types, same bytes, same order. *)
Require Import WS.Base.Bytes WS.Base.Tape WS.Spec.Frame WS.Spec.WriterSpec WS.Spec.Inflate.
Require Import WS.Model.Writer WS.Model.Bufio WS.Model.Reader WS.Cases.WriterCase WS.Cases.ReaderCase.
Require WS.Cases.C02 WS.Cases.C03 WS.Cases.C10.

Definition sent_data (k:wcase) (o:wobs) : list (N * bytes) :=
  flat_map (fun x => if is_data (s_ty x) then [(s_ty x, s_data x)] else []) (a_out (expected_sent k o)).

Definition delivered (rs:list rout) : list (N * bytes) :=
  flat_map (fun r => match r with RMsg ty d None => [(ty, d)] | _ => [] end) rs.

Definition only_read_message (ops:list rop) : bool :=
  forallb (fun o => match o with OReadMessage => true | _ => false end) ops.

Fixpoint msgs_eqb (a b:list (N * bytes)) : bool :=
  match a, b with
  | [], [] => true
  | (t1, d1) :: a', (t2, d2) :: b' => (t1 =? t2) && beq d1 d2 && msgs_eqb a' b'
  | _, _ => false
  end.

(* "every valid message is accepted": in a fault-free program, before any close frame, a write
   request that is valid by the API documentation (data message of any size; control message of
   at most 125 bytes) must not be refused.  Abstract state: dead flag, open message (type, bytes so far). *)
Definition is_ctl (t:N) : bool := (t =? 8) || (t =? 9) || (t =? 10).
Fixpoint accepted_ok (dead:bool) (open:option (N * N)) (l:list (cop * N)) : bool :=
  match l with
  | [] => true
  | (o, r) :: rest =>
      let ok := r =? 0 in
      let dead' := dead || (ok && match o with
                                  | COp (WMessage 8 _ _ _ _) | COp (WControl 8 _ _) => true
                                  | CPrepared p => ps_ty p =? 8
                                  | _ => false end) in
      match o with
      | COp (WMessage ty d _ _ _) =>
          let valid := is_data ty || (is_ctl ty && (blen d <=? 125)) in
          (if valid && negb dead then ok else true) && accepted_ok dead' None rest
      | CPrepared p => (if negb dead then ok else true) && accepted_ok dead' None rest
      | COp (WNext ty _) =>
          let valid := is_data ty || is_ctl ty in
          (if valid && negb dead then ok else true) && accepted_ok dead (if ok then Some (ty, 0) else None) rest
      | COp (WWrite d _) | COp (WWriteString d _) =>
          match open with
          | Some (ty, n) =>
              (if negb dead && (is_data ty || (n + blen d <=? 125)) then ok else true)
              && accepted_ok dead (if ok then Some (ty, n + blen d) else None) rest
          | None => accepted_ok dead None rest
          end
      | COp (WReadFrom ch) =>
          match open with
          | Some (ty, n) =>
              (if negb dead && (is_data ty || (n + blen (concat ch) <=? 125)) then ok else true)
              && accepted_ok dead (if ok then Some (ty, n + blen (concat ch)) else None) rest
          | None => accepted_ok dead None rest
          end
      | COp (WClose _) =>
          match open with
          | Some (ty, n) =>
              (if negb dead && (is_data ty || (n <=? 125)) then ok else true)
              && accepted_ok (dead || (ok && (ty =? 8))) None rest
          | None => accepted_ok dead None rest
          end
      | COp (WControl ty d dl) =>
          (if negb dead && is_ctl ty && (blen d <=? 125) && negb (dl =? 1) then ok else true)
          && accepted_ok dead' open rest
      | _ => accepted_ok dead open rest
      end
  end.

Definition judge (t:tape) : tape :=
  match t with
  | nw :: rest =>
    match take (N.to_nat nw) rest with
    | Some (wt, rt) =>
      match p_wcase wt with
      | Some (wk, wt') =>
        match p_wobs wt' with
        | Some (wo, _) =>
          match p_rcase rt with
          | Some (rk, rt') =>
            match p_robs rt' with
            | Some (ro, _) =>
              match C02.spec_wire wk wo false with
              | Some (cl, d) => v_specfail cl d
              | None =>
                match C03.spec rk ro with
                | Some (cl, d) => v_specfail cl d
                | None =>
                  if negb (accepted_ok false None (combine (wk_ops wk) (wo_res wo))) then v_specfail 141 []
                  else if negb (C10.deadline_effective 0 0 0 (combine (wk_ops wk) (wo_cnt wo)) (wo_evs wo)) then v_specfail 75 []
                  else if only_read_message (k_ops rk) && negb (msgs_eqb (delivered (o_res ro)) (sent_data wk wo))
                  then v_specfail 140 [N.of_nat (length (delivered (o_res ro))); N.of_nat (length (sent_data wk wo))]
                  else
                    let '(wm, short) := wmodel_tape wk in
                    if short then v_specfail 98 []
                    else if negb (beq wm (wimpl_tape wo)) then v_mismatch wm
                    else if negb (k_cmp rk) then v_agree
                    else match decode_wraw rk (o_wraw ro) with
                         | None => v_specfail 90 []
                         | Some wb =>
                           let impl := obs_tape (o_res ro) (o_hlog ro) wb in
                           let '(m, oof) := model_tape inflate rk in
                           if oof then v_specfail 98 [] else if beq m impl then v_agree else v_mismatch m
                         end
                end
              end
            | None => v_badtape end
          | None => v_badtape end
        | None => v_badtape end
      | None => v_badtape end
    | None => v_badtape
    end
  | [] => v_badtape
  end.
