(* C06 Read limit.  The first op sets the limit L.  Spec-on-impl: messages are taken from the
   stream in order while their wire payload total is <= L; each such message must be readable
   in full whatever was done with the earlier ones; the first message with total > L is never
   reported complete, at most L of its bytes are delivered, the error is ErrReadLimit, a 1009
   close is written, and requests to the transport never exceed a bound independent of the
   declared lengths. *)
Require Import WS.Base.Bytes WS.Base.Tape WS.Spec.Frame WS.Spec.Conformance WS.Spec.Inflate.
Require Import WS.Model.Bufio WS.Model.Reader WS.Cases.ReaderCase.

Definition limit_of (ops:list rop) : N := match ops with OSetLimit l :: _ => l | _ => 0 end.

(* cut the expected messages at the first one whose wire size exceeds L; that one becomes
   "partial": it may start, must never complete *)
Fixpoint cut_at_limit (l:N) (ms:list emsg) : list emsg * bool :=
  match ms with
  | [] => ([], false)
  | m :: r =>
      if (0 <? l) && (l <? blen (e_data m)) then
        ([{| e_ty := e_ty m; e_comp := e_comp m; e_data := e_data m; e_complete := false; e_corrupt := false; e_end := 0 |}], true)
      else let '(r', b) := cut_at_limit l r in (m :: r', b)
  end.

Fixpoint delivered_after_last_next (acc:N) (ors:list (rop * rout)) : N :=
  match ors with
  | [] => acc
  | (_, RNext _ _) :: r => delivered_after_last_next 0 r
  | (ORead _, RData d _) :: r => delivered_after_last_next (acc + blen d) r
  | (_, RMsg _ d (Some _)) :: r => delivered_after_last_next (blen d) r
  | (_, RMsg _ _ None) :: r => delivered_after_last_next 0 r
  | _ :: r => delivered_after_last_next acc r
  end.

Definition max_read_arg (ops:list rop) : N :=
  fold_left (fun a o => match o with ORead m | OReadStale m => N.max a (N.of_nat m) | _ => a end) ops 0.

Definition is_close_1009 (x:N * bytes) : bool := (fst x =? 8) && beq (firstn 2 (snd x)) [3;241].

Definition spec (k:rcase) (o:robs) : option (N * tape) :=
  let l := limit_of (k_ops k) in
  let '(good, st) := scan_stream (server (k_cfg k)) (negotiated (k_cfg k)) (full_stream k) in
  (* wire sizes: the limit counts payload bytes as they are on the wire (deflated if compressed) *)
  let raw := expected_msgs good st in
  let '(ms0, over) := cut_at_limit l raw in
  (* what the application reads of a compressed message within the limit is its inflated payload *)
  match all_some (map (inflate_msg inflate) ms0) with
  | None => Some (96, [])
  | Some ms =>
  let over_comp := over && match rev ms0 with m :: _ => e_comp m | [] => false end in
  match walk (k_sure k) (walk0 ms) (k_ops k) (o_res o) with
  | inr c =>
      (* once an over-limit message was started and abandoned nothing is claimed about what follows *)
      if over && ((c =? 10) || (c =? 19)) then None else Some (c, [])
  | inl s =>
    let bound := N.max (N.max (N.of_nat (k_rbuf k)) 8192) (N.max (max_read_arg (k_ops k)) (2 * blen (full_stream k) + 512)) in
    if bound <? o_maxread o then Some (30, [o_maxread o])                   (* transport request out of proportion *)
    else if over && k_drains k && negb (w_beyond s) then
      match w_sticky s with
      | Some (Some RReadLimit) =>
          if negb over_comp && (l <? delivered_after_last_next 0 (combine (k_ops k) (o_res o))) then Some (31, [])   (* more than L bytes delivered (uncompressed: wire bytes = delivered bytes) *)
          else match decode_wraw k (o_wraw o) with
               | None => Some (90, [])
               | Some wb => if existsb is_close_1009 wb then None else Some (32, [])      (* no 1009 close *)
               end
      | _ => Some (33, [])                                                  (* over-limit message did not end in ErrReadLimit *)
      end
    else if k_drains k && existsb (must (k_sure k)) (w_todo s) then Some (17, [])
    else None
  end
  end.

Definition judge : tape -> tape := judge_reader inflate spec.
