(* C19 A PreparedMessage equals WriteMessage on every connection it is sent to: one prepared
   message shared by several connections of differing role / compression settings, sends
   interleaved with setting changes (and mutation of the caller's slice, invisible here because
   the case carries the payload as given at creation). *)
Require Import WS.Base.Bytes WS.Base.Tape WS.gen.Consts WS.Spec.Frame WS.Spec.WriterSpec.
Require Import WS.Model.Writer WS.Model.Prepared WS.Cases.WriterCase.
Require WS.Cases.C09w.

Record pcase := { pc_cfgs : list wcfg; pc_ops : list (nat * cop) }.

Definition p_cfg : P wcfg :=
  sv <- pBool ;; ub <- pN ;; po <- pBool ;; ng <- pBool ;;
  ret {| w_server := sv; w_bufsize := eff_wbuf ub;
         w_pooled := po; w_negotiated := ng |}.
Definition p_pcase : P pcase :=
  cs <- pList p_cfg ;; ops <- pList (pPair pNat p_cop) ;; ret {| pc_cfgs := cs; pc_ops := ops |}.

Fixpoint set_nth {A} (i:nat) (v:A) (l:list A) : list A :=
  match l, i with
  | [], _ => []
  | _ :: r, O => v :: r
  | x :: r, S j => x :: set_nth j v r
  end.

Fixpoint prun (cfgs:list wcfg) (sts:list wst) (ca:cache) (ops:list (nat * cop)) : list (option werror) * list wst :=
  match ops with
  | [] => ([], sts)
  | (i, o) :: r =>
      match nth_error cfgs i, nth_error sts i with
      | Some c, Some s =>
          let '(e, (s', ca')) := cstep c (s, ca) o in
          let '(es, sts') := prun cfgs (set_nth i s' sts) ca' r in (e :: es, sts')
      | _, _ => let '(es, sts') := prun cfgs sts ca r in (None :: es, sts')
      end
  end.

Definition model (k:pcase) : tape * bool :=
  let sts0 := map (fun c => init_wst c [] None) (pc_cfgs k) in
  let '(es, sts) := prun (pc_cfgs k) sts0 [] (pc_ops k) in
  (eList (fun e => [e_werr e]) es ++ eList (fun s => eList e_tev (evs s)) sts, false).

Record pobs := { po_res : list N; po_evs : list (list tev) }.
Definition p_pobs : P pobs :=
  rs <- pList pN ;; es <- pList (pList p_tev) ;; ret {| po_res := rs; po_evs := es |}.

(* per connection: the ops addressed to it with their results *)
Fixpoint ops_of (i:nat) (l:list ((nat * cop) * N)) : list (aop * N) :=
  match l with
  | [] => []
  | ((j, o), r) :: rest => if Nat.eqb i j then (aop_of o, r) :: ops_of i rest else ops_of i rest
  end.

(* per connection: the ops addressed to it, as ops of the writer case language, with their results *)
Fixpoint cops_of (i:nat) (l:list ((nat * cop) * N)) : list (cop * N) :=
  match l with
  | [] => []
  | ((j, o), r) :: rest => if Nat.eqb i j then (o, r) :: cops_of i rest else cops_of i rest
  end.

Definition conn_ok (k:pcase) (o:pobs) (i:nat) (c:wcfg) (es:list tev) : option N :=
  let '(fs, t) := parse_frames (wire_of es) in
  match t with
  | TEnd =>
      if negb (wf_wire (negb (w_server c)) (w_negotiated c) fs) then Some 61
      else if negb (C09w.close_is_last fs) then Some 164      (* a prepared close obeys the rules of a direct one: it is the last frame ... *)
      else if match C09w.after_close_ok false None (cops_of i (combine (pc_ops k) (po_res o))) with Some _ => true | None => false end
      then C09w.after_close_ok false None (cops_of i (combine (pc_ops k) (po_res o)))   (* ... and later sends fail with ErrCloseSent *)
      else match wire_events (map fst fs) with
           | None => Some 62
           | Some evs =>
               let want := a_out (arun (w_negotiated c) ast0 (ops_of i (combine (pc_ops k) (po_res o)))) in
               if sents_eqb evs want then None else Some 63
           end
  | _ => Some 60
  end.

Fixpoint all_conns (k:pcase) (o:pobs) (i:nat) (cs:list wcfg) (ess:list (list tev)) : option N :=
  match cs, ess with
  | c :: cr, es :: er => match conn_ok k o i c es with Some x => Some x | None => all_conns k o (S i) cr er end
  | _, _ => None
  end.

Definition judge (t:tape) : tape :=
  match p_pcase t with
  | None => v_badtape
  | Some (k, t') =>
    match p_pobs t' with
    | None => v_badtape
    | Some (o, _) =>
      match all_conns k o 0 (pc_cfgs k) (po_evs o) with
      | Some cl => v_specfail cl []
      | None =>
        let '(m, _) := model k in
        let impl := eList (fun e => [e]) (po_res o) ++ eList (fun es => eList e_tev es) (po_evs o) in
        if beq m impl then v_agree else v_mismatch m
      end
    end
  end.
