(* C10 Write failures are fail-stop; bad requests write nothing; deadlines are applied. *)
Require Import WS.Base.Bytes WS.Base.Tape WS.Spec.Frame WS.Spec.WriterSpec WS.Model.Writer WS.Cases.WriterCase.

Definition is_fail (e:tev) : bool := match e with TSetDLFail _ | TWriteFail _ => true | _ => false end.
Definition is_transport (e:tev) : bool := match e with TGet | TPut => false | _ => true end.

Fixpoint after_first_fail (es:list tev) : list tev :=
  match es with [] => [] | e :: r => if is_fail e then r else after_first_fail r end.

(* every Write is preceded, within the same frame, by a successful SetWriteDeadline *)
Fixpoint deadlines_ok (armed:bool) (es:list tev) : bool :=
  match es with
  | [] => true
  | TSetDL _ :: r => deadlines_ok true r
  | TWrite _ :: r => armed && deadlines_ok armed r
  | TWriteFail _ :: r => armed && deadlines_ok false r
  | TSetDLFail _ :: r => deadlines_ok false r
  | _ :: r => deadlines_ok armed r
  end.

Definition writes_op (o:cop) : bool :=
  match o with
  | COp (WMessage _ _ _ _ _) | COp (WNext _ _) | COp (WControl _ _ _) | COp (WClose _) | CPrepared _ => true
  | _ => false
  end.

(* after the op that reported the transport's error, every later writing op fails *)
Fixpoint later_fail (seen:bool) (ors:list (cop * N)) : bool :=
  match ors with
  | [] => true
  | (o, r) :: rest =>
      (if seen && writes_op o then negb (r =? 0) else true)
      && later_fail (seen || (r =? 6) || (r =? 7)) rest
  end.

(* an invalid request made while no writer is open writes nothing *)
Fixpoint invalid_quiet (neg:bool) (a:ast) (prev:N) (l:list (cop * (N * N))) (evs:list tev) : bool :=
  match l with
  | [] => true
  | (o, (r, cnt)) :: rest =>
      let mine := firstn (N.to_nat (cnt - prev)) (skipn (N.to_nat prev) evs) in
      let quiet := negb (existsb is_transport mine) in
      (if ((r =? 3) || (r =? 4)) && match a_open a with None => true | Some _ => false end then quiet else true)
      && invalid_quiet neg (astep neg a (aop_of o) r) cnt rest evs
  end.

(* every frame goes out under the deadline that is current when it is written: the argument of
   the latest SetWriteDeadline for message frames, its own deadline for WriteControl *)
Fixpoint deadline_values (cur:N) (prev:N) (l:list (cop * N)) (evs:list tev) : bool :=
  match l with
  | [] => true
  | (o, cnt) :: rest =>
      let mine := firstn (N.to_nat (cnt - prev)) (skipn (N.to_nat prev) evs) in
      let all_eq (d:N) := forallb (fun e => match e with TSetDL x | TSetDLFail x => x =? d | _ => true end) mine in
      match o with
      | COp (WSetDeadline d) => deadline_values d cnt rest evs
      | COp (WControl _ _ dl) => all_eq dl && deadline_values cur cnt rest evs
      | _ => all_eq cur && deadline_values cur cnt rest evs
      end
  end.

(* the same seen from the transport: whenever bytes are written, the deadline armed on the transport
   (the argument of the latest SetWriteDeadline, whoever made it; none yet = no deadline) is the one in
   force for that frame.  An implementation may skip redundant SetWriteDeadline calls; it may not
   write a message frame under the deadline a control frame left behind, or the reverse. *)
Fixpoint armed_ok (want eff:N) (es:list tev) : bool * N :=
  match es with
  | [] => (true, eff)
  | TSetDL x :: r => armed_ok want x r
  | TSetDLFail x :: r => armed_ok want x r
  | (TWrite _ | TWriteFail _) :: r => if eff =? want then armed_ok want eff r else (false, eff)
  | _ :: r => armed_ok want eff r
  end.
Fixpoint deadline_effective (cur prev eff:N) (l:list (cop * N)) (evs:list tev) : bool :=
  match l with
  | [] => true
  | (o, cnt) :: rest =>
      let mine := firstn (N.to_nat (cnt - prev)) (skipn (N.to_nat prev) evs) in
      match o with
      | COp (WSetDeadline d) => deadline_effective d cnt eff rest evs
      | COp (WControl _ _ dl) => let '(ok, eff') := armed_ok dl eff mine in ok && deadline_effective cur cnt eff' rest evs
      | _ => let '(ok, eff') := armed_ok cur eff mine in ok && deadline_effective cur cnt eff' rest evs
      end
  end.

Definition spec (k:wcase) (o:wobs) : option (N * tape) :=
  let wire := wire_of (wo_evs o) in
  let '(fs, t) := parse_frames wire in
  let tail_ok := match t with TEnd | TPartial _ => true | TBadLen _ => false end in
  if negb tail_ok then Some (60, [])
  else if negb (wf_wire (negb (w_server (wk_cfg k))) (w_negotiated (wk_cfg k)) fs) then Some (61, [])
  else if existsb is_transport (after_first_fail (wo_evs o)) then Some (70, [])      (* something was written after a failure *)
  else if negb (later_fail false (combine (wk_ops k) (wo_res o))) then Some (71, []) (* a later write reported success *)
  else if negb (deadlines_ok false (wo_evs o)) then Some (72, [])                     (* a Write without its deadline *)
  else if negb (deadline_values 0 0 (combine (wk_ops k) (wo_cnt o)) (wo_evs o)) then Some (74, [])  (* a frame under a stale deadline *)
  else if negb (deadline_effective 0 0 0 (combine (wk_ops k) (wo_cnt o)) (wo_evs o)) then Some (75, [])  (* bytes written while another deadline was armed *)
  else if negb (invalid_quiet (w_negotiated (wk_cfg k)) ast0 0 (combine (wk_ops k) (combine (wo_res o) (wo_cnt o))) (wo_evs o))
       then Some (73, [])                                                            (* an invalid request wrote something *)
  else match wire_events (map fst fs) with
  | None => Some (62, [])
  | Some evs =>
      let want := a_out (expected_sent k o) in
      match wk_fail k with
      | None => if sents_eqb evs want then None else Some (63, [])
      | Some _ => None
      end
  end.

Definition judge : tape -> tape := judge_writer spec.
