(* C09 / C11: schedule-controlled correspondence for the write lock protocol.  The harness holds
   every transport operation at a gate and releases them one at a time; the coarse schedule it
   executed (start the next call of a thread | let a thread perform the transport operation it
   is parked at | let a waiting WriteControl's timer fire) is replayed on Model/Conc.v, every
   action being expanded to "run the thread until its next transport operation, the end of its
   call, or until it blocks", exactly what a goroutine does between two gates. *)
Require Import WS.Base.Bytes WS.Base.Tape WS.Model.Conc.
From Coq Require Import Arith.

Definition phase_eqb (a b:phase) : bool :=
  match a, b with
  | PPre, PPre | PAcq, PAcq | PWait, PWait | PChk, PChk | PSetDL, PSetDL | PMark, PMark => true
  | PW i, PW j => Nat.eqb i j
  | PRel _, PRel _ => true
  | _, _ => false
  end.

Definition at_gate (th:thr) : bool :=
  match todo th, ph th with
  | _ :: _, PSetDL | _ :: _, PW _ => true
  | _, _ => false
  end.

(* run thread t until it is parked at a transport operation, its call has ended (ncalls = number
   of calls it had left when the call started), or it cannot move *)
Fixpoint settle (fuel:nat) (t:nat) (ncalls:nat) (s:st) : st :=
  match fuel with
  | O => s
  | S f =>
    let th := thr_of s t in
    if at_gate th then s
    else if Nat.ltb (length (todo th)) ncalls then s
    else
      let s' := step t false s in
      let th' := thr_of s' t in
      if phase_eqb (ph th) (ph th') && Nat.eqb (length (todo th)) (length (todo th')) then s
      else settle f t ncalls s'
  end.

Inductive action := AStart (t:nat) | ARelease (t:nat) | ATimer (t:nat).

(* coarse state: model state + for each thread with a call in progress, the number of calls it
   had when that call started *)
Definition active := list (nat * nat).
Definition act_get (t:nat) (a:active) : option nat :=
  match find (fun p => Nat.eqb (fst p) t) a with Some (_, n) => Some n | None => None end.
Definition act_del (t:nat) (a:active) : active := filter (fun p => negb (Nat.eqb (fst p) t)) a.

(* drop threads whose call has ended; let every other active thread that is not at a gate try to move *)
Definition resettle_all (s:st) (a:active) : st * active :=
  let s := fold_left (fun s p => settle 12 (fst p) (snd p) s) a s in
  (s, filter (fun p => negb (Nat.ltb (length (todo (thr_of s (fst p)))) (snd p))) a).

Definition do_action (x:st * active) (ac:action) : st * active :=
  let '(s, a) := x in
  match ac with
  | AStart t =>
      let n := length (todo (thr_of s t)) in
      let a := (t, n) :: act_del t a in
      resettle_all (settle 12 t n s) a
  | ARelease t =>
      match act_get t a with
      | Some n => resettle_all (settle 12 t n (step t false s)) a
      | None => (s, a)
      end
  | ATimer t =>
      match act_get t a with
      | Some n => resettle_all (settle 12 t n (step t true s)) a
      | None => (s, a)
      end
  end.

(* ---- tape ---- *)
Definition p_dl : P deadline := x <- pN ;; ret (match x with 0 => DNone | 1 => DPast | _ => DFuture end).
Definition p_call : P call :=
  f <- pNat ;; k <- pN ;; ic <- pBool ;; pa <- pNat ;; d <- p_dl ;; pc <- pBool ;;
  ret {| fid := f; kind := if k =? 0 then KFrame else KConnClose; isclose := ic; parts := pa; dl := d; precheck := pc; fail_at := None |}.
Definition p_action : P action :=
  k <- pN ;; t <- pNat ;; ret (match k with 0 => AStart t | 1 => ARelease t | _ => ATimer t end).

Record ccase := { cc_threads : list (list call); cc_sched : list action }.
Definition p_ccase : P ccase :=
  th <- pList (pList p_call) ;; sc <- pList p_action ;; ret {| cc_threads := th; cc_sched := sc |}.

Definition init_st (ths:list (list call)) : st :=
  {| mu := None; werr := None; tclosed := false; log := []; dlog := [];
     thrs := map (fun cs => {| todo := cs; ph := PPre; res := [] |}) ths |}.

Definition e_outcome (o:outcome) : N := match o with OK => 0 | EClosed => 1 | ETimeout => 2 | EFailed => 3 end.

Definition run_coarse (k:ccase) : st := fst (fold_left do_action (cc_sched k) (init_st (cc_threads k), [])).

(* observation: per thread the outcomes (fid, code) oldest first; the Write log (tid, fid, part) *)
Definition model (k:ccase) : tape :=
  let s := run_coarse k in
  eList (fun th => eList (fun r => [N.of_nat (fst r); e_outcome (snd r)]) (rev (res th))) (thrs s)
  ++ eList (fun e => [N.of_nat (etid e); N.of_nat (efid e); N.of_nat (epart e)]) (log s)
  ++ [0].   (* transport operations started after a transport failure: none (Props/C10, ConcP.fail_stop) *)

(* ---- Spec on the implementation's observation ---- *)
Record cobs := { co_res : list (list (N * N)); co_log : list (N * N * N); co_after : N }.
Definition p_cobs : P cobs :=
  rs <- pList (pList (pPair pN pN)) ;;
  lg <- pList (a <- pN ;; b <- pN ;; c <- pN ;; ret (a, b, c)) ;;
  af <- pN ;;
  ret {| co_res := rs; co_log := lg; co_after := af |}.

Definition call_of (k:ccase) (t f:N) : option call :=
  match nth_error (cc_threads k) (N.to_nat t) with
  | Some cs => find (fun c => Nat.eqb (fid c) (N.to_nat f)) cs
  | None => None
  end.

(* frames are contiguous: the parts of one call are adjacent and in order 1..parts *)
Fixpoint contiguous (k:ccase) (prev:option (N * N * N)) (l:list (N * N * N)) : bool :=
  match l with
  | [] => true   (* the last frame may be cut short by a transport failure (C10) *)
  | (t, f, p) :: r =>
      (match prev with
       | None => p =? 1
       | Some (t0, f0, p0) =>
           if (t =? t0) && (f =? f0) then p =? p0 + 1
           else (p =? 1) && match call_of k t0 f0 with Some c => N.of_nat (Nat.max 1 (parts c)) <=? p0 | None => false end
       end) && contiguous k (Some (t, f, p)) r
  end.

(* nothing follows the last part of a close frame *)
Fixpoint after_close (k:ccase) (l:list (N * N * N)) : bool :=
  match l with
  | [] => true
  | (t, f, p) :: r =>
      match call_of k t f with
      | Some c => if isclose c && (N.of_nat (Nat.max 1 (parts c)) <=? p) then match r with [] => true | _ => false end
                  else after_close k r
      | None => false
      end
  end.

(* a call that timed out wrote nothing *)
Definition timeouts_clean (o:cobs) : bool :=
  forallb (fun tr => forallb (fun r =>
      if snd r =? 2 then negb (existsb (fun e => match e with (t, f, _) => (t =? fst tr) && (f =? fst r) end) (co_log o)) else true)
    (snd tr)) (combine (map N.of_nat (seq 0 (length (co_res o)))) (co_res o)).

(* ErrCloseSent is returned only after a close frame has really been written (a WriteControl
   that timed out, or failed, must not poison the connection) *)
Definition close_written (k:ccase) (o:cobs) : bool :=
  existsb (fun e => match e with (t, f, _) => match call_of k t f with Some c => isclose c | None => false end end) (co_log o).
Definition close_sent_justified (k:ccase) (o:cobs) : bool :=
  negb (existsb (fun tr => existsb (fun r => snd r =? 1) tr) (co_res o)) || close_written k o.

Definition spec (k:ccase) (obs:tape) : option (N * tape) :=
  match p_cobs obs with
  | None => Some (199, [])
  | Some (o, _) =>
      if negb (contiguous k None (co_log o)) then Some (150, [])        (* a frame's Writes are not contiguous *)
      else if negb (after_close k (co_log o)) then Some (151, [])       (* bytes written after a close frame *)
      else if negb (timeouts_clean o) then Some (152, [])               (* a timed-out WriteControl wrote something *)
      else if negb (close_sent_justified k o) then Some (153, [])       (* ErrCloseSent although no close frame was written *)
      else if negb (co_after o =? 0) then Some (154, [co_after o])      (* the transport was used again after it had failed *)
      else None
  end.

Definition judge : tape -> tape := judge_with p_ccase spec model.
