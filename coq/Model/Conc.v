(* Conc.v - interleaving model of the write-side locking protocol of gorilla/websocket
   (conn.go: write, WriteControl, beginMessage, flushFrame, writeFatal, WritePreparedMessage, Close).

   DEFINITIONS ONLY (all proofs are in ConcP.v).  Everything is computable: [step] and [run]
   are total functions meant to be extracted and run against the real code.

   Shared state     mu       the 1-slot channel c.mu used as a mutex (None = free, Some t = held by t)
                    werr     c.writeErr, the sticky write error (first error sticks, see writeFatal)
                    tclosed  the transport has been closed by Conn.Close(): every later transport
                             operation (SetWriteDeadline / Write) fails
                    log      one entry per SUCCESSFUL transport Write
                    dlog     one entry per successful SetWriteDeadline
   Threads          a table (list indexed by tid) of threads; each runs a list of calls.
                    One designated writer thread may run data-frame writes (c.write through
                    flushFrame / WritePreparedMessage, possibly preceded by beginMessage's racy
                    read of writeErr); every thread may run WriteControl calls and Conn.Close().
   Schedule         list (tid * bool); the bool means "the timer of this thread's pending
                    WriteControl fires now".  A step of a thread that is not enabled stutters. *)
From Coq Require Import List Arith Lia Bool.
Import ListNotations.

(* ------------------------------------------------------------------------------------------ *)
(* Vocabulary                                                                                 *)

Inductive deadline := DNone   (* zero time: blocking acquire, also every c.write() *)
                    | DFuture (* time.Until(deadline) >= 0: try-acquire, then lock-or-timer select *)
                    | DPast.  (* time.Until(deadline) < 0: errWriteTimeout without touching c.mu *)
Inductive werror  := ECloseSent | ETransport.
Inductive outcome := OK
                   | EClosed   (* ErrCloseSent *)
                   | ETimeout  (* errWriteTimeout *)
                   | EFailed.  (* transport error: own, or the sticky one *)
Inductive ckind   := KFrame      (* a frame write: c.write(...) or WriteControl(...) *)
                   | KConnClose. (* Conn.Close(): closes the transport only *)

(* Program counter of a thread inside its current call.
   PPre    call entry, nothing shared touched yet.  One step performs beginMessage's racy read of
           writeErr OUTSIDE the lock (when [precheck]), WriteControl's [time.Until(deadline) < 0]
           test, or the whole of Conn.Close().
   PAcq    first attempt on c.mu: blocking receive (DNone) or non-blocking select (DFuture)
   PWait   WriteControl's second select: c.mu or timer.C
   PChk    holds mu: read writeErr
   PSetDL  holds mu: conn.SetWriteDeadline            (transport operation 0 of the call)
   PW k    holds mu: k Writes done, about to do Write number k+1 (transport operation k+1)
   PMark   holds mu: all writes succeeded; writeFatal(ErrCloseSent) if the frame is a close frame
   PRel o  holds mu: deferred release, then return o *)
Inductive phase := PPre | PAcq | PWait | PChk | PSetDL | PW (k:nat) | PMark | PRel (o:outcome).

Record call := {
  fid      : nat;          (* frame / call identifier, unique within its thread *)
  kind     : ckind;
  isclose  : bool;         (* frame type is CloseMessage *)
  parts    : nat;          (* number of transport Write calls: 1, or 2 for net.Buffers{buf0,buf1} *)
  dl       : deadline;     (* WriteControl deadline class; DNone for c.write *)
  precheck : bool;         (* the call begins with beginMessage's read of writeErr outside the lock *)
  fail_at  : option nat    (* fault plan: index of the transport operation of THIS call that fails:
                              0 = SetWriteDeadline, k>=1 = k-th Write *)
}.

Record thr := { todo : list call; ph : phase; res : list (nat * outcome) (* newest first *) }.

(* (tid, fid, part index 1.., is the last part of a close frame) *)
Definition entry := (nat * nat * nat * bool)%type.
Definition etid  (e:entry) : nat  := fst (fst (fst e)).
Definition efid  (e:entry) : nat  := snd (fst (fst e)).
Definition epart (e:entry) : nat  := snd (fst e).
Definition elast (e:entry) : bool := snd e.

Record st := {
  mu      : option nat;
  werr    : option werror;
  tclosed : bool;
  log     : list entry;           (* oldest first *)
  dlog    : list (nat * nat);     (* (tid, fid) of each successful SetWriteDeadline, oldest first *)
  thrs    : list thr              (* thread table, indexed by tid; tids beyond the end are idle *)
}.

(* ------------------------------------------------------------------------------------------ *)
(* Thread table: a list indexed by position.  [tset] pads with idle threads, so that
   get (tset l t v) t = v  and  x <> t -> get (tset l t v) x = get l x  hold unconditionally. *)

Definition idle : thr := {| todo := []; ph := PPre; res := [] |}.
Definition get (l:list thr) (t:nat) : thr := nth t l idle.
Fixpoint tset (l:list thr) (t:nat) (v:thr) : list thr :=
  match t with
  | O    => v :: tl l
  | S t' => hd idle l :: tset (tl l) t' v
  end.
Definition thr_of (s:st) (t:nat) : thr := get (thrs s) t.

(* ------------------------------------------------------------------------------------------ *)
(* One step                                                                                   *)

Definition werr_outcome (e:werror) : outcome :=
  match e with ECloseSent => EClosed | ETransport => EFailed end.

(* writeFatal: the first error sticks *)
Definition set_werr (w:option werror) (e:werror) : option werror :=
  match w with None => Some e | Some _ => w end.

(* does transport operation number i of call c fail in state s? *)
Definition op_fails (s:st) (c:call) (i:nat) : bool :=
  tclosed s || match fail_at c with Some j => Nat.eqb j i | None => false end.

(* thread-local moves *)
Definition goto (th:thr) (p:phase) : thr := {| todo := todo th; ph := p; res := res th |}.
Definition fin (th:thr) (c:call) (o:outcome) : thr :=
  {| todo := tl (todo th); ph := PPre; res := (fid c, o) :: res th |}.

(* state moves *)
Definition only (s:st) (t:nat) (v:thr) : st :=
  {| mu := mu s; werr := werr s; tclosed := tclosed s; log := log s; dlog := dlog s;
     thrs := tset (thrs s) t v |}.
Definition lock (s:st) (t:nat) (v:thr) : st :=
  {| mu := Some t; werr := werr s; tclosed := tclosed s; log := log s; dlog := dlog s;
     thrs := tset (thrs s) t v |}.
Definition fail_op (s:st) (t:nat) (th:thr) : st :=
  {| mu := mu s; werr := set_werr (werr s) ETransport; tclosed := tclosed s; log := log s;
     dlog := dlog s; thrs := tset (thrs s) t (goto th (PRel EFailed)) |}.

(* one step of thread [t]; [timer] = the timer of its pending WriteControl fires now *)
Definition step (t:nat) (timer:bool) (s:st) : st :=
  let th := thr_of s t in
  match todo th with
  | [] => s
  | c :: _ =>
    match ph th with
    | PPre =>
        match kind c with
        | KConnClose =>
            {| mu := mu s; werr := werr s; tclosed := true; log := log s; dlog := dlog s;
               thrs := tset (thrs s) t (fin th c OK) |}
        | KFrame =>
            match (if precheck c then werr s else None) with
            | Some e => only s t (fin th c (werr_outcome e))
            | None =>
                match dl c with
                | DPast => only s t (fin th c ETimeout)
                | _     => only s t (goto th PAcq)
                end
            end
        end
    | PAcq =>
        match dl c with
        | DPast => only s t (fin th c ETimeout)     (* unreachable, see inv_dpast; kept total *)
        | DNone =>
            match mu s with
            | None   => lock s t (goto th PChk)
            | Some _ => s                            (* blocked in <-c.mu *)
            end
        | DFuture =>
            match mu s with
            | None   => lock s t (goto th PChk)
            | Some _ => only s t (goto th PWait)     (* select default: start the timer *)
            end
        end
    | PWait =>
        if timer then only s t (fin th c ETimeout)   (* case <-timer.C *)
        else match mu s with
             | None   => lock s t (goto th PChk)     (* case <-c.mu *)
             | Some _ => s
             end
    | PChk =>
        match werr s with
        | Some e => only s t (goto th (PRel (werr_outcome e)))
        | None   => only s t (goto th PSetDL)
        end
    | PSetDL =>
        if op_fails s c 0 then fail_op s t th
        else {| mu := mu s; werr := werr s; tclosed := tclosed s; log := log s;
                dlog := dlog s ++ [(t, fid c)];
                thrs := tset (thrs s) t (goto th (PW 0)) |}
    | PW k =>
        if op_fails s c (S k) then fail_op s t th
        else let last := parts c <=? S k in
             {| mu := mu s; werr := werr s; tclosed := tclosed s;
                log := log s ++ [(t, fid c, S k, isclose c && last)];
                dlog := dlog s;
                thrs := tset (thrs s) t (goto th (if last then PMark else PW (S k))) |}
    | PMark =>
        {| mu := mu s;
           werr := (if isclose c then set_werr (werr s) ECloseSent else werr s);
           tclosed := tclosed s; log := log s; dlog := dlog s;
           thrs := tset (thrs s) t (goto th (PRel OK)) |}
    | PRel o =>
        {| mu := None; werr := werr s; tclosed := tclosed s; log := log s; dlog := dlog s;
           thrs := tset (thrs s) t (fin th c o) |}
    end
  end.

Definition run (sched : list (nat * bool)) (s:st) : st :=
  fold_left (fun s x => step (fst x) (snd x) s) sched s.

(* ------------------------------------------------------------------------------------------ *)
(* Invariant                                                                                  *)

Definition in_cs (p:phase) : bool :=
  match p with PPre | PAcq | PWait => false | _ => true end.
(* phases in which the thread has passed the writeErr check and not yet published an error *)
Definition writing (p:phase) : bool :=
  match p with PSetDL | PW _ | PMark => true | _ => false end.

Definition close_done (s:st) : Prop := exists e, In e (log s) /\ elast e = true.
Definition cur_isclose (th:thr) : bool := match todo th with c :: _ => isclose c | [] => false end.

Record Inv (s:st) : Prop := {
  (* mutual exclusion: a thread is in the critical section iff it holds mu *)
  inv_cs    : forall t, in_cs (ph (thr_of s t)) = true <-> mu s = Some t;
  inv_idle  : forall t, todo (thr_of s t) = [] -> ph (thr_of s t) = PPre;
  (* nobody is past the check while the sticky error is set *)
  inv_w     : forall t, writing (ph (thr_of s t)) = true -> werr s = None;
  inv_rel   : forall t, ph (thr_of s t) <> PRel ETimeout;
  inv_dpast : forall t c rest, todo (thr_of s t) = c :: rest -> dl c = DPast -> ph (thr_of s t) = PPre;
  inv_kind  : forall t c rest, todo (thr_of s t) = c :: rest -> kind c = KConnClose -> ph (thr_of s t) = PPre;
  inv_wait  : forall t c rest, todo (thr_of s t) = c :: rest -> ph (thr_of s t) = PWait -> dl c = DFuture;
  (* once the last part of a close frame is out, ErrCloseSent is set or its writer is about to set it *)
  inv_close : close_done s ->
              werr s = Some ECloseSent \/
              (exists t, mu s = Some t /\ ph (thr_of s t) = PMark /\ cur_isclose (thr_of s t) = true)
}.

(* ------------------------------------------------------------------------------------------ *)
(* Log shape (C11)                                                                            *)

Definition same_call (e1 e2:entry) : Prop := etid e1 = etid e2 /\ efid e1 = efid e2.

(* a log is well-shaped when every appended entry either opens a call that has no entry yet, with
   part 1, or continues the call of the entry just before it, with the next part number *)
Inductive WL : list entry -> Prop :=
| WL_nil   : WL []
| WL_first : forall l e, WL l -> (forall e', In e' l -> ~ same_call e' e) -> epart e = 1 -> WL (l ++ [e])
| WL_next  : forall l e' e, WL (l ++ [e']) -> same_call e' e -> epart e = S (epart e') ->
                            WL ((l ++ [e']) ++ [e]).

(* no entry of call (t,f) in l *)
Definition absent (l:list entry) (t f:nat) : Prop := forall e, In e l -> etid e = t -> efid e <> f.

Definition prewrite (p:phase) : bool :=
  match p with PPre | PAcq | PWait | PChk | PSetDL | PW O => true | _ => false end.

Record LInv (s:st) : Prop := {
  li_wl     : WL (log s);
  li_nodup  : forall t, NoDup (map fid (todo (thr_of s t)));
  li_future : forall t c', In c' (tl (todo (thr_of s t))) -> absent (log s) t (fid c');
  li_before : forall t c rest, todo (thr_of s t) = c :: rest ->
              prewrite (ph (thr_of s t)) = true -> absent (log s) t (fid c);
  li_mid    : forall t c rest k, todo (thr_of s t) = c :: rest -> ph (thr_of s t) = PW (S k) ->
              exists l' b, log s = l' ++ [(t, fid c, S k, b)];
  li_dl_log : forall e, In e (log s) -> In (etid e, efid e) (dlog s);
  li_dl_w   : forall t c rest k, todo (thr_of s t) = c :: rest -> ph (thr_of s t) = PW k ->
              In (t, fid c) (dlog s)
}.

(* ------------------------------------------------------------------------------------------ *)
(* Initial states                                                                             *)

(* a call that can only be issued by the writer goroutine: it starts a message (pre-check) or
   writes two buffers *)
Definition is_data (c:call) : bool := precheck c || (2 <=? parts c).

(* thread w is the designated writer: only it issues data-frame writes, and those use the
   blocking acquire of c.write *)
Definition roles_ok (w:nat) (s:st) : Prop :=
  forall t c, In c (todo (thr_of s t)) -> is_data c = true -> t = w /\ dl c = DNone.

Definition init_ok (s:st) : Prop :=
  mu s = None /\ werr s = None /\ log s = [] /\ dlog s = [] /\
  (forall t, ph (thr_of s t) = PPre) /\
  (forall t, NoDup (map fid (todo (thr_of s t)))) /\
  (exists w, roles_ok w s).

(* ------------------------------------------------------------------------------------------ *)
(* C09: calls after the sticky error is set                                                   *)

(* the outcome a call must have when it runs entirely while werr = Some e *)
Definition good_after (e:werror) (c:call) (o:outcome) : Prop :=
  match kind c with
  | KConnClose => o = OK                       (* Conn.Close() is not a write call *)
  | KFrame     => o = werr_outcome e \/ (o = ETimeout /\ dl c <> DNone)
  end.

(* result r belongs to call c and is what the sticky error e dictates *)
Definition result_after (e:werror) (c:call) (r:nat * outcome) : Prop :=
  fst r = fid c /\ good_after e c (snd r).

(* the current call of the thread has not already had a different outcome decided *)
Definition pending_ok (e:werror) (p:phase) : Prop :=
  match p with PRel o => o = werr_outcome e | _ => True end.

(* ------------------------------------------------------------------------------------------ *)
(* Example system (non-vacuity): tid 0 = writer, tid 1 = a closer, tid 2 = a pinger w/ deadline *)

Definition mkcall (f:nat) (cl:bool) (p:nat) (d:deadline) (pre:bool) : call :=
  {| fid := f; kind := KFrame; isclose := cl; parts := p; dl := d; precheck := pre; fail_at := None |}.
Definition mkthr (cs:list call) : thr := {| todo := cs; ph := PPre; res := [] |}.

Definition ex_init : st :=
  {| mu := None; werr := None; tclosed := false; log := []; dlog := [];
     thrs := [ mkthr [ mkcall 1 false 2 DNone true;      (* first frame of a message, 2 buffers *)
                       mkcall 2 false 1 DNone false ];   (* continuation frame *)
               mkthr [ mkcall 10 true 1 DNone false ];   (* WriteControl(Close, zero deadline) *)
               mkthr [ mkcall 20 false 1 DFuture false ] (* WriteControl(Ping, now+d) *) ] |}.

(* a second system, with Conn.Close() as a thread action: tid 0 = writer, tid 1 calls Close(),
   tid 2 = a pinger without deadline *)
Definition ex_init2 : st :=
  {| mu := None; werr := None; tclosed := false; log := []; dlog := [];
     thrs := [ mkthr [ mkcall 1 false 2 DNone true ];
               mkthr [ {| fid := 30; kind := KConnClose; isclose := false; parts := 0; dl := DNone;
                          precheck := false; fail_at := None |} ];
               mkthr [ mkcall 20 false 1 DNone false ] ] |}.

(* observable projection of a state, used by the examples *)
Definition view (s:st) :=
  (mu s, werr s, log s, map (fun th => (ph th, res th)) (thrs s)).

Definition steps (t n:nat) : list (nat * bool) := repeat (t, false) n.

(* (a) writer writes part 1 of its 2-part frame; closer arrives and blocks; pinger arrives, fails
       the try-acquire and waits; writer finishes; closer then sends its close frame *)
Definition ex_sched_a : list (nat * bool) :=
  steps 0 5 ++ steps 1 3 ++ steps 2 3 ++ steps 0 3 ++ steps 1 6.
(* (b) writer completes frame 1; closer sends the close frame completely; writer's frame 2 *)
Definition ex_sched_b : list (nat * bool) := steps 0 8 ++ steps 1 7 ++ steps 0 5.
(* (c) writer takes the lock; pinger enters, fails try-acquire, waits, its timer fires *)
Definition ex_sched_c : list (nat * bool) := steps 0 3 ++ steps 2 2 ++ [(2, true)].
(* (d) the racy pre-check: closer writes its close frame (not yet marked); the writer's
       beginMessage pre-check still sees no error; closer marks and releases; the writer then
       acquires and is stopped by the check INSIDE the lock *)
Definition ex_sched_d : list (nat * bool) := steps 1 5 ++ steps 0 1 ++ steps 1 2 ++ steps 0 3.
(* (e) on ex_init2: writer writes part 1; Close() closes the transport; writer's part 2 fails
       (fail-stop); the pinger then gets the sticky transport error *)
Definition ex_sched_e : list (nat * bool) := steps 0 5 ++ steps 1 1 ++ steps 0 2 ++ steps 2 4.
