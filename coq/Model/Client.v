(* client.go: what DialContext decides before any network activity, the request header it
   builds, and how it judges the server's reply.  url.Parse, net/http request serialisation and
   response parsing are outside: the model sees the parsed URL pieces and the parsed reply. *)
Require Import WS.Base.Bytes WS.gen.Consts WS.Model.Fold WS.Model.Util WS.Model.Server.

Definition s (l:list N) : bytes := l.

Definition k_host : bytes := [72;111;115;116].
Definition k_upgrade : bytes := [85;112;103;114;97;100;101].
Definition k_connection : bytes := [67;111;110;110;101;99;116;105;111;110].
Definition k_key : bytes := [83;101;99;45;87;101;98;115;111;99;107;101;116;45;75;101;121].                  (* Sec-Websocket-Key *)
Definition k_version : bytes := [83;101;99;45;87;101;98;115;111;99;107;101;116;45;86;101;114;115;105;111;110]. (* Sec-Websocket-Version *)
Definition k_accept : bytes := [83;101;99;45;87;101;98;115;111;99;107;101;116;45;65;99;99;101;112;116].    (* Sec-Websocket-Accept *)
(* spellings the library itself uses when it sets the headers *)
Definition w_key : bytes := [83;101;99;45;87;101;98;83;111;99;107;101;116;45;75;101;121].                  (* Sec-WebSocket-Key *)
Definition w_version : bytes := [83;101;99;45;87;101;98;83;111;99;107;101;116;45;86;101;114;115;105;111;110].
Definition w_protocol : bytes := [83;101;99;45;87;101;98;83;111;99;107;101;116;45;80;114;111;116;111;99;111;108].
Definition w_extensions : bytes := [83;101;99;45;87;101;98;83;111;99;107;101;116;45;69;120;116;101;110;115;105;111;110;115].
Definition v_upgrade_cap : bytes := [85;112;103;114;97;100;101].   (* "Upgrade" as Connection value *)
Definition offer : bytes := permessage_deflate ++ [59;32] ++ server_nct ++ [59;32] ++ client_nct.

(* http.CanonicalHeaderKey for keys made of token octets: first letter and letters after '-'
   upper-cased, the rest lower-cased; a key containing a space or a non-token byte is returned
   unchanged *)
Definition upper (b:N) : N := if (97 <=? b) && (b <=? 122) then b - 32 else b.
Fixpoint canon_go (up:bool) (k:bytes) : bytes :=
  match k with
  | [] => []
  | b :: r => (if up then upper b else ascii_lower b) :: canon_go (b =? 45) r
  end.
Definition canonical_key (k:bytes) : bytes :=
  if forallb is_token_octet k then canon_go true k else k.

Record dialer := {
  d_subprotocols : list bytes;
  d_compression : bool
}.

Inductive scheme := SWs | SWss | SOther.

Inductive prep :=
| PMalformed                       (* errMalformedURL: scheme not ws/wss, or userinfo present *)
| PDuplicate (k:bytes)             (* a protocol-owned header supplied by the caller *)
| PRequest (host:bytes) (hdr:list (bytes * list bytes)).   (* Host to send + header entries *)

Definition join_comma (l:list bytes) : bytes :=
  match l with
  | [] => []
  | x :: r => x ++ flat_map (fun y => [44;32] ++ y) r
  end.

Definition hset (k:bytes) (v:list bytes) (h:list (bytes * list bytes)) : list (bytes * list bytes) :=
  filter (fun p => negb (beq (fst p) k)) h ++ [(k, v)].

Definition forbidden (d:dialer) (ck:bytes) : bool :=
  beq ck k_upgrade || beq ck k_connection || beq ck k_key || beq ck k_version || beq ck k_extensions
  || (beq ck k_protocol && negb (is_nil (d_subprotocols d))).

(* the loop over the caller's requestHeader (a map: order irrelevant, effects commute) *)
Fixpoint add_caller (d:dialer) (caller:list (bytes * list bytes)) (host:bytes) (h:list (bytes * list bytes))
  : option bytes + (bytes * list (bytes * list bytes)) :=
  match caller with
  | [] => inr (host, h)
  | (k, vs) :: r =>
      let ck := canonical_key k in
      if beq ck k_host then add_caller d r (match vs with v :: _ => v | [] => host end) h
      else if forbidden d ck then inl (Some k)
      else if beq ck k_protocol then add_caller d r host (hset w_protocol vs h)
      else add_caller d r host (hset k vs h)
  end.

Definition prepare (d:dialer) (sch:scheme) (has_user:bool) (url_host key:bytes) (caller:list (bytes * list bytes)) : prep :=
  match sch with
  | SOther => PMalformed
  | _ =>
    if has_user then PMalformed else
    let h0 := [(k_upgrade, [str_websocket]); (k_connection, [v_upgrade_cap]); (w_key, [key]); (w_version, [str_13])] in
    let h0 := match d_subprotocols d with [] => h0 | ps => h0 ++ [(w_protocol, [join_comma ps])] end in
    match add_caller d caller url_host h0 with
    | inl (Some k) => PDuplicate k
    | inl None => PMalformed
    | inr (host, h) =>
        PRequest host (if d_compression d then hset w_extensions [offer] h else h)
    end
  end.

(* ---- the reply ---- *)
Record reply := {
  p_status : N;
  p_upgrade : list bytes; p_connection : list bytes;
  p_accept : list bytes;            (* resp.Header["Sec-Websocket-Accept"] *)
  p_extensions : list bytes;
  p_protocol : list bytes;
  p_body_len : N                    (* bytes of body available *)
}.

Inductive verdict :=
| VBadHandshake (body_kept:N)       (* ErrBadHandshake with the response, body cut at 1024 *)
| VInvalidCompression
| VAccepted (compress:bool) (subprotocol:bytes).

Definition validate_reply (key:bytes) (p:reply) : verdict :=
  if negb (p_status p =? 101)
     || negb (token_list_contains_value (p_upgrade p) str_websocket)
     || negb (token_list_contains_value (p_connection p) str_upgrade)
     || negb (beq (first_line (p_accept p)) (compute_accept_key key))
  then VBadHandshake (N.min 1024 (p_body_len p))
  else
    match first_deflate (parse_extensions (p_extensions p)) with
    | Some e =>
        if ext_has server_nct e && ext_has client_nct e
        then VAccepted true (first_line (p_protocol p))
        else VInvalidCompression
    | None => VAccepted false (first_line (p_protocol p))
    end.
