(* conn.go read path: advanceFrame (steps 1-7), NextReader, messageReader.Read, ReadMessage
   (io.ReadAll), SetReadLimit, handlers, the WriteControl replies the reader issues.
   Executable; mirrors the code operation by operation on the observable level. *)
Require Import WS.Base.Bytes WS.gen.Consts WS.Spec.Utf8 WS.Model.Bufio.
From RecordUpdate Require Import RecordSet.
Import RecordSetNotations.

(* ---- errors as the application sees them ---- *)
Inductive rerr :=
| RIoEOF                       (* io.EOF *)
| RClose (code:N) (text:bytes) (* *CloseError; errUnexpectedEOF is RClose 1006 "unexpected EOF" *)
| RTimeout                     (* net.Error with Timeout() *)
| ROther                       (* the transport's own error value *)
| RBufFull                     (* bufio.ErrBufferFull *)
| RProto                       (* error made by handleProtocolError *)
| RReadLimit                   (* ErrReadLimit *)
| RHandler (id:N)              (* error returned by an application handler *)
| RInternal                    (* "internal error, unexpected text or binary in Reader" *)
| RFlate.                      (* error from the flate reader (corrupt / truncated stream) *)

Definition unexpected_eof : rerr := RClose c_errUnexpectedEOFCode c_errUnexpectedEOFText.

Definition of_errk (k:errk) : rerr :=
  match k with EEOF => RIoEOF | ETimeout => RTimeout | EOther => ROther end.
Definition of_berror (e:berror) : rerr :=
  match e with BErr EEOF => unexpected_eof | BErr k => of_errk k | BBufferFull => RBufFull end.
Definition is_io_eof (e:rerr) : bool := match e with RIoEOF => true | _ => false end.

(* what the reader asks the write side to send (WriteControl, now+writeWait) *)
Inductive wback :=
| WPong (p:bytes)
| WCloseEcho (body:bytes)      (* FormatCloseMessage(code, "") *)
| WCloseProto                  (* 1002 + diagnostic text, truncated to 125 *)
| WCloseTooBig.                (* 1009 *)

Inductive hev := HPing (op:nat) (p:bytes) | HPong (op:nat) (p:bytes) | HClose (op:nat) (code:N) (text:bytes).

Record rcfg := {
  server : bool;              (* isServer: expects masked frames *)
  negotiated : bool;          (* newDecompressionReader != nil *)
  custom_handlers : bool;     (* recording handlers installed instead of the defaults *)
  handler_fail : list nat;    (* indices of handler invocations that return an error *)
  caps : list N               (* io.ReadAll's capacity growth schedule (allocator oracle) *)
}.

Record rst := {
  br : bufio; rem : N; rfin : bool; rlen : N; rlimit : N;
  rkey : bytes; mpos : N; rerror : option rerr; errcount : nat;
  rdecomp : bool; cur : option nat; nextid : nat;
  opidx : nat; hcount : nat;
  hlog : list hev; wlog : list wback; closesent : bool; outoffuel : bool }.

#[export] Instance eta_rst : Settable _ :=
  settable! Build_rst <br; rem; rfin; rlen; rlimit; rkey; mpos; rerror; errcount; rdecomp; cur; nextid;
                       opidx; hcount; hlog; wlog; closesent; outoffuel>.

Definition init_rst (b:bufio) : rst :=
  {| br := b; rem := 0; rfin := true; rlen := 0; rlimit := 0; rkey := [0;0;0;0]; mpos := 0;
     rerror := None; errcount := 0; rdecomp := false; cur := None; nextid := 0;
     opidx := 0; hcount := 0; hlog := []; wlog := []; closesent := false; outoffuel := false |}.

(* WriteControl issued from the read goroutine, sequential view: it reaches the wire unless a
   close frame was already written on this connection *)
Definition send (w:wback) (s:rst) : rst :=
  if closesent s then s
  else s <| wlog := wlog s ++ [w] |>
         <| closesent := match w with WPong _ => false | _ => true end |>.

Definition is_valid_received_close_code (c:N) : bool :=
  (existsb (fun p => (fst p =? c) && snd p) c_validReceivedCloseCodes) || ((3000 <=? c) && (c <=? 4999)).

Definition format_close (code:N) : bytes :=
  if code =? c_CloseNoStatusReceived then [] else be_enc 2 code.

Definition rd (n:nat) (s:rst) : bytes * option rerr * rst :=
  let '(p, e, b) := br_peek_discard n (br s) in
  (p, match e with None => None | Some e => Some (of_berror e) end, s <| br := b |>).

Inductive adv := AErr (e:rerr) | AFrame (op:N).

Definition protocol_error (s:rst) : adv * rst := (AErr RProto, send WCloseProto s).

(* the i-th handler invocation fails? *)
Definition handler_result (c:rcfg) (s:rst) : option rerr * rst :=
  let i := hcount s in
  let s := s <| hcount := S i |> in
  if existsb (Nat.eqb i) (handler_fail c) then (Some (RHandler (N.of_nat i)), s) else (None, s).

Definition bit (b m:N) : bool := negb (N.land b m =? 0).

(* advanceFrame step 2: is the frame refused on its first two header bytes?  [fin_seen] is
   c.readFinal before the frame *)
Definition hdr_reject (c:rcfg) (fin_seen:bool) (b0 b1:N) : bool :=
  let op := N.land b0 15 in
  let final := bit b0 c_finalBit in
  let rsv1 := bit b0 c_rsv1Bit in
  let rsv2 := bit b0 c_rsv2Bit in
  let rsv3 := bit b0 c_rsv3Bit in
  let mask := bit b1 c_maskBit in
  let len7 := N.land b1 127 in
  let e1 := rsv1 && negb (negotiated c) in
  let isctl := (op =? c_CloseMessage) || (op =? c_PingMessage) || (op =? c_PongMessage) in
  let isdata := (op =? c_TextMessage) || (op =? c_BinaryMessage) in
  let iscont := op =? c_continuationFrame in
  let e3 := if isctl then (c_maxControlFramePayloadSize <? len7) || negb final
            else if isdata then negb fin_seen
            else if iscont then fin_seen else true in
  let e4 := negb (Bool.eqb mask (server c)) in
  e1 || rsv2 || rsv3 || e3 || e4.

Section WithInflate.
Variable inflate : bytes -> option bytes.

(* advanceFrame steps 2-7 (step 1 is [skip_rest]) *)
Definition advance_after_skip (c:rcfg) (s:rst) : adv * rst :=
  let '(p, e, s) := rd 2 s in
  match e with Some e => (AErr e, s) | None =>
  let b0 := nth 0 p 0 in let b1 := nth 1 p 0 in
  let op := N.land b0 15 in
  let final := bit b0 c_finalBit in
  let rsv1 := bit b0 c_rsv1Bit in
  let rsv2 := bit b0 c_rsv2Bit in
  let rsv3 := bit b0 c_rsv3Bit in
  let mask := bit b1 c_maskBit in
  let len7 := N.land b1 127 in
  let s := s <| rem := len7 |> <| rdecomp := rsv1 && negotiated c |> in
  let isdata := (op =? c_TextMessage) || (op =? c_BinaryMessage) in
  let iscont := op =? c_continuationFrame in
  let reject := hdr_reject c (rfin s) b0 b1 in
  let s := if isdata then s <| rfin := final |> <| rlen := 0 |>
           else if iscont then s <| rfin := final |> else s in
  if reject then protocol_error s else
  (* 3. extended length *)
  let '(lenr, s) :=
     if len7 =? 126 then
       let '(p, e, s) := rd 2 s in
       (match e with Some e => inr e | None => inl (be_dec p) end, s)
     else if len7 =? 127 then
       let '(p, e, s) := rd 8 s in
       match e with
       | Some e => (inr e, s)
       | None => if 2^63 <=? be_dec p then (inr RReadLimit, send WCloseTooBig s) else (inl (be_dec p), s)
       end
     else (inl len7, s) in
  match lenr with inr e => (AErr e, s) | inl len =>
  let s := s <| rem := len |> in
  (* 4. mask key *)
  let '(kr, s) :=
     if mask then
       let s := s <| mpos := 0 |> in
       let '(p, e, s) := rd 4 s in
       match e with Some e => (Some e, s) | None => (None, s <| rkey := p |>) end
     else (None, s) in
  match kr with Some e => (AErr e, s) | None =>
  (* 5. data frames: read limit *)
  if iscont || isdata then
    let rl := rlen s + len in
    let s := s <| rlen := rl |> in
    if 2^63 <=? rl then (AErr RReadLimit, send WCloseTooBig s)
    else if (0 <? rlimit s) && (rlimit s <? rl) then (AErr RReadLimit, send WCloseTooBig s)
    else (AFrame op, s)
  else
  (* 6. control payload *)
  let '(pl, e, s) := if 0 <? len then rd (N.to_nat len) s else ([], None, s) in
  let s := s <| rem := 0 |> in
  match e with Some e => (AErr e, s) | None =>
  let pl := if server c then maskl (rkey s) 0 pl else pl in
  (* 7. handlers *)
  if op =? c_PongMessage then
    if custom_handlers c then
      let s := s <| hlog := hlog s ++ [HPong (opidx s) pl] |> in
      let '(r, s) := handler_result c s in
      match r with Some e => (AErr e, s) | None => (AFrame op, s) end
    else (AFrame op, s)
  else if op =? c_PingMessage then
    if custom_handlers c then
      let s := s <| hlog := hlog s ++ [HPing (opidx s) pl] |> in
      let '(r, s) := handler_result c s in
      match r with Some e => (AErr e, s) | None => (AFrame op, s) end
    else (AFrame op, send (WPong pl) s)
  else
    let has_body := 2 <=? blen pl in
    let code := if has_body then be_dec (firstn 2 pl) else c_CloseNoStatusReceived in
    let text := if has_body then skipn 2 pl else [] in
    if has_body && negb (is_valid_received_close_code code) then protocol_error s
    else if has_body && negb (utf8_valid text) then protocol_error s
    else if custom_handlers c then
      let s := s <| hlog := hlog s ++ [HClose (opidx s) code text] |> in
      let '(r, s) := handler_result c s in
      match r with Some e => (AErr e, s) | None => (AErr (RClose code text), s) end
    else (AErr (RClose code text), send (WCloseEcho (format_close code)) s)
  end end end end.

Definition advance_frame (c:rcfg) (s:rst) : adv * rst :=
  if 0 <? rem s then
    let '(e, b, oof) := copyn_discard (S (length (pending (br s)))) (rem s) (br s) in
    let s := s <| br := b |> in
    let s := if oof then s <| outoffuel := true |> else s in
    match e with
    | Some k => (AErr (of_errk k), s)
    | None => advance_after_skip c s
    end
  else advance_after_skip c s.

Inductive rop :=
| ONext                (* NextReader *)
| ORead (m:nat)        (* Read(p), len(p) = m (m = 0 allowed), on the reader returned by the last NextReader *)
| OReadStale (m:nat)   (* Read on the reader returned by an earlier NextReader *)
| OReadMessage         (* ReadMessage *)
| OSetLimit (l:N).     (* SetReadLimit *)

Inductive rout :=
| RNext (ty:N) (e:option rerr)                (* ty meaningful when e = None *)
| RData (d:bytes) (e:option rerr)
| RMsg (ty:N) (d:bytes) (e:option rerr)
| RUnit
| RPanic.

(* NextReader's loop; fuel = bytes left + 1 (each frame consumes at least two bytes) *)
Fixpoint next_loop (fuel:nat) (c:rcfg) (s:rst) : option N * rst :=
  match rerror s with
  | Some _ => (None, s)
  | None =>
    match fuel with
    | O => (None, s <| outoffuel := true |>)
    | S f =>
      let '(a, s) := advance_frame c s in
      match a with
      | AErr e => (None, s <| rerror := Some e |>)
      | AFrame op =>
        if (op =? c_TextMessage) || (op =? c_BinaryMessage)
        then (Some op, s <| cur := Some (nextid s) |> <| nextid := S (nextid s) |>)
        else next_loop f c s
      end
    end
  end.

Definition fuel_of (s:rst) : nat := S (S (length (pending (br s)))).

Definition next_reader (c:rcfg) (s:rst) : rout * rst :=
  let s := s <| cur := None |> <| rlen := 0 |> in
  let '(r, s) := next_loop (fuel_of s) c s in
  match r with
  | Some op => (RNext op None, s)
  | None =>
    let s := s <| errcount := S (errcount s) |> in
    if Nat.leb 1000 (errcount s) then (RPanic, s)
    else (RNext 0 (rerror s), s)
  end.

(* messageReader.Read(b), len(b) = m, on the current reader.
   m = 0 is allowed and follows the Go code literally: when 0 < readRemaining the slice b[:0] is
   passed to bufio ([br_read 0]: (0, nil), or (0, pending error) when nothing is buffered; the
   transport is not touched), maskBytes on the empty slice returns pos & 3, readRemaining is
   unchanged, c.readErr = err with the io.EOF -> unexpected-EOF mapping; when readRemaining = 0
   the call advances frames / reports io.EOF like any other Read.  See Proofs/ZeroReadP.v. *)
Fixpoint read_loop (fuel:nat) (c:rcfg) (m:nat) (s:rst) : bytes * option rerr * rst :=
  match rerror s with
  | Some e =>
      (* the transport ended inside the message (when the last bytes of the message came together
         with io.EOF, io.EOF is the answer) *)
      ([], Some (if is_io_eof e && match cur s with Some _ => true | None => false end
                    && ((0 <? rem s) || negb (rfin s)) then unexpected_eof else e), s)
  | None =>
    match fuel with
    | O => ([], None, s <| outoffuel := true |>)
    | S f =>
      if 0 <? rem s then
        let sz := N.to_nat (N.min (N.of_nat m) (rem s)) in
        let '(d, e, b) := br_read sz (br s) in
        let s := s <| br := b |> in
        let d' := if server c then maskl (rkey s) (mpos s) d else d in
        let s := if server c then s <| mpos := (mpos s + blen d) mod 4 |> else s in
        let s := s <| rem := rem s - blen d |> in
        let e' := match e with
                  | None => None
                  | Some k => Some (if ((0 <? rem s) || negb (rfin s)) && errk_eqb k EEOF
                                    then unexpected_eof else of_errk k)
                  end in
        (d', e', s <| rerror := e' |>)
      else if rfin s then ([], Some RIoEOF, s <| cur := None |>)
      else
        let '(a, s) := advance_frame c s in
        match a with
        | AErr e => read_loop f c m (s <| rerror := Some e |>)
        | AFrame op =>
          if (op =? c_TextMessage) || (op =? c_BinaryMessage)
          then read_loop f c m (s <| rerror := Some RInternal |>)
          else read_loop f c m s
        end
    end
  end.

Definition reader_read (c:rcfg) (m:nat) (s:rst) : bytes * option rerr * rst :=
  read_loop (fuel_of s) c m s.

(* io.ReadAll over the message reader: read sizes follow the capacity schedule *)
Definition next_cap (caps:list N) (cp:N) : N :=
  match filter (fun x => cp <? x) caps with x :: _ => x | [] => 2 * cp end.

Fixpoint read_all (fuel:nat) (c:rcfg) (len cp:N) (acc:bytes) (s:rst) : bytes * option rerr * rst :=
  match fuel with
  | O => (acc, None, s <| outoffuel := true |>)
  | S f =>
    let '(d, e, s) := reader_read c (N.to_nat (cp - len)) s in
    let acc := acc ++ d in
    let len := len + blen d in
    match e with
    | Some RIoEOF => (acc, None, s)
    | Some e => (acc, Some e, s)
    | None =>
      let cp := if len =? cp then next_cap (caps c) cp else cp in
      read_all f c len cp acc s
    end
  end.

(* all raw bytes of the current message (used for compressed messages, which the flate
   reader pulls in its own block sizes) *)
Fixpoint read_raw (fuel:nat) (c:rcfg) (acc:bytes) (s:rst) : bytes * option rerr * rst :=
  match fuel with
  | O => (acc, None, s <| outoffuel := true |>)
  | S f =>
    let '(d, e, s) := reader_read c 4096 s in
    let acc := acc ++ d in
    match e with
    | Some RIoEOF => (acc, None, s)
    | Some e => (acc, Some e, s)
    | None => read_raw f c acc s
    end
  end.

Definition ws_tail : bytes := [0;0;255;255;1;0;0;255;255].

Definition read_message (c:rcfg) (s:rst) : rout * rst :=
  let '(r, s) := next_reader c s in
  match r with
  | RNext ty None =>
    if rdecomp s then
      let '(raw, e, s) := read_raw (fuel_of s) c [] s in
      match e with
      | Some e => (RMsg ty [] (Some e), s)
      | None => match inflate (raw ++ ws_tail) with
                | Some d => (RMsg ty d None, s)
                | None => (RMsg ty [] (Some RFlate), s)
                end
      end
    else
      let '(d, e, s) := read_all (fuel_of s) c 0 512 [] s in
      (RMsg ty d e, s)
  | RNext ty (Some e) => (RMsg ty [] (Some e), s)
  | other => (other, s)
  end.

Definition rstep (c:rcfg) (s:rst) (o:rop) : rout * rst :=
  let '(r, s) :=
    match o with
    | ONext => next_reader c s
    | ORead m => match cur s with
                 | Some _ => let '(d, e, s) := reader_read c m s in (RData d e, s)
                 | None => (RData [] (Some RIoEOF), s)   (* c.messageReader != r *)
                 end
    | OReadStale _ => (RData [] (Some RIoEOF), s)
    | OReadMessage => read_message c s
    | OSetLimit l => (RUnit, s <| rlimit := l |>)
    end in
  (r, s <| opidx := S (opidx s) |>).

Fixpoint run_ops (c:rcfg) (s:rst) (ops:list rop) : list rout * rst :=
  match ops with
  | [] => ([], s)
  | o :: r => let '(x, s) := rstep c s o in
              match x with
              | RPanic => ([x], s)
              | _ => let '(xs, s) := run_ops c s r in (x :: xs, s)
              end
  end.
End WithInflate.
