(* prepared.go: a PreparedMessage renders its frame once per (role, compress, level) key by
   running WriteMessage on a private connection with the default 4096-byte buffer. *)
Require Import WS.Base.Bytes WS.gen.Consts WS.Model.Writer.
From RecordUpdate Require Import RecordSet.
Import RecordSetNotations.

Record pkey := { pk_server : bool; pk_compress : bool; pk_level : Z }.
Definition pkey_eqb (a b:pkey) : bool :=
  Bool.eqb (pk_server a) (pk_server b) && Bool.eqb (pk_compress a) (pk_compress b) && (pk_level a =? pk_level b)%Z.

Definition pcfg (k:pkey) : wcfg :=
  {| w_server := pk_server k; w_bufsize := c_defaultWriteBufferSize + c_maxFrameHeaderSize;
     w_pooled := false; w_negotiated := pk_compress k |}.

(* keys / wc / cc: mask-key and flate oracles of the private connection *)
Definition render (k:pkey) (ty:N) (data:bytes) (keys:list bytes) (wc cc:list bytes) : option werror * bytes :=
  let c := pcfg k in
  let s0 := (init_wst c keys None) <| level := pk_level k |> in
  let '(e, s) := write_message c ty data [] wc cc s0 in
  (e, wire_of (evs s)).

(* the key WritePreparedMessage asks for on a connection *)
Definition key_for (c:wcfg) (s:wst) (ty:N) : pkey :=
  {| pk_server := w_server c; pk_compress := w_negotiated c && wcomp s && is_data_ty ty; pk_level := level s |}.

Record prepared := { p_ty : N; p_data : bytes; p_cache : list (pkey * bytes) }.

(* NewPreparedMessage: renders the plain server frame; fails if that fails *)
Definition new_prepared (ty:N) (data:bytes) : option werror * prepared :=
  let k := {| pk_server := true; pk_compress := false; pk_level := 0 |} in
  let '(e, fr) := render k ty data [] [] [] in
  (e, {| p_ty := ty; p_data := data; p_cache := [(k, fr)] |}).

Definition lookup (k:pkey) (p:prepared) : option bytes :=
  match find (fun x => pkey_eqb (fst x) k) (p_cache p) with Some (_, fr) => Some fr | None => None end.

Definition frame_for (k:pkey) (p:prepared) (keys:list bytes) (wc cc:list bytes) : bytes * prepared :=
  match lookup k p with
  | Some fr => (fr, p)
  | None => let '(_, fr) := render k (p_ty p) (p_data p) keys wc cc in
            (fr, {| p_ty := p_ty p; p_data := p_data p; p_cache := p_cache p ++ [(k, fr)] |})
  end.
