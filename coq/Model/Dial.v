(* client.go / proxy.go: which dial function makes the first hop and where to, where TLS is run
   and for which name, what the CONNECT request looks like (dial_plan, C18); and the control
   skeleton of a handshake as a language of transport-event traces (C16). *)
Require Import WS.Base.Bytes WS.Model.Util WS.Spec.Base64.

(* ---------------------------------------------------------------- C18: the dial plan *)
Inductive pscheme := PHttp | PHttps | PSocks5 | POtherScheme.
Record proxy := { px_scheme : pscheme; px_host : bytes; px_user : option bytes; px_pass : option bytes }.

Record dcfg := { has_netdial : bool; has_netdialctx : bool; has_netdialtls : bool; server_name : bytes (* TLSClientConfig.ServerName, [] = unset *) }.

Inductive dialfn := FnTLSContext | FnContext | FnNetDial | FnDefault.

Record plan := {
  first_fn : dialfn;                 (* which function makes the first hop *)
  first_addr : bytes;                (* host:port it is asked to dial *)
  first_tls : option bytes;          (* the library runs TLS on the first hop, verifying this name *)
  connect_target : option bytes;     (* CONNECT host:port sent to an HTTP(S) proxy *)
  connect_auth : option bytes;       (* Proxy-Authorization value *)
  tunnel_tls : option bytes;         (* the library runs TLS over the tunnel, verifying this name *)
  via_socks : bool
}.

Definition base_fn (d:dcfg) : dialfn :=
  if has_netdialctx d then FnContext else if has_netdial d then FnNetDial else FnDefault.

Definition name_or (d:dcfg) (host_no_port:bytes) : bytes :=
  match server_name d with [] => host_no_port | n => n end.

Definition basic_auth (u p:bytes) : bytes :=
  [66;97;115;105;99;32] ++ b64_encode (u ++ [58] ++ p).   (* "Basic " + base64(user:pass) *)

(* [wss]: the URL scheme is wss; [host]: the URL's host[:port] *)
Definition dial_plan (d:dcfg) (wss:bool) (host:bytes) (px:option proxy) : plan :=
  let '(backend_hp, backend_h) := host_port_no_port host wss in
  match px with
  | None =>
      (* first hop = the backend itself *)
      if wss then
        if has_netdialtls d
        then {| first_fn := FnTLSContext; first_addr := backend_hp; first_tls := None; connect_target := None;
                connect_auth := None; tunnel_tls := None; via_socks := false |}
        else {| first_fn := base_fn d; first_addr := backend_hp; first_tls := Some (name_or d backend_h);
                connect_target := None; connect_auth := None; tunnel_tls := None; via_socks := false |}
      else {| first_fn := base_fn d; first_addr := backend_hp; first_tls := None; connect_target := None;
              connect_auth := None; tunnel_tls := None; via_socks := false |}
  | Some p =>
      let ptls := match px_scheme p with PHttps => true | _ => false end in
      let '(proxy_hp, proxy_h) := host_port_no_port (px_host p) ptls in
      let tunnel := if wss then Some (name_or d backend_h) else None in
      match px_scheme p with
      | PHttp | PHttps =>
          let auth := match px_user p, px_pass p with
                      | Some u, Some pw => Some (basic_auth u pw)
                      | _, _ => None
                      end in
          if ptls then
            if has_netdialtls d
            then {| first_fn := FnTLSContext; first_addr := proxy_hp; first_tls := None; connect_target := Some backend_hp;
                    connect_auth := auth; tunnel_tls := tunnel; via_socks := false |}
            else {| first_fn := base_fn d; first_addr := proxy_hp; first_tls := Some (name_or d proxy_h);
                    connect_target := Some backend_hp; connect_auth := auth; tunnel_tls := tunnel; via_socks := false |}
          else {| first_fn := base_fn d; first_addr := proxy_hp; first_tls := None; connect_target := Some backend_hp;
                  connect_auth := auth; tunnel_tls := tunnel; via_socks := false |}
      | _ =>
          {| first_fn := base_fn d; first_addr := px_host p; first_tls := None; connect_target := None;
             connect_auth := None; tunnel_tls := tunnel; via_socks := true |}
      end
  end.

(* proxy.go: outcome of the CONNECT exchange given the parsed reply *)
Inductive connect_result := CROk | CRRefused (msg:bytes).
Fixpoint after_first_space (s:bytes) : option bytes :=
  match s with [] => None | b :: r => if b =? 32 then Some r else after_first_space r end.
Definition connect_reply (status_code:N) (status_line:bytes) : connect_result :=
  if status_code =? 200 then CROk
  else CRRefused (match after_first_space status_line with Some r => r | None => status_line end).

(* ---------------------------------------------------------------- C16: handshake traces *)
(* events on one network connection obtained during a handshake *)
Inductive hev :=
| HRead | HWrite
| HSetDL (zero:bool)      (* SetDeadline: zero time or a real deadline *)
| HSetWDL (zero:bool)     (* SetWriteDeadline *)
| HSetRDL (zero:bool)
| HClose
| HFail.                  (* the operation just before this marker failed (fault injected) *)

Definition is_io (e:hev) : bool := match e with HRead | HWrite => true | _ => false end.

(* Client skeleton.  [deadline]: a handshake timeout or context deadline exists.  [early_io]:
   the library's own TLS handshake on the first hop runs before the deadline reaches the
   connection (bounded by the context instead).  A trace is accepted when it has the shape
     io*  [SetDL(D) io*]  ( SetDL(zero)            -- success, connection returned open
                          | fault-cleanup Close )   -- failure, connection closed last
   and after an injected fault nothing but the TLS layer's close-notify attempt
   (SetWriteDeadline / Write) precedes the Close. *)
Inductive cphase := CStart | CArmed | CFaulted | CDoneOk | CZeroFault | CClosing | CClosed | CClosedW.

Definition cstep (deadline early_io:bool) (p:cphase) (e:hev) : option cphase :=
  match p, e with
  | CStart, (HRead | HWrite) => if negb deadline || early_io then Some CStart else None
  | CStart, HSetDL false => if deadline then Some CArmed else None
  | CStart, HSetDL true => Some CDoneOk
  | CArmed, (HRead | HWrite) => Some CArmed
  | CArmed, HSetDL false => Some CArmed               (* deadline armed again (wrapper dialer, then DialContext itself) *)
  | CDoneOk, HSetDL false => Some CArmed              (* a proxy dialer cleared it after its own exchange; re-armed *)
  | CArmed, HSetDL true => Some CDoneOk
  | (CStart | CArmed), HFail => Some CFaulted
  | (CStart | CArmed), HClose => Some CClosed          (* negative reply: closed without a fault *)
  | (CStart | CArmed), HSetWDL _ => Some CClosing      (* ... a TLS layer first tries to send close-notify *)
  | CClosing, (HSetWDL _ | HWrite) => Some CClosing
  | CClosing, HFail => Some CFaulted
  | CClosing, HClose => Some CClosed
  | CFaulted, (HSetWDL _ | HSetDL _ | HWrite | HFail) => Some CFaulted   (* cleanup: close-notify, deadline reset *)
  | CFaulted, HClose => Some CClosed
  | CDoneOk, HFail => Some CZeroFault                  (* a SetDeadline(zero) failed: DialContext's own final one (cleanup
                                                          follows), or the proxy dialer's, which ignores the error ... *)
  | CZeroFault, HSetDL false => Some CArmed            (* ... so that DialContext arms the deadline again and goes on *)
  | CZeroFault, (HSetWDL _ | HSetDL true | HWrite | HFail) => Some CFaulted
  | CZeroFault, HClose => Some CClosed
  | CClosed, HClose => Some CClosed                    (* Close is idempotent for the layers above *)
  | (CClosed | CClosedW), (HWrite | HSetWDL _) => Some CClosedW   (* a TLS layer whose connection was closed under it (context
                                                          expired) still tries to send its alert: it fails, and ... *)
  | CClosedW, HClose => Some CClosed                   (* ... the layer then closes again *)
  | _, _ => None
  end.

Fixpoint crun (deadline early_io:bool) (p:cphase) (tr:list hev) : option cphase :=
  match tr with
  | [] => Some p
  | e :: r => match cstep deadline early_io p e with Some p' => crun deadline early_io p' r | None => None end
  end.

(* [ok]: Dial returned a connection *)
Definition client_trace_accepted (deadline early_io ok:bool) (tr:list hev) : bool :=
  match crun deadline early_io CStart tr with
  | Some CDoneOk => ok
  | Some CClosed => negb ok
  | _ => false
  end.

(* Server skeleton (after hijack).  timeout>0: SetWDL(D) Write SetWDL(zero); else SetDL(zero) Write *)
Inductive sphase := SStart | SArmedW | SWritten | SCleared | SZeroed | SDone | SFaulted | SClosedS.
Definition sstep (timeout:bool) (p:sphase) (e:hev) : option sphase :=
  match p, e with
  | SStart, HSetWDL false => if timeout then Some SArmedW else None
  | SStart, HSetDL true => if timeout then None else Some SZeroed
  | SArmedW, HWrite => Some SWritten
  | SWritten, HSetWDL true => Some SDone
  | SZeroed, HWrite => Some SDone
  | (SStart | SArmedW | SWritten | SZeroed | SDone), HFail => Some SFaulted   (* HFail follows the operation that failed *)
  | SFaulted, HClose => Some SClosedS
  | _, _ => None
  end.
Fixpoint srun (timeout:bool) (p:sphase) (tr:list hev) : option sphase :=
  match tr with
  | [] => Some p
  | e :: r => match sstep timeout p e with Some p' => srun timeout p' r | None => None end
  end.
Definition server_trace_accepted (timeout ok:bool) (tr:list hev) : bool :=
  match srun timeout SStart tr with
  | Some SDone => ok
  | Some SClosedS => negb ok
  | _ => false
  end.

(* ---- the property on a trace (Spec) ---- *)
Fixpoint last_deadline_zero (tr:list hev) (cur:option bool) : option bool :=
  match tr with
  | [] => cur
  | HSetDL z :: r => last_deadline_zero r (Some z)
  | _ :: r => last_deadline_zero r cur
  end.
Definition ends_with_close (tr:list hev) : bool :=
  match last tr HRead with HClose => true | _ => false end.
Definition has_close (tr:list hev) : bool := existsb (fun e => match e with HClose => true | _ => false end) tr.

(* no handshake I/O before the deadline is armed (what follows an injected fault is cleanup) *)
Fixpoint io_before_deadline (tr:list hev) : bool :=
  match tr with
  | [] => false
  | HSetDL false :: _ => false
  | HFail :: _ => false
  | HSetWDL _ :: _ => false     (* the client handshake never sets a write deadline: this starts a TLS layer's shutdown *)
  | HClose :: _ => false        (* what a layer attempts on a closed connection is no handshake I/O *)
  | e :: r => is_io e || io_before_deadline r
  end.

Definition client_cleanup_ok (deadline early_io ok:bool) (tr:list hev) : bool :=
  if ok then negb (has_close tr) && match last_deadline_zero tr None with Some true => true | _ => false end
  else ends_with_close tr.
Definition client_deadline_ok (deadline early_io:bool) (tr:list hev) : bool :=
  negb deadline || early_io || negb (io_before_deadline tr).
