(* server.go: Upgrader.Upgrade up to and including the 101 response; selectSubprotocol;
   the reader it hands to the new connection.  net/http is outside: the request arrives as the
   header multimap net/http built (canonical names), the response leaves as bytes. *)
Require Import WS.Base.Bytes WS.gen.Consts WS.Model.Fold WS.Model.Util WS.Model.Bufio.

Record request := {
  q_method : bytes;
  q_host : bytes;
  q_connection : list bytes;        (* r.Header["Connection"] *)
  q_upgrade : list bytes;           (* r.Header["Upgrade"] *)
  q_version : list bytes;           (* r.Header["Sec-Websocket-Version"] *)
  q_key : list bytes;               (* r.Header["Sec-Websocket-Key"] *)
  q_protocol : list bytes;          (* r.Header["Sec-Websocket-Protocol"] *)
  q_extensions : list bytes;        (* r.Header["Sec-Websocket-Extensions"] *)
  q_origin : list bytes             (* r.Header["Origin"] *)
}.

Inductive origin_policy := OriginDefault | OriginCustom (allow:bool).

Record upgrader := {
  u_subprotocols : option (list bytes);   (* None = nil *)
  u_compression : bool;
  u_origin : origin_policy;
  u_timeout : bool                        (* HandshakeTimeout > 0 *)
}.

(* the application's responseHeader: canonical key, values, in the order the map is iterated *)
Definition rheader := list (bytes * list bytes).

Definition hget (k:bytes) (h:rheader) : bytes :=
  match find (fun p => beq (fst p) k) h with
  | Some (_, v :: _) => v
  | _ => []
  end.
Definition hhas (k:bytes) (h:rheader) : bool := existsb (fun p => beq (fst p) k) h.

Definition str_get : bytes := [71;69;84].
Definition str_upgrade : bytes := [117;112;103;114;97;100;101].
Definition str_websocket : bytes := [119;101;98;115;111;99;107;101;116].
Definition str_13 : bytes := [49;51].
Definition k_protocol : bytes :=      (* "Sec-Websocket-Protocol" *)
  [83;101;99;45;87;101;98;115;111;99;107;101;116;45;80;114;111;116;111;99;111;108].
Definition k_extensions : bytes :=    (* "Sec-Websocket-Extensions" *)
  [83;101;99;45;87;101;98;115;111;99;107;101;116;45;69;120;116;101;110;115;105;111;110;115].

Definition first_line (l:list bytes) : bytes := match l with x :: _ => x | [] => [] end.

(* selectSubprotocol *)
Definition select_subprotocol (u:upgrader) (q:request) (rh:option rheader) : bytes :=
  match u_subprotocols u with
  | Some server =>
      match find (fun cp => existsb (beq cp) server) (subprotocols (first_line (q_protocol q))) with
      | Some p => p
      | None => []
      end
  | None => match rh with Some h => hget k_protocol h | None => [] end
  end.

Inductive outcome :=
| Rejected (status:N) (upgrade_hdr:bool)          (* HTTP error reply, no hijack *)
| HijackFailed                                    (* 500 *)
| Upgraded (response:bytes) (compress:bool) (subprotocol:bytes)
| WriteFailed (response:bytes).                   (* hijacked, response write/deadline failed: conn closed *)

(* header values: bytes <= 31 become spaces *)
Definition scrub (v:bytes) : bytes := map (fun b => if b <=? 31 then 32 else b) v.

Definition crlf : bytes := [13;10].
Definition resp_prefix : bytes :=
  (* "HTTP/1.1 101 Switching Protocols\r\nUpgrade: websocket\r\nConnection: Upgrade\r\nSec-WebSocket-Accept: " *)
  [72;84;84;80;47;49;46;49;32;49;48;49;32;83;119;105;116;99;104;105;110;103;32;80;114;111;116;111;99;111;108;115;13;10;
   85;112;103;114;97;100;101;58;32;119;101;98;115;111;99;107;101;116;13;10;
   67;111;110;110;101;99;116;105;111;110;58;32;85;112;103;114;97;100;101;13;10;
   83;101;99;45;87;101;98;83;111;99;107;101;116;45;65;99;99;101;112;116;58;32].
Definition resp_protocol : bytes :=   (* "Sec-WebSocket-Protocol: " *)
  [83;101;99;45;87;101;98;83;111;99;107;101;116;45;80;114;111;116;111;99;111;108;58;32].
Definition resp_extensions : bytes :=
  (* "Sec-WebSocket-Extensions: permessage-deflate; server_no_context_takeover; client_no_context_takeover\r\n" *)
  [83;101;99;45;87;101;98;83;111;99;107;101;116;45;69;120;116;101;110;115;105;111;110;115;58;32]
  ++ permessage_deflate ++ [59;32] ++ server_nct ++ [59;32] ++ client_nct ++ crlf.

Definition header_lines (rh:rheader) : bytes :=
  flat_map (fun p => if beq (fst p) k_protocol then []
                     else flat_map (fun v => fst p ++ [58;32] ++ scrub v ++ crlf) (snd p)) rh.

Definition response (key sub:bytes) (compress:bool) (rh:rheader) : bytes :=
  resp_prefix ++ compute_accept_key key ++ crlf
  ++ (match sub with [] => [] | _ => resp_protocol ++ scrub sub ++ crlf end)
  ++ (if compress then resp_extensions else [])
  ++ header_lines rh ++ crlf.

Section UrlOracle.
Variable url_host_of : bytes -> option bytes.

Definition origin_ok (u:upgrader) (q:request) : bool :=
  match u_origin u with
  | OriginCustom b => b
  | OriginDefault => check_same_origin url_host_of (q_origin q) (q_host q)
  end.

(* hijack_ok / write_ok: does the hijack succeed, do the deadline call and the write succeed *)
Definition upgrade (u:upgrader) (q:request) (rh:option rheader) (hijack_ok write_ok:bool) : outcome :=
  if negb (token_list_contains_value (q_connection q) str_upgrade) then Rejected 400 false
  else if negb (token_list_contains_value (q_upgrade q) str_websocket) then Rejected 426 true
  else if negb (beq (q_method q) str_get) then Rejected 405 false
  else if negb (token_list_contains_value (q_version q) str_13) then Rejected 400 false
  else if match rh with Some h => hhas k_extensions h | None => false end then Rejected 500 false
  else if negb (origin_ok u q) then Rejected 403 false
  else
    let key := first_line (q_key q) in
    if negb (is_valid_challenge_key key) then Rejected 400 false
    else
      let sub := select_subprotocol u q rh in
      let compress := u_compression u
                      && existsb (fun e => beq (ext_name e) permessage_deflate) (parse_extensions (q_extensions q)) in
      if negb hijack_ok then HijackFailed
      else
        let resp := response key sub compress (match rh with Some h => h | None => [] end) in
        if write_ok then Upgraded resp compress sub else WriteFailed resp.
End UrlOracle.

(* the reader handed to newConn: reuse the hijacked bufio.Reader when ReadBufferSize = 0 and
   its size exceeds 256; otherwise a fresh reader, over brNetConn when bytes were buffered *)
Definition eff_rbuf (rb_req:N) : nat :=
  N.to_nat (if rb_req =? 0 then c_defaultReadBufferSize
            else if rb_req <? c_maxControlFramePayloadSize then c_maxControlFramePayloadSize else rb_req).

Definition upgrade_reader (rb_req hijack_size:N) (buffered:bytes) (sock:script) : bufio :=
  if (rb_req =? 0) && (256 <? hijack_size)
  then mk_bufio (N.to_nat (N.max hijack_size 16)) buffered sock
  else mk_bufio (eff_rbuf rb_req) [] (brnetconn_script buffered sock).
