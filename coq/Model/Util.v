(* util.go: token scanning, tokenListContainsValue, parseExtensions, challenge key checks,
   accept digest.  Executable, mirrors the Go loops (fuel = input length). *)
Require Import WS.Base.Bytes WS.gen.Consts WS.Spec.Base64 WS.Spec.Sha1 WS.Model.Fold.

Definition is_token_octet (b:N) : bool := nth (N.to_nat b) c_isTokenOctet false.

Fixpoint skip_space (s:bytes) : bytes :=
  match s with
  | b :: r => if (b =? 32) || (b =? 9) then skip_space r else s
  | [] => []
  end.

Fixpoint next_token (s:bytes) : bytes * bytes :=
  match s with
  | b :: r => if is_token_octet b then let '(t, rest) := next_token r in (b :: t, rest) else ([], s)
  | [] => ([], [])
  end.

(* the body of a quoted string after a backslash was seen: copy with escapes *)
Fixpoint quoted_esc (escape:bool) (acc:bytes) (s:bytes) : bytes * bytes :=
  match s with
  | [] => ([], [])
  | b :: r =>
      if escape then quoted_esc false (acc ++ [b]) r
      else if b =? 92 then quoted_esc true acc r
      else if b =? 34 then (acc, r)
      else quoted_esc false (acc ++ [b]) r
  end.
Fixpoint quoted_plain (acc:bytes) (s:bytes) : bytes * bytes :=
  match s with
  | [] => ([], [])
  | b :: r =>
      if b =? 34 then (acc, r)
      else if b =? 92 then quoted_esc true acc r
      else quoted_plain (acc ++ [b]) r
  end.
Definition next_token_or_quoted (s:bytes) : bytes * bytes :=
  match s with
  | 34 :: r => quoted_plain [] r
  | _ => next_token s
  end.

Definition is_nil {A} (l:list A) : bool := match l with [] => true | _ => false end.
Definition starts_with (c:N) (s:bytes) : bool := match s with b :: _ => b =? c | [] => false end.

(* one header line of a 1#token list; None = keep looking in the next line *)
Fixpoint line_contains (fuel:nat) (s value:bytes) : bool :=
  match fuel with
  | O => false
  | S f =>
    let '(t, s) := next_token (skip_space s) in
    if is_nil t then false else
    let s := skip_space s in
    if negb (is_nil s) && negb (starts_with 44 s) then false
    else if equal_ascii_fold t value then true
    else match s with [] => false | _ :: r => line_contains f r value end
  end.

Definition token_list_contains_value (lines:list bytes) (value:bytes) : bool :=
  existsb (fun s => line_contains (S (length s)) s value) lines.

(* ---- parseExtensions ---- *)
Definition ext := list (bytes * bytes).     (* name under key []; later entries override earlier ones *)
Definition ext_name (e:ext) : bytes := match e with (_, n) :: _ => n | [] => [] end.
Definition ext_has (k:bytes) (e:ext) : bool := existsb (fun p => beq (fst p) k) e.

(* parameters of one extension; returns None when the header line is abandoned *)
Fixpoint ext_params (fuel:nat) (e:ext) (s:bytes) : option (ext * bytes) :=
  match fuel with
  | O => None
  | S f =>
    let s := skip_space s in
    if negb (starts_with 59 s) then Some (e, s) else
    let '(k, s) := next_token (skip_space (tl s)) in
    if is_nil k then None else
    let s := skip_space s in
    let '(v, s) := if starts_with 61 s
                   then let '(v, s') := next_token_or_quoted (skip_space (tl s)) in (v, skip_space s')
                   else ([], s) in
    if negb (is_nil s) && negb (starts_with 44 s) && negb (starts_with 59 s) then None
    else ext_params f (e ++ [(k, v)]) s
  end.

Fixpoint ext_line (fuel:nat) (s:bytes) (acc:list ext) : list ext :=
  match fuel with
  | O => acc
  | S f =>
    let '(t, s) := next_token (skip_space s) in
    if is_nil t then acc else
    match ext_params (S (length s)) [([], t)] s with
    | None => acc
    | Some (e, s) =>
      if negb (is_nil s) && negb (starts_with 44 s) then acc
      else match s with
           | [] => acc ++ [e]
           | _ :: r => ext_line f r (acc ++ [e])
           end
    end
  end.

Definition parse_extensions (lines:list bytes) : list ext :=
  fold_left (fun acc s => ext_line (S (length s)) s acc) lines [].

Definition permessage_deflate : bytes :=
  [112;101;114;109;101;115;115;97;103;101;45;100;101;102;108;97;116;101].
Definition server_nct : bytes := [115;101;114;118;101;114;95;110;111;95;99;111;110;116;101;120;116;95;116;97;107;101;111;118;101;114].
Definition client_nct : bytes := [99;108;105;101;110;116;95;110;111;95;99;111;110;116;101;120;116;95;116;97;107;101;111;118;101;114].

Definition first_deflate (es:list ext) : option ext :=
  find (fun e => beq (ext_name e) permessage_deflate) es.

(* ---- challenge key / accept ---- *)
Definition is_valid_challenge_key (s:bytes) : bool :=
  match s with
  | [] => false
  | _ => match b64_decode s with Some d => Nat.eqb (length d) 16 | None => false end
  end.

Definition compute_accept_key (k:bytes) : bytes := b64_encode (sha1 (k ++ c_keyGUID)).

(* strings.TrimSpace: ASCII white space and the Unicode White_Space code points in UTF-8 *)
Definition ascii_space (b:N) : bool := (b =? 32) || ((9 <=? b) && (b <=? 13)).
Fixpoint trim_left (fuel:nat) (s:bytes) : bytes :=
  match fuel with O => s | S f =>
  match s with
  | b :: r => if ascii_space b then trim_left f r
              else match s with
                   | 194 :: 133 :: r' | 194 :: 160 :: r' => trim_left f r'
                   | 225 :: 154 :: 128 :: r' => trim_left f r'
                   | 226 :: 128 :: x :: r' => if ((128 <=? x) && (x <=? 138)) || (x =? 168) || (x =? 169) || (x =? 175) then trim_left f r' else s
                   | 226 :: 129 :: 159 :: r' => trim_left f r'
                   | 227 :: 128 :: 128 :: r' => trim_left f r'
                   | _ => s
                   end
  | [] => []
  end end.
(* trailing: work on the reversed string; multi-byte sequences appear reversed *)
Fixpoint trim_right_rev (fuel:nat) (s:bytes) : bytes :=
  match fuel with O => s | S f =>
  match s with
  | b :: r => if ascii_space b then trim_right_rev f r
              else match s with
                   | 133 :: 194 :: r' | 160 :: 194 :: r' => trim_right_rev f r'
                   | 128 :: 154 :: 225 :: r' => trim_right_rev f r'
                   | x :: 128 :: 226 :: r' => if ((128 <=? x) && (x <=? 138)) || (x =? 168) || (x =? 169) || (x =? 175) then trim_right_rev f r' else s
                   | 159 :: 129 :: 226 :: r' => trim_right_rev f r'
                   | 128 :: 128 :: 227 :: r' => trim_right_rev f r'
                   | _ => s
                   end
  | [] => []
  end end.
Definition trim_space (s:bytes) : bytes :=
  let l := trim_left (S (length s)) s in
  rev (trim_right_rev (S (length l)) (rev l)).

Fixpoint split_comma (cur:bytes) (s:bytes) : list bytes :=
  match s with
  | [] => [cur]
  | b :: r => if b =? 44 then cur :: split_comma [] r else split_comma (cur ++ [b]) r
  end.

(* server.go Subprotocols(r) on the first Sec-Websocket-Protocol line *)
Definition subprotocols (h:bytes) : list bytes :=
  let h := trim_space h in
  match h with [] => [] | _ => map trim_space (split_comma [] h) end.

(* client.go hostPortNoPort: [scheme_tls] = scheme is wss or https *)
Fixpoint last_index (c:N) (s:bytes) (i:nat) (best:option nat) : option nat :=
  match s with [] => best | b :: r => last_index c r (S i) (if b =? c then Some i else best) end.
Definition host_port_no_port (host:bytes) (tls:bool) : bytes * bytes :=
  let colon := last_index 58 host 0 None in
  let brack := last_index 93 host 0 None in
  let has_port := match colon, brack with
                  | Some i, Some j => Nat.ltb j i
                  | Some _, None => true
                  | None, _ => false
                  end in
  if has_port then (host, firstn (match colon with Some i => i | None => 0 end) host)
  else (host ++ (if tls then [58;52;52;51] else [58;56;48]), host).
