(* The transport read script and bufio.Reader exactly as conn.go uses it:
   Peek(n)+Discard (c.read), Read(p) (messageReader.Read), io.CopyN(io.Discard, br, n). *)
Require Import WS.Base.Bytes.

Inductive errk := EEOF | ETimeout | EOther.
Definition errk_eqb (a b:errk) : bool :=
  match a, b with EEOF, EEOF | ETimeout, ETimeout | EOther, EOther => true | _, _ => false end.

(* successive transport Reads return the chunks in order (a chunk longer than the request is
   split); after the last chunk every Read returns the fault; when [glued] the fault is also
   returned together with the last bytes *)
Record script := { chunks : list bytes; fault : errk; glued : bool }.

Definition stream_of (s:script) : bytes := concat (chunks s).
Definition wf_script (s:script) : Prop := Forall (fun c => c <> []) (chunks s).

(* one transport Read with request size m > 0 *)
Definition tread (s:script) (m:nat) : bytes * option errk * script :=
  match chunks s with
  | [] => ([], Some (fault s), s)
  | c :: cs =>
     if Nat.leb (length c) m then
        match cs with
        | [] => if glued s then (c, Some (fault s), {| chunks := []; fault := fault s; glued := false |})
                else (c, None, {| chunks := []; fault := fault s; glued := false |})
        | _ => (c, None, {| chunks := cs; fault := fault s; glued := glued s |})
        end
     else (firstn m c, None, {| chunks := skipn m c :: cs; fault := fault s; glued := glued s |})
  end.

Record bufio := { bsize : nat; bbuf : bytes; berr : option errk; src : script }.

Definition pending (b:bufio) : bytes := bbuf b ++ stream_of (src b).

Definition mk_bufio (size:nat) (initial:bytes) (s:script) : bufio :=
  {| bsize := size; bbuf := initial; berr := None; src := s |}.

(* bufio Reader.fill with a source that never returns (0, nil) *)
Definition fill (b:bufio) : bufio :=
  let '(d, e, s') := tread (src b) (bsize b - length (bbuf b)) in
  {| bsize := bsize b; bbuf := bbuf b ++ d; berr := e; src := s' |}.

Fixpoint peek_loop (fuel:nat) (n:nat) (b:bufio) : bufio :=
  match fuel with
  | O => b
  | S f => if (Nat.ltb (length (bbuf b)) n && Nat.ltb (length (bbuf b)) (bsize b)
               && match berr b with None => true | _ => false end)%bool
           then peek_loop f n (fill b) else b
  end.

Inductive berror := BErr (k:errk) | BBufferFull.

(* c.read(n): p, err := br.Peek(n); br.Discard(len(p)) *)
Definition br_peek_discard (n:nat) (b:bufio) : bytes * option berror * bufio :=
  let b1 := peek_loop (S n) n b in
  if Nat.ltb (bsize b1) n then
    (bbuf b1, Some BBufferFull, {| bsize := bsize b1; bbuf := []; berr := berr b1; src := src b1 |})
  else if Nat.leb n (length (bbuf b1)) then
    (firstn n (bbuf b1), None, {| bsize := bsize b1; bbuf := skipn n (bbuf b1); berr := berr b1; src := src b1 |})
  else
    (bbuf b1, Some (match berr b1 with Some k => BErr k | None => BBufferFull end),
     {| bsize := bsize b1; bbuf := []; berr := None; src := src b1 |}).

(* br.Read(p) with len(p) = m > 0 *)
Definition br_read_nz (m:nat) (b:bufio) : bytes * option errk * bufio :=
  match bbuf b with
  | [] =>
    match berr b with
    | Some k => ([], Some k, {| bsize := bsize b; bbuf := []; berr := None; src := src b |})
    | None =>
      if Nat.leb (bsize b) m then
        (* large read, empty buffer: read directly into p *)
        let '(d, e, s') := tread (src b) m in
        (d, e, {| bsize := bsize b; bbuf := []; berr := None; src := s' |})
      else
        let '(d, e, s') := tread (src b) (bsize b) in
        match d with
        | [] => ([], e, {| bsize := bsize b; bbuf := []; berr := None; src := s' |})
        | _ => (firstn m d, None, {| bsize := bsize b; bbuf := skipn m d; berr := e; src := s' |})
        end
    end
  | _ => (firstn m (bbuf b), None, {| bsize := bsize b; bbuf := skipn m (bbuf b); berr := berr b; src := src b |})
  end.

(* br.Read(p) with len(p) = m.  A zero-length read never touches the transport:
     n = len(p); if n == 0 { if b.Buffered() > 0 { return 0, nil }; return 0, b.readErr() }
   (readErr returns the pending error, if any, and clears it) *)
Definition br_read (m:nat) (b:bufio) : bytes * option errk * bufio :=
  match m with
  | O =>
    match bbuf b with
    | [] => ([], berr b, {| bsize := bsize b; bbuf := []; berr := None; src := src b |})
    | _ => ([], None, b)
    end
  | S _ => br_read_nz m b
  end.

Lemma br_read_pos m b : (0 < m)%nat -> br_read m b = br_read_nz m b.
Proof. destruct m as [|m]; [intros H; inversion H|reflexivity]. Qed.

(* io.CopyN(io.Discard, br, n): Discard's ReadFrom loops br.Read on a LimitedReader with an
   8192-byte buffer.  Result: None = nil error; Some e = error (EEOF = io.EOF when short). *)
Definition discard_buf : N := 8192.
Fixpoint copyn_discard (fuel:nat) (n:N) (b:bufio) : option errk * bufio * bool (* out of fuel *) :=
  match fuel with
  | O => (None, b, true)
  | S f =>
    if n =? 0 then (None, b, false) else
    let m := N.to_nat (N.min n discard_buf) in
    let '(d, e, b') := br_read m b in
    let n' := n - blen d in
    match e with
    | Some k => if n' =? 0 then (None, b', false) else (Some k, b', false)
    | None => copyn_discard f n' b'
    end
  end.

(* server.go brNetConn over a hijacked reader with buffered data: serve the buffered bytes
   first (never more than are buffered), then the socket.  As a script: *)
Definition brnetconn_script (buffered:bytes) (socket:script) : script :=
  match buffered with
  | [] => socket
  | _ => {| chunks := buffered :: chunks socket; fault := fault socket; glued := glued socket |}
  end.
