(* conn.go write path: beginMessage, NextWriter, messageWriter (ncopy / Write / WriteString /
   ReadFrom / Close / flushFrame / endMessage), WriteMessage (incl. the server fast path),
   WriteControl, write / writeFatal, SetWriteDeadline, the buffer pool; compression.go:
   truncWriter and flateWriteWrapper; prepared.go.  Executable; sequential view (one goroutine);
   the concurrent view is Model/Conc.v. *)
Require Import WS.Base.Bytes WS.gen.Consts.
From RecordUpdate Require Import RecordSet.
Import RecordSetNotations.

Inductive werror :=
| WCloseSent | WWriteClosed | WBadOpCode | WInvalidControl | WWriteTimeout
| WTransport (timeout:bool)      (* the transport's own error *)
| WInternal | WBadLevel | WFlateTail.

Definition werror_eqb (a b:werror) : bool :=
  match a, b with
  | WCloseSent, WCloseSent | WWriteClosed, WWriteClosed | WBadOpCode, WBadOpCode
  | WInvalidControl, WInvalidControl | WWriteTimeout, WWriteTimeout | WInternal, WInternal
  | WBadLevel, WBadLevel | WFlateTail, WFlateTail => true
  | WTransport x, WTransport y => Bool.eqb x y
  | _, _ => false
  end.

(* transport and pool events, in program order *)
Inductive tev :=
| TSetDL (d:N)                 (* SetWriteDeadline(d) succeeded; d is a deadline identity, 0 = zero time *)
| TSetDLFail (d:N)
| TWrite (b:bytes)             (* Write(b) succeeded *)
| TWriteFail (b:bytes)         (* Write failed after accepting the prefix b *)
| TGet | TPut.                 (* BufferPool.Get / Put *)

Inductive fkind := FError | FTimeout | FShort (n:N).

Record wcfg := {
  w_server : bool;
  w_bufsize : N;               (* len(c.writeBuf) = user size (0 -> default) + maxFrameHeaderSize *)
  w_pooled : bool;
  w_negotiated : bool          (* newCompressionWriter != nil *)
}.

(* newConn: 0 means the default size; anything smaller than a control payload is raised to 125
   so that a valid control message always fits one frame; plus room for the largest header *)
Definition eff_wbuf (user:N) : N :=
  (if user =? 0 then c_defaultWriteBufferSize
   else if user <? c_maxControlFramePayloadSize then c_maxControlFramePayloadSize else user) + c_maxFrameHeaderSize.

Record mwr := { m_id : nat; m_buf : bytes; m_ftype : N; m_compress : bool; m_err : option werror }.
#[export] Instance eta_mwr : Settable _ := settable! Build_mwr <m_id; m_buf; m_ftype; m_compress; m_err>.

Record flst := { f_id : nat; f_open : bool; f_tw : bytes (* truncWriter.p[:n] *); f_err : option werror }.
#[export] Instance eta_flst : Settable _ := settable! Build_flst <f_id; f_open; f_tw; f_err>.

Record wst := {
  held : bool;                     (* c.writeBuf != nil *)
  cur : option mwr;                (* c.writer's messageWriter, while c.writer != nil *)
  cur_flate : bool;                (* c.writer is a flateWriteWrapper *)
  fl : option flst;                (* the flate wrapper most recently handed out *)
  ended : list (nat * werror);     (* w.err of message writers that have ended *)
  app : option nat;                (* the handle the application holds (last successful NextWriter) *)
  app_flate : bool;
  werr : option werror;            (* c.writeErr *)
  deadline : N;                    (* c.writeDeadline *)
  wcomp : bool; level : Z;         (* enableWriteCompression, compressionLevel *)
  revs : list tev;                 (* events, most recent first (see [evs]) *)
  keys : list bytes;               (* mask key oracle: what maskRand yields next *)
  tops : nat;                      (* transport operations performed *)
  fail_at : option (nat * fkind);  (* fault plan *)
  nextid : nat;
  oracle_short : bool              (* an oracle ran out (harness/model bug) *)
}.
#[export] Instance eta_wst : Settable _ :=
  settable! Build_wst <held; cur; cur_flate; fl; ended; app; app_flate; werr; deadline; wcomp; level; revs; keys;
                       tops; fail_at; nextid; oracle_short>.

Definition init_wst (c:wcfg) (ks:list bytes) (fa:option (nat * fkind)) : wst :=
  {| held := negb (w_pooled c); cur := None; cur_flate := false; fl := None; ended := []; app := None; app_flate := false;
     werr := None; deadline := 0; wcomp := true; level := c_defaultCompressionLevel; revs := []; keys := ks;
     tops := 0; fail_at := fa; nextid := 0; oracle_short := false |}.

Definition is_control_ty (t:N) : bool := (t =? c_CloseMessage) || (t =? c_PingMessage) || (t =? c_PongMessage).
Definition is_data_ty (t:N) : bool := (t =? c_TextMessage) || (t =? c_BinaryMessage).

Definition write_fatal (e:werror) (s:wst) : wst :=
  match werr s with None => s <| werr := Some e |> | Some _ => s end.

(* transport and pool events in program order *)
Definition evs (s:wst) : list tev := rev' (revs s).

Definition log (e:tev) (s:wst) : wst := s <| revs := e :: revs s |>.

(* does the next transport operation fail? *)
Definition next_fault (s:wst) : option fkind * wst :=
  let i := tops s in
  let s := s <| tops := S i |> in
  match fail_at s with
  | Some (k, f) => if Nat.eqb k i then (Some f, s) else (None, s)
  | None => (None, s)
  end.

Definition fk_err (f:fkind) : werror := match f with FTimeout => WTransport true | _ => WTransport false end.

Definition t_setdl (d:N) (s:wst) : option werror * wst :=
  let '(f, s) := next_fault s in
  match f with
  | Some f => (Some (fk_err f), log (TSetDLFail d) s)
  | None => (None, log (TSetDL d) s)
  end.
Definition t_write (b:bytes) (s:wst) : option werror * wst :=
  let '(f, s) := next_fault s in
  match f with
  | Some (FShort n) =>
      let n := N.min n (blen b) in
      let n := if (n =? blen b) && (0 <? n) then n - 1 else n in
      (Some (WTransport false), log (TWriteFail (takeN n b)) s)
  | Some f => (Some (fk_err f), log (TWriteFail []) s)
  | None => (None, log (TWrite b) s)
  end.

Definition pop_key (s:wst) : bytes * wst :=
  match keys s with
  | k :: r => (k, s <| keys := r |>)
  | [] => ([0;0;0;0], s <| oracle_short := true |>)
  end.

(* The mask key oracle lists the keys of the frames that reach the transport (attempted
   writes included), in order; a key drawn for a frame that is never handed to the transport
   is unobservable and is not part of the oracle.  [mk] builds the buffer from the key. *)
Definition keyed_write (masked:bool) (mk:bytes -> bytes) (s:wst) : option werror * wst :=
  let '(key, s) := if masked then pop_key s else ([], s) in
  t_write (mk key) s.

(* Conn.write, lock always free in the sequential view *)
Definition conn_write (ftype:N) (dl:N) (masked:bool) (mk:bytes -> bytes) (buf1:bytes) (s:wst) : option werror * wst :=
  match werr s with
  | Some e => (Some e, s)
  | None =>
    let '(e, s) := t_setdl dl s in
    match e with Some e => (Some e, write_fatal e s) | None =>
    let '(e, s) := keyed_write masked mk s in
    match e with Some e => (Some e, write_fatal e s) | None =>
    let '(e, s) := match buf1 with [] => (None, s) | _ => t_write buf1 s end in
    match e with Some e => (Some e, write_fatal e s) | None =>
      (None, if ftype =? c_CloseMessage then write_fatal WCloseSent s else s)
    end end end
  end.

Definition frame_header (b0 m len:N) : bytes :=
  if 65536 <=? len then [b0; m + 127] ++ be_enc 8 len
  else if 125 <? len then [b0; m + 126] ++ be_enc 2 len
  else [b0; m + len].

Definition control_frame (server:bool) (ty:N) (key data:bytes) : bytes :=
  if server then [ty + c_finalBit; blen data] ++ data
  else [ty + c_finalBit; blen data + c_maskBit] ++ key ++ maskl key 0 data.

(* WriteControl; [dl]: 0 = zero time (no timeout), 1 = already past, >= 2 = a future deadline *)
Definition write_control (c:wcfg) (ty:N) (data:bytes) (dl:N) (s:wst) : option werror * wst :=
  if negb (is_control_ty ty) then (Some WBadOpCode, s)
  else if c_maxControlFramePayloadSize <? blen data then (Some WInvalidControl, s)
  else
    if dl =? 1 then (Some WWriteTimeout, s) else
    match werr s with
    | Some e => (Some e, s)
    | None =>
      let '(e, s) := t_setdl dl s in
      match e with Some e => (Some e, write_fatal e s) | None =>
      let '(e, s) := keyed_write (negb (w_server c)) (fun key => control_frame (w_server c) ty key data) s in
      match e with Some e => (Some e, write_fatal e s) | None =>
        (None, if ty =? c_CloseMessage then write_fatal WCloseSent s else s)
      end end
    end.

(* endMessage on the current message writer *)
Definition end_message (c:wcfg) (e:werror) (m:mwr) (s:wst) : wst :=
  match m_err m with
  | Some _ => s
  | None =>
    let s := s <| cur := None |> <| cur_flate := false |> <| ended := (m_id m, e) :: ended s |> in
    if w_pooled c then log TPut (s <| held := false |>) else s
  end.

(* flushFrame(final, extra): returns the error (None = nil) *)
Definition flush_frame (c:wcfg) (final:bool) (extra:bytes) (m:mwr) (s:wst) : option werror * wst :=
  let len := blen (m_buf m) + blen extra in
  if is_control_ty (m_ftype m) && (negb final || (c_maxControlFramePayloadSize <? len))
  then (Some WInvalidControl, end_message c WInvalidControl m s)
  else
    let b0 := m_ftype m + (if final then c_finalBit else 0) + (if m_compress m then c_rsv1Bit else 0) in
    let m := m <| m_compress := false |> in
    let s := s <| cur := Some m |> in
    if w_server c then
      let hdr := frame_header b0 0 len in
      let '(e, s) := conn_write (m_ftype m) (deadline s) false (fun _ => hdr ++ m_buf m) extra s in
      match e with
      | Some e => (Some e, end_message c e m s)
      | None =>
        if final then (None, end_message c WWriteClosed m s)
        else (None, s <| cur := Some (m <| m_buf := [] |> <| m_ftype := c_continuationFrame |>) |>)
      end
    else
      match extra with
      | _ :: _ => (Some WInternal, end_message c WInternal m (write_fatal WInternal s))
      | [] =>
        let hdr := frame_header b0 c_maskBit len in
        let '(e, s) := conn_write (m_ftype m) (deadline s) true (fun key => hdr ++ key ++ maskl key 0 (m_buf m)) [] s in
        match e with
        | Some e => (Some e, end_message c e m s)
        | None =>
          if final then (None, end_message c WWriteClosed m s)
          else (None, s <| cur := Some (m <| m_buf := [] |> <| m_ftype := c_continuationFrame |>) |>)
        end
      end.

Definition cap (c:wcfg) : N := w_bufsize c - c_maxFrameHeaderSize.

(* the copy loop shared by Write and WriteString: fuel = number of buffer fills possible *)
Fixpoint copy_loop (fuel:nat) (c:wcfg) (p:bytes) (s:wst) : option werror * wst :=
  match p with
  | [] => (None, s)
  | _ =>
    match fuel with
    | O => (None, s <| oracle_short := true |>)
    | S f =>
      match cur s with
      | None => (Some WWriteClosed, s)
      | Some m =>
        let room := cap c - blen (m_buf m) in
        if room =? 0 then
          let '(e, s) := flush_frame c false [] m s in
          match e with
          | Some e => (Some e, s)
          | None => copy_loop f c p s
          end
        else
          let n := N.min room (blen p) in
          let s := s <| cur := Some (m <| m_buf := m_buf m ++ takeN n p |>) |> in
          copy_loop f c (dropN n p) s
      end
    end
  end.

Definition loop_fuel (c:wcfg) (p:bytes) : nat := 2 * (length p) + 4.

(* messageWriter.Write(p) on the current writer *)
Definition mw_write (c:wcfg) (p:bytes) (s:wst) : option werror * wst :=
  match cur s with
  | None => (Some WWriteClosed, s)
  | Some m =>
    if (2 * w_bufsize c <? blen p) && w_server c then
      flush_frame c false p m s
    else copy_loop (loop_fuel c p) c p s
  end.
Definition mw_write_string (c:wcfg) (p:bytes) (s:wst) : option werror * wst :=
  match cur s with
  | None => (Some WWriteClosed, s)
  | Some _ => copy_loop (loop_fuel c p) c p s
  end.

(* w.c.writeBuf[w.pos] = b; w.pos++ on the current message writer *)
Definition put_byte (b:N) (s:wst) : wst :=
  match cur s with
  | Some m => s <| cur := Some (m <| m_buf := m_buf m ++ [b] |>) |>
  | None => s
  end.

(* messageWriter.ReadFrom(r): r yields the chunks (each Read returns min(chunk, room)) then io.EOF;
   when the buffer is full the Read is a one-byte lookahead (a chunk is consumed piecewise) *)
Fixpoint read_from (fuel:nat) (c:wcfg) (chunks:list bytes) (s:wst) : option werror * wst :=
  match fuel with
  | O => (None, s <| oracle_short := true |>)
  | S f =>
    match cur s with
    | None => (Some WWriteClosed, s)
    | Some m =>
      let room := cap c - blen (m_buf m) in
      if room =? 0 then
        (* the buffer is full: one byte of lookahead is read from the source; the full buffer
           is flushed (as a non-final frame) only when a byte arrives, which then starts the
           fresh buffer; if the source ends instead, nothing is flushed *)
        match chunks with
        | [] => (None, s)                               (* Read = (0, io.EOF) *)
        | [] :: rest =>
          match rest with
          | [] => (None, s)                             (* Read = (0, io.EOF) *)
          | _ => read_from f c rest s                   (* Read = (0, nil): loop *)
          end
        | (b :: ch') :: rest =>
          let '(e, s) := flush_frame c false [] m s in
          match e with
          | Some e => (Some e, s)                       (* the lookahead byte is lost *)
          | None =>
            let s := put_byte b s in
            match ch', rest with
            | [], [] => (None, s)
            | [], _ => read_from f c rest s
            | _, _ => read_from f c (ch' :: rest) s
            end
          end
        end
      else
        match chunks with
        | [] => (None, s)
        | ch :: rest =>
          let n := N.min room (blen ch) in
          let s := s <| cur := Some (m <| m_buf := m_buf m ++ takeN n ch |>) |> in
          let rem := dropN n ch in
          (* one chunk = what one Read of the source returns (at most [room] bytes of it at a
             time); the source reports io.EOF together with its last chunk (which may be empty:
             a source that reports EOF separately), and then the loop ends at once *)
          match rem, rest with
          | [], [] => (None, s)
          | [], _ => read_from f c rest s
          | _, _ => read_from f c (rem :: rest) s
          end
        end
    end
  end.

Definition mw_close (c:wcfg) (s:wst) : option werror * wst :=
  match cur s with
  | None => (Some WWriteClosed, s)
  | Some m => flush_frame c true [] m s
  end.

(* error a handle reports once its message writer has ended *)
Definition ended_err (id:nat) (s:wst) : werror :=
  match find (fun x => Nat.eqb (fst x) id) (ended s) with Some (_, e) => e | None => WWriteClosed end.

Definition is_cur (id:nat) (s:wst) : bool :=
  match cur s with Some m => Nat.eqb (m_id m) id | None => false end.

(* ---- compression.go ---- *)
(* truncWriter.Write(p): keeps the last four bytes back *)
Definition trunc_write (c:wcfg) (p:bytes) (f:flst) (s:wst) : option werror * flst * wst :=
  let n0 := N.min (4 - blen (f_tw f)) (blen p) in
  let tw := f_tw f ++ takeN n0 p in
  let p := dropN n0 p in
  match p with
  | [] => (None, f <| f_tw := tw |>, s)
  | _ =>
    let m := N.min (blen p) 4 in
    let '(e, s) := mw_write c (takeN m tw) s in
    match e with
    | Some e => (Some e, f <| f_tw := tw |>, s)
    | None =>
      let keep := blen p - m in
      let tw' := dropN m tw ++ dropN keep p in
      let '(e, s) := mw_write c (takeN keep p) s in
      (e, f <| f_tw := tw' |>, s)
    end
  end.

(* flate.Writer emitting chunks into the truncWriter; stops at the first error *)
Fixpoint flate_emit (c:wcfg) (chunks:list bytes) (f:flst) (s:wst) : flst * wst :=
  match chunks with
  | [] => (f, s)
  | ch :: rest =>
    match f_err f with
    | Some _ => (f, s)
    | None =>
      let '(e, f, s) := trunc_write c ch f s in
      match e with
      | Some e => (f <| f_err := Some e |>, s)
      | None => flate_emit c rest f s
      end
    end
  end.

(* [chunks]: what flate.Writer hands to the truncWriter during this call (oracle) *)
Definition flate_write (c:wcfg) (chunks:list bytes) (f:flst) (s:wst) : option werror * wst :=
  if negb (f_open f) then (Some WWriteClosed, s) else
  let '(f, s) := flate_emit c chunks f s in
  (f_err f, s <| fl := Some f |>).

Definition flate_close (c:wcfg) (chunks:list bytes) (f:flst) (s:wst) : option werror * wst :=
  if negb (f_open f) then (Some WWriteClosed, s) else
  let '(f, s) := flate_emit c chunks f s in
  let err1 := f_err f in
  let f := f <| f_open := false |> in
  let s := s <| fl := Some f |> in
  if negb (beq (f_tw f) [0;0;255;255]) then (Some WFlateTail, s)
  else
    let '(err2, s) :=
      if is_cur (f_id f) s then mw_close c s else (Some (ended_err (f_id f) s), s) in
    (match err1 with Some e => Some e | None => err2 end, s).

(* ---- beginMessage / NextWriter / WriteMessage ---- *)
Definition close_current (c:wcfg) (ic:list bytes) (s:wst) : wst :=
  match cur s with
  | None => s
  | Some m =>
    let s := if cur_flate s
             then match fl s with Some f => snd (flate_close c ic f s) | None => s end
             else snd (mw_close c s) in
    s <| cur := None |> <| cur_flate := false |>
  end.

Definition begin_message (c:wcfg) (ty:N) (ic:list bytes) (s:wst) : option werror * wst :=
  let s := close_current c ic s in
  if negb (is_control_ty ty) && negb (is_data_ty ty) then (Some WBadOpCode, s)
  else match werr s with
  | Some e => (Some e, s)
  | None =>
    let s := if held s then s else log TGet (s <| held := true |>) in
    (None, s)
  end.

Definition new_mw (ty:N) (s:wst) : mwr * wst :=
  ({| m_id := nextid s; m_buf := []; m_ftype := ty; m_compress := false; m_err := None |},
   s <| nextid := S (nextid s) |>).

Definition next_writer (c:wcfg) (ty:N) (ic:list bytes) (s:wst) : option werror * wst :=
  let '(e, s) := begin_message c ty ic s in
  match e with
  | Some e => (Some e, s)
  | None =>
    let '(m, s) := new_mw ty s in
    if w_negotiated c && wcomp s && is_data_ty ty then
      let m := m <| m_compress := true |> in
      (None, s <| cur := Some m |> <| cur_flate := true |>
               <| fl := Some {| f_id := m_id m; f_open := true; f_tw := []; f_err := None |} |>
               <| app := Some (m_id m) |> <| app_flate := true |>)
    else (None, s <| cur := Some m |> <| cur_flate := false |> <| app := Some (m_id m) |> <| app_flate := false |>)
  end.

(* application calls on the handle it holds *)
Definition app_write (c:wcfg) (string_variant:bool) (p:bytes) (wc:list bytes) (s:wst) : option werror * wst :=
  match app s with
  | None => (Some WWriteClosed, s)
  | Some id =>
    if app_flate s then
      match fl s with
      | Some f => if Nat.eqb (f_id f) id then flate_write c wc f s else (Some WWriteClosed, s)
      | None => (Some WWriteClosed, s)
      end
    else if is_cur id s then (if string_variant then mw_write_string c p s else mw_write c p s)
    else (Some (ended_err id s), s)
  end.

Definition app_read_from (c:wcfg) (chunks:list bytes) (s:wst) : option werror * wst :=
  match app s with
  | None => (Some WWriteClosed, s)
  | Some id =>
    if app_flate s then (Some WInternal, s)   (* io.Copy falls back to Write calls: not generated *)
    (* fuel: every iteration of the loop consumes a byte or a chunk of the source (the lookahead
       included), so length (concat chunks) + length chunks + 1 is enough: Proofs/ReadFromP.v,
       [read_from_fuel_irrel] *)
    else if is_cur id s then read_from (2 * length (concat chunks) + 2 * length chunks + 4) c chunks s
    else (Some (ended_err id s), s)
  end.

Definition app_close (c:wcfg) (cc:list bytes) (s:wst) : option werror * wst :=
  match app s with
  | None => (Some WWriteClosed, s)
  | Some id =>
    if app_flate s then
      match fl s with
      | Some f => if Nat.eqb (f_id f) id then flate_close c cc f s else (Some WWriteClosed, s)
      | None => (Some WWriteClosed, s)
      end
    else if is_cur id s then mw_close c s
    else (Some (ended_err id s), s)
  end.

Definition write_message (c:wcfg) (ty:N) (data:bytes) (ic wc cc:list bytes) (s:wst) : option werror * wst :=
  if w_server c && (negb (w_negotiated c) || negb (wcomp s)) then
    (* fast path: one frame, buffer + extra *)
    let '(e, s) := begin_message c ty ic s in
    match e with
    | Some e => (Some e, s)
    | None =>
      let '(m, s) := new_mw ty s in
      let n := N.min (cap c) (blen data) in
      let m := m <| m_buf := takeN n data |> in
      flush_frame c true (dropN n data) m (s <| cur := None |>)
    end
  else
    let '(e, s) := next_writer c ty ic s in
    match e with
    | Some e => (Some e, s)
    | None =>
      let '(e, s) := app_write c false data wc s in
      match e with
      | Some e => (Some e, s)
      | None => app_close c cc s
      end
    end.

Definition valid_level (l:Z) : bool := (c_minCompressionLevel <=? l)%Z && (l <=? c_maxCompressionLevel)%Z.

(* ---- the write program ---- *)
Inductive wop :=
(* ic / wc / cc: flate oracle = the chunks flate.Writer emits during the implicit close of the
   previous writer / during this Write / during Close (used only on a compressed writer) *)
| WMessage (ty:N) (d:bytes) (ic wc cc:list bytes)
| WNext (ty:N) (ic:list bytes)
| WWrite (d:bytes) (wc:list bytes) | WWriteString (d:bytes) (wc:list bytes)
| WReadFrom (chunks:list bytes) | WClose (cc:list bytes)
| WControl (ty:N) (d:bytes) (dl:N)
| WSetDeadline (d:N)
| WEnableCompression (b:bool)
| WSetLevel (l:Z)
| WPreparedFrame (ty:N) (frame:bytes).   (* WritePreparedMessage once the frame bytes are known *)

Definition wstep (c:wcfg) (s:wst) (o:wop) : option werror * wst :=
  match o with
  | WMessage ty d ic wc cc => write_message c ty d ic wc cc s
  | WNext ty ic => next_writer c ty ic s
  | WWrite d wc => app_write c false d wc s
  | WWriteString d wc => app_write c true d wc s
  | WReadFrom ch => app_read_from c ch s
  | WClose cc => app_close c cc s
  | WControl ty d dl => write_control c ty d dl s
  | WSetDeadline d => (None, s <| deadline := d |>)
  | WEnableCompression b => (None, s <| wcomp := b |>)
  | WSetLevel l => if valid_level l then (None, s <| level := l |>) else (Some WBadLevel, s)
  | WPreparedFrame ty fr => conn_write ty (deadline s) false (fun _ => fr) [] s
  end.

Fixpoint wrun (c:wcfg) (s:wst) (ops:list wop) : list (option werror) * wst :=
  match ops with
  | [] => ([], s)
  | o :: r => let '(e, s) := wstep c s o in let '(es, s) := wrun c s r in (e :: es, s)
  end.

(* bytes handed to the transport, in order (partial writes included) *)
Definition wire_of (evs:list tev) : bytes :=
  flat_map (fun e => match e with TWrite b | TWriteFail b => b | _ => [] end) evs.
