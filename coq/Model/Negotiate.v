(* permessage-deflate negotiation as the two endpoints perform it (server.go Upgrade,
   client.go DialContext), composed: the offer lines as the server sees them, the extension
   line of its 101 response, the client's verdict on that line. *)
Require Import WS.Base.Bytes WS.Model.Util WS.Model.Server WS.Model.Client.

Definition has_deflate_offer (offers:list bytes) : bool :=
  existsb (fun e => beq (ext_name e) permessage_deflate) (parse_extensions offers).

Definition server_compress (uec:bool) (offers:list bytes) : bool := uec && has_deflate_offer offers.

(* value of the Sec-WebSocket-Extensions line the server writes *)
Definition ext_value : bytes := permessage_deflate ++ [59;32] ++ server_nct ++ [59;32] ++ client_nct.
Definition reply_ext_lines (uec:bool) (offers:list bytes) : list bytes :=
  if server_compress uec offers then [ext_value] else [].

(* the Dialer's decision on a reply's extension lines: None = errInvalidCompression *)
Definition client_decision (lines:list bytes) : option bool :=
  match first_deflate (parse_extensions lines) with
  | Some e => if ext_has server_nct e && ext_has client_nct e then Some true else None
  | None => Some false
  end.

(* the offer lines a Dialer puts in its request *)
Definition dialer_offers (dec:bool) : list bytes := if dec then [offer] else [].
