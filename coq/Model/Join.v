(* join.go: JoinMessages / joinReader.Read, on top of the reader model (Model/Reader.v), with
   io.MultiReader (io/multi.go) and strings.Reader (strings/reader.go) followed literally.
   Executable; no proofs here (see Proofs/JoinP.v).

   DOMAIN.  Connections WITHOUT negotiated compression.  The reader model has no Read-level
   access to the decompressed bytes of a compressed message (ReadMessage inflates the whole
   message at once, [rstep (ORead m)] on a compressed message delivers the raw bytes), so a
   message with RSV1 on a connection with [negotiated c = true] is outside this model: the
   flag [jood] ("out of domain") is raised when NextReader opens such a message and the judge
   refuses the tape.  The parameter [inflate] is kept in the signatures (as in [rstep]) for the
   day the reader model offers that access; it is not consulted.

      func (r *joinReader) Read(p []byte) (int, error) {
        if r.r == nil {
          var err error
          _, r.r, err = r.c.NextReader()
          if err != nil { return 0, err }
          if r.term != "" { r.r = io.MultiReader(r.r, strings.NewReader(r.term)) }
        }
        n, err := r.r.Read(p)
        if err == io.EOF { err = nil; r.r = nil }
        return n, err
      }                                                                                        *)
Require Import WS.Base.Bytes WS.gen.Consts WS.Model.Bufio WS.Model.Reader.
From RecordUpdate Require Import RecordSet.
Import RecordSetNotations.

(* the field r of joinReader *)
Inductive jrd :=
| JNil                                   (* r.r == nil *)
| JMsg                                   (* the message reader itself (term == "") *)
| JMulti (msg:bool) (str:option bytes).  (* *multiReader: is the message reader still in [readers]?
                                            the strings.Reader: still in [readers] (Some rest, rest =
                                            term[i:], possibly empty) or dropped (None) *)

Record jstate := {
  jconn : rst;            (* the *Conn *)
  jterm : bytes;          (* term *)
  jr : jrd;               (* r *)
  jpanic : bool;          (* NextReader panicked ("repeated read on failed websocket connection") *)
  jood : bool             (* a compressed message was opened: outside the model's domain *)
}.

Definition init_jstate (s:rst) (term:bytes) : jstate :=
  {| jconn := s; jterm := term; jr := JNil; jpanic := false; jood := false |}.

Definition jout := (bytes * option rerr)%type.

Definition is_eof (e:option rerr) : bool :=
  match e with Some RIoEOF => true | _ => false end.

Definition nonempty (l:bytes) : bool := match l with [] => false | _ => true end.

(* messageReader.Read(p), len(p) = m: exactly the [ORead m] branch of [rstep] without the call
   counter ([c.messageReader != r] is [cur s = None]) *)
Definition msg_read (c:rcfg) (m:nat) (s:rst) : bytes * option rerr * rst :=
  match cur s with
  | Some _ => reader_read c m s
  | None => ([], Some RIoEOF, s)
  end.

(* strings.Reader.Read(b), len(b) = m, [rest] = r.s[r.i:]:
     if r.i >= len(r.s) { return 0, io.EOF };  n = copy(b, r.s[r.i:]); r.i += n; return n, nil *)
Definition str_read (m:nat) (rest:bytes) : bytes * option rerr * bytes :=
  match rest with
  | [] => ([], Some RIoEOF, [])
  | _ => (firstn m rest, None, skipn m rest)
  end.

(* multiReader.Read(p) when the message reader is no longer in [readers] *)
Definition multi_str (m:nat) (str:option bytes) : jout * jrd :=
  match str with
  | None => (([], Some RIoEOF), JMulti false None)          (* len(mr.readers) == 0: return 0, EOF *)
  | Some rest =>
      let '(x, e, rest') := str_read m rest in
      if is_eof e
      then (([], Some RIoEOF), JMulti false None)            (* dropped; n = 0: loop ends: 0, EOF *)
      else ((x, e), JMulti false (Some rest'))               (* n > 0 || err != EOF: return *)
  end.

(* multiReader.Read(p), len(p) = m.  (The flattening branch never applies: neither reader is a
   *multiReader.) *)
Definition multi_read (c:rcfg) (m:nat) (msg:bool) (str:option bytes) (s:rst) : jout * jrd * rst :=
  if msg then
    let '(d, e, s) := msg_read c m s in
    if is_eof e then
      (* mr.readers = mr.readers[1:] *)
      if nonempty d then
        (* n > 0: return; err == EOF becomes nil iff readers remain *)
        ((d, match str with Some _ => None | None => Some RIoEOF end), JMulti false str, s)
      else
        let '(o, r) := multi_str m str in (o, r, s)
    else ((d, e), JMulti true str, s)                        (* err != EOF: return n, err *)
  else
    let '(o, r) := multi_str m str in (o, r, s).

Definition bump (s:rst) : rst := s <| opidx := S (opidx s) |>.

(* n, err := r.r.Read(p); if err == io.EOF { err = nil; r.r = nil }; return n, err *)
Definition join_body (inflate : bytes -> option bytes) (c:rcfg) (m:nat) (r:jrd) (s:rst) (term:bytes) (ood:bool) : jout * jstate :=
  let '(o, r, s) :=
    match r with
    | JMsg => let '(d, e, s) := msg_read c m s in ((d, e), JMsg, s)
    | JMulti msg str => multi_read c m msg str s
    | JNil => (([], None), JNil, s)                          (* not reached *)
    end in
  if is_eof (snd o)
  then ((fst o, None), {| jconn := bump s; jterm := term; jr := JNil; jpanic := false; jood := ood |})
  else (o, {| jconn := bump s; jterm := term; jr := r; jpanic := false; jood := ood |}).

(* one call Read(p), len(p) = m (m = 0 allowed); the call counter [opidx] of the connection
   counts the calls of joinReader.Read *)
Definition join_read (inflate : bytes -> option bytes) (c:rcfg) (m:nat) (st:jstate) : jout * jstate :=
  match jr st with
  | JNil =>
      let '(r, s) := next_reader c (jconn st) in
      match r with
      | RNext _ None =>
          join_body inflate c m (if nonempty (jterm st) then JMulti true (Some (jterm st)) else JMsg)
                    s (jterm st) (jood st || rdecomp s)
      | RNext _ (Some e) =>
          (([], Some e), {| jconn := bump s; jterm := jterm st; jr := JNil; jpanic := false; jood := jood st |})
      | _ =>
          (([], None), {| jconn := bump s; jterm := jterm st; jr := JNil; jpanic := true; jood := jood st |})
      end
  | r => join_body inflate c m r (jconn st) (jterm st) (jood st)
  end.

(* a list of read sizes; the run stops at the panic (whose call has no output) *)
Fixpoint join_steps (inflate : bytes -> option bytes) (c:rcfg) (st:jstate) (l:list nat) : list jout * jstate :=
  match l with
  | [] => ([], st)
  | m :: l' =>
      let '(o, st1) := join_read inflate c m st in
      if jpanic st1 then ([], st1)
      else let '(os, st2) := join_steps inflate c st1 l' in (o :: os, st2)
  end.

Definition join_run (inflate : bytes -> option bytes) (c:rcfg) (s:rst) (term:bytes) (l:list nat) : list jout :=
  fst (join_steps inflate c (init_jstate s term) l).
