(* util.go: equalASCIIFold; server.go: checkSameOrigin.
   The model is byte-wise: ASCII case folding is a notion on bytes. *)
Require Import WS.Base.Bytes.

Fixpoint equal_ascii_fold (s t:bytes) : bool :=
  match s, t with
  | [], [] => true
  | a :: s', b :: t' => (ascii_lower a =? ascii_lower b) && equal_ascii_fold s' t'
  | _, _ => false
  end.

Section UrlOracle.
  (* what url.Parse(origin) yields as .Host; None when it returns an error *)
  Variable url_host_of : bytes -> option bytes.

  Definition check_same_origin (origins:list bytes) (host:bytes) : bool :=
    match origins with
    | [] => true
    | o :: _ => match url_host_of o with
                | None => false
                | Some h => equal_ascii_fold h host
                end
    end.
End UrlOracle.
