(* C03 The reader decodes any conformant peer stream, however fragmented or read.
   Only property theorems here; proofs are in Proofs/ReaderP*.v. *)
Require Import WS.Base.Bytes WS.gen.Consts WS.Spec.Frame WS.Spec.Conformance WS.Model.Bufio WS.Model.Reader.
Require Import WS.Proofs.BufioP WS.Proofs.ReaderP1 WS.Proofs.ReaderP2 WS.Proofs.ReaderP3 WS.Proofs.ReaderP WS.Proofs.ReaderPTest.

(* For EVERY conformant uncompressed frame list fs (arbitrary fragmentation incl. empty frames,
   any mask keys, 7/16/64-bit lengths, ping/pong frames anywhere), EVERY reader role, EVERY bufio
   state b whose pending bytes are the encoding of fs followed by anything (so: every read buffer
   size >= 125, every initial buffer content, every transport chunking, every fault kind and
   delivery), EVERY io.ReadAll capacity schedule: n ReadMessage calls return exactly the n data
   messages fs encodes, in order, with their types and byte-identical payloads, each ping is
   answered by a pong with the identical payload, no error, no byte lost.
   PARTIAL with respect to the property text: read program = ReadMessage loop; default
   handlers; compressed messages (RSV1 + inflate), NextReader+Read of arbitrary sizes, abandoned
   messages and close frames are covered by the correspondence check and by Props/C06, C08. *)
Theorem C03_reader_decodes_partial :
  forall inflate c b fs extra,
    custom_handlers c = false -> binv b -> (125 <= bsize b)%nat ->
    conformant_frames c fs -> pending b = encode_frames fs ++ extra ->
    (trailer fs = [] -> extra = [] -> fault (src b) = EEOF) ->
    let ms := data_msgs (events_of fs) in
    exists s',
      run_ops inflate c (init_rst b) (repeat OReadMessage (length ms)) = (map out_of ms, s') /\
      outoffuel s' = false /\ closesent s' = false /\ rem s' = 0 /\ rfin s' = true /\
      wlog s' = map WPong (pings_of (body fs)) /\
      pending (br s') = encode_frames (trailer fs) ++ extra /\
      binv (br s') /\
      (rerror s' = None \/ (rerror s' = Some RIoEOF /\ trailer fs = [] /\ extra = [])).
Proof. exact read_messages_general. Qed.
Print Assumptions C03_reader_decodes_partial.

(* end of stream is signalled only at the true end: after the n messages one more read reports
   the transport's end (1006 / io.EOF), never earlier *)
Theorem C03_end_only_at_true_end :
  forall inflate c b fs, custom_handlers c = false -> binv b -> (125 <= bsize b)%nat ->
    conformant_frames c fs -> pending b = encode_frames fs ->
    (trailer fs = [] -> fault (src b) = EEOF) ->
    let ms := data_msgs (events_of fs) in
    exists e s',
      run_ops inflate c (init_rst b) (repeat OReadMessage (S (length ms))) =
        (map out_of ms ++ [RMsg 0 [] (Some e)], s') /\
      (e = of_berror (BErr (fault (src b))) \/ (e = RIoEOF /\ trailer fs = [])) /\
      rerror s' = Some e /\ outoffuel s' = false /\ closesent s' = false /\
      wlog s' = map WPong (pings_of fs) /\ pending (br s') = [].
Proof. exact read_messages_then_end. Qed.
Print Assumptions C03_end_only_at_true_end.

(* the result does not depend on transport chunking, buffer size, initial buffering, fault kind,
   ReadAll growth schedule or the inflate implementation *)
Theorem C03_independent_of_chunking_and_buffers :
  forall inflate1 inflate2 c1 c2 b1 b2 fs extra,
    custom_handlers c1 = false -> custom_handlers c2 = false -> server c1 = server c2 ->
    binv b1 -> binv b2 -> (125 <= bsize b1)%nat -> (125 <= bsize b2)%nat ->
    conformant_frames c1 fs -> extra <> [] ->
    pending b1 = encode_frames fs ++ extra -> pending b2 = encode_frames fs ++ extra ->
    let ops := repeat OReadMessage (length (data_msgs (events_of fs))) in
    fst (run_ops inflate1 c1 (init_rst b1) ops) = fst (run_ops inflate2 c2 (init_rst b2) ops) /\
    wlog (snd (run_ops inflate1 c1 (init_rst b1) ops)) = wlog (snd (run_ops inflate2 c2 (init_rst b2) ops)) /\
    pending (br (snd (run_ops inflate1 c1 (init_rst b1) ops))) =
    pending (br (snd (run_ops inflate2 c2 (init_rst b2) ops))).
Proof. exact read_messages_independent. Qed.
Print Assumptions C03_independent_of_chunking_and_buffers.

(* ------------------------------------------------------------------------------------------ *)
(* Compressed (permessage-deflate, RSV1) messages: proofs in Proofs/ReaderZ1-3.v and          *)
(* Proofs/ReaderFlateP.v.  This removes the "compressed messages" item from the PARTIAL note   *)
(* above for the ReadMessage loop.                                                             *)
(* ------------------------------------------------------------------------------------------ *)
Require Import WS.Proofs.ReaderZ1 WS.Proofs.ReaderZ2 WS.Proofs.ReaderZ3 WS.Proofs.ReaderFlateP
  WS.Proofs.ReaderFlatePTest.
Require WS.Spec.Inflate WS.Proofs.InflateP.

(* [conformant_framesZ c fs]: every frame passes Spec.Conformance.violates for the reader's role
   AND its negotiated flag (so RSV1 is allowed when [negotiated c = true]), no close frame, the
   list ends at a message boundary.  For [negotiated c = false] this is [conformant_frames]. *)
Theorem C03_conformantZ_is_conformant_without_negotiation :
  forall c fs, negotiated c = false -> (conformant_framesZ c fs <-> conformant_frames c fs).
Proof. exact conformant_framesZ_false. Qed.
Print Assumptions C03_conformantZ_is_conformant_without_negotiation.

(* For EVERY such frame list (compressed and uncompressed messages mixed, any fragmentation,
   control frames between the fragments of a compressed message), EVERY inflate function, role,
   bufio state, chunking, fault, capacity schedule: n ReadMessage calls return the n data
   messages in order -- [out_ofZ inflate (ty, compressed, payload)] is [RMsg ty payload None] for
   an uncompressed message and, for a compressed one, [RMsg ty d None] when
   [inflate (payload ++ 00 00 ff ff 01 00 00 ff ff) = Some d], [RMsg ty [] (Some RFlate)]
   otherwise (the reader then carries on with the next message) -- each ping is answered, no
   byte is lost. *)
Theorem C03_reader_decodes_compressed :
  forall inflate c b fs extra,
    custom_handlers c = false -> binv b -> (125 <= bsize b)%nat ->
    conformant_framesZ c fs -> pending b = encode_frames fs ++ extra ->
    (trailer fs = [] -> extra = [] -> fault (src b) = EEOF) ->
    let ms := data_msgs (events_of fs) in
    exists s',
      run_ops inflate c (init_rst b) (repeat OReadMessage (length ms))
        = (map (out_ofZ inflate) ms, s') /\
      outoffuel s' = false /\ closesent s' = false /\ rem s' = 0 /\ rfin s' = true /\
      wlog s' = map WPong (pings_of (body fs)) /\
      pending (br s') = encode_frames (trailer fs) ++ extra /\
      binv (br s') /\
      (rerror s' = None \/ (rerror s' = Some RIoEOF /\ trailer fs = [] /\ extra = [])).
Proof. exact read_messages_generalZ. Qed.
Print Assumptions C03_reader_decodes_compressed.

(* the flagship form: something follows the frames on the transport *)
Theorem C03_reader_decodes_compressed_flagship :
  forall inflate c b fs extra,
    custom_handlers c = false -> binv b -> (125 <= bsize b)%nat ->
    conformant_framesZ c fs -> pending b = encode_frames fs ++ extra -> extra <> [] ->
    let ms := data_msgs (events_of fs) in
    exists s',
      run_ops inflate c (init_rst b) (repeat OReadMessage (length ms))
        = (map (out_ofZ inflate) ms, s') /\
      outoffuel s' = false /\ rerror s' = None /\ closesent s' = false /\
      rem s' = 0 /\ rfin s' = true /\
      wlog s' = map WPong (pings_of (body fs)) /\
      pending (br s') = encode_frames (trailer fs) ++ extra.
Proof. exact read_messages_conformantZ. Qed.
Print Assumptions C03_reader_decodes_compressed_flagship.

(* when every compressed message inflates, no call returns an error *)
Theorem C03_reader_decodes_compressed_no_error :
  forall inflate c b fs extra,
    custom_handlers c = false -> binv b -> (125 <= bsize b)%nat ->
    conformant_framesZ c fs -> pending b = encode_frames fs ++ extra ->
    (extra <> [] \/ fault (src b) = EEOF) ->
    let ms := data_msgs (events_of fs) in
    Forall (inflates inflate) ms ->
    exists outs s',
      run_ops inflate c (init_rst b) (repeat OReadMessage (length ms)) = (outs, s') /\
      outs = map (out_ofZ inflate) ms /\ Forall out_ok outs /\
      outoffuel s' = false /\ closesent s' = false /\
      wlog s' = map WPong (pings_of (body fs)) /\
      pending (br s') = encode_frames (trailer fs) ++ extra /\
      (rerror s' = None \/ (rerror s' = Some RIoEOF /\ trailer fs = [] /\ extra = [])).
Proof. exact read_messages_conformantZ_inflating. Qed.
Print Assumptions C03_reader_decodes_compressed_no_error.

Theorem C03_end_only_at_true_end_compressed :
  forall inflate c b fs, custom_handlers c = false -> binv b -> (125 <= bsize b)%nat ->
    conformant_framesZ c fs -> pending b = encode_frames fs ->
    (trailer fs = [] -> fault (src b) = EEOF) ->
    let ms := data_msgs (events_of fs) in
    exists e s',
      run_ops inflate c (init_rst b) (repeat OReadMessage (S (length ms))) =
        (map (out_ofZ inflate) ms ++ [RMsg 0 [] (Some e)], s') /\
      (e = of_berror (BErr (fault (src b))) \/ (e = RIoEOF /\ trailer fs = [])) /\
      rerror s' = Some e /\ outoffuel s' = false /\ closesent s' = false /\
      wlog s' = map WPong (pings_of fs) /\ pending (br s') = [].
Proof. exact read_messages_then_endZ. Qed.
Print Assumptions C03_end_only_at_true_end_compressed.

Theorem C03_independent_of_chunking_and_buffers_compressed :
  forall inflate c1 c2 b1 b2 fs extra,
    custom_handlers c1 = false -> custom_handlers c2 = false -> server c1 = server c2 ->
    negotiated c1 = negotiated c2 ->
    binv b1 -> binv b2 -> (125 <= bsize b1)%nat -> (125 <= bsize b2)%nat ->
    conformant_framesZ c1 fs -> extra <> [] ->
    pending b1 = encode_frames fs ++ extra -> pending b2 = encode_frames fs ++ extra ->
    let ops := repeat OReadMessage (length (data_msgs (events_of fs))) in
    fst (run_ops inflate c1 (init_rst b1) ops) = fst (run_ops inflate c2 (init_rst b2) ops) /\
    wlog (snd (run_ops inflate c1 (init_rst b1) ops)) = wlog (snd (run_ops inflate c2 (init_rst b2) ops)) /\
    pending (br (snd (run_ops inflate c1 (init_rst b1) ops))) =
    pending (br (snd (run_ops inflate c2 (init_rst b2) ops))).
Proof. exact read_messages_independentZ. Qed.
Print Assumptions C03_independent_of_chunking_and_buffers_compressed.

(* end to end with the Spec decoder: application messages [os] = (type, compress?, plaintext);
   the compressed ones travel as [trunc4 (deflate0 plaintext)] (stored blocks + sync flush, last
   four bytes removed); ReadMessage with Spec.Inflate.inflate returns the plaintexts. *)
Theorem C03_compressed_roundtrip_deflate0 :
  forall c b fs extra os,
    custom_handlers c = false -> binv b -> (125 <= bsize b)%nat ->
    conformant_framesZ c fs -> pending b = encode_frames fs ++ extra ->
    (trailer fs = [] -> extra = [] -> fault (src b) = EEOF) ->
    data_msgs (events_of fs) = map wire_msg os ->
    Forall (fun o => snd (fst o) = true -> bytes_ok (snd o)) os ->
    exists s',
      run_ops Inflate.inflate c (init_rst b) (repeat OReadMessage (length os))
        = (map plain_out os, s') /\
      outoffuel s' = false /\ closesent s' = false /\ rem s' = 0 /\ rfin s' = true /\
      wlog s' = map WPong (pings_of (body fs)) /\
      pending (br s') = encode_frames (trailer fs) ++ extra /\
      binv (br s') /\
      (rerror s' = None \/ (rerror s' = Some RIoEOF /\ trailer fs = [] /\ extra = [])).
Proof. exact read_messages_deflate0. Qed.
Print Assumptions C03_compressed_roundtrip_deflate0.

(* ============================================================================================ *)
(* General read programs (proofs in Proofs/ReadProgP.v): NextReader followed by Reads of ANY     *)
(* sizes, messages abandoned at ANY point, ReadMessage mixed in.  This removes the restriction  *)
(* "read program = ReadMessage loop" of the theorems above (still: uncompressed conformant      *)
(* streams, default handlers).  Extra hypothesis with respect to C03_reader_decodes_partial:     *)
(* at least one byte follows the last data frame (a trailing control frame, or [extra]); see     *)
(* C03_why_a_byte_must_follow.                                                                  *)
(* ============================================================================================ *)
Require Import WS.Proofs.CutP WS.Proofs.ReadProgP.

(* One message, one plan [l] of Read sizes.  [reads_ok d l outs] is the exact specification of
   the outputs (defined in ReadProgP.v, read out in C03_read_plan_meaning): while bytes of [d]
   remain a Read returns between 1 and len(p) of them, in order, with a nil error (it never
   returns 0 bytes: empty fragments and interleaved control frames are consumed inside the same
   call); once all of [d] has been delivered it returns (0, io.EOF), and keeps doing so. *)
Theorem C03_next_reader_then_reads :
  forall inflate c b fs extra l ty cc d rest,
    custom_handlers c = false -> binv b -> (125 <= bsize b)%nat ->
    conformant_frames c fs -> pending b = encode_frames fs ++ extra ->
    (trailer fs = [] -> extra <> []) ->
    Forall (fun m => (0 < m)%nat) l ->
    data_msgs (events_of fs) = (ty, cc, d) :: rest ->
    exists outs s',
      run_ops inflate c (init_rst b) (ONext :: map ORead l) = (RNext ty None :: outs, s') /\
      reads_ok d l outs /\ reached fs extra s'.
Proof. exact next_reader_then_reads. Qed.
Print Assumptions C03_next_reader_then_reads.

Theorem C03_read_plan_meaning : forall d l outs, reads_ok d l outs ->
  length outs = length l /\
  Forall (fun r => exists x e, r = RData x e /\ (e = None \/ e = Some RIoEOF)) outs /\
  (exists rest, d = flat_map rdata outs ++ rest) /\
  (forall i x e, nth_error outs i = Some (RData x e) ->
     (e = Some RIoEOF <-> flat_map rdata (firstn i outs) = d) /\
     (e = Some RIoEOF -> x = [] /\ Forall (fun r => r = RData [] (Some RIoEOF)) (skipn i outs)) /\
     (e <> Some RIoEOF -> e = None /\ x <> [] /\ (length x <= nth i l 0)%nat)) /\
  (existsb is_eof_out outs = true -> flat_map rdata outs = d) /\
  ((length d <= length l)%nat -> flat_map rdata outs = d).
Proof. exact reads_ok_properties. Qed.
Print Assumptions C03_read_plan_meaning.

(* Whole programs: one plan per NextReader (a plan may stop early = the message is abandoned,
   may be empty, may go on after io.EOF).  [prog_ok]: the i-th NextReader returns the i-th data
   message's type -- whatever was or was not read of the earlier messages -- and the Reads that
   follow it obey [reads_ok] for the i-th payload.  [reached]: the reader has consumed exactly
   the frames [pre] (the last one a data frame, [w] of its payload bytes still on the wire), has
   answered exactly the pings located in [pre], in order, has no error and never ran out of fuel. *)
Theorem C03_any_read_program :
  forall inflate c b fs extra (plans:prog),
    custom_handlers c = false -> binv b -> (125 <= bsize b)%nat ->
    conformant_frames c fs -> pending b = encode_frames fs ++ extra ->
    (trailer fs = [] -> extra <> []) ->
    prog_pos plans -> (length plans <= length (data_msgs (events_of fs)))%nat ->
    exists outs s',
      run_ops inflate c (init_rst b) (ops_of_prog plans) = (outs, s') /\
      prog_ok (data_msgs (events_of fs)) plans outs /\ reached fs extra s'.
Proof. exact reader_api_general. Qed.
Print Assumptions C03_any_read_program.

(* the same with ReadMessage calls mixed in *)
Theorem C03_any_mixed_program :
  forall inflate c b fs extra cs,
    custom_handlers c = false -> binv b -> (125 <= bsize b)%nat ->
    conformant_frames c fs -> pending b = encode_frames fs ++ extra ->
    (trailer fs = [] -> extra <> []) ->
    Forall call_pos cs -> (length cs <= length (data_msgs (events_of fs)))%nat ->
    exists outs s',
      run_ops inflate c (init_rst b) (flat_map ops_of_call cs) = (outs, s') /\
      mixed_ok (data_msgs (events_of fs)) cs outs /\ reached fs extra s'.
Proof. exact reader_api_mixed. Qed.
Print Assumptions C03_any_mixed_program.

(* Independence: if every message is read to io.EOF ([eof_closed]), the messages the application
   assembles from the outputs ([gather]) are exactly the data messages of the stream, whatever
   the read sizes, chunking, buffers ... *)
Theorem C03_messages_independent_of_plans :
  forall inflate c b fs extra cs,
    custom_handlers c = false -> binv b -> (125 <= bsize b)%nat ->
    conformant_frames c fs -> pending b = encode_frames fs ++ extra ->
    (trailer fs = [] -> extra <> []) ->
    Forall call_pos cs -> (length cs <= length (data_msgs (events_of fs)))%nat ->
    let outs := fst (run_ops inflate c (init_rst b) (flat_map ops_of_call cs)) in
    eof_closed true outs = true ->
    gather None outs = map mpair (firstn (length cs) (data_msgs (events_of fs))).
Proof. exact reader_api_independent. Qed.
Print Assumptions C03_messages_independent_of_plans.

(* ... the same messages as the ReadMessage loop of C03_reader_decodes_partial returns *)
Theorem C03_plans_agree_with_read_message_loop :
  forall inflate c b fs extra (plans:prog),
    custom_handlers c = false -> binv b -> (125 <= bsize b)%nat ->
    conformant_frames c fs -> pending b = encode_frames fs ++ extra ->
    (trailer fs = [] -> extra <> []) ->
    prog_pos plans -> length plans = length (data_msgs (events_of fs)) ->
    let ms := data_msgs (events_of fs) in
    let outs := fst (run_ops inflate c (init_rst b) (ops_of_prog plans)) in
    eof_closed true outs = true ->
    gather None outs = map mpair ms /\
    gather None outs = gather None (fst (run_ops inflate c (init_rst b) (repeat OReadMessage (length ms)))).
Proof. exact plans_agree_with_read_message_loop. Qed.
Print Assumptions C03_plans_agree_with_read_message_loop.

(* ... and two different programs over two different transports agree *)
Theorem C03_two_programs_agree :
  forall inflate1 inflate2 c1 c2 b1 b2 fs extra cs1 cs2,
    custom_handlers c1 = false -> custom_handlers c2 = false -> server c1 = server c2 ->
    binv b1 -> binv b2 -> (125 <= bsize b1)%nat -> (125 <= bsize b2)%nat ->
    conformant_frames c1 fs -> (trailer fs = [] -> extra <> []) ->
    pending b1 = encode_frames fs ++ extra -> pending b2 = encode_frames fs ++ extra ->
    Forall call_pos cs1 -> Forall call_pos cs2 -> length cs1 = length cs2 ->
    (length cs1 <= length (data_msgs (events_of fs)))%nat ->
    let outs1 := fst (run_ops inflate1 c1 (init_rst b1) (flat_map ops_of_call cs1)) in
    let outs2 := fst (run_ops inflate2 c2 (init_rst b2) (flat_map ops_of_call cs2)) in
    eof_closed true outs1 = true -> eof_closed true outs2 = true ->
    gather None outs1 = gather None outs2.
Proof. exact reader_api_independent2. Qed.
Print Assumptions C03_two_programs_agree.

(* The hypotheses are satisfiable: "Hello" in three fragments (one empty) with a ping between
   the fragments, a two-fragment binary message that the program abandons after 2 bytes, a ping,
   "xyz", a last ping; 5-byte or one-shot transport chunking, any fault, glued or not. *)
Example C03_any_read_program_instance : forall n flt gl, n = 5%nat \/ n = 200%nat ->
  exists outs s',
    run_ops (fun _ => None) ReadProgDemo.ex_cfg (init_rst (ReadProgDemo.ex_b n flt gl))
            (ops_of_prog [[2;1;100;7;7]; [2]; [1;1;1;1]]%nat) = (outs, s') /\
    prog_ok [(1, false, [72;101;108;108;111]); (2, false, [1;2;3;4;5]); (1, false, [120;121;122])]
            [[2;1;100;7;7]; [2]; [1;1;1;1]]%nat outs /\
    reached ReadProgDemo.ex_fs [] s'.
Proof. exact ReadProgDemo.demo_general. Qed.
Print Assumptions C03_any_read_program_instance.

(* what the model computes on that stream delivered 5 bytes at a time *)
Example C03_any_read_program_run :
  let r := run_ops (fun _ => None) ReadProgDemo.ex_cfg (init_rst (ReadProgDemo.ex_b 5 EOther true))
             (ops_of_prog [[2;1;100;7;7]; [2]; [1;1;1;1]]%nat) in
  fst r = [RNext 1 None; RData [72;101] None; RData [108] None; RData [108] None; RData [111] None;
           RData [] (Some RIoEOF);
           RNext 2 None; RData [1;2] None;
           RNext 1 None; RData [120] None; RData [121] None; RData [122] None; RData [] (Some RIoEOF)] /\
  wlog (snd r) = [WPong [112;49]; WPong [113]].
Proof. vm_compute. auto. Qed.
Print Assumptions C03_any_read_program_run.

(* The added hypothesis is forced: when NOTHING follows the last data frame and the transport
   delivers io.EOF together with the last payload bytes, the last Read returns those bytes AND
   io.EOF in one call (and the next Read on the same reader returns io.EOF again). *)
Example C03_why_a_byte_must_follow :
  conformant_frames ReadProgDemo.ex_cfg ReadProgDemo.cx_fs /\ binv ReadProgDemo.cx_b /\
  (125 <= bsize ReadProgDemo.cx_b)%nat /\
  pending ReadProgDemo.cx_b = encode_frames ReadProgDemo.cx_fs ++ [] /\ trailer ReadProgDemo.cx_fs = [] /\
  data_msgs (events_of ReadProgDemo.cx_fs) = [(2, false, ReadProgDemo.cx_payload)] /\
  (forall outs s', run_ops (fun _ => None) ReadProgDemo.ex_cfg (init_rst ReadProgDemo.cx_b)
                     (ONext :: map ORead [200;200]%nat) = (RNext 2 None :: outs, s') ->
     outs = [RData ReadProgDemo.cx_payload (Some RIoEOF); RData [] (Some RIoEOF)] /\
     ~ reads_ok ReadProgDemo.cx_payload [200;200]%nat outs).
Proof. exact ReadProgDemo.glued_eof_counterexample. Qed.
Print Assumptions C03_why_a_byte_must_follow.

(* ============================================================================================ *)
(* Zero-length reads (proofs in Proofs/ZeroReadP.v).  Read(p) with len(p) = 0 is a legal        *)
(* io.Reader call; the model follows Go: bufio.Reader.Read returns (0, nil) when bytes are      *)
(* buffered, else (0, b.readErr()), without touching the transport; messageReader.Read passes   *)
(* b[:0] down when 0 < readRemaining and advances frames / reports io.EOF as usual otherwise.   *)
(* ============================================================================================ *)
Require Import WS.Proofs.ZeroReadP.
From RecordUpdate Require Import RecordSet.
Import RecordSetNotations.

(* bufio: a zero-length read returns no byte and never changes the transport script, the buffer,
   the logical stream; at most the deferred error is reported (and cleared) *)
Theorem C03_zero_read_bufio_untouched :
  forall b d e b', br_read 0 b = (d, e, b') ->
    d = [] /\ src b' = src b /\ pending b' = pending b /\ bbuf b' = bbuf b /\ bsize b' = bsize b /\
    (e = None -> b' = b) /\
    (forall k, e = Some k -> bbuf b = [] /\ berr b = Some k /\ berr b' = None).
Proof. exact br_read_zero_untouched. Qed.
Print Assumptions C03_zero_read_bufio_untouched.

Theorem C03_zero_read_bufio_noop :
  forall b, binv b -> pending b <> [] -> br_read 0 b = ([], None, b).
Proof. exact br_read_zero_binv. Qed.
Print Assumptions C03_zero_read_bufio_noop.

(* messageReader.Read(p[:0]) inside a frame: the exact result.  [zero_err s] = the error pending
   in bufio behind an empty buffer, mapped as Go maps it (io.EOF -> unexpected EOF while payload
   is owed); [zero_st c s] = s with that error recorded ... *)
Theorem C03_zero_read_inframe :
  forall c s, rerror s = None -> 0 < rem s ->
    reader_read c 0 s = ([], zero_err s, zero_st c s).
Proof. exact reader_read_zero_inframe. Qed.
Print Assumptions C03_zero_read_inframe.

(* ... i.e. only [br] (of it only the deferred error), [mpos] (server only, normalised modulo 4:
   maskBytes returns pos & 3) and [rerror] may differ; the unmasking position is unchanged *)
Theorem C03_zero_read_inframe_frame :
  forall c s, let s' := zero_st c s in
    rem s' = rem s /\ rkey s' = rkey s /\ rfin s' = rfin s /\ rlen s' = rlen s /\
    rlimit s' = rlimit s /\ errcount s' = errcount s /\ rdecomp s' = rdecomp s /\ cur s' = cur s /\
    nextid s' = nextid s /\ opidx s' = opidx s /\ hcount s' = hcount s /\ hlog s' = hlog s /\
    wlog s' = wlog s /\ closesent s' = closesent s /\ outoffuel s' = outoffuel s /\
    bsize (br s') = bsize (br s) /\ bbuf (br s') = bbuf (br s) /\ src (br s') = src (br s) /\
    pending (br s') = pending (br s) /\
    mpos s' mod 4 = mpos s mod 4 /\ (mpos s < 4 -> mpos s' = mpos s) /\
    (forall l, unmask c s' l = unmask c s l) /\
    rerror s' = zero_err s.
Proof. exact zero_st_frame. Qed.
Print Assumptions C03_zero_read_inframe_frame.

(* the usual case -- no error pending behind an empty buffer: (0, nil) and NOTHING changes *)
Theorem C03_zero_read_inframe_noop :
  forall c s, rerror s = None -> 0 < rem s ->
    bbuf (br s) <> [] \/ berr (br s) = None -> mpos s < 4 ->
    reader_read c 0 s = ([], None, s).
Proof. exact reader_read_zero_noop. Qed.
Print Assumptions C03_zero_read_inframe_noop.

Theorem C03_zero_read_inframe_noop_stream :
  forall c s, rerror s = None -> 0 < rem s -> binv (br s) -> pending (br s) <> [] -> mpos s < 4 ->
    reader_read c 0 s = ([], None, s).
Proof. exact reader_read_zero_noop_binv. Qed.
Print Assumptions C03_zero_read_inframe_noop_stream.

(* [mpos s < 4] holds in every reachable state *)
Theorem C03_mask_position_in_range :
  forall inflate c b ops, mpos (snd (run_ops inflate c (init_rst b) ops)) < 4.
Proof. exact reachable_mpos_ok. Qed.
Print Assumptions C03_mask_position_in_range.

(* the buffer hypothesis is forced: a pending io.EOF is reported by the zero-length read, as
   "unexpected EOF" since payload is still owed (Go: b.readErr(), then the EOF mapping) *)
Example C03_zero_read_reports_pending_error :
  let b := {| bsize := 16; bbuf := []; berr := Some EEOF;
              src := {| chunks := []; fault := EEOF; glued := false |} |} in
  let c := {| server := true; negotiated := false; custom_handlers := false;
              handler_fail := []; caps := [] |} in
  let s := init_rst b <| rem := 5 |> <| cur := Some 0%nat |> in
  binv b /\ rerror s = None /\ 0 < rem s /\ mpos s < 4 /\
  reader_read c 0 s = ([], Some unexpected_eof, s <| br := zero_br b |> <| rerror := Some unexpected_eof |>).
Proof. exact zero_read_reports_pending_error. Qed.
Print Assumptions C03_zero_read_reports_pending_error.

(* at the end of a frame a zero-length Read does what every Read does *)
Theorem C03_zero_read_eof :
  forall c s, rerror s = None -> rem s = 0 -> rfin s = true ->
    reader_read c 0 s = ([], Some RIoEOF, s <| cur := None |>).
Proof. exact reader_read_zero_eof. Qed.
Print Assumptions C03_zero_read_eof.

(* Transparency, exact, for ANY stream and ANY state: after Read(p[:0]) a Read of any size returns
   what it would have returned without it and leaves the same state *)
Theorem C03_zero_read_transparent :
  forall c s x0 e0 s0, binv (br s) -> reader_read c 0 s = (x0, e0, s0) ->
    x0 = [] /\ forall m, reader_read c m s0 = reader_read c m s.
Proof. exact reader_read_zero_transparent. Qed.
Print Assumptions C03_zero_read_transparent.

(* the same on the API level (any handlers); the call counter is bumped by every call *)
Theorem C03_zero_read_transparent_api :
  forall inflate c s r0 s0, binv (br s) -> rstep inflate c s (ORead 0) = (r0, s0) ->
    (exists e0, r0 = RData [] e0) /\ opidx s0 = S (opidx s) /\
    forall m, rstep inflate c (s0 <| opidx := opidx s |>) (ORead m) = rstep inflate c s (ORead m).
Proof. exact rstep_zero_read_then. Qed.
Print Assumptions C03_zero_read_transparent_api.

(* Plans: [l] = any list of Read sizes, zeros anywhere; [filter nz l] = the same plan without the
   zero-length reads; [keep_nz l outs] = the outputs of the non-zero-length reads.  These are
   exactly the outputs of the plan without the zero-length reads; the final states cannot be told
   apart by any further Read ([read_equiv]). *)
Theorem C03_zero_reads_do_not_disturb :
  forall inflate c, custom_handlers c = false ->
  forall l s outs s', binv (br s) -> outoffuel s = false ->
    run_ops inflate c s (map ORead l) = (outs, s') ->
    length outs = length l /\
    Forall2 (fun m r => exists d e, r = RData d e /\ (m = 0%nat -> d = [])) l outs /\
    exists s2, run_ops inflate c s (map ORead (filter nz l)) = (keep_nz l outs, s2) /\
               read_equiv inflate c s' s2.
Proof. exact zero_reads_do_not_disturb. Qed.
Print Assumptions C03_zero_reads_do_not_disturb.

Theorem C03_next_reader_then_any_reads_exact :
  forall inflate c b l r0 outs s',
    custom_handlers c = false -> binv b ->
    run_ops inflate c (init_rst b) (ONext :: map ORead l) = (r0 :: outs, s') -> r0 <> RPanic ->
    exists s2, run_ops inflate c (init_rst b) (ONext :: map ORead (filter nz l)) = (r0 :: keep_nz l outs, s2) /\
               read_equiv inflate c s' s2.
Proof. exact next_reader_then_any_reads_exact. Qed.
Print Assumptions C03_next_reader_then_any_reads_exact.

(* Conformant streams: C03_next_reader_then_reads without [Forall (fun m => 0 < m) l].
   [reads_ok0] = [reads_ok] except that a Read with len(p) = 0 returns (0, nil) while bytes of the
   message remain. *)
Theorem C03_next_reader_then_any_reads :
  forall inflate c b fs extra l ty cc d rest,
    custom_handlers c = false -> binv b -> (125 <= bsize b)%nat ->
    conformant_frames c fs -> pending b = encode_frames fs ++ extra ->
    (trailer fs = [] -> extra <> []) ->
    data_msgs (events_of fs) = (ty, cc, d) :: rest ->
    exists outs s',
      run_ops inflate c (init_rst b) (ONext :: map ORead l) = (RNext ty None :: outs, s') /\
      reads_ok0 d l outs /\
      reads_ok d (filter nz l) (keep_nz l outs) /\
      flat_map rdata (keep_nz l outs) = flat_map rdata outs /\
      Forall2 (fun m r => m = 0%nat -> r = RData [] None \/ r = RData [] (Some RIoEOF)) l outs /\
      reached fs extra s'.
Proof. exact next_reader_then_any_reads. Qed.
Print Assumptions C03_next_reader_then_any_reads.

Theorem C03_read_plan_meaning_zero :
  (forall l d outs, reads_ok d l outs -> reads_ok0 d l outs) /\
  (forall l d outs, Forall (fun m => (0 < m)%nat) l -> reads_ok0 d l outs -> reads_ok d l outs) /\
  (forall l d outs, reads_ok0 d l outs -> reads_ok d (filter nz l) (keep_nz l outs)).
Proof. exact (conj reads_ok_ok0 (conj reads_ok0_pos reads_ok0_keep_nz)). Qed.
Print Assumptions C03_read_plan_meaning_zero.

(* whole programs, NextReader + Reads of any sizes (zero included) and ReadMessage mixed:
   C03_any_mixed_program without [Forall call_pos cs] *)
Theorem C03_any_mixed_program_zero :
  forall inflate c b fs extra cs,
    custom_handlers c = false -> binv b -> (125 <= bsize b)%nat ->
    conformant_frames c fs -> pending b = encode_frames fs ++ extra ->
    (trailer fs = [] -> extra <> []) ->
    (length cs <= length (data_msgs (events_of fs)))%nat ->
    exists outs s',
      run_ops inflate c (init_rst b) (flat_map ops_of_call cs) = (outs, s') /\
      mixed_ok0 (data_msgs (events_of fs)) cs outs /\ reached fs extra s'.
Proof. exact reader_api_mixed0. Qed.
Print Assumptions C03_any_mixed_program_zero.

Example C03_zero_reads_run :
  let run l := fst (run_ops (fun _ => None) ReadProgDemo.ex_cfg (init_rst (ReadProgDemo.ex_b 5 EOther true))
                      (ONext :: map ORead l)) in
  run [0;2;0;0;1;100;0;7;0]%nat =
    [RNext 1 None; RData [] None; RData [72;101] None; RData [] None; RData [] None; RData [108] None;
     RData [108] None; RData [] None; RData [111] None; RData [] (Some RIoEOF)] /\
  run [2;1;100;7]%nat =
    [RNext 1 None; RData [72;101] None; RData [108] None; RData [108] None; RData [111] None].
Proof. exact zero_reads_demo. Qed.
Print Assumptions C03_zero_reads_run.

(* the default-handler hypothesis of C03_zero_reads_do_not_disturb is forced for its state part:
   recording handlers log the API-call index, which inserted calls shift (outputs still agree) *)
Example C03_zero_reads_shift_handler_log :
  let cH := {| server := true; negotiated := false; custom_handlers := true;
               handler_fail := []; caps := [] |} in
  let inflate := fun _ : bytes => @None bytes in
  let r0 := run_ops inflate cH (init_rst (ReadProgDemo.ex_b 5 EOther true)) (ONext :: map ORead [0;3;1]%nat) in
  let r1 := run_ops inflate cH (init_rst (ReadProgDemo.ex_b 5 EOther true)) (ONext :: map ORead [3;1]%nat) in
  fst r0 = [RNext 1 None; RData [] None; RData [72;101;108] None; RData [108] None] /\
  fst r1 = [RNext 1 None; RData [72;101;108] None; RData [108] None] /\
  hlog (snd r0) = [HPing 3 [112;49]] /\ hlog (snd r1) = [HPing 2 [112;49]] /\
  ~ read_equiv inflate cH (snd r0) (snd r1).
Proof. exact zero_reads_shift_handler_log. Qed.
Print Assumptions C03_zero_reads_shift_handler_log.

(* transparency concerns the Reads that follow, not NextReader: a zero-length Read that reported
   the error pending in bufio leaves "unexpected EOF" in c.readErr, NextReader alone would have
   met a plain io.EOF while skipping the frame remainder (as in Go) *)
Example C03_zero_read_then_next_reader_differs :
  let b := {| bsize := 16; bbuf := []; berr := Some EEOF;
              src := {| chunks := []; fault := EEOF; glued := false |} |} in
  let s := init_rst b <| rem := 5 |> <| cur := Some 0%nat |> in
  let inflate := fun _ : bytes => @None bytes in
  fst (run_ops inflate ReadProgDemo.ex_cfg s [ORead 0; ONext]) =
    [RData [] (Some unexpected_eof); RNext 0 (Some unexpected_eof)] /\
  fst (run_ops inflate ReadProgDemo.ex_cfg s [ONext]) = [RNext 0 (Some RIoEOF)] /\
  fst (run_ops inflate ReadProgDemo.ex_cfg s [ORead 0; ORead 3]) =
    [RData [] (Some unexpected_eof); RData [] (Some unexpected_eof)] /\
  fst (run_ops inflate ReadProgDemo.ex_cfg s [ORead 3]) = [RData [] (Some unexpected_eof)].
Proof. exact zero_read_then_next_reader_differs. Qed.
Print Assumptions C03_zero_read_then_next_reader_differs.

(* ====================================================================================== *)
(* JoinMessages (join.go).  Model: Model/Join.v (joinReader.Read on top of NextReader and   *)
(* messageReader.Read, io.MultiReader and strings.Reader followed literally); proofs:       *)
(* Proofs/JoinP.v; executable judge: Cases/C03k.v (kind 28).                                *)
(* Setting of the theorems below: default handlers, any role, any bufio state b (buffer >= *)
(* 125, any initial content, any transport chunking, any fault kind, glued to the last      *)
(* bytes or not) whose pending bytes are exactly the encoding of the conformant uncompressed*)
(* frame list fs in which at least one control frame follows the last data frame, any term, *)
(* any list l of POSITIVE buffer sizes, one per call of Read.                               *)
(*   joined term ms = flat_map (fun m => snd m ++ term) ms    (the messages, each followed  *)
(*   by term);  jbytes outs = the bytes returned by the calls, concatenated;  join_run      *)
(*   stops at the call on which NextReader panics (its 1000th failure).                     *)
(* PARTIAL with respect to the property text: uncompressed streams only (the reader model   *)
(* has no Read-level access to compressed messages); zero-length buffers are modelled       *)
(* (Model/Join.v, judged by kind 28) but not covered by these theorems.                     *)
(* ====================================================================================== *)
Require Import WS.Model.Join WS.Proofs.JoinP.

(* the exact behaviour, call by call: the calls l1 made while messages are left follow
   [jsteps] -- head entry of [segs] (rest of the current message followed by term) not empty:
   1..len(p) bytes of it, nil; empty: (0, nil) and the entry is finished -- and every later
   call returns ([], end-of-stream error), at most 999 times (then NextReader panics) *)
Theorem C03_join_calls_exact :
  forall inflate c b fs term l,
    custom_handlers c = false -> binv b -> (125 <= bsize b)%nat ->
    conformant_frames c fs -> pending b = encode_frames fs -> trailer fs <> [] ->
    Forall (fun m => (0 < m)%nat) l ->
    exists l1 l2 o1 segs1, l = l1 ++ l2 /\
      jsteps (map (fun m : N * bool * bytes => snd m ++ term) (data_msgs (events_of fs))) l1 o1 segs1 /\
      (l2 = [] \/ segs1 = []) /\
      join_run inflate c (init_rst b) term l =
        o1 ++ repeat ([], Some (of_berror (BErr (fault (src b))))) (min (length l2) 999).
Proof. exact join_closed. Qed.
Print Assumptions C03_join_calls_exact.

(* (a) the bytes returned are a prefix of the joined messages, no call returns more than its
   buffer, and a call returns an error only when everything has been delivered before it *)
Theorem C03_join_prefix :
  forall inflate c b fs term l,
    custom_handlers c = false -> binv b -> (125 <= bsize b)%nat ->
    conformant_frames c fs -> pending b = encode_frames fs -> trailer fs <> [] ->
    Forall (fun m => (0 < m)%nat) l ->
    let outs := join_run inflate c (init_rst b) term l in
    let W := joined term (data_msgs (events_of fs)) in
    (exists rest, W = jbytes outs ++ rest) /\
    Forall2 (fun m (o:jout) => (length (fst o) <= m)%nat) (firstn (length outs) l) outs /\
    (forall i x e, nth_error outs i = Some (x, Some e) -> jbytes (firstn i outs) = W).
Proof. exact join_prefix. Qed.
Print Assumptions C03_join_prefix.

(* (b) progress: (number of bytes + number of messages) calls deliver everything; exactly one
   call per message returns 0 bytes with a nil error (the call on which the message reader,
   resp. the MultiReader when term <> "", reports io.EOF) *)
Theorem C03_join_complete :
  forall inflate c b fs term l,
    custom_handlers c = false -> binv b -> (125 <= bsize b)%nat ->
    conformant_frames c fs -> pending b = encode_frames fs -> trailer fs <> [] ->
    Forall (fun m => (0 < m)%nat) l ->
    let outs := join_run inflate c (init_rst b) term l in
    let ms := data_msgs (events_of fs) in
    (length (joined term ms) + length ms <= length l)%nat ->
    jbytes outs = joined term ms /\ length (filter silent outs) = length ms.
Proof. exact join_complete. Qed.
Print Assumptions C03_join_complete.

(* (c) io.EOF is never returned; the first error is the transport's fault as NextReader maps
   it at the end of the stream (EOF becomes CloseError 1006 "unexpected EOF"), it comes with
   no byte, after everything, and every later call returns it again *)
Theorem C03_join_first_error :
  forall inflate c b fs term l,
    custom_handlers c = false -> binv b -> (125 <= bsize b)%nat ->
    conformant_frames c fs -> pending b = encode_frames fs -> trailer fs <> [] ->
    Forall (fun m => (0 < m)%nat) l ->
    let outs := join_run inflate c (init_rst b) term l in
    Forall (fun o : jout => snd o <> Some RIoEOF) outs /\
    forall i x e, nth_error outs i = Some (x, Some e) ->
      x = [] /\ e = of_berror (BErr (fault (src b))) /\ e <> RIoEOF /\
      jbytes (firstn i outs) = joined term (data_msgs (events_of fs)) /\
      forall j, (i <= j)%nat -> (j < length outs)%nat -> nth_error outs j = Some ([], Some e).
Proof. exact join_first_error. Qed.
Print Assumptions C03_join_first_error.

(* ... the error with which the ReadMessage loop ends on the same stream *)
Theorem C03_join_error_is_next_reader_error :
  forall inflate c b fs,
    custom_handlers c = false -> binv b -> (125 <= bsize b)%nat ->
    conformant_frames c fs -> pending b = encode_frames fs -> trailer fs <> [] ->
    let ms := data_msgs (events_of fs) in
    exists s', run_ops inflate c (init_rst b) (repeat OReadMessage (S (length ms))) =
                 (map out_of ms ++ [RMsg 0 [] (Some (of_berror (BErr (fault (src b)))))], s').
Proof. exact join_error_is_next_reader_error. Qed.
Print Assumptions C03_join_error_is_next_reader_error.

(* (d) the bytes do not depend on the read sizes, nor on the transport chunking, buffer size,
   initial buffering or fault kind *)
Theorem C03_join_independent :
  forall inflate1 inflate2 c1 c2 b1 b2 fs term l1 l2,
    custom_handlers c1 = false -> custom_handlers c2 = false -> server c1 = server c2 ->
    binv b1 -> binv b2 -> (125 <= bsize b1)%nat -> (125 <= bsize b2)%nat ->
    conformant_frames c1 fs -> trailer fs <> [] ->
    pending b1 = encode_frames fs -> pending b2 = encode_frames fs ->
    Forall (fun m => (0 < m)%nat) l1 -> Forall (fun m => (0 < m)%nat) l2 ->
    let ms := data_msgs (events_of fs) in
    (length (joined term ms) + length ms <= length l1)%nat ->
    (length (joined term ms) + length ms <= length l2)%nat ->
    jbytes (join_run inflate1 c1 (init_rst b1) term l1) = jbytes (join_run inflate2 c2 (init_rst b2) term l2).
Proof. exact join_independent. Qed.
Print Assumptions C03_join_independent.

(* (a)+(b) when ANYTHING may follow the frames on the transport (more frames, garbage; nothing
   if a control frame follows the last data frame): for the calls made while messages of fs are
   left (o1); calls are left over (o2) only once everything has been delivered *)
Theorem C03_join_any_continuation :
  forall inflate c b fs extra term l,
    custom_handlers c = false -> binv b -> (125 <= bsize b)%nat ->
    conformant_frames c fs -> pending b = encode_frames fs ++ extra ->
    (trailer fs = [] -> extra <> []) -> Forall (fun m => (0 < m)%nat) l ->
    let ms := data_msgs (events_of fs) in
    exists o1 o2 rest,
      join_run inflate c (init_rst b) term l = o1 ++ o2 /\
      Forall (fun o : jout => snd o = None) o1 /\
      Forall2 (fun m (o:jout) => (length (fst o) <= m)%nat) (firstn (length o1) l) o1 /\
      joined term ms = jbytes o1 ++ rest /\ (o2 = [] \/ rest = []) /\
      ((length (joined term ms) + length ms <= length l)%nat ->
         rest = [] /\ length (filter silent o1) = length ms /\
         (length o1 <= length (joined term ms) + length ms)%nat).
Proof. exact join_stream_prefix. Qed.
Print Assumptions C03_join_any_continuation.

(* the hypothesis "a control frame (any byte) follows the last data frame" is forced: when the
   last payload bytes arrive together with io.EOF the message reader returns (n, io.EOF), the
   joined reader then returns io.EOF itself (c), and with term = "" no call of that message
   returns (0, nil) (b) *)
Example C03_join_why_a_byte_must_follow :
  conformant_frames ReadProgDemo.ex_cfg ReadProgDemo.cx_fs /\ binv ReadProgDemo.cx_b /\
  (125 <= bsize ReadProgDemo.cx_b)%nat /\
  pending ReadProgDemo.cx_b = encode_frames ReadProgDemo.cx_fs /\ trailer ReadProgDemo.cx_fs = [] /\
  data_msgs (events_of ReadProgDemo.cx_fs) = [(2, false, ReadProgDemo.cx_payload)] /\
  join_run JoinDemo.nf ReadProgDemo.ex_cfg (init_rst ReadProgDemo.cx_b) [] [200;200;200]%nat =
    [(ReadProgDemo.cx_payload, None); ([], Some RIoEOF); ([], Some RIoEOF)] /\
  join_run JoinDemo.nf ReadProgDemo.ex_cfg (init_rst ReadProgDemo.cx_b) [10] [200;200;200;200]%nat =
    [(ReadProgDemo.cx_payload, None); ([10], None); ([], None); ([], Some RIoEOF)].
Proof. exact JoinDemo.join_glued_eof_counterexample. Qed.
Print Assumptions C03_join_why_a_byte_must_follow.

(* (c) when ANYTHING may follow the frames: every call made while messages of fs are left
   returns a nil error; when calls are left over (l2) everything has been delivered, the reader
   stands right after the last data frame ([reached]), and IF NextReader fails there (the
   transport does not go on with a further message) its error is not io.EOF and all the
   left-over calls return it (999 - errcount: NextReader's 1000th failure panics) *)
Theorem C03_join_no_eof_any_continuation :
  forall inflate c b fs extra term l,
    custom_handlers c = false -> binv b -> (125 <= bsize b)%nat ->
    conformant_frames c fs -> pending b = encode_frames fs ++ extra ->
    (trailer fs = [] -> extra <> []) -> Forall (fun m => (0 < m)%nat) l ->
    exists o1 l2 st1,
      join_run inflate c (init_rst b) term l = o1 ++ fst (join_steps inflate c st1 l2) /\
      Forall (fun o : jout => snd o = None) o1 /\
      (l2 = [] \/
       (jbytes o1 = joined term (data_msgs (events_of fs)) /\ reached fs extra (jconn st1) /\
        forall ty e s', next_reader c (jconn st1) = (RNext ty (Some e), s') ->
          e <> RIoEOF /\
          exists m l2', l2 = m :: l2' /\
            fst (join_steps inflate c st1 l2) =
              repeat ([], Some e) (S (min (length l2') (999 - errcount s'))))).
Proof. exact join_stream_end. Qed.
Print Assumptions C03_join_no_eof_any_continuation.
