(* C03 The reader decodes any conformant peer stream, however fragmented or read.
   Only property theorems here; proofs are in Proofs/ReaderP*.v. *)
Require Import WS.Base.Bytes WS.gen.Consts WS.Spec.Frame WS.Spec.Conformance WS.Model.Bufio WS.Model.Reader.
Require Import WS.Proofs.BufioP WS.Proofs.ReaderP1 WS.Proofs.ReaderP2 WS.Proofs.ReaderP3 WS.Proofs.ReaderP WS.Proofs.ReaderPTest.

(* For EVERY conformant uncompressed frame list fs (arbitrary fragmentation incl. empty frames,
   any mask keys, 7/16/64-bit lengths, ping/pong frames anywhere), EVERY reader role, EVERY bufio
   state b whose pending bytes are the encoding of fs followed by anything (so: every read buffer
   size >= 125, every initial buffer content, every transport chunking, every fault kind and
   delivery), EVERY io.ReadAll capacity schedule: n ReadMessage calls return exactly the n data
   messages fs encodes, in order, with their types and byte-identical payloads, each ping is
   answered by a pong with the identical payload, no error, no byte lost.
   PARTIAL with respect to the property text: read program = ReadMessage loop; default
   handlers; compressed messages (RSV1 + inflate), NextReader+Read of arbitrary sizes, abandoned
   messages and close frames are covered by the correspondence check and by Props/C06, C08. *)
Theorem C03_reader_decodes_partial :
  forall inflate c b fs extra,
    custom_handlers c = false -> binv b -> (125 <= bsize b)%nat ->
    conformant_frames c fs -> pending b = encode_frames fs ++ extra ->
    (trailer fs = [] -> extra = [] -> fault (src b) = EEOF) ->
    let ms := data_msgs (events_of fs) in
    exists s',
      run_ops inflate c (init_rst b) (repeat OReadMessage (length ms)) = (map out_of ms, s') /\
      outoffuel s' = false /\ closesent s' = false /\ rem s' = 0 /\ rfin s' = true /\
      wlog s' = map WPong (pings_of (body fs)) /\
      pending (br s') = encode_frames (trailer fs) ++ extra /\
      binv (br s') /\
      (rerror s' = None \/ (rerror s' = Some RIoEOF /\ trailer fs = [] /\ extra = [])).
Proof. exact read_messages_general. Qed.
Print Assumptions C03_reader_decodes_partial.

(* end of stream is signalled only at the true end: after the n messages one more read reports
   the transport's end (1006 / io.EOF), never earlier *)
Theorem C03_end_only_at_true_end :
  forall inflate c b fs, custom_handlers c = false -> binv b -> (125 <= bsize b)%nat ->
    conformant_frames c fs -> pending b = encode_frames fs ->
    (trailer fs = [] -> fault (src b) = EEOF) ->
    let ms := data_msgs (events_of fs) in
    exists e s',
      run_ops inflate c (init_rst b) (repeat OReadMessage (S (length ms))) =
        (map out_of ms ++ [RMsg 0 [] (Some e)], s') /\
      (e = of_berror (BErr (fault (src b))) \/ (e = RIoEOF /\ trailer fs = [])) /\
      rerror s' = Some e /\ outoffuel s' = false /\ closesent s' = false /\
      wlog s' = map WPong (pings_of fs) /\ pending (br s') = [].
Proof. exact read_messages_then_end. Qed.
Print Assumptions C03_end_only_at_true_end.

(* the result does not depend on transport chunking, buffer size, initial buffering, fault kind,
   ReadAll growth schedule or the inflate implementation *)
Theorem C03_independent_of_chunking_and_buffers :
  forall inflate1 inflate2 c1 c2 b1 b2 fs extra,
    custom_handlers c1 = false -> custom_handlers c2 = false -> server c1 = server c2 ->
    binv b1 -> binv b2 -> (125 <= bsize b1)%nat -> (125 <= bsize b2)%nat ->
    conformant_frames c1 fs -> extra <> [] ->
    pending b1 = encode_frames fs ++ extra -> pending b2 = encode_frames fs ++ extra ->
    let ops := repeat OReadMessage (length (data_msgs (events_of fs))) in
    fst (run_ops inflate1 c1 (init_rst b1) ops) = fst (run_ops inflate2 c2 (init_rst b2) ops) /\
    wlog (snd (run_ops inflate1 c1 (init_rst b1) ops)) = wlog (snd (run_ops inflate2 c2 (init_rst b2) ops)) /\
    pending (br (snd (run_ops inflate1 c1 (init_rst b1) ops))) =
    pending (br (snd (run_ops inflate2 c2 (init_rst b2) ops))).
Proof. exact read_messages_independent. Qed.
Print Assumptions C03_independent_of_chunking_and_buffers.
