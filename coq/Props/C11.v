(* C11 Documented concurrency contract: frames atomic, WriteControl bounded.
   Only property theorems here; proofs are in Proofs/ConcP.v.  Data-race freedom of the Go code is
   a property of the Go memory model, not of this step semantics: it is evidenced by the race
   detector runs of the harness and is NOT proved (partial). *)
Require Import WS.Base.Bytes WS.gen.Consts WS.Model.Conc WS.Proofs.ConcP.

(* every frame reaches the transport contiguously, for every schedule of {writer, any number of
   WriteControl callers, Close}: between two Writes of one frame there is no Write of another *)
Theorem C11_frames_contiguous_all_schedules :
  forall s0 sched, init_ok s0 ->
    forall l1 e1 l2 e2 l3, log (run sched s0) = l1 ++ e1 :: l2 ++ e2 :: l3 ->
      same_call e1 e2 -> Forall (same_call e1) l2.
Proof. exact frames_contiguous. Qed.
Print Assumptions C11_frames_contiguous_all_schedules.

(* every Write happens under a deadline set by the same call *)
Theorem C11_write_has_deadline :
  forall s0 sched e, init_ok s0 -> In e (log (run sched s0)) -> In (etid e, efid e) (dlog (run sched s0)).
Proof. exact write_has_deadline. Qed.

(* WriteControl with a deadline that cannot get the connection returns a timeout, writes nothing,
   does not poison the connection and leaves the lock alone *)
Theorem C11_timeout_is_clean :
  forall s0 sched t timer f, init_ok s0 ->
    let s := run sched s0 in
    res (thr_of (step t timer s) t) = (f, ETimeout) :: res (thr_of s t) ->
    log (step t timer s) = log s /\ werr (step t timer s) = werr s /\ mu (step t timer s) = mu s.
Proof. exact timeout_clean_reachable. Qed.
Print Assumptions C11_timeout_is_clean.

(* a deadline already in the past never touches the lock *)
Theorem C11_past_deadline_never_locks :
  forall s0 sched t timer c rest, init_ok s0 ->
    let s := run sched s0 in
    todo (thr_of s t) = c :: rest -> dl c = DPast -> mu s <> Some t /\ mu (step t timer s) = mu s.
Proof. exact dpast_never_locks_reachable. Qed.
Print Assumptions C11_past_deadline_never_locks.

Theorem C11_mutual_exclusion :
  forall s0 sched t1 t2, init_ok s0 ->
    in_cs (ph (thr_of (run sched s0) t1)) = true -> in_cs (ph (thr_of (run sched s0) t2)) = true -> t1 = t2.
Proof. exact mutual_exclusion. Qed.

(* tie to the source, regenerated on every run *)
Theorem C11_source_facts : f_transport_writes_only_under_mu = true /\ f_close_mark_inside_lock = true.
Proof. split; reflexivity. Qed.
(* "the stream still satisfies the wire-format and round-trip guarantees": each frame is one
   contiguous group (above) and is built by the sequential writer of Props/C02. *)
