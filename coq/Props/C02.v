(* C02 Everything written to the wire is well-formed RFC 6455 / RFC 7692 framing.
   Only property theorems here; proofs are in Proofs/WW*.v and Proofs/WriterWireP.v. *)
Require Import WS.Base.Bytes WS.gen.Consts WS.Spec.Frame WS.Model.Writer WS.Cases.WriterCase.
Require Import WS.Proofs.FrameP WS.Proofs.WWFlate WS.Proofs.WWPrep WS.Proofs.WriterWireP.

(* For EVERY configuration (role, buffer size, pool, compression negotiated or not), EVERY mask
   key oracle, EVERY fault plan and EVERY write program whatsoever (valid and invalid requests,
   control messages through either API, implicit closes, abandoned writers, compression toggles
   and level changes): the bytes handed to the transport are the encoding of a frame list that
   satisfies the Spec's wire predicate -- client frames masked / server frames not, minimal length
   encoding, RSV2/RSV3 clear and RSV1 only on the first frame of a data message and only when
   negotiated, each data message one text/binary frame followed only by continuations, control
   frames FIN and <= 125 bytes -- followed, only after a transport fault, by a strict prefix of
   one further well-formed frame.  (Sizes below 2^62: Go ints.  flate_good: the compressor ends
   each sync flush with 00 00 ff ff, as compress/flate does; the harness checks it on every run;
   the Example in WriterWireP shows what the library does when a compressor does not.) *)
Theorem C02_wire_wellformed :
  forall c ks fa ops,
    w_bufsize c < 2^62 -> Forall (fun k => length k = 4%nat) ks ->
    Forall op_small ops -> no_prepared ops ->
    (w_negotiated c = false \/ flate_good c (init_wst c ks fa) ops) ->
    let s' := snd (wrun c (init_wst c ks fa) ops) in
    exists fs p,
      wire_of (evs s') = encode_frames fs ++ p /\ Forall wf_frame fs /\
      wf_wire (negb (w_server c)) (w_negotiated c) (map (fun f => (f, true)) fs) = true /\
      (p = [] \/ exists f rest, wf_frame f /\
         frame_ok (negb (w_server c)) (w_negotiated c) (open_after false (map (fun f => (f, true)) fs)) f true = true /\
         rest <> [] /\ encode_frame f = p ++ rest) /\
      (fa = None -> p = []) /\ (werr s' = None -> p = []).
Proof. exact wire_wellformed_gen. Qed.
Print Assumptions C02_wire_wellformed.

(* hence the independent Spec decoder parses the fault-free wire back into whole, minimal frames *)
Theorem C02_spec_decoder_accepts_the_wire :
  forall c ks ops,
    w_bufsize c < 2^62 -> Forall (fun k => length k = 4%nat) ks ->
    Forall op_small ops -> no_prepared ops ->
    (w_negotiated c = false \/ flate_good c (init_wst c ks None) ops) ->
    let s' := snd (wrun c (init_wst c ks None) ops) in
    exists fs, parse_frames (wire_of (evs s')) = (map (fun f => (f, true)) fs, TEnd) /\
               wf_wire (negb (w_server c)) (w_negotiated c) (map (fun f => (f, true)) fs) = true.
Proof. exact wire_wellformed_parse. Qed.
Print Assumptions C02_spec_decoder_accepts_the_wire.

(* programs with WritePreparedMessage (which first closes a writer left open) *)
Theorem C02_wire_wellformed_with_prepared :
  forall c ks fa ops,
    w_bufsize c < 2^62 -> Forall (fun k => length k = 4%nat) ks ->
    cgood c (init_wst c ks fa, []) ops ->
    let s' := fst (snd (crun c (init_wst c ks fa, []) ops)) in
    exists fs p,
      wire_of (evs s') = encode_frames fs ++ p /\ Forall wf_frame fs /\
      wf_wire (negb (w_server c)) (w_negotiated c) (map (fun f => (f, true)) fs) = true /\
      (p = [] \/ exists f rest, wf_frame f /\
         frame_ok (negb (w_server c)) (w_negotiated c) (open_after false (map (fun f => (f, true)) fs)) f true = true /\
         rest <> [] /\ encode_frame f = p ++ rest) /\
      (fa = None -> p = []) /\ (werr s' = None -> p = []).
Proof. exact wire_wellformed_prepared. Qed.
Print Assumptions C02_wire_wellformed_with_prepared.

(* mask keys: which source is wired in is read off the source on every run *)
Theorem C02_mask_source_is_crypto_rand :
  f_mask_rand_is_crypto_rand = true /\ f_new_mask_key_reads_mask_rand = true.
Proof. split; reflexivity. Qed.
(* PARTIAL (as far as this block goes; (1) and (2) are closed by the theorems below): (1) "payloads
   reproduce exactly what the application wrote, one wire message per API message, in call order"
   and (2) "RSV1 exactly when compression was enabled at NextWriter" are C02_wire_events_compressed
   / C02_wire_events_prepared below (without compression also Props/C01); what remains an oracle
   is compress/flate itself: a compressed payload is proved to be the oracle's deflate stream
   minus its last four octets, and that the stream inflates to the plaintext is checked by the
   Spec inflate on every compressed case of the correspondence run; (3) every frame that reaches
   the transport uses the next key of the oracle (by construction of keyed_write); the
   cryptographic quality of crypto/rand cannot be a theorem; (4) the events theorems are for
   fault-free runs (faults: Props/C10). *)

(* ---- second half of C02 WITH negotiated compression (closes (1) and (2) above up to the flate
   oracle): Proofs/WriterEventsZ.v ----
   compress/flate is an oracle of the writer model, so "the payload reproduces what the
   application wrote" becomes: the Spec events of the wire are the output of the abstract writer
   (Spec/WriterSpec.v) -- same messages, same order, same types, RSV1 exactly on the data messages
   begun while write compression was enabled -- where the payload of every message sent
   compressed is the oracle stream emitted for THAT message (the chunks of its Writes, then the
   chunks of its Close or of the implicit close) minus the final 00 00 ff ff.  [zstep]/[zrun] is
   the abstract writer carrying that stream as a ghost field ([zerase]: forgetting the field
   gives [astep]/[arun], unconditionally); [zwire] maps an output entry to its wire image.
   Hypotheses on the oracle (both necessary, see WriterEventsZ.flate_good_needed and
   rf_good_needed): [flate_good] (each Close-time output ends with the sync marker, as
   compress/flate does; the harness checks it) and [rf_good] (no ReadFrom while a compressed
   writer is current: the model does not drive the compressor through ReadFrom). *)
Require Import WS.Spec.WriterSpec WS.Proofs.WriterEventsP WS.Proofs.WriterEventsZ.

Theorem C02_annotated_writer_erases_to_abstract_writer :
  forall ng z o r, zerase (zstep ng z o r) = astep ng (zerase z) (wop_aop o) r.
Proof. exact zstep_erase. Qed.
Print Assumptions C02_annotated_writer_erases_to_abstract_writer.

Theorem C02_wire_events_compressed :
  forall c ks ops fs,
    14 < w_bufsize c -> w_bufsize c < 2^62 ->
    Forall (fun k => length k = 4%nat) ks -> Forall op_small ops -> no_prepared ops ->
    (w_negotiated c = false \/
     (flate_good c (init_wst c ks None) ops /\ rf_good c (init_wst c ks None) ops)) ->
    let r := wrun c (init_wst c ks None) ops in
    let res := map e_werr_N (fst r) in
    let A := arun (w_negotiated c) ast0 (combine (map wop_aop ops) res) in
    let Z := zrun (w_negotiated c) zst0 (combine ops res) in
    Forall wf_frame fs -> wire_of (evs (snd r)) = encode_frames fs ->
    zerase Z = A /\
    map sent_of_event (events_of fs) = map zwire (z_out Z) /\
    Forall zstr_ok (z_out Z) /\
    (a_dead A = false -> a_open A = None -> snd (events_from None fs) = None).
Proof. exact wire_events_compressed. Qed.
Print Assumptions C02_wire_events_compressed.

(* the same against the abstract writer's own output, message by message ([zrel]: same type,
   same compressed flag, same payload if uncompressed, payload ++ 00 00 ff ff = the oracle
   stream of that message if compressed) *)
Theorem C02_wire_events_compressed_rel :
  forall c ks ops fs,
    14 < w_bufsize c -> w_bufsize c < 2^62 ->
    Forall (fun k => length k = 4%nat) ks -> Forall op_small ops -> no_prepared ops ->
    (w_negotiated c = false \/
     (flate_good c (init_wst c ks None) ops /\ rf_good c (init_wst c ks None) ops)) ->
    let r := wrun c (init_wst c ks None) ops in
    let res := map e_werr_N (fst r) in
    let A := arun (w_negotiated c) ast0 (combine (map wop_aop ops) res) in
    let Z := zrun (w_negotiated c) zst0 (combine ops res) in
    Forall wf_frame fs -> wire_of (evs (snd r)) = encode_frames fs ->
    map fst (z_out Z) = a_out A /\
    Forall2 zrel (z_out Z) (map sent_of_event (events_of fs)).
Proof. exact wire_events_compressed_rel. Qed.
Print Assumptions C02_wire_events_compressed_rel.

(* programs of successful WriteMessage calls: one entry per call, its stream = what the
   compressor emitted during that call's Write and Close *)
Theorem C02_annotated_writer_on_messages :
  forall ng ops, Forall (fun o => match o with WMessage _ _ _ _ _ => True | _ => False end) ops ->
  forall z, z_open z = None -> z_comp z = true ->
  z_out (zrun ng z (combine ops (repeat 0 (length ops)))) = z_out z ++ flat_map (msg_entry ng) ops.
Proof. exact zrun_messages_only. Qed.
Print Assumptions C02_annotated_writer_on_messages.

(* ---- second half of C02 for programs WITH WritePreparedMessage: Proofs/WriterEventsC.v ----
   [crun] is the case format's run (every wop except the raw prepared frame, plus
   WritePreparedMessage with its shared per-id frame cache); [aop_of] reads a prepared send as
   AMessage of its creation payload.  The events of the wire are the output of the abstract
   writer; a message sent compressed carries its deflate stream minus 00 00 ff ff, and for a
   prepared send that stream is [pstream]: the flate oracle of the send that RENDERED the cached
   frame for (id, key) -- this send on a cache miss, an earlier send with the same id and key on
   a hit (C02_prepared_stream, C02_recorded_stream_stable).  [cz_ops] is the program as the
   annotated abstract writer of WriterEventsZ sees it: each prepared send replaced by
   [prep_msg p stream] = WMessage ty data ic [] [stream].
   Hypotheses: [cop_small] (sizes < 2^62), [op_for pay] (PreparedP: an id always stands for the
   same, valid, creation payload; 4-byte mask keys for the rendering), and, only when compression
   is negotiated, [czgood] (flate_good + rf_good for the plain ops; for a prepared send: the
   implicit-close oracle ends with 00 00 ff ff if a compressed writer is current, the Close-time
   oracle ends with 00 00 ff ff if this send renders a compressed frame).  All three are
   necessary for the model (WriterEventsC.payload_convention_needed, payload_valid_needed,
   prep_flate_ok_needed). *)
Require Import WS.Proofs.PreparedP WS.Proofs.WriterEventsC.

Theorem C02_wire_events_prepared :
  forall pay c ks ops fs,
    14 < w_bufsize c -> w_bufsize c < 2^62 ->
    Forall (fun k => length k = 4%nat) ks -> Forall cop_small ops -> Forall (op_for pay) ops ->
    (w_negotiated c = false \/ czgood c (init_wst c ks None, []) ops) ->
    let r := crun c (init_wst c ks None, []) ops in
    let res := cres (fst r) in
    let A := arun (w_negotiated c) ast0 (combine (map aop_of ops) res) in
    let Z := zrun (w_negotiated c) zst0 (combine (cz_ops c (init_wst c ks None, []) [] ops) res) in
    Forall wf_frame fs -> wire_of (evs (fst (snd r))) = encode_frames fs ->
    zerase Z = A /\
    map sent_of_event (events_of fs) = map zwire (z_out Z) /\
    Forall zstr_ok (z_out Z) /\
    (a_dead A = false -> a_open A = None -> snd (events_from None fs) = None).
Proof. exact wire_events_prepared. Qed.
Print Assumptions C02_wire_events_prepared.

Theorem C02_wire_events_prepared_rel :
  forall pay c ks ops fs,
    14 < w_bufsize c -> w_bufsize c < 2^62 ->
    Forall (fun k => length k = 4%nat) ks -> Forall cop_small ops -> Forall (op_for pay) ops ->
    (w_negotiated c = false \/ czgood c (init_wst c ks None, []) ops) ->
    let r := crun c (init_wst c ks None, []) ops in
    let res := cres (fst r) in
    let A := arun (w_negotiated c) ast0 (combine (map aop_of ops) res) in
    let Z := zrun (w_negotiated c) zst0 (combine (cz_ops c (init_wst c ks None, []) [] ops) res) in
    Forall wf_frame fs -> wire_of (evs (fst (snd r))) = encode_frames fs ->
    map fst (z_out Z) = a_out A /\
    Forall2 zrel (z_out Z) (map sent_of_event (events_of fs)).
Proof. exact wire_events_prepared_rel. Qed.
Print Assumptions C02_wire_events_prepared_rel.

(* both halves of C02 at once: the wire IS a well-formed frame sequence, carrying these events *)
Theorem C02_wire_wellformed_and_events_prepared :
  forall pay c ks ops,
    14 < w_bufsize c -> w_bufsize c < 2^62 ->
    Forall (fun k => length k = 4%nat) ks -> Forall cop_small ops -> Forall (op_for pay) ops ->
    (w_negotiated c = false \/ czgood c (init_wst c ks None, []) ops) ->
    let r := crun c (init_wst c ks None, []) ops in
    let res := cres (fst r) in
    let A := arun (w_negotiated c) ast0 (combine (map aop_of ops) res) in
    let Z := zrun (w_negotiated c) zst0 (combine (cz_ops c (init_wst c ks None, []) [] ops) res) in
    exists fs, wire_of (evs (fst (snd r))) = encode_frames fs /\ Forall wf_frame fs /\
      wf_wire (negb (w_server c)) (w_negotiated c) (map (fun f => (f, true)) fs) = true /\
      zerase Z = A /\
      map sent_of_event (events_of fs) = map zwire (z_out Z) /\
      Forall zstr_ok (z_out Z) /\
      (a_dead A = false -> a_open A = None -> snd (events_from None fs) = None).
Proof. exact wire_wellformed_and_events_prepared. Qed.
Print Assumptions C02_wire_wellformed_and_events_prepared.

Theorem C02_abstract_flags_exact_prepared :
  forall pay c ks ops,
    14 < w_bufsize c -> w_bufsize c < 2^62 ->
    Forall (fun k => length k = 4%nat) ks -> Forall cop_small ops -> Forall (op_for pay) ops ->
    (w_negotiated c = false \/ czgood c (init_wst c ks None, []) ops) ->
    let r := crun c (init_wst c ks None, []) ops in
    let A := arun (w_negotiated c) ast0 (combine (map aop_of ops) (cres (fst r))) in
    (a_dead A = true <-> werr (fst (snd r)) <> None) /\
    (a_dead A = false -> (a_open A = None <-> cur (fst (snd r)) = None)) /\
    (a_dead A = false -> a_comp A = wcomp (fst (snd r))).
Proof. exact abstract_flags_exact_prepared. Qed.
Print Assumptions C02_abstract_flags_exact_prepared.

(* what the annotated writer appends for a prepared send, and which stream that is *)
Theorem C02_annotated_writer_on_prepared :
  forall ng z p str r, z_dead z = false -> ntrN r ->
  let z' := zstep ng z (prep_msg p str) r in
  z_open z' = None /\ z_comp z' = z_comp z /\
  z_out z' = (z_out z ++ zflush_out z (ps_ic p)) ++
             (if r =? 0 then [(mk_sent (ps_ty p) (ng && z_comp z && is_data (ps_ty p)) (ps_data p), str)] else []) /\
  z_dead z' = zflush_closes z || ((r =? 0) && (ps_ty p =? 8)).
Proof. exact zstep_prepared. Qed.
Print Assumptions C02_annotated_writer_on_prepared.

Theorem C02_prepared_stream :
  forall c st g p,
  (prep_miss c st p = true -> pstream c st g p = concat (ps_wc p) ++ concat (ps_cc p)) /\
  (prep_miss c st p = false ->
   pstream c st g p = match gget (ps_id p) (prep_key c (fst st) p) g with Some str => str | None => [] end).
Proof. intros c st g p. split; [apply pstream_miss|apply pstream_hit]. Qed.
Print Assumptions C02_prepared_stream.

Theorem C02_recorded_stream_stable :
  forall c ops st g, GS (snd st) g ->
  GS (snd (snd (crun c st ops))) (cz_ghost c st g ops) /\
  forall id k str, gget id k g = Some str -> gget id k (cz_ghost c st g ops) = Some str.
Proof. exact crun_GS. Qed.
Print Assumptions C02_recorded_stream_stable.
