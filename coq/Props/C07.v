(* C07 Untrusted network input never panics, hangs or allocates out of proportion.
   Only property theorems here; proofs in Proofs/TotalP.v, LimitP.v, TokenP.v, DialP.v.

   What a theorem can carry here.  The model's functions are total Gallina functions, so "returns
   a result or an error" is automatic for the *model*; the content is in the places where the
   model uses fuel for a Go loop (the NextReader frame loop, the message reader's Read loop,
   io.CopyN's discard loop, io.ReadAll, the header-value scanners).  There the theorems say:
   (a) the fuel the model supplies (the number of pending bytes + 1) is never exhausted, for
   ARBITRARY bytes on the transport -- every iteration consumes input (>= 2 bytes per frame
   header), which is "no loop without consuming input"; (b) the only [RPanic] outcome is the
   documented one after 1000 failed reads; (c) every size the read path asks of the buffered
   transport is bounded by max(125, the caller's buffer, 8192) whatever lengths the headers
   declare, and without compression the bytes delivered never exceed the bytes received;
   (d) the scanners' results do not depend on the fuel once it exceeds the input length, and
   they return substrings of their input.

   PARTIAL, named: real memory and time are measured by the harness (TotalAlloc across the call,
   a watchdog), not proved; with compression the inflated output is bounded by flate's ratio, not
   by a theorem here; the HTTP parsing of a server's or proxy's reply is net/http's (oracle):
   C07d feeds junk replies to the real Dial and only observes panic / hang / allocation; Go
   runtime panics (index out of range, nil dereference) have no counterpart in the model and are
   caught only by the correspondence run on the real code (C07r, C07h, C07d). *)
Require Import WS.Base.Bytes WS.gen.Consts WS.Model.Bufio WS.Model.Reader WS.Proofs.BufioP.
Require Import WS.Proofs.ReaderP1 WS.Proofs.ReaderP2 WS.Proofs.ReaderP3 WS.Proofs.CutP WS.Proofs.LimitP.
Require Import WS.Model.Util WS.Proofs.TokenP WS.Proofs.TotalP.
Require Import WS.Model.Dial WS.Proofs.DialP.

(* ---- (i) arbitrary bytes as a frame stream ---- *)
Theorem C07_frame_stream_total (inflate : bytes -> option bytes) c b ops :
  binv b ->
  outoffuel (snd (run_ops inflate c (init_rst b) ops)) = false /\
  binv (br (snd (run_ops inflate c (init_rst b) ops))) /\
  bsize (br (snd (run_ops inflate c (init_rst b) ops))) = bsize b /\
  (length (pending (br (snd (run_ops inflate c (init_rst b) ops)))) <= length (pending b))%nat.
Proof. exact (frame_stream_total inflate c b ops). Qed.
Print Assumptions C07_frame_stream_total.

Theorem C07_only_documented_panic (inflate : bytes -> option bytes) c b ops :
  binv b -> In RPanic (fst (run_ops inflate c (init_rst b) ops)) ->
  (1000 <= list_sum (map fail_out (fst (run_ops inflate c (init_rst b) ops))))%nat /\
  (1000 <= list_sum (map nr ops))%nat /\
  rerror (snd (run_ops inflate c (init_rst b) ops)) <> None.
Proof. exact (only_documented_panic inflate c b ops). Qed.
Print Assumptions C07_only_documented_panic.

Theorem C07_next_reader_panic_documented c s s' :
  binv (br s) -> outoffuel s = false -> next_reader c s = (RPanic, s') ->
  errcount s' = S (errcount s) /\ (1000 <= errcount s')%nat /\ rerror s' <> None.
Proof. exact (next_reader_panic_documented c s s'). Qed.
Print Assumptions C07_next_reader_panic_documented.

Theorem C07_delivered_bounded_by_received (inflate : bytes -> option bytes) c b ops :
  binv b -> negotiated c = false ->
  (list_sum (map out_len (fst (run_ops inflate c (init_rst b) ops))) +
   length (pending (br (snd (run_ops inflate c (init_rst b) ops)))) <= length (pending b))%nat.
Proof. exact (delivered_bounded_by_received inflate c b ops). Qed.
Print Assumptions C07_delivered_bounded_by_received.

Theorem C07_reader_read_bounded c m s d e s' :
  binv (br s) -> outoffuel s = false -> reader_read c m s = (d, e, s') ->
  (length d <= m)%nat /\ (length d + length (pending (br s')) <= length (pending (br s)))%nat.
Proof. exact (reader_read_bounded c m s d e s'). Qed.
Print Assumptions C07_reader_read_bounded.

Theorem C07_next_token_or_quoted_len s :
  (length (snd (next_token_or_quoted s)) <= length s)%nat /\
  (length (fst (next_token_or_quoted s)) <= length s)%nat.
Proof. exact (next_token_or_quoted_len s). Qed.
Print Assumptions C07_next_token_or_quoted_len.

Theorem C07_line_contains_fuel s v fuel :
  (length s < fuel)%nat -> line_contains fuel s v = line_contains (S (length s)) s v.
Proof. exact (line_contains_fuel s v fuel). Qed.
Print Assumptions C07_line_contains_fuel.

Theorem C07_ext_line_fuel s acc fuel :
  (length s < fuel)%nat -> ext_line fuel s acc = ext_line (S (length s)) s acc.
Proof. exact (ext_line_fuel s acc fuel). Qed.
Print Assumptions C07_ext_line_fuel.

Theorem C07_ext_params_fuel e s fuel :
  (length s < fuel)%nat -> ext_params fuel e s = ext_params (S (length s)) e s.
Proof. exact (ext_params_fuel e s fuel). Qed.
Print Assumptions C07_ext_params_fuel.

Theorem C07_request_sizes_bounded c m : forall fuel s lg,
  let B := Nat.max (Nat.max 125 m) (N.to_nat 8192) in
  all_le B lg ->
  fst (read_loopI fuel c m s lg) = read_loop fuel c m s /\
  all_le B (snd (read_loopI fuel c m s lg)).
Proof. exact (request_sizes_bounded c m). Qed.
Print Assumptions C07_request_sizes_bounded.

Theorem C07_next_reader_request_sizes_bounded c : forall fuel s lg,
  all_le (N.to_nat 8192) lg ->
  fst (next_loopI fuel c s lg) = next_loop fuel c s /\
  all_le (N.to_nat 8192) (snd (next_loopI fuel c s lg)).
Proof. exact (next_reader_request_sizes_bounded c). Qed.
Print Assumptions C07_next_reader_request_sizes_bounded.

(* ---- (iii) a proxy reply: anything but status 200 aborts, with or without a reason phrase ---- *)
Theorem C07_connect_reply_total : forall code line, connect_reply code line = CROk <-> code = 200.
Proof. exact (connect_reply_total ). Qed.
Print Assumptions C07_connect_reply_total.

