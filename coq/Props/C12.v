(* C12 Server handshake: upgrade iff the request is a valid opening handshake; correct 101.
   Only property theorems here; proofs are in Proofs/TokenP.v and Proofs/ServerP.v. *)
Require Import WS.Base.Bytes WS.gen.Consts WS.Spec.Handshake WS.Model.Util WS.Model.Server.
Require Import WS.Proofs.TokenP WS.Proofs.ServerP.
Import Lits.

(* exact characterisation of the model's decision, for every request, setting, application
   header and environment (hijack / write success) *)
Theorem C12_upgrade_iff :
  forall url u q rh hj wr,
    (exists resp c sub, upgrade url u q rh hj wr = Upgraded resp c sub) <->
    token_list_contains_value (q_connection q) str_upgrade = true /\
    token_list_contains_value (q_upgrade q) str_websocket = true /\
    q_method q = str_get /\
    token_list_contains_value (q_version q) str_13 = true /\
    no_ext_header rh = true /\ origin_ok url u q = true /\
    is_valid_challenge_key (first_line (q_key q)) = true /\ hj = true /\ wr = true.
Proof. exact upgrade_iff. Qed.
Print Assumptions C12_upgrade_iff.

(* against the RFC-level Spec (Spec/Handshake.v: 1#token lists, base64 of 16 bytes, RFC digest):
   soundness for EVERY request -- near misses such as websockets / xupgrade / upgrade;q=1 never
   pass because only a whole well-formed list element can match *)
Theorem C12_upgraded_only_if_valid_handshake :
  forall url u q rh hj wr resp c sub,
    upgrade url u q rh hj wr = Upgraded resp c sub ->
    q_method q = lit_GET /\ has_token (q_connection q) lit_upgrade = true /\
    has_token (q_upgrade q) lit_websocket = true /\ has_token (q_version q) lit_13 = true /\
    valid_key (first_line (q_key q)) = true /\ origin_ok url u q = true.
Proof. exact upgrade_sound. Qed.
(* and, for list headers inside the 1#token grammar, the full iff *)
Theorem C12_upgrade_iff_valid_handshake :
  forall url u q rh,
    forallb line_wf (q_connection q) = true -> forallb line_wf (q_upgrade q) = true ->
    forallb line_wf (q_version q) = true ->
    (exists resp c sub, upgrade url u q rh true true = Upgraded resp c sub) <->
    q_method q = lit_GET /\ has_token (q_connection q) lit_upgrade = true /\
    has_token (q_upgrade q) lit_websocket = true /\ has_token (q_version q) lit_13 = true /\
    valid_key (first_line (q_key q)) = true /\ origin_ok url u q = true /\ no_ext_header rh = true.
Proof. exact upgrade_spec_iff. Qed.
Print Assumptions C12_upgraded_only_if_valid_handshake.
Print Assumptions C12_upgrade_iff_valid_handshake.
(* outside the grammar the scanner is characterised exactly: it walks the comma-separated
   elements left to right and gives up on a line at the first element that is not OWS token OWS
   (so an empty leading element hides a later "upgrade": recorded, RFC 7230 asks recipients to
   tolerate empty elements; the property does not list it) *)
Theorem C12_scanner_exact :
  forall lines v, token_list_contains_value lines v = existsb (fun s => scan (elements s) v) lines.
Proof. exact token_list_contains_value_exact. Qed.

(* the 101 response: whatever bytes the application's header VALUES and the subprotocol contain
   (header names free of CR/LF), no line contains CR or LF, the number of lines is exactly the
   expected one (nothing can be injected), and the first four lines are fixed, with the RFC digest *)
Theorem C12_no_header_injection :
  forall key sub compress rh, Forall (fun p => has_ctl (fst p) = false) rh ->
    Forall (fun l => has_ctl l = false) (split_crlf [] (response key sub compress rh)).
Proof. exact response_no_injection. Qed.
Theorem C12_response_line_count :
  forall key sub compress rh, Forall (fun p => has_ctl (fst p) = false) rh ->
    length (split_crlf [] (response key sub compress rh)) =
    (4 + (if is_nil sub then 0 else 1) + (if compress then 1 else 0) + count_values rh + 2)%nat.
Proof. exact response_line_count. Qed.
Theorem C12_response_first_lines :
  forall key sub compress rh, Forall (fun p => has_ctl (fst p) = false) rh ->
    firstn 4 (split_crlf [] (response key sub compress rh)) =
    [line_status; line_upgrade; line_connection; accept_prefix ++ accept_digest key].
Proof. exact response_first_lines. Qed.
Print Assumptions C12_no_header_injection.
Print Assumptions C12_response_line_count.

(* subprotocol: with a server list it is the first client offer the server supports *)
Theorem C12_subprotocol_offered_and_supported :
  forall u q rh server p, u_subprotocols u = Some server -> select_subprotocol u q rh = p -> p <> [] ->
    In p server /\
    exists before after, subprotocols (first_line (q_protocol q)) = before ++ p :: after /\
                         forall x, In x before -> ~ In x server.
Proof. exact subprotocol_negotiated. Qed.
(* permessage-deflate announced only if enabled and offered *)
Theorem C12_compression_only_if_enabled_and_offered :
  forall url u q rh hj wr resp c sub, upgrade url u q rh hj wr = Upgraded resp c sub ->
    (c = true <-> u_compression u = true /\
       exists e, In e (parse_extensions (q_extensions q)) /\ ext_name e = permessage_deflate).
Proof. exact compression_iff. Qed.

(* failure: an HTTP error status, 403 exactly for the origin stage, 426 exactly (and with the
   Upgrade header) when Connection is fine and the Upgrade token is missing; never hijacked *)
Theorem C12_rejection_statuses :
  forall url u q rh hj wr st uh, upgrade url u q rh hj wr = Rejected st uh -> In st [400;403;405;426;500].
Proof. exact rejected_status. Qed.
Theorem C12_403_iff_origin :
  forall url u q rh hj wr uh,
    upgrade url u q rh hj wr = Rejected 403 uh <->
    token_list_contains_value (q_connection q) str_upgrade = true /\
    token_list_contains_value (q_upgrade q) str_websocket = true /\ q_method q = str_get /\
    token_list_contains_value (q_version q) str_13 = true /\ no_ext_header rh = true /\
    origin_ok url u q = false /\ uh = false.
Proof. exact status_403_iff. Qed.
Theorem C12_426_iff_upgrade_token_missing :
  forall url u q rh hj wr uh,
    upgrade url u q rh hj wr = Rejected 426 uh <->
    token_list_contains_value (q_connection q) str_upgrade = true /\
    token_list_contains_value (q_upgrade q) str_websocket = false /\ uh = true.
Proof. exact status_426_iff. Qed.
Theorem C12_hijacked_only_if_valid :
  forall url u q rh hj wr, hijacked (upgrade url u q rh hj wr) = true -> handshake_ok url u q rh = true /\ hj = true.
Proof. exact hijacked_only_if_valid. Qed.
Print Assumptions C12_403_iff_origin.
Print Assumptions C12_hijacked_only_if_valid.

(* the key check and the digest are the RFC's (SHA-1 and base64 written in Gallina, anchored by
   the RFC 6455 example and FIPS vectors in Spec/Sha1.v) *)
Theorem C12_key_and_digest_are_the_rfcs :
  (forall k, is_valid_challenge_key k = valid_key k) /\ (forall k, compute_accept_key k = accept_digest k).
Proof. split; [exact challenge_key_is_valid_key|exact accept_key_is_digest]. Qed.
Print Assumptions C12_key_and_digest_are_the_rfcs.
