(* C12 Server handshake: upgrade iff the request is a valid opening handshake; correct 101.
   Only property theorems here; proofs are in Proofs/TokenP.v and Proofs/ServerP.v. *)
Require Import WS.Base.Bytes WS.gen.Consts WS.Spec.Handshake WS.Model.Util WS.Model.Server.
Require Import WS.Proofs.TokenP WS.Proofs.ServerP WS.Proofs.ExtP.
Import Lits.

(* exact characterisation of the model's decision, for every request, setting, application
   header and environment (hijack / write success) *)
Theorem C12_upgrade_iff :
  forall url u q rh hj wr,
    (exists resp c sub, upgrade url u q rh hj wr = Upgraded resp c sub) <->
    token_list_contains_value (q_connection q) str_upgrade = true /\
    token_list_contains_value (q_upgrade q) str_websocket = true /\
    q_method q = str_get /\
    token_list_contains_value (q_version q) str_13 = true /\
    no_ext_header rh = true /\ origin_ok url u q = true /\
    is_valid_challenge_key (first_line (q_key q)) = true /\ hj = true /\ wr = true.
Proof. exact upgrade_iff. Qed.
Print Assumptions C12_upgrade_iff.

(* against the RFC-level Spec (Spec/Handshake.v: 1#token lists, base64 of 16 bytes, RFC digest):
   soundness for EVERY request -- near misses such as websockets / xupgrade / upgrade;q=1 never
   pass because only a whole well-formed list element can match *)
Theorem C12_upgraded_only_if_valid_handshake :
  forall url u q rh hj wr resp c sub,
    upgrade url u q rh hj wr = Upgraded resp c sub ->
    q_method q = lit_GET /\ has_token (q_connection q) lit_upgrade = true /\
    has_token (q_upgrade q) lit_websocket = true /\ has_token (q_version q) lit_13 = true /\
    valid_key (first_line (q_key q)) = true /\ origin_ok url u q = true.
Proof. exact upgrade_sound. Qed.
(* and, for list headers inside the 1#token grammar, the full iff *)
Theorem C12_upgrade_iff_valid_handshake :
  forall url u q rh,
    forallb line_wf (q_connection q) = true -> forallb line_wf (q_upgrade q) = true ->
    forallb line_wf (q_version q) = true ->
    (exists resp c sub, upgrade url u q rh true true = Upgraded resp c sub) <->
    q_method q = lit_GET /\ has_token (q_connection q) lit_upgrade = true /\
    has_token (q_upgrade q) lit_websocket = true /\ has_token (q_version q) lit_13 = true /\
    valid_key (first_line (q_key q)) = true /\ origin_ok url u q = true /\ no_ext_header rh = true.
Proof. exact upgrade_spec_iff. Qed.
Print Assumptions C12_upgraded_only_if_valid_handshake.
Print Assumptions C12_upgrade_iff_valid_handshake.
(* outside the grammar the scanner is characterised exactly: it walks the comma-separated
   elements left to right and gives up on a line at the first element that is not OWS token OWS
   (so an empty leading element hides a later "upgrade": recorded, RFC 7230 asks recipients to
   tolerate empty elements; the property does not list it) *)
Theorem C12_scanner_exact :
  forall lines v, token_list_contains_value lines v = existsb (fun s => scan (elements s) v) lines.
Proof. exact token_list_contains_value_exact. Qed.

(* the 101 response: whatever bytes the application's header VALUES and the subprotocol contain
   (header names free of CR/LF), no line contains CR or LF, the number of lines is exactly the
   expected one (nothing can be injected), and the first four lines are fixed, with the RFC digest *)
Theorem C12_no_header_injection :
  forall key sub compress rh, Forall (fun p => has_ctl (fst p) = false) rh ->
    Forall (fun l => has_ctl l = false) (split_crlf [] (response key sub compress rh)).
Proof. exact response_no_injection. Qed.
Theorem C12_response_line_count :
  forall key sub compress rh, Forall (fun p => has_ctl (fst p) = false) rh ->
    length (split_crlf [] (response key sub compress rh)) =
    (4 + (if is_nil sub then 0 else 1) + (if compress then 1 else 0) + count_values rh + 2)%nat.
Proof. exact response_line_count. Qed.
Theorem C12_response_first_lines :
  forall key sub compress rh, Forall (fun p => has_ctl (fst p) = false) rh ->
    firstn 4 (split_crlf [] (response key sub compress rh)) =
    [line_status; line_upgrade; line_connection; accept_prefix ++ accept_digest key].
Proof. exact response_first_lines. Qed.
Print Assumptions C12_no_header_injection.
Print Assumptions C12_response_line_count.

(* subprotocol: with a server list it is the first client offer the server supports *)
Theorem C12_subprotocol_offered_and_supported :
  forall u q rh server p, u_subprotocols u = Some server -> select_subprotocol u q rh = p -> p <> [] ->
    In p server /\
    exists before after, subprotocols (first_line (q_protocol q)) = before ++ p :: after /\
                         forall x, In x before -> ~ In x server.
Proof. exact subprotocol_negotiated. Qed.
(* permessage-deflate announced only if enabled and offered *)
Theorem C12_compression_only_if_enabled_and_offered :
  forall url u q rh hj wr resp c sub, upgrade url u q rh hj wr = Upgraded resp c sub ->
    (c = true <-> u_compression u = true /\
       exists e, In e (parse_extensions (q_extensions q)) /\ ext_name e = permessage_deflate).
Proof. exact compression_iff. Qed.

(* failure: an HTTP error status, 403 exactly for the origin stage, 426 exactly (and with the
   Upgrade header) when Connection is fine and the Upgrade token is missing; never hijacked *)
Theorem C12_rejection_statuses :
  forall url u q rh hj wr st uh, upgrade url u q rh hj wr = Rejected st uh -> In st [400;403;405;426;500].
Proof. exact rejected_status. Qed.
Theorem C12_403_iff_origin :
  forall url u q rh hj wr uh,
    upgrade url u q rh hj wr = Rejected 403 uh <->
    token_list_contains_value (q_connection q) str_upgrade = true /\
    token_list_contains_value (q_upgrade q) str_websocket = true /\ q_method q = str_get /\
    token_list_contains_value (q_version q) str_13 = true /\ no_ext_header rh = true /\
    origin_ok url u q = false /\ uh = false.
Proof. exact status_403_iff. Qed.
Theorem C12_426_iff_upgrade_token_missing :
  forall url u q rh hj wr uh,
    upgrade url u q rh hj wr = Rejected 426 uh <->
    token_list_contains_value (q_connection q) str_upgrade = true /\
    token_list_contains_value (q_upgrade q) str_websocket = false /\ uh = true.
Proof. exact status_426_iff. Qed.
Theorem C12_hijacked_only_if_valid :
  forall url u q rh hj wr, hijacked (upgrade url u q rh hj wr) = true -> handshake_ok url u q rh = true /\ hj = true.
Proof. exact hijacked_only_if_valid. Qed.
Print Assumptions C12_403_iff_origin.
Print Assumptions C12_hijacked_only_if_valid.

(* the key check and the digest are the RFC's (SHA-1 and base64 written in Gallina, anchored by
   the RFC 6455 example and FIPS vectors in Spec/Sha1.v) *)
Theorem C12_key_and_digest_are_the_rfcs :
  (forall k, is_valid_challenge_key k = valid_key k) /\ (forall k, compute_accept_key k = accept_digest k).
Proof. split; [exact challenge_key_is_valid_key|exact accept_key_is_digest]. Qed.
Print Assumptions C12_key_and_digest_are_the_rfcs.

(* ---- permessage-deflate against the quoted-string aware list of the Spec (Proofs/ExtP.v) ----
   offers_pmd (Spec/Handshake.v) is what the correspondence check computes: some element of some
   Sec-WebSocket-Extensions line -- elements end at commas OUTSIDE quoted strings, backslash
   escapes included (split_list_q) -- is named permessage-deflate (the text before its first
   semicolon, without surrounding OWS). *)
(* every extension the parser reports sits in one element of that list and carries its name *)
Theorem C12_reported_extension_is_a_list_element :
  forall lines e, In e (parse_extensions lines) ->
    exists l el, In l lines /\ In el (split_list_q false false [] l) /\ ext_elem_name el = ext_name e.
Proof. exact parse_extensions_sound. Qed.
(* soundness of the parser, for every list of lines (malformed lines, any octets): no side condition *)
Theorem C12_deflate_found_only_if_offered :
  forall lines e, first_deflate (parse_extensions lines) = Some e -> offers_pmd lines = true.
Proof. exact first_deflate_offers. Qed.
(* clause 111 of the correspondence check, on the model *)
Theorem C12_compression_only_if_enabled_and_offered_in_list :
  forall url u q rh hj wr resp sub, upgrade url u q rh hj wr = Upgraded resp true sub ->
    u_compression u = true /\ offers_pmd (q_extensions q) = true.
Proof. exact upgrade_compression_offered. Qed.
(* completeness on lines inside the grammar ext_list_g (Proofs/ExtP.v section 7):
   extension *( "," extension ), extension = OWS token OWS *( ";" OWS token OWS [ "=" OWS
   ( token / quoted-string ) OWS ] ) *)
Theorem C12_wellformed_offer_recognised :
  forall lines l, In l lines -> ext_list_g l -> offers_pmd [l] = true ->
    exists e, first_deflate (parse_extensions lines) = Some e.
Proof. exact offer_recognised. Qed.
Theorem C12_compression_iff_enabled_and_offered_in_list :
  forall url u q rh hj wr resp c sub,
    upgrade url u q rh hj wr = Upgraded resp c sub -> Forall ext_list_g (q_extensions q) ->
    (c = true <-> u_compression u = true /\ offers_pmd (q_extensions q) = true).
Proof. exact upgrade_compression_iff_offered. Qed.
Print Assumptions C12_reported_extension_is_a_list_element.
Print Assumptions C12_deflate_found_only_if_offered.
Print Assumptions C12_compression_only_if_enabled_and_offered_in_list.
Print Assumptions C12_wellformed_offer_recognised.
Print Assumptions C12_compression_iff_enabled_and_offered_in_list.

(* the tricky offers (byte lists in ExtP.ExtExamples; DQ = DQUOTE, BS = backslash):
     foo; x=DQ a BS DQ , permessage-deflate, b BS DQ DQ                      no offer
     foo; x=DQ a, permessage-deflate DQ                                      no offer
     foo; x=DQ a BS BS DQ , permessage-deflate                               offer
     foo; x=DQ BS DQ DQ , permessage-deflate; client_no_context_takeover     offer
   and the model's parser agrees on each *)
Import ExtExamples.
Example C12_offer_escaped_quote_hides_commas :
  offers_pmd [q_esc_quote] = false /\ first_deflate (parse_extensions [q_esc_quote]) = None.
Proof. vm_compute. auto. Qed.
Example C12_offer_comma_inside_quotes :
  offers_pmd [q_comma] = false /\ first_deflate (parse_extensions [q_comma]) = None.
Proof. vm_compute. auto. Qed.
Example C12_offer_escaped_backslash_closes :
  offers_pmd [q_esc_backslash] = true /\
  first_deflate (parse_extensions [q_esc_backslash]) = Some [([], permessage_deflate)].
Proof. vm_compute. auto. Qed.
Example C12_offer_after_quoted_quote :
  offers_pmd [q_only_quote] = true /\
  first_deflate (parse_extensions [q_only_quote]) = Some [([], permessage_deflate); (client_nct, [])].
Proof. vm_compute. auto. Qed.
(* outside the grammar the converse fails: the parser drops a line at its first malformed element *)
Example C12_offer_after_malformed_element_not_recognised :
  offers_pmd [[97;32;98;44;32] ++ permessage_deflate] = true /\
  first_deflate (parse_extensions [[97;32;98;44;32] ++ permessage_deflate]) = None.
Proof. vm_compute. auto. Qed.
