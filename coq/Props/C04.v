(* C04 Framing violations are rejected fail-stop and never reach the application.
   Only property theorems here; proofs are in Proofs/SweepP.v, ReaderBasicP.v, CtlP.v, ViolP.v. *)
Require Import WS.Base.Bytes WS.gen.Consts WS.Spec.Frame WS.Spec.Conformance WS.Model.Bufio WS.Model.Reader.
Require Import WS.Proofs.BufioP WS.Proofs.SweepP WS.Proofs.ReaderP1 WS.Proofs.ReaderP WS.Proofs.ReaderBasicP WS.Proofs.CtlP WS.Proofs.ViolP.

(* the whole header alphabet: for ALL 256 x 256 first-two-byte pairs x {idle, in-message} x role
   x {compression negotiated or not} (524 288 cases, computed in the kernel and lifted to a
   universally quantified statement) the code's decision equals the Spec's list of violations:
   reserved bits, reserved opcodes, fragmented or oversized control frame, continuation with no
   message in progress, new data frame inside an unfinished message, wrong masking for the role *)
Theorem C04_header_decision_is_the_spec :
  forall c fin_seen b0 b1, b0 < 256 -> b1 < 256 ->
    hdr_reject c fin_seen b0 b1 =
    violates_hdr (server c) (negotiated c) (negb fin_seen) (frame_of_hdr b0 b1) (b1 mod 128).
Proof. exact hdr_reject_iff_violates. Qed.
Print Assumptions C04_header_decision_is_the_spec.
(* all 65 536 close codes: the table compiled into the library (regenerated on every run) equals
   the Spec's set *)
Theorem C04_close_code_table : forall c, c < 65536 -> is_valid_received_close_code c = close_code_ok c.
Proof. exact close_code_table_correct. Qed.

(* after ANY conformant prefix (all messages complete), a violating header followed by ANY bytes:
   every message of the prefix is delivered intact, the next read fails, a close frame with
   status 1002 is queued after the pongs of the prefix, no handler sees anything of the violating
   frame or after it, the bytes after the two header bytes are never consumed, and every later
   operation fails the same way, delivering nothing *)
Theorem C04_violation_after_prefix :
  forall inflate c b fs b0 b1 junk,
    custom_handlers c = false -> binv b -> (125 <= bsize b)%nat -> conformant_frames c fs -> b0 < 256 -> b1 < 256 ->
    violates_hdr (server c) (negotiated c) false (frame_of_hdr b0 b1) (b1 mod 128) = true ->
    pending b = encode_frames fs ++ b0 :: b1 :: junk ->
    let ms := data_msgs (events_of fs) in
    exists s', run_ops inflate c (init_rst b) (repeat OReadMessage (S (length ms))) =
        (map out_of ms ++ [RMsg 0 [] (Some RProto)], s') /\ closesent s' = true /\
      stopped inflate c s' RProto (map WPong (pings_of fs) ++ [WCloseProto]) junk.
Proof. exact violation_after_prefix. Qed.
Print Assumptions C04_violation_after_prefix.

(* the same inside an unfinished fragmented message: what was received of that message comes
   back with the error, never as a complete message *)
Theorem C04_violation_inside_message :
  forall inflate c b fs ofs p f r b0 b1 junk,
    custom_handlers c = false -> binv b -> (125 <= bsize b)%nat -> conformant_frames c fs ->
    Forall wf_frame ofs -> acc_seq (server c) false ofs = true ->
    find_data ofs = Some (p, f, r) -> closes (fin f) r = false ->
    blen (encode_frames (fs ++ ofs)) < 2^63 -> b0 < 256 -> b1 < 256 ->
    violates_hdr (server c) (negotiated c) true (frame_of_hdr b0 b1) (b1 mod 128) = true ->
    pending b = encode_frames fs ++ encode_frames ofs ++ b0 :: b1 :: junk ->
    let ms := data_msgs (events_of fs) in
    exists s', run_ops inflate c (init_rst b) (repeat OReadMessage (S (length ms))) =
        (map out_of ms ++ [RMsg (opcode f) (payload f ++ tail_data (fin f) r) (Some RProto)], s') /\
      closesent s' = true /\ stopped inflate c s' RProto (map WPong (pings_of (fs ++ ofs)) ++ [WCloseProto]) junk.
Proof. exact violation_in_message. Qed.
Print Assumptions C04_violation_inside_message.

(* invalid close code or non-UTF-8 close reason: protocol error, 1002, the close handler is not
   called *)
Theorem C04_bad_close_body :
  forall inflate c b fs cf junk,
    custom_handlers c = false -> binv b -> (125 <= bsize b)%nat -> conformant_frames c fs ->
    wf_frame cf -> ctl_ok (server c) cf -> opcode cf = 8 -> close_body_bad (payload cf) = true ->
    pending b = encode_frames fs ++ encode_frame cf ++ junk ->
    let ms := data_msgs (events_of fs) in
    exists s', run_ops inflate c (init_rst b) (repeat OReadMessage (S (length ms))) =
        (map out_of ms ++ [RMsg 0 [] (Some RProto)], s') /\ closesent s' = true /\
      stopped inflate c s' RProto (map WPong (pings_of fs) ++ [WCloseProto]) junk.
Proof. exact bad_close_after_prefix. Qed.
Print Assumptions C04_bad_close_body.

(* a 64-bit length with the top bit set: refused after the 10 header bytes with ErrReadLimit
   and the 1009 close (the exception the property names: ErrReadLimit, not 1002), nothing delivered *)
Theorem C04_top_bit_length :
  forall c s b0 b1 len rest,
    binv (br s) -> (125 <= bsize (br s))%nat -> rem s = 0 ->
    pending (br s) = b0 :: b1 :: be_enc 8 len ++ rest -> N.land b1 127 = 127 -> 2^63 <= len -> len < 2^64 ->
    hdr_reject c (rfin s) b0 b1 = false ->
    exists s', advance_frame c s = (AErr RReadLimit, s') /\
      wlog s' = (if closesent s then wlog s else wlog s ++ [WCloseTooBig]) /\ hlog s' = hlog s /\
      hcount s' = hcount s /\ closesent s' = true /\ pending (br s') = rest /\ binv (br s') /\
      outoffuel s' = outoffuel s.
Proof. exact ViolP.top_bit_length_refused. Qed.
Print Assumptions C04_top_bit_length.

(* every later read fails with the same error, for every operation sequence *)
Theorem C04_errors_are_permanent :
  forall inflate c ops s e, rerror s = Some e ->
    exists rs s', run_ops inflate c s ops = (rs, s') /\ frozen s s' /\ Forall is_failure rs.
Proof. exact errors_are_permanent. Qed.
Print Assumptions C04_errors_are_permanent.
