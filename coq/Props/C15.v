(* C15 Both endpoints always agree on whether compression is in use.
   Only property theorems here; proofs are in Proofs/NegotiateP.v. *)
Require Import WS.Base.Bytes WS.gen.Consts WS.Model.Util WS.Model.Server WS.Model.Client WS.Model.Negotiate WS.Proofs.NegotiateP.

(* whatever Sec-WebSocket-Extensions lines reach the Upgrader (absent, permessage-deflate with any
   parameters, other extensions first, several lines, quoted strings, junk) and whatever its
   EnableCompression setting, the Dialer reading the Upgrader's 101 response installs compression
   iff the Upgrader did: never one without the other *)
Theorem C15_endpoints_agree :
  forall uec offers, client_decision (reply_ext_lines uec offers) = Some (server_compress uec offers).
Proof. exact endpoints_agree. Qed.
Print Assumptions C15_endpoints_agree.

(* all four (Dialer.EnableCompression, Upgrader.EnableCompression) pairs: compression iff both *)
Theorem C15_setting_matrix :
  forall dec uec,
    server_compress uec (dialer_offers dec) = dec && uec /\
    client_decision (reply_ext_lines uec (dialer_offers dec)) = Some (dec && uec).
Proof. exact dialer_upgrader_matrix. Qed.
Print Assumptions C15_setting_matrix.

(* compression is used by a client only when the 101 response announced permessage-deflate with
   both no_context_takeover parameters; announced without one of them => no connection *)
Theorem C15_client_requires_both_parameters :
  forall lines,
    match client_decision lines with
    | Some true => exists e, first_deflate (parse_extensions lines) = Some e /\
                             ext_has server_nct e = true /\ ext_has client_nct e = true
    | Some false => first_deflate (parse_extensions lines) = None
    | None => exists e, first_deflate (parse_extensions lines) = Some e /\
                        (ext_has server_nct e = false \/ ext_has client_nct e = false)
    end.
Proof. exact client_requires_both_parameters. Qed.
Print Assumptions C15_client_requires_both_parameters.

(* the functions above ARE what the handshake models compute *)
Theorem C15_tied_to_upgrade :
  forall url_host_of u q rh resp c sub,
    upgrade url_host_of u q rh true true = Upgraded resp c sub ->
    c = server_compress (u_compression u) (q_extensions q).
Proof. exact upgrade_compression. Qed.
Theorem C15_tied_to_validate_reply :
  forall key p,
    match validate_reply key p with
    | VAccepted c _ => client_decision (p_extensions p) = Some c
    | VInvalidCompression => client_decision (p_extensions p) = None
    | VBadHandshake _ => True
    end.
Proof. exact validate_reply_compression. Qed.
Print Assumptions C15_tied_to_upgrade.
Print Assumptions C15_tied_to_validate_reply.

(* the literals in the Go source are the ones the model reasons about (regenerated every run) *)
Theorem C15_literals_from_source :
  In offer s_deflate_literals_client /\ In resp_extensions s_deflate_literals_server.
Proof. split; [exact offer_literal_in_source|exact reply_literal_in_source]. Qed.
Print Assumptions C15_literals_from_source.
(* "messages then flow correctly and toggles never make output undecodable": Props/C01, C02. *)
