(* C18 Proxy tunnelling and TLS are applied on every dial path.
   Only property theorems here; proofs are in Proofs/DialP.v. *)
Require Import WS.Base.Bytes WS.Model.Util WS.Model.Dial WS.Proofs.DialP.

(* with an HTTP(S) proxy the backend is never dialed directly: the first hop goes to the proxy's
   host:port (80/443 by default) and the CONNECT target is the URL's host:port *)
Theorem C18_proxy_first_hop_and_connect_target :
  forall d wss host p, (px_scheme p = PHttp \/ px_scheme p = PHttps) ->
    first_addr (dial_plan d wss host (Some p))
      = fst (host_port_no_port (px_host p) (match px_scheme p with PHttps => true | _ => false end)) /\
    connect_target (dial_plan d wss host (Some p)) = Some (fst (host_port_no_port host wss)).
Proof. exact proxy_first_hop_is_proxy. Qed.
(* Basic Proxy-Authorization exactly when the proxy URL carries a password *)
Theorem C18_proxy_authorization_iff_password :
  forall d wss host p, (px_scheme p = PHttp \/ px_scheme p = PHttps) ->
    connect_auth (dial_plan d wss host (Some p))
      = match px_user p, px_pass p with Some u, Some pw => Some (basic_auth u pw) | _, _ => None end.
Proof. exact connect_auth_iff_password. Qed.
(* any non-200 reply aborts the dial (with the status text as the error, whole line if no space) *)
Theorem C18_non_200_aborts : forall code line, connect_reply code line = CROk <-> code = 200.
Proof. exact connect_reply_total. Qed.
(* for wss the library runs TLS verifying the URL's host (or the configured ServerName) on every
   path, except a direct dial through NetDialTLSContext, which is trusted *)
Theorem C18_wss_always_inside_verified_tls :
  forall d host px, let pl := dial_plan d true host px in
    (tunnel_tls pl = Some (name_or d (snd (host_port_no_port host true)))) \/
    (px = None /\ ((first_tls pl = Some (name_or d (snd (host_port_no_port host true)))) \/
                   (first_fn pl = FnTLSContext /\ has_netdialtls d = true))).
Proof. exact wss_always_has_tls. Qed.
(* the first hop is made with the applicable custom dial function *)
Theorem C18_first_hop_function :
  forall d wss host px,
    first_fn (dial_plan d wss host px)
    = if first_hop_https wss px && has_netdialtls d then FnTLSContext
      else if has_netdialctx d then FnContext else if has_netdial d then FnNetDial else FnDefault.
Proof. exact first_hop_function. Qed.
(* host:port always carries a port; IPv6 literals keep their brackets *)
Theorem C18_host_port_always_has_port :
  forall host tls, exists h p, fst (host_port_no_port host tls) = h ++ 58 :: p.
Proof. exact host_port_always_has_port. Qed.
Print Assumptions C18_proxy_first_hop_and_connect_target.
Print Assumptions C18_proxy_authorization_iff_password.
Print Assumptions C18_wss_always_inside_verified_tls.
Print Assumptions C18_first_hop_function.
(* PARTIAL: certificate verification itself is crypto/tls (the harness checks that a certificate
   for another host or from an untrusted CA makes Dial fail on every path); SOCKS5 is
   golang.org/x/net/proxy (the harness's SOCKS5 server records the target it is asked for). *)
