(* C01 Message round-trip fidelity across every API, role, buffer size and chunking.
   Only property theorems here; proofs in Proofs/WriterEventsP.v, RoundTripP.v, C01P.v and the
   reader/writer developments they rest on.

   Shape: C01 = (accepted) /\ (what the writer puts on the wire is exactly the messages of the
   successful calls: C02's second half) o (the reader decodes any conformant stream: C03), composed
   through the Spec's frame language: the wire of the Writer model is an [encode_frames fs] whose
   Spec events are the abstract writer's output (Spec/WriterSpec.v), and the Reader model run on
   those bytes -- whatever the transport chunking, read buffer size (>= 125) and fault kind after
   the last byte -- returns exactly the data messages, in order, same types, same payloads, and
   answers exactly the pings.

   PARTIAL, named: (1) the end-to-end theorem is for connections without negotiated compression;
   with compression the deflate output is an oracle of the writer model (compress/flate is not
   modelled) and the composition is decided by the correspondence check (Spec inflate on the real
   wire + the reader model on the real stream) together with Props/C03 (any conformant deflater)
   and Proofs/InflateP (inflate o stored-deflate = id).  (2) read program = ReadMessage loop with
   default handlers (other read programs: Props/C03's independence theorems).  (3) (closed) the
   former hypothesis [ctl_writers_closed] (control-type message writers obtained from NextWriter
   are closed explicitly) is gone: the abstract writer now describes a failed Write (the message
   is abandoned) and the implicit close by the next NextWriter/WriteMessage (an invalid control
   message is dropped silently, a close message closes the connection) exactly, see the Examples
   in WriterEventsP; the theorems below hold for every write program.  (4) ReadJSON/WriteJSON
   and JoinMessages are thin wrappers exercised by the harness only. *)
Require Import WS.Base.Bytes WS.gen.Consts WS.Spec.Frame WS.Spec.WriterSpec.
Require Import WS.Model.Writer.
Require Import WS.Proofs.FrameP WS.Proofs.WWBase WS.Proofs.WWInv WS.Proofs.WWFlate WS.Proofs.WriterWireP.
Require Import WS.Proofs.PrepMsg WS.Proofs.PreparedP WS.Proofs.WriterEventsP WS.Proofs.C01P.

(* ---- every valid message is accepted (buffer sizes do not limit what can be sent) ---- *)
Theorem C01_valid_message_accepted c ty data ic wc cc s :
  139 <= w_bufsize c ->
  cur s = None -> werr s = None -> fail_at s = None -> Forall len4 (keys s) ->
  w_negotiated c && wcomp s && is_data_ty ty = false ->
  msg_valid ty data -> blen data < 2^62 ->
  exists s' fs,
    write_message c ty data ic wc cc s = (None, s') /\
    wire s' = wire s ++ encode_frames fs /\ Forall wf_frame fs /\
    wf_wire (negb (w_server c)) (w_negotiated c) (tag fs) = true /\
    open_after false (tag fs) = false /\
    events_of fs = [expected_event ty data] /\
    werr s' = (if ty =? c_CloseMessage then Some WCloseSent else None) /\ cur s' = None.
Proof. exact (valid_message_accepted c ty data ic wc cc s). Qed.
Print Assumptions C01_valid_message_accepted.

Theorem C01_eff_wbuf_floor u : 139 <= eff_wbuf u.
Proof. exact (eff_wbuf_floor u). Qed.
Print Assumptions C01_eff_wbuf_floor.

(* ---- the wire carries exactly the messages of the successful calls, in call order ---- *)
Theorem C01_wire_wellformed_and_events :
  forall c ks ops,
    14 < w_bufsize c -> w_bufsize c < 2^62 -> w_negotiated c = false ->
    Forall (fun k => length k = 4%nat) ks -> Forall op_small ops -> no_prepared ops ->
    let r := wrun c (init_wst c ks None) ops in
    let prog := combine (map wop_aop ops) (map e_werr_N (fst r)) in
    exists fs, wire_of (evs (snd r)) = encode_frames fs /\ Forall wf_frame fs /\
      wf_wire (negb (w_server c)) false (map (fun f => (f, true)) fs) = true /\
      map sent_of_event (events_of fs) = a_out (arun false ast0 prog).
Proof. exact (wire_wellformed_and_events ). Qed.
Print Assumptions C01_wire_wellformed_and_events.

Theorem C01_wire_events_and_boundary :
  forall c ks ops fs,
    14 < w_bufsize c -> w_bufsize c < 2^62 -> w_negotiated c = false ->
    Forall (fun k => length k = 4%nat) ks -> Forall op_small ops -> no_prepared ops ->
    let r := wrun c (init_wst c ks None) ops in
    let prog := combine (map wop_aop ops) (map e_werr_N (fst r)) in
    Forall wf_frame fs -> wire_of (evs (snd r)) = encode_frames fs ->
    map sent_of_event (events_of fs) = a_out (arun false ast0 prog) /\
    (a_dead (arun false ast0 prog) = false -> a_open (arun false ast0 prog) = None ->
     snd (events_from None fs) = None).
Proof. exact (wire_events_and_boundary ). Qed.
Print Assumptions C01_wire_events_and_boundary.

Theorem C01_abstract_flags_exact :
  forall c ks ops,
    14 < w_bufsize c -> w_bufsize c < 2^62 -> w_negotiated c = false ->
    Forall (fun k => length k = 4%nat) ks -> Forall op_small ops -> no_prepared ops ->
    let r := wrun c (init_wst c ks None) ops in
    let A := arun false ast0 (combine (map wop_aop ops) (map e_werr_N (fst r))) in
    (a_dead A = true <-> werr (snd r) <> None) /\
    (a_dead A = false -> (a_open A = None <-> cur (snd r) = None)).
Proof. exact (abstract_flags_exact ). Qed.
Print Assumptions C01_abstract_flags_exact.

Theorem C01_wire_events_data_next :
  forall c ks ops fs,
    14 < w_bufsize c -> w_bufsize c < 2^62 -> w_negotiated c = false ->
    Forall (fun k => length k = 4%nat) ks -> Forall op_small ops -> no_prepared ops ->
    Forall data_next ops ->
    let r := wrun c (init_wst c ks None) ops in
    Forall wf_frame fs -> wire_of (evs (snd r)) = encode_frames fs ->
    map sent_of_event (events_of fs) =
    a_out (arun false ast0 (combine (map wop_aop ops) (map e_werr_N (fst r)))).
Proof. exact (wire_events_data_next ). Qed.
Print Assumptions C01_wire_events_data_next.

(* ---- and the reader on the other side delivers exactly those ---- *)
Require Import WS.Spec.Conformance WS.Model.Bufio WS.Model.Reader WS.Proofs.BufioP WS.Proofs.ReaderP1 WS.Proofs.ReaderP.
Require Import WS.Model.Writer WS.Proofs.RoundTripP.

Theorem C01_writer_reader_round_trip :
  forall inflate c ks ops cr b extra fs,
    w_bufsize c < 2^62 -> w_negotiated c = false ->
    Forall (fun k => length k = 4%nat) ks -> Forall op_small ops -> no_prepared ops ->
    server cr = negb (w_server c) -> custom_handlers cr = false ->
    let s' := snd (wrun c (init_wst c ks None) ops) in
    Forall wf_frame fs -> wire_of (evs s') = encode_frames fs ->
    Forall (fun f => opcode f <> 8) fs ->
    open_after false (map (fun f => (f, true)) fs) = false ->
    blen (encode_frames fs) < 2^63 ->
    binv b -> (125 <= bsize b)%nat -> pending b = wire_of (evs s') ++ extra -> extra <> [] ->
    exists s_r,
      run_ops inflate cr (init_rst b) (repeat OReadMessage (length (data_msgs (events_of fs)))) =
        (map out_of (data_msgs (events_of fs)), s_r) /\
      rerror s_r = None /\ outoffuel s_r = false /\ wlog s_r = map WPong (pings_of (body fs)).
Proof. exact (writer_reader_round_trip ). Qed.
Print Assumptions C01_writer_reader_round_trip.

Theorem C01_round_trip_end_to_end :
  forall inflate c ks ops cr b extra,
    14 < w_bufsize c -> w_bufsize c < 2^62 -> w_negotiated c = false ->
    Forall (fun k => length k = 4%nat) ks -> Forall op_small ops -> no_prepared ops ->
    let r := wrun c (init_wst c ks None) ops in
    let prog := combine (map wop_aop ops) (map e_werr_N (fst r)) in
    let A := arun false ast0 prog in
    a_dead A = false ->              (* no close message was sent (and no transport error seen) *)
    a_open A = None ->               (* no message left open by the application *)
    server cr = negb (w_server c) -> custom_handlers cr = false ->
    binv b -> (125 <= bsize b)%nat ->
    blen (wire_of (evs (snd r))) < 2^63 ->
    pending b = wire_of (evs (snd r)) ++ extra -> extra <> [] ->
    let dm := flat_map sent_data (a_out A) in
    exists s_r fs,
      run_ops inflate cr (init_rst b) (repeat OReadMessage (length dm)) = (map out_of dm, s_r) /\
      rerror s_r = None /\ outoffuel s_r = false /\
      Forall wf_frame fs /\ wire_of (evs (snd r)) = encode_frames fs /\
      wlog s_r = map WPong (pings_of (body fs)).
Proof. exact (round_trip_end_to_end ). Qed.
Print Assumptions C01_round_trip_end_to_end.


(* ---- WITH negotiated compression (closes PARTIAL (1) above up to the flate oracle):
   Proofs/WriterEventsZ.v, Proofs/RoundTripZ.v ----
   The compressor stays an oracle of the writer model; the theorems say what the wire carries in
   terms of that oracle (C02_wire_events_compressed) and, under the hypothesis that on this run
   every recorded stream inflates to the plaintext of its message ([inflates_to]: what
   "compress/flate is a correct deflater" means here; validated by the correspondence check on
   every run, satisfied by Spec/Inflate.deflate0 by InflateP.inflate_deflate0), that the reader
   of the opposite role returns exactly the plaintext data messages of the abstract writer, in
   order, with their types, and answers exactly the pings.  No hypothesis on [w_negotiated c]:
   the uncompressed theorems above are the instances [w_negotiated c = false]. *)
Require Import WS.Proofs.WriterEventsZ WS.Proofs.ReaderZ3 WS.Proofs.ReaderFlateP WS.Proofs.RoundTripZ.

Theorem C01_wire_wellformed_and_events_compressed :
  forall c ks ops,
    14 < w_bufsize c -> w_bufsize c < 2^62 ->
    Forall (fun k => length k = 4%nat) ks -> Forall op_small ops -> no_prepared ops ->
    (w_negotiated c = false \/
     (flate_good c (init_wst c ks None) ops /\ rf_good c (init_wst c ks None) ops)) ->
    let r := wrun c (init_wst c ks None) ops in
    let res := map e_werr_N (fst r) in
    let A := arun (w_negotiated c) ast0 (combine (map wop_aop ops) res) in
    let Z := zrun (w_negotiated c) zst0 (combine ops res) in
    exists fs, wire_of (evs (snd r)) = encode_frames fs /\ Forall wf_frame fs /\
      wf_wire (negb (w_server c)) (w_negotiated c) (map (fun f => (f, true)) fs) = true /\
      zerase Z = A /\
      map sent_of_event (events_of fs) = map zwire (z_out Z) /\
      Forall zstr_ok (z_out Z) /\
      (a_dead A = false -> a_open A = None -> snd (events_from None fs) = None).
Proof. exact wire_wellformed_and_events_compressed. Qed.
Print Assumptions C01_wire_wellformed_and_events_compressed.

Theorem C01_abstract_flags_exact_compressed :
  forall c ks ops,
    14 < w_bufsize c -> w_bufsize c < 2^62 ->
    Forall (fun k => length k = 4%nat) ks -> Forall op_small ops -> no_prepared ops ->
    (w_negotiated c = false \/
     (flate_good c (init_wst c ks None) ops /\ rf_good c (init_wst c ks None) ops)) ->
    let r := wrun c (init_wst c ks None) ops in
    let A := arun (w_negotiated c) ast0 (combine (map wop_aop ops) (map e_werr_N (fst r))) in
    (a_dead A = true <-> werr (snd r) <> None) /\
    (a_dead A = false -> (a_open A = None <-> cur (snd r) = None)) /\
    (a_dead A = false -> a_comp A = wcomp (snd r)).
Proof. exact abstract_flags_exact_compressed. Qed.
Print Assumptions C01_abstract_flags_exact_compressed.

Theorem C01_round_trip_end_to_end_compressed :
  forall inflate c ks ops cr b extra,
    14 < w_bufsize c -> w_bufsize c < 2^62 ->
    Forall (fun k => length k = 4%nat) ks -> Forall op_small ops -> no_prepared ops ->
    (w_negotiated c = false \/
     (flate_good c (init_wst c ks None) ops /\ rf_good c (init_wst c ks None) ops)) ->
    let r := wrun c (init_wst c ks None) ops in
    let res := map e_werr_N (fst r) in
    let A := arun (w_negotiated c) ast0 (combine (map wop_aop ops) res) in
    let Z := zrun (w_negotiated c) zst0 (combine ops res) in
    a_dead A = false ->              (* no close message was sent (and no transport error seen) *)
    a_open A = None ->               (* no message left open by the application *)
    Forall (inflates_to inflate) (z_out Z) ->   (* the compressor deflated correctly on this run *)
    server cr = negb (w_server c) -> (w_negotiated c = true -> negotiated cr = true) ->
    custom_handlers cr = false ->
    binv b -> (125 <= bsize b)%nat ->
    blen (wire_of (evs (snd r))) < 2^63 ->
    pending b = wire_of (evs (snd r)) ++ extra -> extra <> [] ->
    let dm := flat_map sent_data (a_out A) in
    exists s_r fs,
      run_ops inflate cr (init_rst b) (repeat OReadMessage (length dm)) = (map plain_out dm, s_r) /\
      rerror s_r = None /\ outoffuel s_r = false /\
      Forall wf_frame fs /\ wire_of (evs (snd r)) = encode_frames fs /\
      wf_wire (negb (w_server c)) (w_negotiated c) (map (fun f => (f, true)) fs) = true /\
      map sent_of_event (events_of fs) = map zwire (z_out Z) /\
      wlog s_r = map WPong (pings_of (body fs)).
Proof. exact round_trip_end_to_end_compressed. Qed.
Print Assumptions C01_round_trip_end_to_end_compressed.


(* ---- a control message may also be sent through NextWriter / ReadFrom / Close ----
   (the repaired messageWriter.ReadFrom: a full buffer is flushed only once a lookahead byte has
   arrived, so a control payload of exactly the buffer capacity whose source reports io.EOF
   separately is no longer refused as "fragmented").  Any chunking of the source, including empty
   Reads and a final empty chunk; the wire gains exactly one frame, byte for byte the one
   WriteControl sends.  Proofs/ReadFromP.v. *)
Require Import WS.Proofs.PrepBase WS.Proofs.ReadFromP.

Theorem C01_control_read_from_accepted c ty chunks ic cc s :
  139 <= w_bufsize c ->
  cur s = None -> werr s = None -> fail_at s = None -> Forall len4 (keys s) ->
  is_control_ty ty = true -> blen (concat chunks) <= 125 ->
  exists s' f,
    wrun c s [WNext ty ic; WReadFrom chunks; WClose cc] = ([None; None; None], s') /\
    f = mkf true ty 0 (role_mkey c s) (concat chunks) /\
    wire s' = wire s ++ encode_frame f /\
    encode_frame f = control_frame (w_server c) ty (next_key s) (concat chunks) /\
    wf_frame f /\
    wf_wire (negb (w_server c)) (w_negotiated c) (tag [f]) = true /\
    open_after false (tag [f]) = false /\
    events_of [f] = [ECtl ty (concat chunks)] /\
    werr s' = (if ty =? c_CloseMessage then Some WCloseSent else None) /\ cur s' = None.
Proof. exact (control_read_from_accepted c ty chunks ic cc s). Qed.
Print Assumptions C01_control_read_from_accepted.

(* capacity exactly 125 (newConn with a 1-byte user buffer), a 125-byte ping, io.EOF reported by
   a separate Read: refused before the repair *)
Example C01_ping125_eof_separately :
  let c := {| w_server := true; w_bufsize := eff_wbuf 1; w_pooled := false; w_negotiated := false |} in
  let pay := map N.of_nat (seq 0 125) in
  let r := wrun c (init_wst c [] None) [WNext c_PingMessage []; WReadFrom [pay; []]; WClose []] in
  cap c = 125 /\ blen pay = 125 /\
  fst r = [None; None; None] /\
  wire_of (evs (snd r)) = control_frame true c_PingMessage [] pay /\
  oracle_short (snd r) = false.
Proof. exact ping125_eof_separately. Qed.
Print Assumptions C01_ping125_eof_separately.
