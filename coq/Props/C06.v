(* C06 Read limit is exact, history-independent and bounds memory.
   Only property theorems here; proofs are in Proofs/LimitP.v. *)
Require Import WS.Base.Bytes WS.gen.Consts WS.Spec.Frame WS.Spec.Conformance WS.Model.Bufio WS.Model.Reader.
Require Import WS.Proofs.BufioP WS.Proofs.FrameP WS.Proofs.ReaderP1 WS.Proofs.ReaderP2 WS.Proofs.ReaderBasicP WS.Proofs.LimitP.
From RecordUpdate Require Import RecordSet.
Import RecordSetNotations.

(* Completeness + history independence.  The connection is at ANY point of the previous
   message: [w] = unread rest of the current frame, then the remaining frames [fs] of the stream;
   nothing is assumed about the counter or about what the application read so far.  If the frames
   of the abandoned message that are still to be skipped stay within L and the next message's
   wire payload is <= L (any fragmentation, control frames interleaved and not counted), the
   next ReadMessage delivers it in full. *)
Theorem C06_next_message_within_limit_is_read :
  forall inflate L k c extra, custom_handlers c = false -> extra <> [] \/ k = EEOF ->
  forall fs s w more0 pings0 fs1 ty d p a,
    rinvL L k s -> rem s = blen w -> pending (br s) = w ++ encode_frames fs ++ extra ->
    Forall wf_frame fs -> seq_ok (server c) (negb (rfin s)) fs = true -> blen (encode_frames fs) < 2^63 ->
    msg_tail (rfin s) fs = (more0, pings0, fs1) -> L = 0 \/ blen more0 <= L ->
    first_msg fs1 = Some (ty, d, p, a) -> L = 0 \/ blen d <= L ->
    exists s', read_message inflate c s = (RMsg ty d None, s') /\ rinvL_end L k s' /\ rem s' = 0 /\
      rfin s' = true /\ pending (br s') = encode_frames a ++ extra /\
      wlog s' = wlog s ++ map WPong (pings0 ++ p).
Proof. exact abandoned_then_next_message_read. Qed.
Print Assumptions C06_next_message_within_limit_is_read.

(* the count kept from earlier frames never influences a new message (the repaired defect) *)
Theorem C06_count_restarts_with_each_message :
  forall c s x w p0 p1 rest,
    rem s = blen w -> pending (br s) = w ++ p0 :: p1 :: rest -> binv (br s) -> (2 <= bsize (br s))%nat ->
    N.land p0 15 = 1 \/ N.land p0 15 = 2 ->
    advance_frame c (s <| rlen := x |>) = advance_frame c s.
Proof. exact data_start_forgets_count_frame. Qed.
Print Assumptions C06_count_restarts_with_each_message.

Theorem C06_history_independent :
  forall inflate c s1 s2, same_but_count s1 s2 ->
    next_reader c s1 = next_reader c s2 /\ read_message inflate c s1 = read_message inflate c s2.
Proof. intros inflate c. exact (history_independence inflate c). Qed.
Print Assumptions C06_history_independent.

(* Soundness: a message whose wire payload exceeds L is never read in full: ErrReadLimit, at most
   L bytes delivered (a prefix of the message), a 1009 close queued, and the error is permanent *)
Theorem C06_over_limit_never_complete :
  forall inflate L k c extra, custom_handlers c = false -> extra <> [] \/ k = EEOF ->
  forall fs s ty d p a,
    0 < L -> rinvL L k s -> rem s = 0 -> rfin s = true -> pending (br s) = encode_frames fs ++ extra ->
    Forall wf_frame fs -> seq_ok (server c) false fs = true -> blen (encode_frames fs) < 2^63 ->
    first_msg fs = Some (ty, d, p, a) -> L < blen d ->
    exists ty' d' p' x y s',
      read_message inflate c s = (RMsg ty' d' (Some RReadLimit), s') /\
      blen d' <= L /\ d = d' ++ x /\ p = p' ++ y /\ (ty' = ty \/ (ty' = 0 /\ d' = [])) /\
      wlog s' = wlog s ++ map WPong p' ++ [WCloseTooBig] /\
      rerror s' = Some RReadLimit /\ closesent s' = true /\ outoffuel s' = false /\
      (forall ops, exists rs s'', run_ops inflate c s' ops = (rs, s'') /\ frozen s' s'' /\ Forall is_failure rs).
Proof. exact over_limit_never_complete. Qed.
Print Assumptions C06_over_limit_never_complete.

(* the frame whose header crosses the limit is refused before its payload is read (only the
   header is consumed), with a 1009 close; a running sum >= 2^63 is refused the same way,
   1009 close included; lengths with the top bit set are refused after the 10 header bytes,
   again with the 1009 close (unless a close frame went out before) *)
Theorem C06_crossing_frame_refused_before_payload :
  forall L k c s f rest,
    rinvL L k s -> wf_frame f -> frame_acc (server c) (negb (rfin s)) f = true ->
    is_control (opcode f) = false -> rem s = 0 -> pending (br s) = encode_frame f ++ rest ->
    let rl := (if is_data_op (opcode f) then 0 else rlen s) + plen f in
    (rl < 2^63 -> L = 0 \/ rl <= L ->
     exists s', advance_frame c s = (AFrame (opcode f), s') /\ rinvL L k s' /\ rem s' = plen f /\
       rfin s' = fin f /\ rlen s' = rl /\ pending (br s') = wire_payload f ++ rest /\
       unmask c s' (wire_payload f) = payload f /\ rdecomp s' = false /\ wlog s' = wlog s) /\
    (rl < 2^63 -> 0 < L -> L < rl ->
     exists s', advance_frame c s = (AErr RReadLimit, s') /\ wlog s' = wlog s ++ [WCloseTooBig] /\
       closesent s' = true /\ pending (br s') = wire_payload f ++ rest /\ rlen s' = rl /\ rem s' = plen f) /\
    (2^63 <= rl ->
     exists s', advance_frame c s = (AErr RReadLimit, s') /\ wlog s' = wlog s ++ [WCloseTooBig] /\ closesent s' = true /\
       pending (br s') = wire_payload f ++ rest /\ rem s' = plen f).
Proof. exact data_frame_step_limit. Qed.
Print Assumptions C06_crossing_frame_refused_before_payload.

Theorem C06_top_bit_length_refused :
  forall c s b0 b1 len rest,
    binv (br s) -> (8 <= bsize (br s))%nat -> rem s = 0 ->
    pending (br s) = b0 :: b1 :: be_enc 8 len ++ rest ->
    N.land b1 127 = 127 -> 2^63 <= len -> len < 2^64 -> hdr_reject c (rfin s) b0 b1 = false ->
    exists s', advance_frame c s = (AErr RReadLimit, s') /\
      wlog s' = (if closesent s then wlog s else wlog s ++ [WCloseTooBig]) /\
      closesent s' = true /\ hlog s' = hlog s /\ pending (br s') = rest /\ binv (br s').
Proof. exact top_bit_length_refused. Qed.
Print Assumptions C06_top_bit_length_refused.

(* memory: every request the reader makes to the buffered transport is bounded by
   max(125, the application's buffer, 8192), whatever lengths the headers declare *)
Theorem C06_request_sizes_bounded :
  forall c m fuel s lg, let B := Nat.max (Nat.max 125 m) (N.to_nat 8192) in
    all_le B lg -> fst (read_loopI fuel c m s lg) = read_loop fuel c m s /\ all_le B (snd (read_loopI fuel c m s lg)).
Proof. exact request_sizes_bounded. Qed.
Print Assumptions C06_request_sizes_bounded.

(* ============================================================================================ *)
(* Streams with permessage-deflate messages (reader negotiated compression): the limit counts  *)
(* WIRE payload bytes, i.e. the compressed size.  Proofs are in Proofs/LimitZ.v.                *)
(* ============================================================================================ *)
Require Import WS.Proofs.ReaderZ1 WS.Proofs.ReaderZ2 WS.Proofs.ReaderZ3 WS.Proofs.LimitZ.

(* Completeness + history independence, compressed or not: same situation as
   C06_next_message_within_limit_is_read, frames may carry RSV1 when negotiated.  If the next
   message's wire payload [d] is <= L it is read in full and the result is
   [out_ofZ inflate (ty, cz, d)]: inflate (d ++ 00 00 ff ff 01 00 00 ff ff) when its first frame
   has RSV1, [d] itself otherwise.  The final state does not depend on [inflate]. *)
Theorem C06Z_next_message_within_limit_is_read :
  forall L k c extra, custom_handlers c = false -> extra <> [] \/ k = EEOF ->
  forall fs s w more0 pings0 fs1 ty cz d p a,
    rinvL L k s -> rem s = blen w -> pending (br s) = w ++ encode_frames fs ++ extra ->
    Forall wf_frame fs -> seq_okZ (server c) (negotiated c) (negb (rfin s)) fs = true ->
    blen (encode_frames fs) < 2^63 ->
    msg_tail (rfin s) fs = (more0, pings0, fs1) -> L = 0 \/ blen more0 <= L ->
    first_msgZ fs1 = Some (ty, cz, d, p, a) -> L = 0 \/ blen d <= L ->
    exists s', (forall inflate, read_message inflate c s = (out_ofZ inflate (ty, cz, d), s')) /\
      rinvL_end L k s' /\ rem s' = 0 /\ rfin s' = true /\
      pending (br s') = encode_frames a ++ extra /\ wlog s' = wlog s ++ map WPong (pings0 ++ p).
Proof. exact abandoned_then_next_message_readZ. Qed.
Print Assumptions C06Z_next_message_within_limit_is_read.

(* Soundness, compressed or not, from any point of an abandoned previous message: a message whose
   wire payload exceeds L is never read in full.  ErrReadLimit; a compressed message delivers
   nothing ([] - and the result is the same for every [inflate]: nothing reaches the flate
   reader), an uncompressed one the prefix d' (<= L bytes); 1009 close queued; permanent.  The
   reader stops right after the header of the frame [fj] at which the running wire total crosses
   L (C06Z_crossing_point): all [plen fj] payload bytes of fj are still unread. *)
Theorem C06Z_over_limit_never_complete :
  forall L k c extra, custom_handlers c = false -> extra <> [] \/ k = EEOF ->
  forall fs s w more0 pings0 fs1 ty cz d p a,
    0 < L -> rinvL L k s -> rem s = blen w -> pending (br s) = w ++ encode_frames fs ++ extra ->
    Forall wf_frame fs -> seq_okZ (server c) (negotiated c) (negb (rfin s)) fs = true ->
    blen (encode_frames fs) < 2^63 ->
    msg_tail (rfin s) fs = (more0, pings0, fs1) -> blen more0 <= L ->
    first_msgZ fs1 = Some (ty, cz, d, p, a) -> L < blen d ->
    exists ty' d' p' x y fj rj s',
      (forall inflate,
         read_message inflate c s = (RMsg ty' (if cz then [] else d') (Some RReadLimit), s')) /\
      blen d' <= L /\ d = d' ++ x /\ p = p' ++ y /\ (ty' = ty \/ (ty' = 0 /\ d' = [])) /\
      wlog s' = wlog s ++ map WPong (pings0 ++ p') ++ [WCloseTooBig] /\
      rerror s' = Some RReadLimit /\ closesent s' = true /\ outoffuel s' = false /\
      first_cross L fs1 = Some (fj, rj) /\ rem s' = plen fj /\
      pending (br s') = wire_payload fj ++ encode_frames rj ++ extra /\
      (forall inflate ops, exists rs s'', run_ops inflate c s' ops = (rs, s'') /\
                                  frozen s' s'' /\ Forall is_failure rs).
Proof. exact over_limit_never_completeZ_general. Qed.
Print Assumptions C06Z_over_limit_never_complete.

(* the frame at which the reader stops: a data / continuation frame f of the first message such
   that the wire payload of the message's frames before it ([dpay pre], control frames do not
   count) is <= L and with f's declared length it is > L *)
Theorem C06Z_crossing_point :
  forall L fs f r, first_cross L fs = Some (f, r) ->
    exists pre, fs = pre ++ f :: r /\ is_control (opcode f) = false /\
      0 < L /\ blen (dpay pre) <= L /\ L < blen (dpay pre) + plen f /\
      exists ty cz, first_limZ L fs = Some (ty, cz, dpay pre, pings_of pre, None).
Proof. exact first_cross_spec. Qed.
Print Assumptions C06Z_crossing_point.

(* with a limit L > 0 one ReadMessage never collects more than L wire payload bytes of a message
   (so never hands more than L bytes to the flate reader) *)
Theorem C06Z_wire_bytes_at_most_limit :
  forall L k c extra, custom_handlers c = false -> extra <> [] \/ k = EEOF ->
  forall fs s w more0 pings0 fs1 ty cz d p a,
    0 < L -> rinvL L k s -> rem s = blen w -> pending (br s) = w ++ encode_frames fs ++ extra ->
    Forall wf_frame fs -> seq_okZ (server c) (negotiated c) (negb (rfin s)) fs = true ->
    blen (encode_frames fs) < 2^63 ->
    tail_lim L 0 (rfin s) fs = (more0, pings0, Some fs1) ->
    first_limZ L fs1 = Some (ty, cz, d, p, a) ->
    exists s', (forall inflate, read_message inflate c s = (lim_outZ inflate ty cz d a, s')) /\
      blen d <= L.
Proof. exact delivered_at_most_limitZ. Qed.
Print Assumptions C06Z_wire_bytes_at_most_limit.

(* the per-frame statement for frames that may carry RSV1 (first frame of a compressed message):
   same three outcomes; when accepted the RSV1 flag is what [rdecomp] records *)
Theorem C06Z_crossing_frame_refused_before_payload :
  forall L k c s f rest,
    rinvL L k s -> wf_frame f -> frame_accZ (server c) (negotiated c) (negb (rfin s)) f = true ->
    is_control (opcode f) = false -> rem s = 0 -> pending (br s) = encode_frame f ++ rest ->
    let rl := (if is_data_op (opcode f) then 0 else rlen s) + plen f in
    (rl < 2^63 -> L = 0 \/ rl <= L ->
     exists s', advance_frame c s = (AFrame (opcode f), s') /\ rinvL L k s' /\ rem s' = plen f /\
       rfin s' = fin f /\ rlen s' = rl /\ pending (br s') = wire_payload f ++ rest /\
       unmask c s' (wire_payload f) = payload f /\ rdecomp s' = (rsv f =? 4) /\ wlog s' = wlog s) /\
    (rl < 2^63 -> 0 < L -> L < rl ->
     exists s', advance_frame c s = (AErr RReadLimit, s') /\ wlog s' = wlog s ++ [WCloseTooBig] /\
       closesent s' = true /\ pending (br s') = wire_payload f ++ rest /\ rlen s' = rl /\ rem s' = plen f) /\
    (2^63 <= rl ->
     exists s', advance_frame c s = (AErr RReadLimit, s') /\ wlog s' = wlog s ++ [WCloseTooBig] /\ closesent s' = true /\
       pending (br s') = wire_payload f ++ rest /\ rem s' = plen f).
Proof. exact data_frame_step_limitZ. Qed.
Print Assumptions C06Z_crossing_frame_refused_before_payload.

(* ============================================================================================ *)
(* Whole runs under a read limit.  Proofs are in Proofs/LimitRunP.v.                            *)
(* The data messages of a conformant stream [fs] are [ms1 ++ m :: ms2] (type, compressed, wire  *)
(* payload); every message of [ms1] has wire payload total <= L, [m] is the first with total    *)
(* > L.  [length ms1 + 1 + n] ReadMessage calls (n < 999: the 1000th failing call panics by     *)
(* design) return the messages of [ms1], then ErrReadLimit with the part [d'] of [m] collected  *)
(* before the frame [fj] whose declared length takes the running total over L (type 0 and       *)
(* nothing when [fj] is the first frame of [m]: NextReader itself fails), then (0, nil,         *)
(* ErrReadLimit) n times.  [seen] = the frames before [fj]: the complete messages among them    *)
(* are exactly [ms1]; the write-back log is the pongs for the pings of [seen] followed by ONE   *)
(* close 1009; only the header of [fj] has been consumed (the pending bytes start with its      *)
(* payload); the error is permanent, so nothing of [ms2] is ever delivered.  No hypothesis on   *)
(* what follows the frames on the transport, nor on the transport's fault.                      *)
(* ============================================================================================ *)
Require Import WS.Proofs.ReaderP WS.Proofs.ReaderFlateP WS.Proofs.LimitRunP.

Theorem C06_run_over_limit :
  forall inflate c b fs extra L ms1 m ms2 n,
    custom_handlers c = false -> binv b -> (125 <= bsize b)%nat ->
    conformant_frames c fs -> pending b = encode_frames fs ++ extra ->
    0 < L -> data_msgs (events_of fs) = ms1 ++ m :: ms2 ->
    Forall (fun x => blen (snd x) <= L) ms1 -> L < blen (snd m) -> (n < 999)%nat ->
    exists seen fj rj d' y s',
      fs = seen ++ fj :: rj /\ is_control (opcode fj) = false /\
      data_msgs (events_of seen) = ms1 /\
      snd m = d' ++ payload fj ++ y /\ blen d' <= L /\ L < blen d' + plen fj /\
      (is_data_op (opcode fj) = true -> d' = []) /\
      run_ops inflate c (init_rst b <| rlimit := L |>) (repeat OReadMessage (length ms1 + 1 + n)) =
        (map out_of ms1 ++
         [RMsg (if is_data_op (opcode fj) then 0 else fst (fst m)) d' (Some RReadLimit)] ++
         repeat (RMsg 0 [] (Some RReadLimit)) n, s') /\
      wlog s' = map WPong (pings_of seen) ++ [WCloseTooBig] /\
      pending (br s') = wire_payload fj ++ encode_frames rj ++ extra /\
      rerror s' = Some RReadLimit /\ closesent s' = true /\ outoffuel s' = false /\
      (forall ops, exists rs s'', run_ops inflate c s' ops = (rs, s'') /\
                                  frozen s' s'' /\ Forall is_failure rs).
Proof. exact read_messages_over_limit. Qed.
Print Assumptions C06_run_over_limit.

(* the same, the limit being set by SetReadLimit before the first read *)
Theorem C06_run_over_limit_set :
  forall inflate c b fs extra L ms1 m ms2 n,
    custom_handlers c = false -> binv b -> (125 <= bsize b)%nat ->
    conformant_frames c fs -> pending b = encode_frames fs ++ extra ->
    0 < L -> data_msgs (events_of fs) = ms1 ++ m :: ms2 ->
    Forall (fun x => blen (snd x) <= L) ms1 -> L < blen (snd m) -> (n < 999)%nat ->
    exists seen fj rj d' y s',
      fs = seen ++ fj :: rj /\ is_control (opcode fj) = false /\
      data_msgs (events_of seen) = ms1 /\
      snd m = d' ++ payload fj ++ y /\ blen d' <= L /\ L < blen d' + plen fj /\
      (is_data_op (opcode fj) = true -> d' = []) /\
      run_ops inflate c (init_rst b) (OSetLimit L :: repeat OReadMessage (length ms1 + 1 + n)) =
        (RUnit :: map out_of ms1 ++
         [RMsg (if is_data_op (opcode fj) then 0 else fst (fst m)) d' (Some RReadLimit)] ++
         repeat (RMsg 0 [] (Some RReadLimit)) n, s') /\
      wlog s' = map WPong (pings_of seen) ++ [WCloseTooBig] /\
      pending (br s') = wire_payload fj ++ encode_frames rj ++ extra /\
      rerror s' = Some RReadLimit /\ closesent s' = true /\ outoffuel s' = false /\
      (forall ops, exists rs s'', run_ops inflate c s' ops = (rs, s'') /\
                                  frozen s' s'' /\ Forall is_failure rs).
Proof. exact read_messages_over_limit_set. Qed.
Print Assumptions C06_run_over_limit_set.

(* streams that may carry permessage-deflate messages, any [inflate]: the limit counts WIRE
   payload bytes; a compressed [m] delivers nothing, and nothing of it reaches the flate reader *)
Theorem C06Z_run_over_limit :
  forall inflate c b fs extra L ms1 m ms2 n,
    custom_handlers c = false -> binv b -> (125 <= bsize b)%nat ->
    conformant_framesZ c fs -> pending b = encode_frames fs ++ extra ->
    0 < L -> data_msgs (events_of fs) = ms1 ++ m :: ms2 ->
    Forall (fun x => blen (snd x) <= L) ms1 -> L < blen (snd m) -> (n < 999)%nat ->
    exists seen fj rj d' y s',
      fs = seen ++ fj :: rj /\ is_control (opcode fj) = false /\
      data_msgs (events_of seen) = ms1 /\
      snd m = d' ++ payload fj ++ y /\ blen d' <= L /\ L < blen d' + plen fj /\
      (is_data_op (opcode fj) = true -> d' = []) /\
      run_ops inflate c (init_rst b <| rlimit := L |>) (repeat OReadMessage (length ms1 + 1 + n)) =
        (map (out_ofZ inflate) ms1 ++
         [RMsg (if is_data_op (opcode fj) then 0 else fst (fst m)) (if snd (fst m) then [] else d')
               (Some RReadLimit)] ++
         repeat (RMsg 0 [] (Some RReadLimit)) n, s') /\
      wlog s' = map WPong (pings_of seen) ++ [WCloseTooBig] /\
      pending (br s') = wire_payload fj ++ encode_frames rj ++ extra /\
      rerror s' = Some RReadLimit /\ closesent s' = true /\ outoffuel s' = false /\
      (forall ops, exists rs s'', run_ops inflate c s' ops = (rs, s'') /\
                                  frozen s' s'' /\ Forall is_failure rs).
Proof. exact read_messages_over_limitZ. Qed.
Print Assumptions C06Z_run_over_limit.

Theorem C06Z_run_over_limit_set :
  forall inflate c b fs extra L ms1 m ms2 n,
    custom_handlers c = false -> binv b -> (125 <= bsize b)%nat ->
    conformant_framesZ c fs -> pending b = encode_frames fs ++ extra ->
    0 < L -> data_msgs (events_of fs) = ms1 ++ m :: ms2 ->
    Forall (fun x => blen (snd x) <= L) ms1 -> L < blen (snd m) -> (n < 999)%nat ->
    exists seen fj rj d' y s',
      fs = seen ++ fj :: rj /\ is_control (opcode fj) = false /\
      data_msgs (events_of seen) = ms1 /\
      snd m = d' ++ payload fj ++ y /\ blen d' <= L /\ L < blen d' + plen fj /\
      (is_data_op (opcode fj) = true -> d' = []) /\
      run_ops inflate c (init_rst b) (OSetLimit L :: repeat OReadMessage (length ms1 + 1 + n)) =
        (RUnit :: map (out_ofZ inflate) ms1 ++
         [RMsg (if is_data_op (opcode fj) then 0 else fst (fst m)) (if snd (fst m) then [] else d')
               (Some RReadLimit)] ++
         repeat (RMsg 0 [] (Some RReadLimit)) n, s') /\
      wlog s' = map WPong (pings_of seen) ++ [WCloseTooBig] /\
      pending (br s') = wire_payload fj ++ encode_frames rj ++ extra /\
      rerror s' = Some RReadLimit /\ closesent s' = true /\ outoffuel s' = false /\
      (forall ops, exists rs s'', run_ops inflate c s' ops = (rs, s'') /\
                                  frozen s' s'' /\ Forall is_failure rs).
Proof. exact read_messages_over_limitZ_set. Qed.
Print Assumptions C06Z_run_over_limit_set.

(* every message within the limit (or no limit): the limit is invisible -- the hypotheses and the
   conclusions are those of ReaderP.read_messages_conformant / ReaderFlateP.read_messages_generalZ *)
Theorem C06_run_within_limit :
  forall inflate c b fs extra L,
    custom_handlers c = false -> binv b -> (125 <= bsize b)%nat ->
    conformant_frames c fs -> pending b = encode_frames fs ++ extra -> extra <> [] ->
    let ms := data_msgs (events_of fs) in
    Forall (fun x => L = 0 \/ blen (snd x) <= L) ms ->
    exists s',
      run_ops inflate c (init_rst b <| rlimit := L |>) (repeat OReadMessage (length ms))
        = (map out_of ms, s') /\
      outoffuel s' = false /\ rerror s' = None /\ closesent s' = false /\
      rem s' = 0 /\ rfin s' = true /\
      wlog s' = map WPong (pings_of (body fs)) /\
      pending (br s') = encode_frames (trailer fs) ++ extra.
Proof. exact read_messages_within_limit. Qed.
Print Assumptions C06_run_within_limit.

Theorem C06Z_run_within_limit :
  forall inflate c b fs extra L,
    custom_handlers c = false -> binv b -> (125 <= bsize b)%nat ->
    conformant_framesZ c fs -> pending b = encode_frames fs ++ extra ->
    (trailer fs = [] -> extra = [] -> fault (src b) = EEOF) ->
    let ms := data_msgs (events_of fs) in
    Forall (fun x => L = 0 \/ blen (snd x) <= L) ms ->
    exists s',
      run_ops inflate c (init_rst b <| rlimit := L |>) (repeat OReadMessage (length ms))
        = (map (out_ofZ inflate) ms, s') /\
      outoffuel s' = false /\ closesent s' = false /\ rem s' = 0 /\ rfin s' = true /\
      wlog s' = map WPong (pings_of (body fs)) /\
      pending (br s') = encode_frames (trailer fs) ++ extra /\
      binv (br s') /\
      (rerror s' = None \/ (rerror s' = Some RIoEOF /\ trailer fs = [] /\ extra = [])).
Proof. exact read_messages_within_limitZ. Qed.
Print Assumptions C06Z_run_within_limit.

(* Any history: [hist] is any sequence of NextReader / Read (m > 0) / Read on a stale reader /
   ReadMessage calls containing exactly [length ms1] NextReader + ReadMessage calls -- every
   message of [ms1] is read by ReadMessage, or opened by NextReader and read in part, in full,
   beyond its end or not at all.  The ReadMessage that follows reaches [m] and fails exactly as
   above: same frame [fj], same bytes [d'], same write-back log, same pending bytes. *)
Theorem C06Z_run_over_limit_any_history :
  forall inflate c b fs extra L ms1 m ms2 hist,
    custom_handlers c = false -> binv b -> (125 <= bsize b)%nat ->
    conformant_framesZ c fs -> pending b = encode_frames fs ++ extra ->
    0 < L -> data_msgs (events_of fs) = ms1 ++ m :: ms2 ->
    Forall (fun x => blen (snd x) <= L) ms1 -> L < blen (snd m) ->
    Forall hist_op hist -> list_sum (map starts hist) = length ms1 ->
    exists outs seen fj rj d' y s',
      fs = seen ++ fj :: rj /\ is_control (opcode fj) = false /\
      data_msgs (events_of seen) = ms1 /\
      snd m = d' ++ payload fj ++ y /\ blen d' <= L /\ L < blen d' + plen fj /\
      (is_data_op (opcode fj) = true -> d' = []) /\
      run_ops inflate c (init_rst b <| rlimit := L |>) (hist ++ [OReadMessage]) =
        (outs ++ [RMsg (if is_data_op (opcode fj) then 0 else fst (fst m))
                       (if snd (fst m) then [] else d') (Some RReadLimit)], s') /\
      length outs = length hist /\ ~ In RPanic outs /\
      wlog s' = map WPong (pings_of seen) ++ [WCloseTooBig] /\
      pending (br s') = wire_payload fj ++ encode_frames rj ++ extra /\
      rerror s' = Some RReadLimit /\ closesent s' = true /\ outoffuel s' = false /\
      (forall ops, exists rs s'', run_ops inflate c s' ops = (rs, s'') /\
                                  frozen s' s'' /\ Forall is_failure rs).
Proof. exact read_messages_over_limitZ_any_history. Qed.
Print Assumptions C06Z_run_over_limit_any_history.

Theorem C06_run_over_limit_any_history :
  forall inflate c b fs extra L ms1 m ms2 hist,
    custom_handlers c = false -> binv b -> (125 <= bsize b)%nat ->
    conformant_frames c fs -> pending b = encode_frames fs ++ extra ->
    0 < L -> data_msgs (events_of fs) = ms1 ++ m :: ms2 ->
    Forall (fun x => blen (snd x) <= L) ms1 -> L < blen (snd m) ->
    Forall hist_op hist -> list_sum (map starts hist) = length ms1 ->
    exists outs seen fj rj d' y s',
      fs = seen ++ fj :: rj /\ is_control (opcode fj) = false /\
      data_msgs (events_of seen) = ms1 /\
      snd m = d' ++ payload fj ++ y /\ blen d' <= L /\ L < blen d' + plen fj /\
      (is_data_op (opcode fj) = true -> d' = []) /\
      run_ops inflate c (init_rst b <| rlimit := L |>) (hist ++ [OReadMessage]) =
        (outs ++ [RMsg (if is_data_op (opcode fj) then 0 else fst (fst m)) d' (Some RReadLimit)], s') /\
      length outs = length hist /\ ~ In RPanic outs /\
      wlog s' = map WPong (pings_of seen) ++ [WCloseTooBig] /\
      pending (br s') = wire_payload fj ++ encode_frames rj ++ extra /\
      rerror s' = Some RReadLimit /\ closesent s' = true /\ outoffuel s' = false /\
      (forall ops, exists rs s'', run_ops inflate c s' ops = (rs, s'') /\
                                  frozen s' s'' /\ Forall is_failure rs).
Proof. exact read_messages_over_limit_any_history. Qed.
Print Assumptions C06_run_over_limit_any_history.
