(* C19 A PreparedMessage equals WriteMessage on every connection it is sent to.
   Only property theorems here; the proofs are in Proofs/Prep*.v and Proofs/PreparedP.v.

   Model: Model/Prepared.v (the per-key frame cache of prepared.go, rendering on a private
   connection) and the CPrepared step of Cases/WriterCase.v (WritePreparedMessage: close the open
   writer, pick the key from role / negotiated compression / the connection's current write
   compression flag and level / message type, take the cached frame or render it, write it).
   Deflate output is an oracle (wc, cc: the chunks compress/flate produced), so the compressed
   statements are about the common deflate stream; that it inflates to the payload is the flate
   hypothesis checked by the harness on every run (Spec/Inflate.v on the real wire).

   PARTIAL: (1) all connection-level theorems are for fault-free sends (fail_at = None); faults
   are C10's subject.  (2) "in whatever ... concurrency": proved for every sequential
   interleaving of sends over any number of connections sharing the message (C19_prun_shared,
   C19_send_all_frames, C19_frame_for_commute: the frame a key gets does not depend on what was
   sent before for other keys); true concurrency (sync.Once / mutex inside prepared.go) is
   exercised only by the race-detector run of the harness.  (3) mutation of the caller's slice:
   the model's prepared message owns its payload (C19_frame_for_keeps_payload); that
   NewPreparedMessage copies nothing but also never reads the slice again after creation ...
   is what the harness checks by mutating the slice between sends. *)
Require Import WS.Base.Bytes WS.gen.Consts WS.Spec.Frame WS.Model.Writer WS.Model.Prepared WS.Cases.WriterCase.
Require Import WS.Proofs.WWBase WS.Proofs.WWInv WS.Proofs.WWFlate WS.Proofs.WWPrep WS.Proofs.FrameP.
Require Import WS.Proofs.PrepFrames WS.Proofs.PrepMsg WS.Proofs.PreparedP.

Theorem C19_prepared_send_equals_write_message c s ca p ic wc cc :
  cur s = None -> werr s = None -> fail_at s = None ->
  cache_get (ps_id p) ca = None ->
  w_negotiated c && wcomp s && is_data_ty (ps_ty p) = false ->
  msg_valid (ps_ty p) (ps_data p) -> blen (ps_data p) < 2^62 ->
  Forall len4 (keys s) -> Forall len4 (ps_keys p) ->
  direct_ok c s (ps_ty p) (ps_data p) ->
  exists fr s1 ca1 s2 W pfs dfs,
    cstep c (s, ca) (CPrepared p) = (None, (s1, ca1)) /\
    evs s1 = evs s ++ [TSetDL (deadline s); TWrite fr] /\
    wstep c s (WMessage (ps_ty p) (ps_data p) ic wc cc) = (None, s2) /\
    wire s2 = wire s ++ W /\
    parse_frames fr = (tag pfs, TEnd) /\ parse_frames W = (tag dfs, TEnd) /\
    wf_wire (negb (w_server c)) (w_negotiated c) (tag pfs) = true /\
    wf_wire (negb (w_server c)) (w_negotiated c) (tag dfs) = true /\
    open_after false (tag pfs) = false /\ open_after false (tag dfs) = false /\
    events_of pfs = [expected_event (ps_ty p) (ps_data p)] /\
    events_of dfs = [expected_event (ps_ty p) (ps_data p)] /\
    werr s1 = werr s2 /\
    (w_server c = true ->
       W = fr /\ fr = frame_header (ps_ty p + c_finalBit) 0 (blen (ps_data p)) ++ ps_data p) /\
    (w_server c = false ->
       (exists l km ch, pfs = msgfs (ps_ty p) 0 l km ch /\ Forall (fun x : kc => blen (snd x) = 4096) l /\ blen ch <= 4096) /\
       (exists l km ch, dfs = msgfs (ps_ty p) 0 l km ch /\ Forall (fun x : kc => blen (snd x) = cap c) l /\ blen ch <= cap c)).
Proof. exact (prepared_send_equals_write_message c s ca p ic wc cc). Qed.
Print Assumptions C19_prepared_send_equals_write_message.

Theorem C19_prepared_send_equals_write_message_compressed c s ca p ic wc' cc' :
  cur s = None -> werr s = None -> fail_at s = None ->
  cache_get (ps_id p) ca = None ->
  w_negotiated c = true -> wcomp s = true -> is_data_ty (ps_ty p) = true ->
  0 < cap c -> Forall len4 (keys s) -> Forall len4 (ps_keys p) ->
  tail_ok (ps_cc p) -> tail_ok cc' ->
  concat (ps_wc p) ++ concat (ps_cc p) = concat wc' ++ concat cc' ->
  blen (concat wc' ++ concat cc') < 2^62 ->
  exists fr s1 ca1 s2 W pfs dfs z,
    cstep c (s, ca) (CPrepared p) = (None, (s1, ca1)) /\
    evs s1 = evs s ++ [TSetDL (deadline s); TWrite fr] /\
    wstep c s (WMessage (ps_ty p) (ps_data p) ic wc' cc') = (None, s2) /\
    wire s2 = wire s ++ W /\
    parse_frames fr = (tag pfs, TEnd) /\ parse_frames W = (tag dfs, TEnd) /\
    wf_wire (negb (w_server c)) true (tag pfs) = true /\
    wf_wire (negb (w_server c)) true (tag dfs) = true /\
    open_after false (tag pfs) = false /\ open_after false (tag dfs) = false /\
    events_of pfs = [EMsg (ps_ty p) true z] /\ events_of dfs = [EMsg (ps_ty p) true z] /\
    z ++ [0;0;255;255] = concat wc' ++ concat cc'.
Proof. exact (prepared_send_equals_write_message_compressed c s ca p ic wc' cc'). Qed.
Print Assumptions C19_prepared_send_equals_write_message_compressed.

Theorem C19_rendered_frame_wellformed k ty data keys wc cc :
  pk_compress k && is_data_ty ty = false -> msg_valid ty data -> blen data < 2^62 -> Forall len4 keys ->
  exists pfs,
    render k ty data keys wc cc = (None, encode_frames pfs) /\
    Forall wf_frame pfs /\
    (forall ng, wf_wire (negb (pk_server k)) ng (tag pfs) = true) /\
    open_after false (tag pfs) = false /\
    events_of pfs = [expected_event ty data] /\
    (* server key: ONE unmasked frame whatever the size *)
    (pk_server k = true -> pfs = [mkf true ty 0 None data]) /\
    (* client key: the message writer cuts at 4096 bytes; every frame masked with a 4-byte key *)
    (pk_server k = false ->
       exists l km ch, pfs = msgfs ty 0 l km ch /\ concat (map snd l) ++ ch = data /\
         Forall (fun x : kc => blen (snd x) = 4096) l /\ blen ch <= 4096 /\ (data <> [] -> ch <> [])).
Proof. exact (rendered_frame_wellformed k ty data keys wc cc). Qed.
Print Assumptions C19_rendered_frame_wellformed.

Theorem C19_rendered_frame_compressed k ty data keys wc cc :
  pk_compress k = true -> is_data_ty ty = true -> tail_ok cc ->
  blen (concat wc ++ concat cc) < 2^62 -> Forall len4 keys ->
  exists pfs z f rest,
    render k ty data keys wc cc = (None, encode_frames pfs) /\
    Forall wf_frame pfs /\
    wf_wire (negb (pk_server k)) true (tag pfs) = true /\
    open_after false (tag pfs) = false /\
    events_of pfs = [EMsg ty true z] /\
    z ++ [0;0;255;255] = concat wc ++ concat cc /\
    pfs = f :: rest /\ rsv f = 4 /\ opcode f = ty.
Proof. exact (rendered_frame_compressed k ty data keys wc cc). Qed.
Print Assumptions C19_rendered_frame_compressed.

Theorem C19_new_prepared_refuses_invalid ty data :
  (is_control_ty ty = false -> is_data_ty ty = false -> fst (new_prepared ty data) = Some WBadOpCode) /\
  (is_control_ty ty = true -> 125 < blen data -> fst (new_prepared ty data) = Some WInvalidControl) /\
  (msg_valid ty data -> fst (new_prepared ty data) = None).
Proof. exact (new_prepared_refuses_invalid ty data). Qed.
Print Assumptions C19_new_prepared_refuses_invalid.

Theorem C19_send_all_frames l : forall p, fst (send_all p l) = map (fun x => want p l (fst x)) l.
Proof. exact (send_all_frames l). Qed.
Print Assumptions C19_send_all_frames.

Theorem C19_frame_for_idempotent k p keys wc cc keys' wc' cc' :
  let r := frame_for k p keys wc cc in
  lookup k (snd r) = Some (fst r) /\ frame_for k (snd r) keys' wc' cc' = (fst r, snd r).
Proof. exact (frame_for_idempotent k p keys wc cc keys' wc' cc'). Qed.
Print Assumptions C19_frame_for_idempotent.

Theorem C19_frame_for_commute k1 k2 p keys1 wc1 cc1 keys2 wc2 cc2 : k1 <> k2 ->
  let p1 := snd (frame_for k1 p keys1 wc1 cc1) in
  let p2 := snd (frame_for k2 p keys2 wc2 cc2) in
  fst (frame_for k2 p1 keys2 wc2 cc2) = fst (frame_for k2 p keys2 wc2 cc2) /\
  fst (frame_for k1 p2 keys1 wc1 cc1) = fst (frame_for k1 p keys1 wc1 cc1) /\
  (forall k, lookup k (snd (frame_for k2 p1 keys2 wc2 cc2)) = lookup k (snd (frame_for k1 p2 keys1 wc1 cc1))).
Proof. exact (frame_for_commute k1 k2 p keys1 wc1 cc1 keys2 wc2 cc2). Qed.
Print Assumptions C19_frame_for_commute.

Theorem C19_frame_for_keeps_payload k p keys wc cc :
  p_ty (snd (frame_for k p keys wc cc)) = p_ty p /\ p_data (snd (frame_for k p keys wc cc)) = p_data p.
Proof. exact (frame_for_keeps_payload k p keys wc cc). Qed.
Print Assumptions C19_frame_for_keeps_payload.

Theorem C19_prun_shared pay cfgs ops : forall sts ca,
  ca_for pay ca -> Forall (fun io => op_for pay (snd io)) ops ->
  prun_all send_good cfgs sts ca ops.
Proof. exact (prun_shared pay cfgs ops). Qed.
Print Assumptions C19_prun_shared.

Theorem C19_prepared_close_sets_werr c s ca p s' ca' :
  cstep c (s, ca) (CPrepared p) = (None, (s', ca')) -> ps_ty p = c_CloseMessage ->
  werr s' = Some WCloseSent.
Proof. exact (prepared_close_sets_werr c s ca p s' ca'). Qed.
Print Assumptions C19_prepared_close_sets_werr.

Theorem C19_after_close_prepared_fails c s ca p :
  werr s = Some WCloseSent ->
  fst (cstep c (s, ca) (CPrepared p)) = Some WCloseSent /\
  werr (fst (snd (cstep c (s, ca) (CPrepared p)))) = Some WCloseSent /\
  wire (fst (snd (cstep c (s, ca) (CPrepared p)))) = wire s.
Proof. exact (after_close_prepared_fails c s ca p). Qed.
Print Assumptions C19_after_close_prepared_fails.


(* ---- a prepared message IS its WriteMessage, for whole programs: Proofs/WriterEventsC.v ----
   For every configuration, key oracle and program of the case format (WritePreparedMessage mixed
   with every other write call, any number of prepared messages sharing the cache, sent any
   number of times), the Spec events of the wire are the output of the abstract writer of
   Spec/WriterSpec.v run on the program where each prepared send is read as AMessage of its
   creation payload ([aop_of]).  Without negotiated compression this is an equation between
   event lists; with compression a compressed message carries its deflate stream, which for a
   prepared send is the stream of the send that rendered the cached frame for (id, key). *)
Require Import WS.Spec.WriterSpec WS.Proofs.WriterEventsP WS.Proofs.WriterEventsZ WS.Proofs.WriterEventsC.

Theorem C19_wire_events_prepared_uncompressed :
  forall pay c ks ops fs,
    14 < w_bufsize c -> w_bufsize c < 2^62 -> w_negotiated c = false ->
    Forall (fun k => length k = 4%nat) ks -> Forall cop_small ops -> Forall (op_for pay) ops ->
    let r := crun c (init_wst c ks None, []) ops in
    let A := arun false ast0 (combine (map aop_of ops) (cres (fst r))) in
    Forall wf_frame fs -> wire_of (evs (fst (snd r))) = encode_frames fs ->
    map sent_of_event (events_of fs) = a_out A /\
    (a_dead A = false -> a_open A = None -> snd (events_from None fs) = None).
Proof. exact wire_events_prepared_uncompressed. Qed.
Print Assumptions C19_wire_events_prepared_uncompressed.

Theorem C19_wire_events_prepared :
  forall pay c ks ops fs,
    14 < w_bufsize c -> w_bufsize c < 2^62 ->
    Forall (fun k => length k = 4%nat) ks -> Forall cop_small ops -> Forall (op_for pay) ops ->
    (w_negotiated c = false \/ czgood c (init_wst c ks None, []) ops) ->
    let r := crun c (init_wst c ks None, []) ops in
    let res := cres (fst r) in
    let A := arun (w_negotiated c) ast0 (combine (map aop_of ops) res) in
    let Z := zrun (w_negotiated c) zst0 (combine (cz_ops c (init_wst c ks None, []) [] ops) res) in
    Forall wf_frame fs -> wire_of (evs (fst (snd r))) = encode_frames fs ->
    zerase Z = A /\
    map sent_of_event (events_of fs) = map zwire (z_out Z) /\
    Forall zstr_ok (z_out Z) /\
    (a_dead A = false -> a_open A = None -> snd (events_from None fs) = None).
Proof. exact wire_events_prepared. Qed.
Print Assumptions C19_wire_events_prepared.

Theorem C19_abstract_flags_exact_prepared :
  forall pay c ks ops,
    14 < w_bufsize c -> w_bufsize c < 2^62 ->
    Forall (fun k => length k = 4%nat) ks -> Forall cop_small ops -> Forall (op_for pay) ops ->
    (w_negotiated c = false \/ czgood c (init_wst c ks None, []) ops) ->
    let r := crun c (init_wst c ks None, []) ops in
    let A := arun (w_negotiated c) ast0 (combine (map aop_of ops) (cres (fst r))) in
    (a_dead A = true <-> werr (fst (snd r)) <> None) /\
    (a_dead A = false -> (a_open A = None <-> cur (fst (snd r)) = None)) /\
    (a_dead A = false -> a_comp A = wcomp (fst (snd r))).
Proof. exact abstract_flags_exact_prepared. Qed.
Print Assumptions C19_abstract_flags_exact_prepared.

(* the invariant on the shared cache behind it: every cached frame is a complete message for its
   key, uncompressed keys carry the creation payload, compressed keys the recorded stream *)
Theorem C19_cache_invariant_step :
  forall pay c s ca g o,
  CZ pay ca g -> op_for pay o -> cop_small o ->
  match o with COp _ => True | CPrepared p => prep_flate_ok c (s, ca) p end ->
  CZ pay (snd (snd (cstep c (s, ca) o))) (gstep c (s, ca) g o).
Proof. exact cstep_CZ. Qed.
Print Assumptions C19_cache_invariant_step.
