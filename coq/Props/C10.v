(* C10 Write failures are fail-stop; bad requests write nothing; deadlines are applied.
   Only property theorems here; proofs are in Proofs/WriterStateP.v (every configuration, every
   program over the whole write API, every key oracle, every fault plan). *)
Require Import WS.Base.Bytes WS.gen.Consts WS.Model.Writer WS.Proofs.WriterStateP.

(* after a transport failure (SetWriteDeadline or Write failing: error, timeout, short write)
   nothing more is handed to the transport, and the connection is poisoned *)
Theorem C10_nothing_written_after_failure :
  forall c ks fa ops, let s' := snd (wrun c (init_wst c ks fa) ops) in
    forall pre e post, evs s' = pre ++ e :: post -> is_fail e = true ->
      transport_evs post = [] /\ werr s' <> None.
Proof. exact nothing_after_failure_init. Qed.
Print Assumptions C10_nothing_written_after_failure.

(* every later message-level write fails (WriteMessage, NextWriter, WriteControl, prepared,
   Close of an open writer) *)
Theorem C10_later_writes_fail :
  forall c s o x, werr s = Some x ->
    match o with
    | WSetDeadline _ | WEnableCompression _ | WSetLevel _ | WWrite _ _ | WWriteString _ _ | WReadFrom _ => True
    | _ => fst (wstep c s o) <> None
    end.
Proof. exact after_error_calls_fail. Qed.
Print Assumptions C10_later_writes_fail.

(* invalid requests write nothing and leave the connection exactly as it was *)
Theorem C10_invalid_control_request_is_a_noop :
  forall c s ty d dl,
    (is_control_ty ty = false -> wstep c s (WControl ty d dl) = (Some WBadOpCode, s)) /\
    (is_control_ty ty = true -> 125 < blen d -> wstep c s (WControl ty d dl) = (Some WInvalidControl, s)).
Proof. exact invalid_control_unchanged. Qed.
Theorem C10_bad_message_type_is_a_noop :
  forall c s ty, cur s = None -> valid_ty ty = false ->
    (forall ic, wstep c s (WNext ty ic) = (Some WBadOpCode, s)) /\
    (forall d ic wc cc, wstep c s (WMessage ty d ic wc cc) = (Some WBadOpCode, s)).
Proof. exact bad_type_unchanged. Qed.
Theorem C10_oversized_control_message_writes_nothing :
  forall c s ty d ic wc cc,
    cur s = None -> werr s = None -> is_control_ty ty = true -> 125 < blen d ->
    exists s', wstep c s (WMessage ty d ic wc cc) = (Some WInvalidControl, s') /\
      (exists g, revs s' = g ++ revs s /\ transport_evs g = []) /\ werr s' = None /\ cur s' = None /\
      held s' = negb (w_pooled c).
Proof. exact oversized_control_message. Qed.
Print Assumptions C10_invalid_control_request_is_a_noop.
Print Assumptions C10_bad_message_type_is_a_noop.
Print Assumptions C10_oversized_control_message_writes_nothing.

(* every Write is preceded by a successful SetWriteDeadline of the same frame ... *)
Theorem C10_writes_have_deadlines :
  forall c ks fa ops, deadlines_ok false (evs (snd (wrun c (init_wst c ks fa) ops))) = true.
Proof. exact writes_have_deadlines_init. Qed.
(* ... whose value is the one last given to SetWriteDeadline, or WriteControl's own argument *)
Theorem C10_deadline_value :
  forall c s o e s', wstep c s o = (e, s') ->
    exists d, revs s' = d ++ revs s /\ Forall (dl_is (eq (step_dl s o))) d.
Proof. exact step_deadline_value. Qed.
Print Assumptions C10_writes_have_deadlines.
Print Assumptions C10_deadline_value.
(* "the bytes already written form a valid frame sequence followed by at most one incomplete
   frame": Props/C02 (fault-free wire) + the correspondence check's Spec decoder on faulted runs. *)
