(* C08 Control frames: handlers see each frame once; ping answered, close echoed.
   Only property theorems here; proofs are in Proofs/CtlP.v (and ReaderP.v for the pong replies). *)
Require Import WS.Base.Bytes WS.gen.Consts WS.Spec.Frame WS.Spec.Conformance WS.Model.Bufio WS.Model.Reader.
Require Import WS.Proofs.BufioP WS.Proofs.ReaderP1 WS.Proofs.ReaderP2 WS.Proofs.ReaderP WS.Proofs.ReaderBasicP WS.Proofs.CtlP.

(* recording handlers: for every conformant stream (any fragmentation, control frames before,
   between and after fragments, back to back), every role, chunking and buffer size, the handler
   log is exactly the control frames in wire order with their exact payloads, each once; each is
   stamped with the number of the read call during which it was seen *)
Theorem C08_handlers_see_each_frame_once_in_order :
  forall inflate c b fs extra,
    custom_handlers c = true -> handler_fail c = [] -> binv b -> (125 <= bsize b)%nat ->
    conformant_frames c fs -> pending b = encode_frames fs ++ extra ->
    (trailer fs = [] -> extra = [] -> fault (src b) = EEOF) ->
    let ms := data_msgs (events_of fs) in
    exists s', run_ops inflate c (init_rst b) (repeat OReadMessage (length ms)) = (map out_of ms, s') /\
      hlog s' = stamps 0 (body fs) /\
      map hev_payload (hlog s') = map ctl_payload (filter isctl (body fs)) /\
      hcount s' = length (hlog s') /\ wlog s' = [] /\ closesent s' = false /\ outoffuel s' = false /\
      pending (br s') = encode_frames (trailer fs) ++ extra /\ opidx s' = length ms.
Proof. exact handler_log_in_wire_order. Qed.
Print Assumptions C08_handlers_see_each_frame_once_in_order.

(* order relative to the data: a control frame is seen during the read call that returns the
   message it precedes or interrupts - never later *)
Theorem C08_order_relative_to_data :
  forall inflate c b fs extra l1 g l2,
    custom_handlers c = true -> handler_fail c = [] -> binv b -> (125 <= bsize b)%nat ->
    conformant_frames c fs -> pending b = encode_frames fs ++ extra ->
    (trailer fs = [] -> extra = [] -> fault (src b) = EEOF) ->
    body fs = l1 ++ g :: l2 -> isctl g = true ->
    exists s', run_ops inflate c (init_rst b) (repeat OReadMessage (length (data_msgs (events_of fs)))) =
        (map out_of (data_msgs (events_of fs)), s') /\
      hlog s' = stamps 0 l1 ++ hev_of (nfin l1) g :: stamps (nfin l1) l2.
Proof. exact handler_sees_frame_during_its_message. Qed.
Print Assumptions C08_order_relative_to_data.

(* default handlers: each ping answered by a pong with the identical payload (0..125 bytes) *)
Theorem C08_pings_answered :
  forall inflate c b fs extra,
    custom_handlers c = false -> binv b -> (125 <= bsize b)%nat ->
    conformant_frames c fs -> pending b = encode_frames fs ++ extra -> extra <> [] ->
    let ms := data_msgs (events_of fs) in
    exists s',
      run_ops inflate c (init_rst b) (repeat OReadMessage (length ms)) = (map out_of ms, s') /\
      outoffuel s' = false /\ rerror s' = None /\ closesent s' = false /\
      rem s' = 0 /\ rfin s' = true /\
      wlog s' = map WPong (pings_of (body fs)) /\
      pending (br s') = encode_frames (trailer fs) ++ extra.
Proof. exact read_messages_conformant. Qed.

(* default handlers: a close is answered by a close with the same status code (empty body for a
   close without body), the read fails with CloseError(code, reason) - 1005 when there is no body -
   permanently, and nothing after the close frame is ever read *)
Theorem C08_close_echoed_and_reported :
  forall inflate c b fs cf anything,
    custom_handlers c = false -> binv b -> (125 <= bsize b)%nat ->
    conformant_frames c fs -> valid_close c cf ->
    pending b = encode_frames fs ++ encode_frame cf ++ anything ->
    let ms := data_msgs (events_of fs) in
    let code := close_code (payload cf) in let text := close_text (payload cf) in
    exists s', run_ops inflate c (init_rst b) (repeat OReadMessage (S (length ms))) =
        (map out_of ms ++ [RMsg 0 [] (Some (RClose code text))], s') /\
      rerror s' = Some (RClose code text) /\
      wlog s' = map WPong (pings_of fs) ++ [WCloseEcho (format_close code)] /\
      closesent s' = true /\ hlog s' = [] /\ outoffuel s' = false /\ pending (br s') = anything /\
      (forall ops, exists rs s'', run_ops inflate c s' ops = (rs, s'') /\ Forall is_failure rs /\
         br s'' = br s' /\ hlog s'' = hlog s' /\ wlog s'' = wlog s' /\ rerror s'' = Some (RClose code text)).
Proof. exact read_messages_with_close. Qed.
Print Assumptions C08_close_echoed_and_reported.
Theorem C08_no_body_is_1005 : forall p, blen p <= 1 -> close_code p = 1005 /\ close_text p = [] /\ close_body_bad p = false.
Proof. exact close_short. Qed.

(* recording handlers and a close frame: the close handler gets code and reason once, last *)
Theorem C08_close_handler_sees_code_and_reason :
  forall inflate c b fs cf anything,
    custom_handlers c = true -> handler_fail c = [] -> binv b -> (125 <= bsize b)%nat ->
    conformant_frames c fs -> valid_close c cf ->
    pending b = encode_frames fs ++ encode_frame cf ++ anything ->
    let ms := data_msgs (events_of fs) in
    let code := close_code (payload cf) in let text := close_text (payload cf) in
    exists s', run_ops inflate c (init_rst b) (repeat OReadMessage (S (length ms))) =
        (map out_of ms ++ [RMsg 0 [] (Some (RClose code text))], s') /\
      rerror s' = Some (RClose code text) /\
      hlog s' = stamps 0 fs ++ [HClose (length ms) code text] /\ hcount s' = length (hlog s') /\
      wlog s' = [] /\ closesent s' = false /\ outoffuel s' = false /\ pending (br s') = anything /\
      (forall ops, exists rs s'', run_ops inflate c s' ops = (rs, s'') /\ Forall is_failure rs /\
         br s'' = br s' /\ hlog s'' = hlog s' /\ wlog s'' = wlog s' /\ rerror s'' = Some (RClose code text)).
Proof. exact handler_log_with_close. Qed.
Print Assumptions C08_close_handler_sees_code_and_reason.

(* an error returned by a handler is returned from the read call and is permanent *)
Theorem C08_handler_error_returned_and_permanent :
  forall inflate k c s f rest,
    rinv k s -> custom_handlers c = true -> wf_frame f -> ctl_ok (server c) f ->
    (opcode f = 8 -> close_body_bad (payload f) = false) -> rem s = 0 ->
    pending (br s) = encode_frame f ++ rest -> In (hcount s) (handler_fail c) ->
    let e := RHandler (N.of_nat (hcount s)) in
    let logged s' := rerror s' = Some e /\ hlog s' = hlog s ++ [hev_of (opidx s) f] /\ wlog s' = wlog s /\ pending (br s') = rest in
    (exists s', next_reader c s = (RNext 0 (Some e), s') /\ logged s') /\
    (exists s', read_message inflate c s = (RMsg 0 [] (Some e), s') /\ logged s') /\
    (rfin s = false -> forall m, exists s', reader_read c m s = ([], Some e, s') /\ logged s') /\
    (forall s', rerror s' = Some e -> forall ops, exists rs s'', run_ops inflate c s' ops = (rs, s'') /\ frozen s' s'' /\ Forall is_failure rs).
Proof. exact handler_error_is_returned_and_permanent. Qed.
Print Assumptions C08_handler_error_returned_and_permanent.

(* ============================================================================================ *)
(* Streams with permessage-deflate messages (reader negotiated compression).  [conformant_framesZ]
   lets data AND control frames carry RSV1 when negotiated; a ReadMessage returns
   [out_ofZ inflate m]: the inflated payload (or the flate error) for a message whose first frame
   has RSV1, the payload itself otherwise.  Proofs are in Proofs/CtlZ.v (and ReaderFlateP.v for
   the pong replies).                                                                           *)
(* ============================================================================================ *)
Require Import WS.Proofs.ReaderZ1 WS.Proofs.ReaderZ3 WS.Proofs.ReaderFlateP WS.Proofs.CtlZ.

Theorem C08Z_handlers_see_each_frame_once_in_order :
  forall inflate c b fs extra,
    custom_handlers c = true -> handler_fail c = [] -> binv b -> (125 <= bsize b)%nat ->
    conformant_framesZ c fs -> pending b = encode_frames fs ++ extra ->
    (trailer fs = [] -> extra = [] -> fault (src b) = EEOF) ->
    let ms := data_msgs (events_of fs) in
    exists s', run_ops inflate c (init_rst b) (repeat OReadMessage (length ms)) = (map (out_ofZ inflate) ms, s') /\
      hlog s' = stamps 0 (body fs) /\
      map hev_payload (hlog s') = map ctl_payload (filter isctl (body fs)) /\
      hcount s' = length (hlog s') /\ wlog s' = [] /\ closesent s' = false /\ outoffuel s' = false /\
      pending (br s') = encode_frames (trailer fs) ++ extra /\ opidx s' = length ms.
Proof. exact handler_log_in_wire_orderZ. Qed.
Print Assumptions C08Z_handlers_see_each_frame_once_in_order.

Theorem C08Z_order_relative_to_data :
  forall inflate c b fs extra l1 g l2,
    custom_handlers c = true -> handler_fail c = [] -> binv b -> (125 <= bsize b)%nat ->
    conformant_framesZ c fs -> pending b = encode_frames fs ++ extra ->
    (trailer fs = [] -> extra = [] -> fault (src b) = EEOF) ->
    body fs = l1 ++ g :: l2 -> isctl g = true ->
    exists s', run_ops inflate c (init_rst b) (repeat OReadMessage (length (data_msgs (events_of fs)))) =
        (map (out_ofZ inflate) (data_msgs (events_of fs)), s') /\
      hlog s' = stamps 0 l1 ++ hev_of (nfin l1) g :: stamps (nfin l1) l2.
Proof. exact handler_sees_frame_during_its_messageZ. Qed.
Print Assumptions C08Z_order_relative_to_data.

(* default handlers: each ping answered by a pong with the identical payload, also between the
   fragments of a compressed message *)
Theorem C08Z_pings_answered :
  forall inflate c b fs extra,
    custom_handlers c = false -> binv b -> (125 <= bsize b)%nat ->
    conformant_framesZ c fs -> pending b = encode_frames fs ++ extra -> extra <> [] ->
    let ms := data_msgs (events_of fs) in
    exists s',
      run_ops inflate c (init_rst b) (repeat OReadMessage (length ms)) = (map (out_ofZ inflate) ms, s') /\
      outoffuel s' = false /\ rerror s' = None /\ closesent s' = false /\
      rem s' = 0 /\ rfin s' = true /\
      wlog s' = map WPong (pings_of (body fs)) /\
      pending (br s') = encode_frames (trailer fs) ++ extra.
Proof. exact read_messages_conformantZ. Qed.
Print Assumptions C08Z_pings_answered.

(* default handlers: a close frame (possibly carrying RSV1 itself) after compressed messages is
   echoed with the same code and reported, permanently; nothing after it is read *)
Theorem C08Z_close_echoed_and_reported :
  forall inflate c b fs cf anything,
    custom_handlers c = false -> binv b -> (125 <= bsize b)%nat ->
    conformant_framesZ c fs -> valid_closeZ c cf ->
    pending b = encode_frames fs ++ encode_frame cf ++ anything ->
    let ms := data_msgs (events_of fs) in
    let code := close_code (payload cf) in let text := close_text (payload cf) in
    exists s', run_ops inflate c (init_rst b) (repeat OReadMessage (S (length ms))) =
        (map (out_ofZ inflate) ms ++ [RMsg 0 [] (Some (RClose code text))], s') /\
      rerror s' = Some (RClose code text) /\
      wlog s' = map WPong (pings_of fs) ++ [WCloseEcho (format_close code)] /\
      closesent s' = true /\ hlog s' = [] /\ outoffuel s' = false /\ pending (br s') = anything /\
      (forall ops, exists rs s'', run_ops inflate c s' ops = (rs, s'') /\ Forall is_failure rs /\
         br s'' = br s' /\ hlog s'' = hlog s' /\ wlog s'' = wlog s' /\ rerror s'' = Some (RClose code text)).
Proof. exact read_messages_with_closeZ. Qed.
Print Assumptions C08Z_close_echoed_and_reported.

(* recording handlers and a close frame: the close handler gets code and reason once, last *)
Theorem C08Z_close_handler_sees_code_and_reason :
  forall inflate c b fs cf anything,
    custom_handlers c = true -> handler_fail c = [] -> binv b -> (125 <= bsize b)%nat ->
    conformant_framesZ c fs -> valid_closeZ c cf ->
    pending b = encode_frames fs ++ encode_frame cf ++ anything ->
    let ms := data_msgs (events_of fs) in
    let code := close_code (payload cf) in let text := close_text (payload cf) in
    exists s', run_ops inflate c (init_rst b) (repeat OReadMessage (S (length ms))) =
        (map (out_ofZ inflate) ms ++ [RMsg 0 [] (Some (RClose code text))], s') /\
      rerror s' = Some (RClose code text) /\
      hlog s' = stamps 0 fs ++ [HClose (length ms) code text] /\ hcount s' = length (hlog s') /\
      wlog s' = [] /\ closesent s' = false /\ outoffuel s' = false /\ pending (br s') = anything /\
      (forall ops, exists rs s'', run_ops inflate c s' ops = (rs, s'') /\ Forall is_failure rs /\
         br s'' = br s' /\ hlog s'' = hlog s' /\ wlog s'' = wlog s' /\ rerror s'' = Some (RClose code text)).
Proof. exact handler_log_with_closeZ. Qed.
Print Assumptions C08Z_close_handler_sees_code_and_reason.

(* one ReadMessage over a message that may be compressed and need not end within the frames
   considered: either it completes (res = None) or the frame [tail] starts with makes
   advanceFrame fail while the message is open; the handler log / pong replies are exactly the
   effects of the control frames met, in wire order ([effs]) *)
Theorem C08Z_read_message_gen :
  forall k c tail e (Post : rst -> rst -> Prop),
    (custom_handlers c = true -> handler_fail c = []) -> tail <> [] \/ k = EEOF -> is_io_eof e = false ->
  forall inflate fs s p f r,
    rinv k s -> rem s = 0 -> rfin s = true -> pending (br s) = encode_frames fs ++ tail ->
    Forall wf_frame fs -> acc_seqZ (server c) (negotiated c) false fs = true ->
    blen (encode_frames fs) < 2^63 -> find_data fs = Some (p, f, r) ->
    (closes (fin f) r = false -> open_fail k c tail e Post) ->
    exists res s',
      read_message inflate c s =
        (msg_outZ inflate (opcode f) (rsv f =? 4) (payload f ++ tail_data (fin f) r) res, s') /\
      ra_post k c tail e Post (fin f) (opidx s) (effs c (opidx s) (L s) (lead fs)) r res s'.
Proof. exact read_message_genZ. Qed.
Print Assumptions C08Z_read_message_gen.

(* an error returned by a handler (the control frame may carry RSV1) is returned and permanent *)
Theorem C08Z_handler_error_returned_and_permanent :
  forall inflate k c s f rest,
    rinv k s -> custom_handlers c = true -> wf_frame f -> ctl_okZ (negotiated c) (server c) f ->
    (opcode f = 8 -> close_body_bad (payload f) = false) -> rem s = 0 ->
    pending (br s) = encode_frame f ++ rest -> In (hcount s) (handler_fail c) ->
    let e := RHandler (N.of_nat (hcount s)) in
    let logged s' := rerror s' = Some e /\ hlog s' = hlog s ++ [hev_of (opidx s) f] /\ wlog s' = wlog s /\ pending (br s') = rest in
    (exists s', next_reader c s = (RNext 0 (Some e), s') /\ logged s') /\
    (exists s', read_message inflate c s = (RMsg 0 [] (Some e), s') /\ logged s') /\
    (rfin s = false -> forall m, exists s', reader_read c m s = ([], Some e, s') /\ logged s') /\
    (forall s', rerror s' = Some e -> forall ops, exists rs s'', run_ops inflate c s' ops = (rs, s'') /\ frozen s' s'' /\ Forall is_failure rs).
Proof. exact handler_error_is_returned_and_permanentZ. Qed.
Print Assumptions C08Z_handler_error_returned_and_permanent.
