(* C05 No silent truncation: a transport fault yields whole messages, then an error.
   Only property theorems here; proofs are in Proofs/CutP.v, ReaderP.v, ReaderBasicP.v. *)
Require Import WS.Base.Bytes WS.gen.Consts WS.Spec.Frame WS.Spec.Conformance WS.Model.Bufio WS.Model.Reader.
Require Import WS.Proofs.BufioP WS.Proofs.FrameP WS.Proofs.ReaderP1 WS.Proofs.ReaderP WS.Proofs.ReaderBasicP WS.Proofs.CutP.

(* The stream is a conformant frame sequence fs cut at ANY byte offset inside the next frame f
   (fewer than 2 header bytes, inside the extended length or the mask key, inside the payload of a
   data or continuation frame, anywhere in a control frame) or between two fragments of a message
   (cut = [], message open).  The fault may be EOF, timeout or any error, delivered alone or
   together with the last bytes (all hidden in the arbitrary bufio/transport state b), any
   chunking, any buffer size >= 125.  Then: every message that is complete within the received
   bytes is reported complete and byte-identical, in order; the next read returns a real error
   (never nil, never io.EOF): the partially received message is never reported complete; the
   bytes returned with the error are exactly the received part of that message; no reply is
   queued for a truncated control frame; every later operation fails, delivering nothing. *)
Theorem C05_cut_stream_whole_messages_then_error :
  forall inflate c b fs f cut suf o ops,
    custom_handlers c = false -> binv b -> (125 <= bsize b)%nat ->
    Forall wf_frame fs -> seq_acc (server c) false fs = Some o ->
    wf_frame f -> frame_acc (server c) o f = true -> encode_frame f = cut ++ suf -> suf <> [] ->
    (cut <> [] \/ o = true) -> pending b = encode_frames fs ++ cut ->
    blen (encode_frames fs) + blen (encode_frame f) < 2^63 ->
    let ms := data_msgs (events_of fs) in
    let e := of_berror (BErr (fault (src b))) in
    let ty := fst (partial_of fs f (length cut)) in
    let d := snd (partial_of fs f (length cut)) in
    exists rs s',
      run_ops inflate c (init_rst b) (repeat OReadMessage (S (length ms)) ++ ops) =
        (map out_of ms ++ RMsg ty d (Some e) :: rs, s') /\
      Forall is_failure rs /\ rerror s' = Some e /\ outoffuel s' = false /\
      wlog s' = map WPong (pings_of fs).
Proof. exact cut_stream_errors_sticky. Qed.
Print Assumptions C05_cut_stream_whole_messages_then_error.

(* the error is a real one: the 1006 close error for EOF, the transport's timeout / error otherwise *)
Theorem C05_error_is_not_eof : forall k, of_berror (BErr k) <> RIoEOF /\
  of_berror (BErr k) = match k with EEOF => unexpected_eof | ETimeout => RTimeout | EOther => ROther end.
Proof. exact cut_error_real. Qed.
Print Assumptions C05_error_is_not_eof.

(* io.Reader level, for ANY state, transport, configuration and buffer size: a message reader
   returns io.EOF only when the final frame of its message has been consumed completely (the
   repaired defect: EOF glued to the last bytes of a non-final frame) *)
Theorem C05_reader_eof_only_at_true_end :
  forall fuel c m s d s',
    rerror s = None -> read_loop fuel c m s = (d, Some RIoEOF, s') -> rfin s' = true /\ rem s' = 0.
Proof. exact read_loop_eof_only_at_end. Qed.
Print Assumptions C05_reader_eof_only_at_true_end.

(* NextReader + Read of arbitrary sizes on the partially received message: every Read returns
   bytes of the message (in order) with no error or with the real error; never io.EOF *)
Theorem C05_partial_message_reader_never_eof :
  forall inflate c b fs f cut suf o l,
    custom_handlers c = false -> binv b -> (125 <= bsize b)%nat ->
    Forall wf_frame fs -> seq_acc (server c) false fs = Some o ->
    wf_frame f -> frame_acc (server c) o f = true -> encode_frame f = cut ++ suf -> suf <> [] ->
    (cut <> [] \/ o = true) -> pending b = encode_frames fs ++ cut ->
    blen (encode_frames fs) + blen (encode_frame f) < 2^63 ->
    msg_started f cut o -> Forall (fun m => (0 < m)%nat) l ->
    let ms := data_msgs (events_of fs) in
    let ty := fst (partial_of fs f (length cut)) in
    let d := snd (partial_of fs f (length cut)) in
    exists outs s',
      run_ops inflate c (init_rst b) (repeat OReadMessage (length ms) ++ ONext :: map ORead l) =
        (map out_of ms ++ RNext ty None :: outs, s') /\
      Forall (read_out_ok (fault (src b))) outs /\
      (exists rest, d = flat_map rdata outs ++ rest) /\ outoffuel s' = false.
Proof. exact cut_stream_reader_api. Qed.
Print Assumptions C05_partial_message_reader_never_eof.

(* once NextReader (or any read) has failed, every later call fails the same way: no data, no
   handler call, nothing written, nothing consumed -- for every operation sequence *)
Theorem C05_errors_are_permanent :
  forall inflate c ops s e, rerror s = Some e ->
    exists rs s', run_ops inflate c s ops = (rs, s') /\ frozen s s' /\ Forall is_failure rs.
Proof. exact errors_are_permanent. Qed.
Print Assumptions C05_errors_are_permanent.
(* A stream that ends exactly between two messages is Props/C03 (C03_end_only_at_true_end).
   Compressed messages: the C05_Z_* theorems below (Proofs/CutZ.v). *)

(* ------------------------------------------------------------------------------------------ *)
(* The same for streams that may carry permessage-deflate messages (Proofs/CutZ.v).            *)
(* [frame_accZ] / [seq_accZ] with the reader's [negotiated c] flag: RSV1 may be set when        *)
(* compression was negotiated; a message whose first frame has RSV1 is read through the flate  *)
(* reader ([read_raw] + [inflate] in the model).                                               *)
(* ------------------------------------------------------------------------------------------ *)
Require Import WS.Proofs.ReaderZ1 WS.Proofs.ReaderZ3 WS.Proofs.CutZ.

(* Cut at ANY byte offset (inside a header, inside the payload of the first or of a continuation
   frame, inside an interleaved control frame, or between two fragments: cut = [], o = true), any
   fault, glued to the last bytes or not.  Every complete message is returned ([out_ofZ]: the
   payload, or inflate (payload ++ tail) for a compressed one); then the failing call
   [cut_outZ (ty, compressed, received) e]: RMsg ty received (Some e) for an uncompressed partial
   message, RMsg ty [] (Some e) for a compressed one -- no bytes, [inflate] is not applied to a
   partially received message; e is the mapped transport error, never nil / io.EOF / flate
   error (C05_Z_failing_call_is_error); every later operation fails and delivers nothing. *)
Theorem C05_Z_cut_stream_whole_messages_then_error :
  forall inflate c b fs f cut suf o ops,
    custom_handlers c = false -> binv b -> (125 <= bsize b)%nat ->
    Forall wf_frame fs -> seq_accZ (server c) (negotiated c) false fs = Some o ->
    wf_frame f -> frame_accZ (server c) (negotiated c) o f = true ->
    encode_frame f = cut ++ suf -> suf <> [] ->
    (cut <> [] \/ o = true) -> pending b = encode_frames fs ++ cut ->
    blen (encode_frames fs) + blen (encode_frame f) < 2^63 ->
    let ms := data_msgs (events_of fs) in
    let e := of_berror (BErr (fault (src b))) in
    exists rs s',
      run_ops inflate c (init_rst b) (repeat OReadMessage (S (length ms)) ++ ops) =
        (map (out_ofZ inflate) ms ++ cut_outZ (partial_ofZ fs f (length cut)) e :: rs, s') /\
      Forall is_failure rs /\ rerror s' = Some e /\ outoffuel s' = false /\
      wlog s' = map WPong (pings_of fs).
Proof. exact cut_stream_errors_stickyZ. Qed.
Print Assumptions C05_Z_cut_stream_whole_messages_then_error.

(* the failing call: an error that is not io.EOF and not a flate error; a compressed partial
   message comes back with no bytes at all *)
Theorem C05_Z_failing_call_is_error :
  forall m k, exists ty d,
    cut_outZ m (of_berror (BErr k)) = RMsg ty d (Some (of_berror (BErr k))) /\
    of_berror (BErr k) <> RIoEOF /\ of_berror (BErr k) <> RFlate /\
    (snd (fst m) = true -> d = []).
Proof. exact cut_outZ_is_error. Qed.
Print Assumptions C05_Z_failing_call_is_error.

(* which message is cut: the one the RFC defragmenter has open (type and RSV1 flag of its FIRST
   frame, payload bytes so far + the received payload bytes of the cut frame) ... *)
Theorem C05_Z_partial_open :
  forall fs f n ty cz d, snd (events_from None fs) = Some (ty, cz, d) ->
    partial_ofZ fs f n = (ty, cz, d ++ cut_payload f n).
Proof. exact partial_ofZ_open. Qed.
Print Assumptions C05_Z_partial_open.
(* ... or the message that the cut frame itself starts (header complete) ... *)
Theorem C05_Z_partial_first :
  forall fs f n, snd (events_from None fs) = None -> is_control (opcode f) = false -> (hlen f <= n)%nat ->
    partial_ofZ fs f n = (opcode f, rsv f =? 4, firstn (n - hlen f) (payload f)).
Proof. exact partial_ofZ_first. Qed.
Print Assumptions C05_Z_partial_first.
(* ... or none (cut inside the header of a first frame / inside a control frame between messages) *)
Theorem C05_Z_partial_none :
  forall fs f n, snd (events_from None fs) = None ->
    (is_control (opcode f) = true \/ (n < hlen f)%nat) -> partial_ofZ fs f n = (0, false, []).
Proof. exact partial_ofZ_none. Qed.
Print Assumptions C05_Z_partial_none.

(* sticky, same error: the next n < 999 ReadMessage calls all return exactly that error and no
   bytes (the 1000th failing call panics by design) *)
Theorem C05_Z_later_calls_same_error :
  forall inflate c b fs f cut suf o n,
    custom_handlers c = false -> binv b -> (125 <= bsize b)%nat ->
    Forall wf_frame fs -> seq_accZ (server c) (negotiated c) false fs = Some o ->
    wf_frame f -> frame_accZ (server c) (negotiated c) o f = true ->
    encode_frame f = cut ++ suf -> suf <> [] ->
    (cut <> [] \/ o = true) -> pending b = encode_frames fs ++ cut ->
    blen (encode_frames fs) + blen (encode_frame f) < 2^63 ->
    (n < 999)%nat ->
    let ms := data_msgs (events_of fs) in
    let e := of_berror (BErr (fault (src b))) in
    exists s',
      run_ops inflate c (init_rst b) (repeat OReadMessage (S (length ms)) ++ repeat OReadMessage n) =
        (map (out_ofZ inflate) ms ++ cut_outZ (partial_ofZ fs f (length cut)) e ::
         repeat (RMsg 0 [] (Some e)) n, s') /\
      rerror s' = Some e /\ outoffuel s' = false /\ wlog s' = map WPong (pings_of fs).
Proof. exact cut_stream_same_errorZ. Qed.
Print Assumptions C05_Z_later_calls_same_error.

(* NextReader + Read on the partial message at the messageReader level (for a compressed message
   these are the raw, still deflated bytes the flate reader pulls; the model has no separate
   Read operation on the flate reader): bytes of the message in order with nil or the real
   error, never io.EOF.  C05_reader_eof_only_at_true_end above already holds for every
   configuration, compressed messages included. *)
Theorem C05_Z_partial_message_reader_never_eof :
  forall inflate c b fs f cut suf o l,
    custom_handlers c = false -> binv b -> (125 <= bsize b)%nat ->
    Forall wf_frame fs -> seq_accZ (server c) (negotiated c) false fs = Some o ->
    wf_frame f -> frame_accZ (server c) (negotiated c) o f = true ->
    encode_frame f = cut ++ suf -> suf <> [] ->
    (cut <> [] \/ o = true) -> pending b = encode_frames fs ++ cut ->
    blen (encode_frames fs) + blen (encode_frame f) < 2^63 ->
    msg_started f cut o -> Forall (fun m => (0 < m)%nat) l ->
    let ms := data_msgs (events_of fs) in
    let ty := fst (fst (partial_ofZ fs f (length cut))) in
    let d := snd (partial_ofZ fs f (length cut)) in
    exists outs s',
      run_ops inflate c (init_rst b) (repeat OReadMessage (length ms) ++ ONext :: map ORead l) =
        (map (out_ofZ inflate) ms ++ RNext ty None :: outs, s') /\
      Forall (read_out_ok (fault (src b))) outs /\
      (exists rest, d = flat_map rdata outs ++ rest) /\ outoffuel s' = false.
Proof. exact cut_stream_reader_apiZ. Qed.
Print Assumptions C05_Z_partial_message_reader_never_eof.

(* for EVERY reader state, peer byte stream, transport behaviour and configuration (no
   conformance hypothesis): ReadMessage returns a nil error -- and, for a compressed message,
   hands the collected bytes to [inflate] -- only when the final frame of the message has been
   consumed completely ([outoffuel] is the model's own fuel flag, false in every run covered by
   the theorems above) *)
Theorem C05_Z_readmessage_nil_only_when_complete :
  forall inflate c s ty d s',
    read_message inflate c s = (RMsg ty d None, s') -> outoffuel s' = false ->
    rfin s' = true /\ rem s' = 0.
Proof. exact read_message_nil_only_at_end. Qed.
Print Assumptions C05_Z_readmessage_nil_only_when_complete.

(* the flate reader's pull of the raw bytes of a compressed message ends without error only at
   the true end of the message *)
Theorem C05_Z_raw_pull_complete_only_at_true_end :
  forall fuel c acc s raw s',
    rerror s = None -> read_raw fuel c acc s = (raw, None, s') -> outoffuel s' = false ->
    rfin s' = true /\ rem s' = 0.
Proof. exact read_raw_nil_only_at_end. Qed.
Print Assumptions C05_Z_raw_pull_complete_only_at_true_end.
