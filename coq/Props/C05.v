(* C05 No silent truncation: a transport fault yields whole messages, then an error.
   Only property theorems here; proofs are in Proofs/CutP.v, ReaderP.v, ReaderBasicP.v. *)
Require Import WS.Base.Bytes WS.gen.Consts WS.Spec.Frame WS.Spec.Conformance WS.Model.Bufio WS.Model.Reader.
Require Import WS.Proofs.BufioP WS.Proofs.FrameP WS.Proofs.ReaderP1 WS.Proofs.ReaderP WS.Proofs.ReaderBasicP WS.Proofs.CutP.

(* The stream is a conformant frame sequence fs cut at ANY byte offset inside the next frame f
   (fewer than 2 header bytes, inside the extended length or the mask key, inside the payload of a
   data or continuation frame, anywhere in a control frame) or between two fragments of a message
   (cut = [], message open).  The fault may be EOF, timeout or any error, delivered alone or
   together with the last bytes (all hidden in the arbitrary bufio/transport state b), any
   chunking, any buffer size >= 125.  Then: every message that is complete within the received
   bytes is reported complete and byte-identical, in order; the next read returns a real error
   (never nil, never io.EOF): the partially received message is never reported complete; the
   bytes returned with the error are exactly the received part of that message; no reply is
   queued for a truncated control frame; every later operation fails, delivering nothing. *)
Theorem C05_cut_stream_whole_messages_then_error :
  forall inflate c b fs f cut suf o ops,
    custom_handlers c = false -> binv b -> (125 <= bsize b)%nat ->
    Forall wf_frame fs -> seq_acc (server c) false fs = Some o ->
    wf_frame f -> frame_acc (server c) o f = true -> encode_frame f = cut ++ suf -> suf <> [] ->
    (cut <> [] \/ o = true) -> pending b = encode_frames fs ++ cut ->
    blen (encode_frames fs) + blen (encode_frame f) < 2^63 ->
    let ms := data_msgs (events_of fs) in
    let e := of_berror (BErr (fault (src b))) in
    let ty := fst (partial_of fs f (length cut)) in
    let d := snd (partial_of fs f (length cut)) in
    exists rs s',
      run_ops inflate c (init_rst b) (repeat OReadMessage (S (length ms)) ++ ops) =
        (map out_of ms ++ RMsg ty d (Some e) :: rs, s') /\
      Forall is_failure rs /\ rerror s' = Some e /\ outoffuel s' = false /\
      wlog s' = map WPong (pings_of fs).
Proof. exact cut_stream_errors_sticky. Qed.
Print Assumptions C05_cut_stream_whole_messages_then_error.

(* the error is a real one: the 1006 close error for EOF, the transport's timeout / error otherwise *)
Theorem C05_error_is_not_eof : forall k, of_berror (BErr k) <> RIoEOF /\
  of_berror (BErr k) = match k with EEOF => unexpected_eof | ETimeout => RTimeout | EOther => ROther end.
Proof. exact cut_error_real. Qed.
Print Assumptions C05_error_is_not_eof.

(* io.Reader level, for ANY state, transport, configuration and buffer size: a message reader
   returns io.EOF only when the final frame of its message has been consumed completely (the
   repaired defect: EOF glued to the last bytes of a non-final frame) *)
Theorem C05_reader_eof_only_at_true_end :
  forall fuel c m s d s',
    rerror s = None -> read_loop fuel c m s = (d, Some RIoEOF, s') -> rfin s' = true /\ rem s' = 0.
Proof. exact read_loop_eof_only_at_end. Qed.
Print Assumptions C05_reader_eof_only_at_true_end.

(* NextReader + Read of arbitrary sizes on the partially received message: every Read returns
   bytes of the message (in order) with no error or with the real error; never io.EOF *)
Theorem C05_partial_message_reader_never_eof :
  forall inflate c b fs f cut suf o l,
    custom_handlers c = false -> binv b -> (125 <= bsize b)%nat ->
    Forall wf_frame fs -> seq_acc (server c) false fs = Some o ->
    wf_frame f -> frame_acc (server c) o f = true -> encode_frame f = cut ++ suf -> suf <> [] ->
    (cut <> [] \/ o = true) -> pending b = encode_frames fs ++ cut ->
    blen (encode_frames fs) + blen (encode_frame f) < 2^63 ->
    msg_started f cut o -> Forall (fun m => (0 < m)%nat) l ->
    let ms := data_msgs (events_of fs) in
    let ty := fst (partial_of fs f (length cut)) in
    let d := snd (partial_of fs f (length cut)) in
    exists outs s',
      run_ops inflate c (init_rst b) (repeat OReadMessage (length ms) ++ ONext :: map ORead l) =
        (map out_of ms ++ RNext ty None :: outs, s') /\
      Forall (read_out_ok (fault (src b))) outs /\
      (exists rest, d = flat_map rdata outs ++ rest) /\ outoffuel s' = false.
Proof. exact cut_stream_reader_api. Qed.
Print Assumptions C05_partial_message_reader_never_eof.

(* once NextReader (or any read) has failed, every later call fails the same way: no data, no
   handler call, nothing written, nothing consumed -- for every operation sequence *)
Theorem C05_errors_are_permanent :
  forall inflate c ops s e, rerror s = Some e ->
    exists rs s', run_ops inflate c s ops = (rs, s') /\ frozen s s' /\ Forall is_failure rs.
Proof. exact errors_are_permanent. Qed.
Print Assumptions C05_errors_are_permanent.
(* A stream that ends exactly between two messages is Props/C03 (C03_end_only_at_true_end).
   Compressed messages: decided by the correspondence check only. *)
