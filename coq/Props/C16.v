(* C16 Handshakes clean up on every failure path and leave no deadline on success.
   Only property theorems here; proofs are in Proofs/DialP.v.  The handshake is modelled as the
   LANGUAGE of operation traces on the network connection (Model/Dial.v: cstep / sstep); the
   correspondence check verifies on every run that each observed trace - one per operation index
   and fault kind - is a word of that language; the theorems say every word is clean. *)
Require Import WS.Base.Bytes WS.Model.Dial WS.Proofs.DialP.

(* every accepted client trace: on failure the connection is closed and the Close is the last
   thing that happens to it; on success it is never closed and the last deadline call clears it *)
Theorem C16_client_traces_are_clean :
  forall deadline early_io ok tr,
    client_trace_accepted deadline early_io ok tr = true ->
    if ok then has_close tr = false /\ last_deadline_zero tr None = Some true else ends_with_close tr = true.
Proof. exact client_accepted_is_clean_spelled. Qed.
Print Assumptions C16_client_traces_are_clean.

(* an injected fault at ANY operation index leads to failure and a closed connection -- with one
   exception that is not the library's: a SetDeadline(zero) issued by a proxy dialer (x/net/proxy
   clears the deadline after its own exchange and ignores the error); the library then arms the
   deadline again at once, and the rest of the trace is judged as usual *)
Theorem C16_any_fault_closes :
  forall deadline early_io tr1 tr2 ok,
    client_trace_accepted deadline early_io ok (tr1 ++ HFail :: tr2) = true ->
    (ok = false /\ ends_with_close (tr1 ++ HFail :: tr2) = true) \/
    (crun deadline early_io CStart tr1 = Some CDoneOk /\ exists tr3, tr2 = HSetDL false :: tr3).
Proof. exact client_fault_then_close. Qed.
Print Assumptions C16_any_fault_closes.

(* with a handshake timeout / context deadline, no handshake I/O precedes the arming of the
   deadline - except the library's own TLS handshake on the first hop (early_io), which runs under
   tls.Conn.HandshakeContext with the same deadline (crypto/tls oracle) *)
Theorem C16_deadline_armed_before_io :
  forall deadline early_io ok tr,
    client_trace_accepted deadline early_io ok tr = true -> client_deadline_ok deadline early_io tr = true.
Proof. exact client_accepted_deadline_first. Qed.
Print Assumptions C16_deadline_armed_before_io.

(* server side, after hijack *)
Theorem C16_server_traces_are_clean :
  forall timeout ok tr, server_trace_accepted timeout ok tr = true ->
    if ok then has_close tr = false /\ (if timeout then In (HSetWDL true) tr else In (HSetDL true) tr)
    else ends_with_close tr = true.
Proof. exact server_accepted_is_clean. Qed.
Theorem C16_server_any_fault_closes :
  forall timeout tr1 tr2 ok, server_trace_accepted timeout ok (tr1 ++ HFail :: tr2) = true ->
    ok = false /\ ends_with_close (tr1 ++ HFail :: tr2) = true.
Proof. exact server_fault_then_close. Qed.
Print Assumptions C16_server_traces_are_clean.
(* before hijack the server never touches the connection: Props/C12 (C12_hijacked_only_if_valid) *)
