(* C09 A close frame is the last thing a connection ever writes.
   Only property theorems here; proofs are in Proofs/ConcP.v (all interleavings) and
   Proofs/WriterStateP.v (the sequential write path with every API). *)
Require Import WS.Base.Bytes WS.gen.Consts WS.Model.Conc WS.Proofs.ConcP.

(* ---- every interleaving (Model/Conc.v): threads = the writer goroutine, any number of
   WriteControl callers (incl. the reader's automatic pong / close replies), Conn.Close; a
   schedule is an arbitrary list of (thread, timer-fires) steps, so a writer blocked inside the
   transport for arbitrarily long is a schedule that does not pick it ---- *)

(* once the last part of a close frame is on the transport, no schedule appends a byte *)
Theorem C09_close_is_last_all_schedules :
  forall s0 sched1 sched2, init_ok s0 -> close_done (run sched1 s0) ->
    log (run (sched1 ++ sched2) s0) = log (run sched1 s0).
Proof. exact close_is_last_reachable. Qed.
Print Assumptions C09_close_is_last_all_schedules.

(* every call that starts after the close was marked fails: ErrCloseSent (or the timeout of a
   WriteControl whose deadline passes first), and writes nothing *)
Theorem C09_calls_after_close_fail_all_schedules :
  forall s0 sched1 sched2 t, init_ok s0 ->
    werr (run sched1 s0) = Some ECloseSent -> ph (thr_of (run sched1 s0) t) = PPre ->
    let s := run sched1 s0 in let s' := run (sched1 ++ sched2) s0 in
    log s' = log s /\
    exists done new, todo (thr_of s t) = done ++ todo (thr_of s' t) /\
                     res (thr_of s' t) = new ++ res (thr_of s t) /\
                     Forall2 (result_after ECloseSent) done (rev new).
Proof. exact calls_after_close_fail_reachable. Qed.
Print Assumptions C09_calls_after_close_fail_all_schedules.

(* the lock protocol the above rests on *)
Theorem C09_mutual_exclusion :
  forall s0 sched t1 t2, init_ok s0 ->
    in_cs (ph (thr_of (run sched s0) t1)) = true -> in_cs (ph (thr_of (run sched s0) t2)) = true -> t1 = t2.
Proof. exact mutual_exclusion. Qed.
Print Assumptions C09_mutual_exclusion.

(* tie to the source, regenerated on every run: every transport write sits in write/WriteControl
   after the receive from c.mu, and ErrCloseSent is recorded before the lock is released *)
Theorem C09_source_facts : f_transport_writes_only_under_mu = true /\ f_close_mark_inside_lock = true.
Proof. split; reflexivity. Qed.

Require Import WS.Model.Writer WS.Proofs.WriterStateP.

(* ---- the sequential write path with the full API (Model/Writer.v): every configuration, every
   program (WriteMessage, NextWriter/Write/WriteString/ReadFrom/Close, WriteControl, prepared
   frames, compression), every fault plan ---- *)

(* a successful close by any path sets the sticky ErrCloseSent ... *)
Theorem C09_close_marks_connection :
  forall c s s', werr s = None ->
    (forall dl masked mk b1, conn_write c_CloseMessage dl masked mk b1 s = (None, s') -> werr s' = Some WCloseSent) /\
    (forall d dl, write_control c c_CloseMessage d dl s = (None, s') -> werr s' = Some WCloseSent).
Proof. exact close_sets_werr. Qed.
Theorem C09_close_message_marks_connection :
  forall c s d ic wc cc s',
    wstep c s (WMessage c_CloseMessage d ic wc cc) = (None, s') -> werr s' = Some WCloseSent.
Proof. exact close_message_sets_werr. Qed.
(* ... after which no program puts another byte on the transport ... *)
Theorem C09_nothing_written_after_close :
  forall c ops s, werr s <> None ->
    transport_evs (revs (snd (wrun c s ops))) = transport_evs (revs s).
Proof. exact werr_freezes_transport. Qed.
(* ... and every message-level call fails, with ErrCloseSent when otherwise valid; a writer opened
   before the close fails at its Close at the latest (WClose is among the failing calls) *)
Theorem C09_calls_fail_after_close :
  forall c s o, werr s = Some WCloseSent ->
    match o with
    | WSetDeadline _ | WEnableCompression _ | WSetLevel _ | WWrite _ _ | WWriteString _ _ | WReadFrom _ => True
    | _ => fst (wstep c s o) <> None
    end.
Proof. exact after_close_calls_fail. Qed.
Theorem C09_valid_calls_get_ErrCloseSent :
  forall c s, werr s = Some WCloseSent ->
    (forall ty d dl, is_control_ty ty = true -> blen d <= 125 -> dl <> 1 -> wstep c s (WControl ty d dl) = (Some WCloseSent, s)) /\
    (forall ty d ic wc cc, valid_ty ty = true -> fst (wstep c s (WMessage ty d ic wc cc)) = Some WCloseSent) /\
    (forall ty ic, valid_ty ty = true -> fst (wstep c s (WNext ty ic)) = Some WCloseSent) /\
    (forall ty fr, wstep c s (WPreparedFrame ty fr) = (Some WCloseSent, s)).
Proof. exact after_close_exact. Qed.
Print Assumptions C09_close_marks_connection.
Print Assumptions C09_nothing_written_after_close.
Print Assumptions C09_calls_fail_after_close.
Print Assumptions C09_valid_calls_get_ErrCloseSent.
