(* C17 No bytes are lost or reordered at the handshake boundary (server side).
   Only property theorems here; proofs are in Proofs/BoundaryP.v. *)
Require Import WS.Base.Bytes WS.gen.Consts WS.Spec.Frame WS.Model.Bufio WS.Model.Reader WS.Model.Server.
Require Import WS.Proofs.BufioP WS.Proofs.ReaderP1 WS.Proofs.ReaderP WS.Proofs.BoundaryP.

(* every split of the stream between the hijacked bufio.Reader (any size, any content up to its
   capacity) and the socket (any chunking, any fault), every ReadBufferSize: the reader Upgrade
   hands to the connection sees buffered ++ socket bytes, in order, nothing lost *)
Theorem C17_reader_sees_the_whole_stream :
  forall rb hs buffered sock,
    wf_script sock -> (length buffered <= N.to_nat (N.max hs 16))%nat ->
    let b := upgrade_reader rb hs buffered sock in
    pending b = buffered ++ stream_of sock /\ binv b /\ (125 <= bsize b)%nat /\ fault (src b) = fault sock.
Proof. exact upgrade_reader_stream. Qed.
Print Assumptions C17_reader_sees_the_whole_stream.

(* hence frames glued to the handshake are delivered as ordinary messages, complete, in order *)
Theorem C17_messages_after_handshake_delivered :
  forall inflate c rb hs buffered sock fs extra,
    custom_handlers c = false -> wf_script sock -> (length buffered <= N.to_nat (N.max hs 16))%nat ->
    conformant_frames c fs -> buffered ++ stream_of sock = encode_frames fs ++ extra -> extra <> [] ->
    let ms := data_msgs (events_of fs) in
    exists s',
      run_ops inflate c (init_rst (upgrade_reader rb hs buffered sock)) (repeat OReadMessage (length ms)) = (map out_of ms, s') /\
      outoffuel s' = false /\ rerror s' = None.
Proof. exact boundary_messages_delivered. Qed.
Print Assumptions C17_messages_after_handshake_delivered.
(* Client side (frames in the same segment as the 101 response): http.ReadResponse is an oracle
   ("consumes exactly the header block"); the bytes after it stay in the connection's own
   bufio.Reader, to which C03's theorem applies for any initial buffer content; exercised by the
   correspondence check (every split of 101+frames across transport reads). *)
