(* C20 Pooled write buffers are held only while writing and never touched after release.
   Only property theorems here; proofs are in Proofs/WriterStateP.v. *)
Require Import WS.Base.Bytes WS.gen.Consts WS.Model.Writer WS.Proofs.WriterStateP.

Section Reach.
Variables (c:wcfg) (ks:list bytes) (fa:option (nat * fkind)) (ops:list wop).
Let s' := snd (wrun c (init_wst c ks fa) ops).

(* for every program (valid or not, abandoned writers, implicit closes) and every fault plan:
   Get and Put alternate starting with Get, and the connection holds a buffer exactly when the
   log says so *)
Theorem C20_get_put_alternate : w_pooled c = true -> alternates false (evs s') = Some (held s').
Proof. exact (pool_alternates c ks fa ops). Qed.

(* an open message writer always has its buffer *)
Theorem C20_writer_has_buffer : cur s' <> None -> held s' = true.
Proof. exact (writer_open_holds_buffer c ks fa ops). Qed.

(* a buffer is held only while a message is in progress (without compression: iff).  With
   compression negotiated there is one more way: a flate.Writer that did not end its stream with
   00 00 ff ff (impossible for a correct compressor; recorded as the exception it is) *)
Theorem C20_held_only_while_writing :
  w_pooled c = true -> held s' = true ->
  cur s' <> None \/ (exists f, fl s' = Some f /\ f_open f = false /\ f_tw f <> [0;0;255;255]).
Proof. exact (pool_held_only_while_writing c ks fa ops). Qed.
Theorem C20_held_iff_writing_without_compression :
  w_pooled c = true -> w_negotiated c = false -> (held s' = true <-> cur s' <> None).
Proof. exact (pool_held_iff_writing_nocomp c ks fa ops). Qed.

(* without a pool nothing is ever taken or returned *)
Theorem C20_no_pool_no_events : w_pooled c = false -> held s' = true /\ pool_evs (revs s') = [].
Proof. exact (unpooled_no_pool_events c ks fa ops). Qed.
End Reach.
Print Assumptions C20_get_put_alternate.
Print Assumptions C20_held_only_while_writing.
Print Assumptions C20_held_iff_writing_without_compression.
(* "returns exactly that buffer" and "never touches it after returning it": the model has one
   buffer per connection by construction; these two clauses are decided on the implementation by
   the instrumented, poisoning pool of the correspondence check (partial). *)

(* ---------------------------------------------------------------------------------------- *)
(* Bytes reach the transport only while the connection holds the buffer they are in (clause 86
   of the correspondence check, Cases/C20.v [data_writes_held]).  Proofs: Proofs/PoolWritesP.v. *)
Require Import WS.Model.Prepared WS.Cases.WriterCase WS.Proofs.PoolWritesP.
Require WS.Cases.C20.

(* [is_msg_op o]: every op except WriteControl (which writes from its own buffer) and the frame
   of a prepared message (which writes the PreparedMessage's bytes).
   [cops_wf ops]: the program does not contain the bare [COp (WPreparedFrame ..)], the internal
   second half of [CPrepared] (the case format has no tag for it; forced, see
   [PoolWritesP.raw_prepared_frame_fails]).
   [appended s s2]: the events logged between s and s2, in program order. *)
Section ReachC.
Variables (c:wcfg) (ks:list bytes) (fa:option (nat * fkind)) (ops:list cop).
Hypothesis Hwf : cops_wf ops = true.
(* any state reachable by a program of the case format: message writers (valid or not,
   abandoned, implicitly closed, compressed with arbitrary flate oracles), WriteControl,
   WritePreparedMessage, any key oracle and fault plan *)
Let s' := fst (snd (crun c (init_wst c ks fa, []) ops)).

(* one op of the message-writer path: the executable Spec walker accepts the events it appends,
   and ends with the ownership the model records *)
Theorem C20_step_writes_while_held : forall o e s2,
  is_msg_op o = true -> wstep c s' o = (e, s2) ->
  evs s2 = evs s' ++ appended s' s2 /\
  WS.Cases.C20.writes_while_held (held s') (appended s' s2) = (true, held s2) /\
  WS.Cases.C20.held_after (held s') (appended s' s2) = held s2.
Proof. exact (crun_step_writes_while_held c ks fa ops Hwf). Qed.

(* the same, read off the whole log: every transport write the op appends is preceded by an
   unmatched Get (a Get with no pool event after it) *)
Theorem C20_step_writes_after_get : forall o e s2,
  w_pooled c = true -> is_msg_op o = true -> wstep c s' o = (e, s2) ->
  forall pre x post, evs s2 = pre ++ x :: post -> (length (evs s') <= length pre)%nat -> is_wr x = true ->
    exists a b, pre = a ++ TGet :: b /\ pool_evs b = [].
Proof. exact (crun_step_writes_after_get c ks fa ops Hwf). Qed.

(* a prepared send: the implicit close it performs obeys the rule and accounts for every pool
   event of the step; the send itself only adds transport events (and is exempt) *)
Theorem C20_prepared_close_writes_while_held : forall ca p e s2 ca2,
  cstep c (s', ca) (CPrepared p) = (e, (s2, ca2)) ->
  let s1 := close_current c (ps_ic p) s' in
  (cur s' = None -> s1 = s') /\
  exists own, appended s' s2 = appended s' s1 ++ own /\ tr_only own = true /\
    WS.Cases.C20.writes_while_held (held s') (appended s' s1) = (true, held s2) /\
    WS.Cases.C20.held_after (held s') (appended s' s2) = held s2.
Proof. exact (crun_prepared_writes_while_held c ks fa ops Hwf). Qed.
End ReachC.

(* whole programs: exactly what the correspondence check evaluates (the ops paired with the
   cumulative event counts, walked over the final log), on the model's own run *)
Theorem C20_data_writes_held : forall c ks fa ops, w_pooled c = true -> cops_wf ops = true ->
  let r := crun c (init_wst c ks fa, []) ops in
  WS.Cases.C20.data_writes_held false 0 (combine ops (map snd (fst r))) (evs (fst (snd r))) = true.
Proof. exact crun_data_writes_held. Qed.

(* pooled or not (without a pool the connection owns its buffer from the start) *)
Theorem C20_data_writes_held_gen : forall c ks fa ops, cops_wf ops = true ->
  let r := crun c (init_wst c ks fa, []) ops in
  WS.Cases.C20.data_writes_held (negb (w_pooled c)) 0 (combine ops (map snd (fst r))) (evs (fst (snd r))) = true.
Proof. exact crun_data_writes_held_gen. Qed.

Theorem C20_model_passes_clause_86 : forall k:wcase,
  w_pooled (wk_cfg k) = true -> cops_wf (wk_ops k) = true ->
  WS.Cases.C20.data_writes_held false 0 (combine (wk_ops k) (map snd (fst (run_wmodel k))))
    (evs (snd (run_wmodel k))) = true.
Proof. exact run_wmodel_data_writes_held. Qed.

(* plain write programs ([wrun]); [wcounts] = the cumulative event counts *)
Theorem C20_data_writes_held_wrun : forall c ks fa ops, w_pooled c = true -> no_prepared_frame ops = true ->
  WS.Cases.C20.data_writes_held false 0 (combine (map COp ops) (wcounts c (init_wst c ks fa) ops))
    (evs (snd (wrun c (init_wst c ks fa) ops))) = true.
Proof. exact wrun_data_writes_held. Qed.

(* a program of message-writer ops only: the whole log keeps every transport write inside a
   Get..Put bracket ([wh_run]: [None] at the first write outside one) *)
Theorem C20_all_writes_inside : forall c ks fa ops, forallb is_msg_op ops = true ->
  wh_run (negb (w_pooled c)) (evs (snd (wrun c (init_wst c ks fa) ops))) = Some (held (snd (wrun c (init_wst c ks fa) ops))).
Proof. exact wrun_all_writes_inside. Qed.

(* [wh_run], the boolean [writes_inside_b] and the declarative [writes_inside] say the same *)
Theorem C20_writes_inside_forms : forall h es,
  (writes_inside_b h es = fst (WS.Cases.C20.writes_while_held h es)) /\
  (writes_inside_b h es = true <-> writes_inside h es) /\
  (writes_inside h es <-> wh_run h es <> None).
Proof. intros h es. exact (conj (writes_inside_b_walker h es) (conj (writes_inside_b_iff h es) (writes_inside_iff es h))). Qed.

(* a pooled server connection with a 4-byte buffer: a message written in two fragments, a ping
   interleaved between them (written while the buffer is held by the open writer: allowed, and
   exempt anyway), a short write on the second fragment; the buffer goes back after the failure *)
Example C20_pooled_fragmented_fault :
  let r := crun pw_cfg (init_wst pw_cfg [] (Some (5%nat, FShort 3)), []) pw_ops in
  pw_ops = [COp (WNext 2 []); COp (WWrite [1;2;3;4;5;6] []); COp (WControl 9 [9] 0);
            COp (WWrite [7;8;9;10;11] []); COp (WClose []); COp (WMessage 1 [7] [] [] [])] /\
  map fst (fst r) = [None; None; None; Some (WTransport false); Some (WTransport false); Some (WTransport false)] /\
  map snd (fst r) = [1; 3; 5; 8; 8; 8] /\
  evs (fst (snd r)) =
    [TGet; TSetDL 0; TWrite [2;4;1;2;3;4]; TSetDL 0; TWrite [137;1;9];
     TSetDL 0; TWriteFail [0;4;5]; TPut] /\
  held (fst (snd r)) = false /\
  WS.Cases.C20.data_writes_held false 0 (combine pw_ops (map snd (fst r))) (evs (fst (snd r))) = true.
Proof. vm_compute. repeat split. Qed.

Print Assumptions C20_step_writes_while_held.
Print Assumptions C20_step_writes_after_get.
Print Assumptions C20_prepared_close_writes_while_held.
Print Assumptions C20_data_writes_held.
Print Assumptions C20_data_writes_held_gen.
Print Assumptions C20_model_passes_clause_86.
Print Assumptions C20_data_writes_held_wrun.
Print Assumptions C20_all_writes_inside.
Print Assumptions C20_writes_inside_forms.
Print Assumptions C20_pooled_fragmented_fault.
