(* C20 Pooled write buffers are held only while writing and never touched after release.
   Only property theorems here; proofs are in Proofs/WriterStateP.v. *)
Require Import WS.Base.Bytes WS.gen.Consts WS.Model.Writer WS.Proofs.WriterStateP.

Section Reach.
Variables (c:wcfg) (ks:list bytes) (fa:option (nat * fkind)) (ops:list wop).
Let s' := snd (wrun c (init_wst c ks fa) ops).

(* for every program (valid or not, abandoned writers, implicit closes) and every fault plan:
   Get and Put alternate starting with Get, and the connection holds a buffer exactly when the
   log says so *)
Theorem C20_get_put_alternate : w_pooled c = true -> alternates false (evs s') = Some (held s').
Proof. exact (pool_alternates c ks fa ops). Qed.

(* an open message writer always has its buffer *)
Theorem C20_writer_has_buffer : cur s' <> None -> held s' = true.
Proof. exact (writer_open_holds_buffer c ks fa ops). Qed.

(* a buffer is held only while a message is in progress (without compression: iff).  With
   compression negotiated there is one more way: a flate.Writer that did not end its stream with
   00 00 ff ff (impossible for a correct compressor; recorded as the exception it is) *)
Theorem C20_held_only_while_writing :
  w_pooled c = true -> held s' = true ->
  cur s' <> None \/ (exists f, fl s' = Some f /\ f_open f = false /\ f_tw f <> [0;0;255;255]).
Proof. exact (pool_held_only_while_writing c ks fa ops). Qed.
Theorem C20_held_iff_writing_without_compression :
  w_pooled c = true -> w_negotiated c = false -> (held s' = true <-> cur s' <> None).
Proof. exact (pool_held_iff_writing_nocomp c ks fa ops). Qed.

(* without a pool nothing is ever taken or returned *)
Theorem C20_no_pool_no_events : w_pooled c = false -> held s' = true /\ pool_evs (revs s') = [].
Proof. exact (unpooled_no_pool_events c ks fa ops). Qed.
End Reach.
Print Assumptions C20_get_put_alternate.
Print Assumptions C20_held_only_while_writing.
Print Assumptions C20_held_iff_writing_without_compression.
(* "returns exactly that buffer" and "never touches it after returning it": the model has one
   buffer per connection by construction; these two clauses are decided on the implementation by
   the instrumented, poisoning pool of the correspondence check (partial). *)
