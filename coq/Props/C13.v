(* C13 Default origin policy admits same-origin requests only.
   This file contains only the property theorems; proofs live in Proofs/FoldP.v. *)
Require Import WS.Base.Bytes WS.Model.Fold WS.Proofs.FoldP WS.Cases.C13.

(* With CheckOrigin = nil the origin stage passes iff there is no Origin header or the
   first Origin value parses (url.Parse, an oracle) to a host that equals the request Host
   byte for byte after ASCII lowering. *)
Theorem C13_origin_policy :
  forall (url_host_of : bytes -> option bytes) (origins : list bytes) (host : bytes),
    check_same_origin url_host_of origins host = true <->
    origins = [] \/
    exists o rest h, origins = o :: rest /\ url_host_of o = Some h /\ lower h = lower host.
Proof. exact check_same_origin_spec. Qed.
Print Assumptions C13_origin_policy.

(* look-alikes: a differing byte that is not an ASCII letter on both sides (extra label,
   port digit, U+212A / U+017F bytes, invalid UTF-8 ...) is never folded away *)
Theorem C13_no_lookalike :
  forall h host i a b,
    nth_error h i = Some a -> nth_error host i = Some b -> a <> b ->
    ~ (65 <= a <= 90 \/ 97 <= a <= 122) \/ ~ (65 <= b <= 90 \/ 97 <= b <= 122) ->
    equal_ascii_fold h host = false.
Proof. exact fold_differs_nonletter. Qed.
Print Assumptions C13_no_lookalike.

Theorem C13_length_must_match :
  forall h host, length h <> length host -> equal_ascii_fold h host = false.
Proof. exact fold_differs_length. Qed.
Print Assumptions C13_length_must_match.

(* the judge's Spec predicate is the theorem's right-hand side *)
Theorem C13_judge_spec_is_policy :
  forall c, same_origin_spec c = check_same_origin (fun _ => url_host c) (origins c) (host c).
Proof.
  intros c. unfold same_origin_spec, check_same_origin. destruct (origins c); [reflexivity|].
  destruct (url_host c) as [h|]; [|reflexivity].
  destruct (equal_ascii_fold h (host c)) eqn:E.
  - apply equal_ascii_fold_spec in E. rewrite E. apply beq_refl.
  - destruct (beq (lower h) (lower (host c))) eqn:E2; [|reflexivity].
    apply beq_eq in E2. apply equal_ascii_fold_spec in E2. congruence.
Qed.
Print Assumptions C13_judge_spec_is_policy.

(* non-vacuity: a same-origin pair differing in case is accepted, the U+212A (e2 84 aa)
   look-alike of "k" and an invalid-UTF-8 pair are refused *)
Example C13_ex_accept : equal_ascii_fold [69;120;46;99;111;109] [101;88;46;67;79;77] = true.
Proof. reflexivity. Qed.
Example C13_ex_kelvin : equal_ascii_fold [226;132;170] [107] = false.
Proof. reflexivity. Qed.
Example C13_ex_invalid_utf8 : equal_ascii_fold [101;255;120] [101;254;120] = false.
Proof. reflexivity. Qed.
