(* C14 Client handshake: connect iff the reply proves the server accepted this request.
   Only property theorems here; proofs are in Proofs/ClientP.v. *)
Require Import WS.Base.Bytes WS.gen.Consts WS.Spec.Handshake WS.Model.Util WS.Model.Server WS.Model.Client.
Require Import WS.Proofs.TokenP WS.Proofs.ServerP WS.Proofs.ClientP.
Import Lits.

(* exact: the reply passes (a connection, or errInvalidCompression) iff 101 + Upgrade token +
   Connection token + Accept = digest of the key of THIS request; otherwise ErrBadHandshake *)
Theorem C14_reply_iff :
  forall key p,
    passes (validate_reply key p) <->
    p_status p = 101 /\ token_list_contains_value (p_upgrade p) str_websocket = true /\
    token_list_contains_value (p_connection p) str_upgrade = true /\
    first_line (p_accept p) = compute_accept_key key.
Proof. exact validate_reply_iff. Qed.
Print Assumptions C14_reply_iff.

(* RFC-level Spec: soundness for every reply, completeness for token lists inside the grammar *)
Theorem C14_connected_only_if_reply_proves_acceptance :
  forall key p, passes (validate_reply key p) ->
    p_status p = 101 /\ has_token (p_upgrade p) lit_websocket = true /\
    has_token (p_connection p) lit_upgrade = true /\ first_line (p_accept p) = accept_digest key.
Proof. exact dial_sound. Qed.
Theorem C14_proving_reply_is_accepted :
  forall key p, forallb line_wf (p_upgrade p) = true -> forallb line_wf (p_connection p) = true ->
    p_status p = 101 -> has_token (p_upgrade p) lit_websocket = true ->
    has_token (p_connection p) lit_upgrade = true -> first_line (p_accept p) = accept_digest key ->
    passes (validate_reply key p).
Proof. exact dial_complete. Qed.
(* an Accept computed for any other key (stale, or arbitrary) passes only if the digests coincide *)
Theorem C14_accept_for_another_key :
  forall key key' p, first_line (p_accept p) = accept_digest key' -> passes (validate_reply key p) ->
    accept_digest key' = accept_digest key.
Proof. intros key key' p. exact (accept_of_other_key key key' p). Qed.
(* ErrBadHandshake keeps at most 1024 body bytes *)
Theorem C14_bad_handshake_body_bound :
  forall key p n, validate_reply key p = VBadHandshake n ->
    n <= 1024 /\ n <= p_body_len p /\ n = N.min 1024 (p_body_len p).
Proof. exact bad_handshake_body. Qed.
Print Assumptions C14_connected_only_if_reply_proves_acceptance.
Print Assumptions C14_proving_reply_is_accepted.

(* refused before any network activity *)
Theorem C14_non_ws_scheme_refused : forall d hu host key caller, prepare d SOther hu host key caller = PMalformed.
Proof. exact prepare_other_scheme. Qed.
Theorem C14_userinfo_refused : forall d sch host key caller, prepare d sch true host key caller = PMalformed.
Proof. exact prepare_userinfo. Qed.

(* protocol-owned headers are not overridable, for EVERY caller header map (any spelling):
   in the request that is sent, looked at through canonical names, they carry the library's
   values exactly once *)
Theorem C14_protocol_headers_not_overridable :
  forall d sch has_user host key caller h hdr,
    prepare d sch has_user host key caller = PRequest h hdr ->
    entries k_upgrade hdr = [(k_upgrade, [str_websocket])] /\
    entries k_connection hdr = [(k_connection, [v_upgrade_cap])] /\
    entries k_key hdr = [(w_key, [key])] /\
    entries k_version hdr = [(w_version, [str_13])] /\
    entries k_extensions hdr = (if d_compression d then [(w_extensions, [offer])] else []) /\
    (d_subprotocols d <> [] -> entries k_protocol hdr = [(w_protocol, [join_comma (d_subprotocols d)])]).
Proof. exact prepare_owned. Qed.
Print Assumptions C14_protocol_headers_not_overridable.
(* a caller map containing such a name (in any spelling) is refused *)
Theorem C14_duplicate_refused :
  forall d sch host key caller, sch <> SOther ->
    (exists p, In p caller /\ forbidden d (canonical_key (fst p)) = true) ->
    exists k, prepare d sch false host key caller = PDuplicate k /\ In k (map fst caller) /\
              forbidden d (canonical_key k) = true.
Proof. exact prepare_duplicate. Qed.
(* key freshness: which source the key comes from is read off the source on every run *)
Theorem C14_key_from_crypto_rand : f_challenge_key_from_crypto_rand = true.
Proof. reflexivity. Qed.
(* PARTIAL: request target (path and query) and Host serialisation are net/http's (oracle),
   checked by the correspondence with the harness's own request parser. *)
