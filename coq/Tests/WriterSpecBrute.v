(* Exhaustive check of the abstract writer (Spec/WriterSpec.v) against the writer model on all
   programs of length <= 3 over an alphabet that exercises the corner cases of control-type
   writers (overflowing Write, payload > 125 left to the implicit close, close-type writer left
   to the implicit close, invalid types, the server's direct path), both roles, a small and a
   large write buffer.  Checked per program: the Spec decoder's events of the wire = a_out of
   the abstract run; a_dead = (c.writeErr != nil); while not dead, a message is open on the
   abstract side iff a message writer is current in the model.  (The general statement is
   Proofs/WriterEventsP.v; this file is the search that was used to validate the amended spec
   before proving it, kept as a regression test.) *)
Require Import WS.Base.Bytes WS.gen.Consts WS.Spec.Frame WS.Spec.WriterSpec WS.Model.Writer WS.Cases.WriterCase.

Definition bkeys := repeat [1;2;3;4] 400.
Definition bcfg (sv:bool) (n:N) : wcfg := {| w_server := sv; w_bufsize := n; w_pooled := false; w_negotiated := false |}.
Definition isS {A} (o:option A) := match o with Some _ => true | None => false end.
Definition agree (c:wcfg) (ops:list wop) : bool :=
  let r := wrun c (init_wst c bkeys None) ops in
  let prog := combine (map (fun o => aop_of (COp o)) ops) (map e_werr (fst r)) in
  let A := arun false ast0 prog in
  let '(fs, t) := parse_frames (wire_of (evs (snd r))) in
  match t with
  | TEnd =>
    match wire_events (map fst fs) with
    | Some ev => sents_eqb ev (a_out A) && Bool.eqb (a_dead A) (isS (werr (snd r)))
                 && (if a_dead A then true else Bool.eqb (isS (a_open A)) (isS (cur (snd r))))
                 && negb (oracle_short (snd r))
    | None => false
    end
  | _ => false
  end.
Fixpoint progs (alpha:list wop) (n:nat) : list (list wop) :=
  match n with O => [[]] | S k => flat_map (fun p => map (fun o => o :: p) alpha) (progs alpha k) end.
Definition alpha : list wop :=
  [WNext 1 []; WNext 9 []; WNext 8 []; WNext 3 []; WWrite [1;2] []; WWrite (repeat 7 126) []; WWriteString [1;2;3;4] [];
   WClose []; WMessage 1 [5] [] [] []; WMessage 8 [3;232] [] [] []; WMessage 9 (repeat 1 126) [] [] [];
   WControl 9 [9] 0; WControl 8 [] 0; WReadFrom [[6];[7;8]]].
Definition all_agree (c:wcfg) (n:nat) : bool := forallb (agree c) (progs alpha n).

Example abstract_writer_agrees_on_small_programs :
  all_agree (bcfg false 17) 3 = true /\ all_agree (bcfg true 17) 3 = true /\
  all_agree (bcfg false 214) 3 = true /\ all_agree (bcfg true 214) 3 = true.
Proof. repeat split; vm_compute; reflexivity. Qed.

(* Why [flush] marks the abstract writer dead when it sends a close message, whatever the result
   code of the call: the variant below reads it off the result code ([closes t], as the explicit
   operations do).  The NextWriter whose implicit close sent the close frame itself reports
   errCloseSent, so the variant ends with a close message in its output and [a_dead = false],
   [a_open = None]: the premises "no close message was sent, nothing left open" of
   RoundTripP.round_trip_end_to_end would hold for a wire that carries a close frame. *)
Definition astep_lit (negotiated:bool) (s:ast) (o:aop) (res:N) : ast :=
  let ok := res =? 0 in
  let s := if (res =? 6) || (res =? 7) then {| a_open := a_open s; a_comp := a_comp s; a_out := a_out s; a_dead := true |} else s in
  let closes (ty:N) (s:ast) : ast :=
    if ok && (ty =? 8) then {| a_open := a_open s; a_comp := a_comp s; a_out := a_out s; a_dead := true |} else s in
  let flush (s:ast) : ast :=
    match a_open s with
    | Some (t, c, d) =>
        if a_dead s then {| a_open := None; a_comp := a_comp s; a_out := a_out s; a_dead := true |}
        else if (8 <=? t) && (125 <? blen d) then {| a_open := None; a_comp := a_comp s; a_out := a_out s; a_dead := a_dead s |}
        else closes t {| a_open := None; a_comp := a_comp s;
                         a_out := a_out s ++ [{| s_ty := t; s_comp := c; s_data := d; s_complete := true |}]; a_dead := a_dead s |}
    | None => s
    end in
  match o with
  | ANext ty =>
      let s := flush s in
      if ok then {| a_open := Some (ty, negotiated && a_comp s && is_data ty, []); a_comp := a_comp s; a_out := a_out s; a_dead := a_dead s |} else s
  | _ => astep negotiated s o res
  end.
Fixpoint arun_lit (negotiated:bool) (s:ast) (ops:list (aop * N)) : ast :=
  match ops with [] => s | (o, res) :: r => arun_lit negotiated (astep_lit negotiated s o res) r end.

Example flush_must_mark_dead :
  let c := bcfg false 139 in
  let ops := [WNext 8 []; WNext 1 []] in
  let r := wrun c (init_wst c bkeys None) ops in
  let prog := combine (map (fun o => aop_of (COp o)) ops) (map e_werr (fst r)) in
  let fs := map fst (fst (parse_frames (wire_of (evs (snd r))))) in
  map e_werr (fst r) = [0; 1] /\ map opcode fs = [8] /\ werr (snd r) = Some WCloseSent /\
  a_out (arun_lit false ast0 prog) = [{| s_ty := 8; s_comp := false; s_data := []; s_complete := true |}] /\
  a_dead (arun_lit false ast0 prog) = false /\ a_open (arun_lit false ast0 prog) = None /\
  a_out (arun false ast0 prog) = a_out (arun_lit false ast0 prog) /\
  a_dead (arun false ast0 prog) = true.
Proof. cbv zeta. repeat split; vm_compute; reflexivity. Qed.
