(* Case tapes: the harness hands every case to the model as a list of numbers;
   this is the (executable) decoder/encoder library for them. *)
Require Import WS.Base.Bytes.

Definition tape := list N.
Definition P (A:Type) := tape -> option (A * tape).

Definition ret {A} (a:A) : P A := fun t => Some (a, t).
Definition bind {A B} (p:P A) (f:A -> P B) : P B :=
  fun t => match p t with None => None | Some (a, t') => f a t' end.
Definition pfail {A} : P A := fun _ => None.

Declare Scope tape_scope.
Delimit Scope tape_scope with tape.
Notation "x <- p ;; q" := (bind p (fun x => q)) (at level 61, p at next level, right associativity) : tape_scope.
Notation "' pat <- p ;; q" := (bind p (fun x => match x with pat => q end))
  (at level 61, pat pattern, p at next level, right associativity) : tape_scope.
Open Scope tape_scope.

Definition pN : P N := fun t => match t with x :: r => Some (x, r) | [] => None end.
Definition pBool : P bool := x <- pN ;; ret (negb (x =? 0)).
Definition pNat : P nat := x <- pN ;; ret (N.to_nat x).
Definition pBytes : P bytes :=
  fun t => match t with
           | n :: r => match take (N.to_nat n) r with Some (a, b) => Some (a, b) | None => None end
           | [] => None
           end.
Fixpoint pRep {A} (k:nat) (p:P A) : P (list A) :=
  match k with O => ret [] | S k' => x <- p ;; xs <- pRep k' p ;; ret (x :: xs) end.
Definition pList {A} (p:P A) : P (list A) := n <- pNat ;; pRep n p.
Definition pOpt {A} (p:P A) : P (option A) :=
  b <- pBool ;; if b then (x <- p ;; ret (Some x)) else ret None.
Definition pPair {A B} (p:P A) (q:P B) : P (A*B) := a <- p ;; b <- q ;; ret (a, b).
(* signed integer as (sign, magnitude) *)
Definition pZ : P Z := s <- pN ;; m <- pN ;; ret (if s =? 0 then Z.of_N m else (- Z.of_N m)%Z).

Definition eN (x:N) : tape := [x].
Definition eBool (b:bool) : tape := [if b then 1 else 0].
Definition eBytes (b:bytes) : tape := blen b :: b.
Definition eList {A} (f:A -> tape) (l:list A) : tape := N.of_nat (length l) :: flat_map f l.
Definition eOpt {A} (f:A -> tape) (o:option A) : tape :=
  match o with Some x => 1 :: f x | None => [0] end.

(* verdicts returned to the driver *)
Definition v_agree : tape := [0].
Definition v_mismatch (model_obs:tape) : tape := 1 :: model_obs.
Definition v_specfail (clause:N) (detail:tape) : tape := 2 :: clause :: detail.
Definition v_badtape : tape := [3].

(* generic judge: decode input, remaining tape is the implementation's observation *)
Definition judge_with {C} (p:P C) (spec:C -> tape -> option (N * tape)) (model:C -> tape) (t:tape) : tape :=
  match p t with
  | None => v_badtape
  | Some (c, obs) =>
      match spec c obs with
      | Some (cl, d) => v_specfail cl d
      | None => let m := model c in if beq m obs then v_agree else v_mismatch m
      end
  end.
