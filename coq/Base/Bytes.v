(* Byte strings, big-endian integers, masking.  Used by Spec and Model alike. *)
From Coq Require Export List NArith ZArith Lia Bool.
From Coq Require Export ZifyN ZifyNat ZifyBool.
Export ListNotations.
Open Scope N_scope.
Ltac Zify.zify_post_hook ::= Z.div_mod_to_equations.

Definition bytes := list N.

Definition is_byte (b:N) : Prop := b < 256.
Definition bytes_ok (l:bytes) : Prop := Forall is_byte l.
Definition bytes_okb (l:bytes) : bool := forallb (fun b => b <? 256) l.

Definition blen (l:bytes) : N := N.of_nat (length l).

Fixpoint beq (a b:bytes) : bool :=
  match a, b with
  | [], [] => true
  | x::a', y::b' => (x =? y) && beq a' b'
  | _, _ => false
  end.

Lemma beq_eq a b : beq a b = true <-> a = b.
Proof.
  revert b; induction a as [|x a IH]; intros [|y b]; simpl; split; intros H; try easy.
  - apply andb_true_iff in H as [H1 H2]. apply N.eqb_eq in H1. apply IH in H2. congruence.
  - inversion H; subst. rewrite N.eqb_refl. simpl. apply IH. reflexivity.
Qed.

Lemma beq_refl a : beq a a = true.
Proof. apply beq_eq. reflexivity. Qed.

(* ---------- big-endian ---------- *)
Fixpoint be_enc (k:nat) (n:N) : bytes :=
  match k with O => [] | S k' => be_enc k' (n / 256) ++ [n mod 256] end.
Fixpoint be_dec_acc (acc:N) (l:bytes) : N :=
  match l with [] => acc | b::r => be_dec_acc (acc*256+b) r end.
Definition be_dec := be_dec_acc 0.

Lemma be_dec_acc_app a l1 l2 : be_dec_acc a (l1++l2) = be_dec_acc (be_dec_acc a l1) l2.
Proof. revert a; induction l1; simpl; intros; auto. Qed.
Lemma be_enc_length k n : length (be_enc k n) = k.
Proof. revert n; induction k; intros; cbn [be_enc]; [reflexivity|]. rewrite app_length, IHk. simpl. lia. Qed.
Lemma be_roundtrip k n : n < 256 ^ N.of_nat k -> be_dec (be_enc k n) = n.
Proof.
  unfold be_dec. revert n; induction k as [|k IH]; intros n H.
  - simpl in *. lia.
  - cbn [be_enc]. rewrite be_dec_acc_app. rewrite IH.
    + cbn [be_dec_acc]. pose proof (N.div_mod n 256). lia.
    + rewrite Nat2N.inj_succ, N.pow_succ_r' in H. apply N.div_lt_upper_bound; lia.
Qed.
Lemma be_enc_bytes_ok k n : bytes_ok (be_enc k n).
Proof.
  revert n; induction k as [|k IH]; intros n; cbn [be_enc]; [constructor|].
  apply Forall_app; split; [apply IH|]. constructor; [|constructor]. unfold is_byte.
  apply N.mod_lt. lia.
Qed.

(* ---------- masking (RFC 6455 5.3): byte i is xored with key[(pos+i) mod 4] ---------- *)
Definition key_at (key:bytes) (pos:N) : N := nth (N.to_nat (pos mod 4)) key 0.

Fixpoint maskl (key:bytes) (pos:N) (l:bytes) : bytes :=
  match l with [] => [] | b::r => N.lxor b (key_at key pos) :: maskl key (pos+1) r end.

Lemma mask_inv key p l : maskl key p (maskl key p l) = l.
Proof. revert p; induction l as [|b r IH]; intros p; cbn [maskl]; [easy|].
  rewrite IH. f_equal. rewrite N.lxor_assoc, N.lxor_nilpotent, N.lxor_0_r. easy. Qed.
Lemma maskl_length key p l : length (maskl key p l) = length l.
Proof. revert p; induction l; intros; cbn [maskl length]; auto. Qed.
Lemma maskl_app key p l1 l2 :
  maskl key p (l1 ++ l2) = maskl key p l1 ++ maskl key (p + blen l1) l2.
Proof.
  revert p; induction l1 as [|b r IH]; intros p; cbn [maskl app].
  - unfold blen; simpl. rewrite N.add_0_r. reflexivity.
  - rewrite IH. f_equal. f_equal. f_equal. unfold blen. cbn [length].
    rewrite Nat2N.inj_succ. lia.
Qed.
Lemma key_at_mod4 key p q : p mod 4 = q mod 4 -> key_at key p = key_at key q.
Proof. unfold key_at. intros ->. reflexivity. Qed.
Lemma maskl_pos_mod4 key p q l : p mod 4 = q mod 4 -> maskl key p l = maskl key q l.
Proof.
  revert p q; induction l as [|b r IH]; intros p q H; cbn [maskl]; [reflexivity|].
  rewrite (key_at_mod4 key p q H). f_equal. apply IH.
  rewrite <- (N.add_mod_idemp_l p 1), <- (N.add_mod_idemp_l q 1) by lia. rewrite H. reflexivity.
Qed.
Lemma maskl_zero_key p l : maskl [0;0;0;0] p l = l.
Proof.
  revert p; induction l as [|b r IH]; intros p; cbn [maskl]; [reflexivity|].
  rewrite IH. f_equal. unfold key_at.
  assert (H: p mod 4 < 4) by (apply N.mod_lt; lia).
  destruct (p mod 4) as [|[[|[]|]|[|[]|]|]] eqn:E; try lia; cbn; apply N.lxor_0_r.
Qed.

Lemma lxor_byte a b : a < 256 -> b < 256 -> N.lxor a b < 256.
Proof.
  intros Ha Hb.
  destruct (N.eq_dec (N.lxor a b) 0) as [->|Hne]; [lia|].
  change 256 with (2^8). apply N.log2_lt_pow2; [lia|].
  eapply N.le_lt_trans; [apply N.log2_lxor|].
  apply N.max_lub_lt.
  - destruct (N.eq_dec a 0) as [->|]; [cbn; lia|]. apply N.log2_lt_pow2; [lia|exact Ha].
  - destruct (N.eq_dec b 0) as [->|]; [cbn; lia|]. apply N.log2_lt_pow2; [lia|exact Hb].
Qed.

Lemma key_at_byte key p : bytes_ok key -> key_at key p < 256.
Proof.
  intros H. unfold key_at.
  destruct (nth_in_or_default (N.to_nat (p mod 4)) key 0) as [Hin| ->]; [|lia].
  unfold bytes_ok in H. rewrite Forall_forall in H. apply H. exact Hin.
Qed.

Lemma maskl_bytes_ok key p l : bytes_ok key -> bytes_ok l -> bytes_ok (maskl key p l).
Proof.
  intros Hk. revert p; induction l as [|b r IH]; intros p Hl; cbn [maskl]; [constructor|].
  inversion Hl; subst. constructor; [|apply IH; assumption].
  apply lxor_byte; [assumption|apply key_at_byte; assumption].
Qed.

(* firstn/skipn helpers keyed on N lengths *)
Definition takeN (n:N) (l:bytes) : bytes := firstn (N.to_nat n) l.
Definition dropN (n:N) (l:bytes) : bytes := skipn (N.to_nat n) l.

(* take n l = Some (first n elements, rest), None when l is shorter; cost O(n), never
   looks at the rest of the list *)
Fixpoint take (n:nat) (l:bytes) : option (bytes * bytes) :=
  match n with
  | O => Some ([], l)
  | S k => match l with
           | [] => None
           | x :: r => match take k r with Some (a, b) => Some (x :: a, b) | None => None end
           end
  end.

Lemma take_spec n : forall l,
  take n l = if Nat.leb n (length l) then Some (firstn n l, skipn n l) else None.
Proof.
  induction n as [|k IH]; intros l; cbn [take].
  - reflexivity.
  - destruct l as [|x r]; [reflexivity|]. rewrite IH. cbn [length Nat.leb firstn skipn].
    destruct (Nat.leb k (length r)); reflexivity.
Qed.

Lemma take_app n l r : length l = n -> take n (l ++ r) = Some (l, r).
Proof.
  intros H. rewrite take_spec, app_length.
  replace (Nat.leb n (length l + length r)) with true by (symmetry; apply Nat.leb_le; lia).
  subst n. rewrite firstn_app, skipn_app, firstn_all, skipn_all, Nat.sub_diag. simpl.
  rewrite app_nil_r. reflexivity.
Qed.
Lemma take_some n l a b : take n l = Some (a, b) -> l = a ++ b /\ length a = n.
Proof.
  rewrite take_spec. destruct (Nat.leb n (length l)) eqn:E; [|discriminate].
  intros H; inversion H; subst. split; [symmetry; apply firstn_skipn|].
  apply firstn_length_le. apply Nat.leb_le. exact E.
Qed.
Lemma take_none n l : take n l = None -> (length l < n)%nat.
Proof. rewrite take_spec. destruct (Nat.leb n (length l)) eqn:E; [discriminate|]. intros _. apply Nat.leb_gt. exact E. Qed.

(* is l shorter than n?  cost O(min(n, length l)) *)
Fixpoint short_of (l:bytes) (n:N) : bool :=
  match l with
  | [] => 0 <? n
  | _ :: r => if n =? 0 then false else short_of r (n - 1)
  end.
Lemma short_of_spec l : forall n, short_of l n = (blen l <? n).
Proof.
  induction l as [|x r IH]; intros n; cbn [short_of].
  - reflexivity.
  - destruct (n =? 0) eqn:E.
    + apply N.eqb_eq in E. subst. unfold blen. symmetry. apply N.ltb_ge. lia.
    + rewrite IH. unfold blen. cbn [length]. rewrite Nat2N.inj_succ. apply N.eqb_neq in E.
      destruct (N.of_nat (length r) <? n - 1) eqn:E1; symmetry; [apply N.ltb_lt; apply N.ltb_lt in E1; lia|apply N.ltb_ge; apply N.ltb_ge in E1; lia].
Qed.

(* ASCII helpers *)
Definition ascii_lower (b:N) : N := if (65 <=? b) && (b <=? 90) then b + 32 else b.
Definition lower (l:bytes) : bytes := map ascii_lower l.
