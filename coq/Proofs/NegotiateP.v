Require Import WS.Base.Bytes WS.gen.Consts WS.Model.Util WS.Model.Server WS.Model.Client WS.Model.Negotiate.

(* the literals the two endpoints send, as found in the source (gen/Consts.v), are the ones the
   model uses *)
Lemma offer_literal_in_source : In offer s_deflate_literals_client.
Proof. vm_compute. auto. Qed.
Lemma reply_literal_in_source : In resp_extensions s_deflate_literals_server.
Proof. vm_compute. auto 10. Qed.
Lemma resp_extensions_value : resp_extensions = [83;101;99;45;87;101;98;83;111;99;107;101;116;45;69;120;116;101;110;115;105;111;110;115;58;32] ++ ext_value ++ [13;10].
Proof. reflexivity. Qed.

Lemma parse_ext_value :
  parse_extensions [ext_value] = [[([], permessage_deflate); (server_nct, []); (client_nct, [])]].
Proof. vm_compute. reflexivity. Qed.

Lemma client_on_server_line : client_decision [ext_value] = Some true.
Proof. vm_compute. reflexivity. Qed.
Lemma client_on_no_line : client_decision [] = Some false.
Proof. reflexivity. Qed.

(* whatever offer lines reach the Upgrader (absent, any parameters, other extensions first,
   several lines, quoted strings, junk) and whatever its setting: the client ends up with
   compression installed iff the server did *)
Theorem endpoints_agree uec offers :
  client_decision (reply_ext_lines uec offers) = Some (server_compress uec offers).
Proof.
  unfold reply_ext_lines. destruct (server_compress uec offers).
  - apply client_on_server_line.
  - apply client_on_no_line.
Qed.

Lemma dialer_offer_parses : has_deflate_offer (dialer_offers true) = true.
Proof. vm_compute. reflexivity. Qed.
Lemma no_offer : has_deflate_offer (dialer_offers false) = false.
Proof. reflexivity. Qed.

(* Dialer against Upgrader with nothing in between: compression is used iff both enabled it *)
Theorem dialer_upgrader_matrix dec uec :
  server_compress uec (dialer_offers dec) = dec && uec /\
  client_decision (reply_ext_lines uec (dialer_offers dec)) = Some (dec && uec).
Proof.
  assert (H : server_compress uec (dialer_offers dec) = dec && uec).
  { unfold server_compress. destruct dec; [rewrite dialer_offer_parses|rewrite no_offer]; destruct uec; reflexivity. }
  split; [exact H|]. rewrite endpoints_agree, H. reflexivity.
Qed.

(* the client installs compression only when the reply's first permessage-deflate entry carries
   both no_context_takeover parameters; with the entry present but a parameter missing there is
   no connection at all *)
Theorem client_requires_both_parameters lines :
  match client_decision lines with
  | Some true => exists e, first_deflate (parse_extensions lines) = Some e /\
                           ext_has server_nct e = true /\ ext_has client_nct e = true
  | Some false => first_deflate (parse_extensions lines) = None
  | None => exists e, first_deflate (parse_extensions lines) = Some e /\
                      (ext_has server_nct e = false \/ ext_has client_nct e = false)
  end.
Proof.
  unfold client_decision. destruct (first_deflate (parse_extensions lines)) as [e|]; [|reflexivity].
  destruct (ext_has server_nct e) eqn:E1; destruct (ext_has client_nct e) eqn:E2; cbn;
    exists e; auto.
Qed.

(* validate_reply's compression verdict is client_decision on the reply's extension lines *)
Theorem validate_reply_compression key p :
  match validate_reply key p with
  | VAccepted c _ => client_decision (p_extensions p) = Some c
  | VInvalidCompression => client_decision (p_extensions p) = None
  | VBadHandshake _ => True
  end.
Proof.
  unfold validate_reply, client_decision.
  destruct (negb (p_status p =? 101) || _ || _ || _); [exact I|].
  destruct (first_deflate (parse_extensions (p_extensions p))) as [e|]; [|reflexivity].
  destruct (ext_has server_nct e && ext_has client_nct e); reflexivity.
Qed.

(* the Upgrader's decision is server_compress on the request's extension lines *)
Theorem upgrade_compression url_host_of u q rh resp c sub :
  upgrade url_host_of u q rh true true = Upgraded resp c sub ->
  c = server_compress (u_compression u) (q_extensions q).
Proof.
  unfold upgrade.
  repeat match goal with |- context [if ?b then _ else _] => destruct b; try discriminate end.
  intros H. inversion H. reflexivity.
Qed.
Print Assumptions endpoints_agree.
Print Assumptions dialer_upgrader_matrix.
Print Assumptions upgrade_compression.
