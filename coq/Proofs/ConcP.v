(* ConcP.v - proofs about the interleaving model of Conc.v.  Every statement is for EVERY schedule. *)
From Coq Require Import List Arith Lia Bool.
Import ListNotations.
Require Import WS.Model.Conc.

(* ------------------------------------------------------------------------------------------ *)
(* Thread table                                                                               *)

Lemma nth_nil_idle x : nth x (@nil thr) idle = idle.
Proof. destruct x; reflexivity. Qed.

Lemma get_same l t v : get (tset l t v) t = v.
Proof. unfold get. revert l. induction t as [|t IHt]; intros l; cbn; [reflexivity|apply IHt]. Qed.

Lemma get_other l t v x : x <> t -> get (tset l t v) x = get l x.
Proof.
  unfold get. revert l x. induction t as [|t IHt]; intros l x Hne.
  - destruct x as [|x]; [congruence|]. destruct l as [|a l]; [|reflexivity].
    destruct x; reflexivity.
  - destruct x as [|x].
    + destruct l; reflexivity.
    + cbn [tset nth]. rewrite IHt by congruence. destruct l as [|a l]; [|reflexivity].
      destruct x; reflexivity.
Qed.

Lemma list_not_cons_self {A} (x:A) l : l <> x :: l.
Proof. intros H. apply (f_equal (@length A)) in H. cbn in H. lia. Qed.

Ltac upd_cases x t :=
  destruct (Nat.eq_dec x t) as [->|?];
  [rewrite ?get_same in * | rewrite ?get_other in * by assumption].

(* unfold the state/thread constructors used by [step] and project *)
Ltac red_st :=
  unfold only, lock, fail_op, goto, fin, thr_of in *;
  cbn [mu werr tclosed log dlog thrs todo ph res] in *.

(* ------------------------------------------------------------------------------------------ *)
(* 1. The invariant is inductive                                                              *)

Lemma inv_mu s t : Inv s -> mu s = Some t -> todo (thr_of s t) <> [].
Proof.
  intros HI Hm Hn. apply (inv_cs s HI) in Hm. rewrite (inv_idle s HI t Hn) in Hm. discriminate.
Qed.

Lemma init_inv s : init_ok s -> Inv s.
Proof.
  intros (Hmu & Hw & Hl & _ & Hph & _ & _). constructor.
  - intros t. rewrite Hph, Hmu. cbn. split; discriminate.
  - intros t _. apply Hph.
  - intros t. rewrite Hph. discriminate.
  - intros t. rewrite Hph. discriminate.
  - intros t c rest _ _. apply Hph.
  - intros t c rest _ _. apply Hph.
  - intros t c rest _. rewrite Hph. discriminate.
  - intros (e & Hin & _). rewrite Hl in Hin. destruct Hin.
Qed.

Lemma writing_cs p : writing p = true -> in_cs p = true.
Proof. destruct p; cbn; congruence. Qed.

Lemma werr_outcome_not_timeout e : PRel (werr_outcome e) <> PRel ETimeout.
Proof. destruct e; discriminate. Qed.

(* normalise the context after [step] has been unfolded at thread t *)
Ltac norm Etodo Eph :=
  red_st; rewrite ?Etodo, ?Eph in *; cbn [tl in_cs writing prewrite] in *.

(* generic solvers for the first six fields of Inv at a leaf of [step] *)
Ltac f_cs t Etodo Eph Hcs :=
  let x := fresh "x" in
  intros x; red_st; pose proof (Hcs x); pose proof (Hcs t); upd_cases x t; norm Etodo Eph;
  solve [intuition congruence].
Ltac f_idle t Etodo Eph Hidle :=
  let x := fresh "x" in let Hx := fresh "Hx" in
  intros x Hx; red_st; upd_cases x t; norm Etodo Eph;
  solve [reflexivity | discriminate | apply Hidle; assumption].
Ltac f_w t Etodo Eph Hcs Hw :=
  let x := fresh "x" in let Hx := fresh "Hx" in
  intros x Hx; red_st; pose proof (Hcs x); pose proof (Hcs t); pose proof (Hw t);
  upd_cases x t; norm Etodo Eph;
  [ solve [discriminate | auto | congruence]
  | pose proof (Hw x Hx); pose proof (writing_cs _ Hx);
    solve [assumption | intuition congruence] ].
Ltac f_rel t Etodo Eph Hrel :=
  let x := fresh "x" in
  intros x; red_st; upd_cases x t; norm Etodo Eph;
  solve [discriminate | apply werr_outcome_not_timeout | apply Hrel | congruence].
Ltac f_dpast t Etodo Eph Hdp :=
  let x := fresh "x" in let c0 := fresh "c0" in let r0 := fresh "r0" in
  let Hx := fresh "Hx" in let Hd := fresh "Hd" in
  intros x c0 r0 Hx Hd; red_st; upd_cases x t; norm Etodo Eph;
  [ solve [ reflexivity
          | injection Hx as <- <-; pose proof (Hdp t _ _ Etodo Hd); congruence ]
  | solve [eapply Hdp; eassumption] ].
Ltac f_kind t Etodo Eph Hkd :=
  let x := fresh "x" in let c0 := fresh "c0" in let r0 := fresh "r0" in
  let Hx := fresh "Hx" in let Hd := fresh "Hd" in
  intros x c0 r0 Hx Hd; red_st; upd_cases x t; norm Etodo Eph;
  [ solve [ reflexivity
          | injection Hx as <- <-; pose proof (Hkd t _ _ Etodo Hd); congruence ]
  | solve [eapply Hkd; eassumption] ].
Ltac f_wait t Etodo Eph Hwait :=
  let x := fresh "x" in let c0 := fresh "c0" in let r0 := fresh "r0" in
  let Hx := fresh "Hx" in let Hp := fresh "Hp" in
  intros x c0 r0 Hx Hp; red_st; upd_cases x t; norm Etodo Eph;
  [ solve [ discriminate | injection Hx as <- <-; assumption ]
  | solve [eapply Hwait; eassumption] ].
(* inv_close at a leaf where the log is unchanged and t is not the closer in PMark *)
Ltac f_close t Etodo Eph Hcs Hclose :=
  let Hc := fresh "Hc" in let Hwe := fresh "Hwe" in let h := fresh "h" in
  let Hh := fresh "Hh" in let Hp := fresh "Hp" in let Hcl := fresh "Hcl" in
  let Hct := fresh "Hct" in let Hne := fresh "Hne" in
  intros Hc; unfold close_done in *; red_st;
  destruct (Hclose Hc) as [Hwe | (h & Hh & Hp & Hcl)];
  [ left; solve [assumption | rewrite Hwe; reflexivity | congruence]
  | pose proof (Hcs t) as Hct; rewrite Eph in Hct; cbn [in_cs] in Hct;
    destruct (Nat.eq_dec h t) as [->|Hne];
    [ exfalso; solve [rewrite Eph in Hp; discriminate | intuition congruence]
    | solve [ right; exists h; rewrite get_other by assumption; auto
            | exfalso; intuition congruence ] ] ].

Ltac inv_easy t Etodo Eph Hcs Hidle Hw Hrel Hdp Hkd Hwait :=
  constructor;
  [ f_cs t Etodo Eph Hcs | f_idle t Etodo Eph Hidle | f_w t Etodo Eph Hcs Hw
  | f_rel t Etodo Eph Hrel | f_dpast t Etodo Eph Hdp | f_kind t Etodo Eph Hkd
  | f_wait t Etodo Eph Hwait | ].

Ltac inv_leaf t Etodo Eph Hcs Hidle Hw Hrel Hdp Hkd Hwait Hclose :=
  inv_easy t Etodo Eph Hcs Hidle Hw Hrel Hdp Hkd Hwait; f_close t Etodo Eph Hcs Hclose.

Lemma step_inv t timer s : Inv s -> Inv (step t timer s).
Proof.
  intros HI. pose proof HI as [Hcs Hidle Hw Hrel Hdp Hkd Hwait Hclose].
  unfold step.
  destruct (todo (thr_of s t)) as [|c rest] eqn:Etodo; [assumption|].
  pose proof (Hcs t) as Hcst. pose proof (Hw t) as Hwt.
  destruct (ph (thr_of s t)) as [| | | | |k| |o] eqn:Eph; cbn [in_cs writing] in Hcst, Hwt.
  - (* PPre *)
    destruct (kind c) eqn:Ekd.
    + destruct (precheck c); [case_eq (werr s); [intros e Ew|intros Ew]|]; cbv iota;
        [|destruct (dl c) eqn:Edl ..].
      all: inv_leaf t Etodo Eph Hcs Hidle Hw Hrel Hdp Hkd Hwait Hclose.
    + inv_leaf t Etodo Eph Hcs Hidle Hw Hrel Hdp Hkd Hwait Hclose.
  - (* PAcq *)
    destruct (dl c) eqn:Edl; [case_eq (mu s); [intros h0 Emu|intros Emu] ..|].
    all: try assumption.
    all: inv_leaf t Etodo Eph Hcs Hidle Hw Hrel Hdp Hkd Hwait Hclose.
  - (* PWait *)
    destruct timer; [|case_eq (mu s); [intros h0 Emu|intros Emu]].
    all: try assumption.
    all: inv_leaf t Etodo Eph Hcs Hidle Hw Hrel Hdp Hkd Hwait Hclose.
  - (* PChk *)
    case_eq (werr s); [intros e Ew|intros Ew].
    all: inv_leaf t Etodo Eph Hcs Hidle Hw Hrel Hdp Hkd Hwait Hclose.
  - (* PSetDL *)
    assert (Ew : werr s = None) by (apply Hwt; reflexivity).
    destruct (op_fails s c 0).
    all: inv_leaf t Etodo Eph Hcs Hidle Hw Hrel Hdp Hkd Hwait Hclose.
  - (* PW k *)
    assert (Ew : werr s = None) by (apply Hwt; reflexivity).
    destruct (op_fails s c (S k)).
    + inv_leaf t Etodo Eph Hcs Hidle Hw Hrel Hdp Hkd Hwait Hclose.
    + destruct (parts c <=? S k) eqn:Elast.
      all: inv_easy t Etodo Eph Hcs Hidle Hw Hrel Hdp Hkd Hwait.
      all: assert (Hmt : mu s = Some t) by (apply Hcst; reflexivity).
      all: assert (Hnc : ~ close_done s)
        by (intros Hc; destruct (Hclose Hc) as [Hwe | (h & Hh & Hp & _)];
            [congruence | assert (h = t) by congruence; subst h; congruence]).
      all: intros (e & Hin & He); red_st; apply in_app_or in Hin; destruct Hin as [Hin | [<- | []]];
        [exfalso; apply Hnc; exists e; auto | ].
      * right. exists t. rewrite get_same. cbn [ph todo]. unfold cur_isclose. cbn [todo].
        rewrite Etodo. unfold elast in He. cbn [snd] in He. rewrite andb_true_r in He. auto.
      * unfold elast in He. cbn [snd] in He. rewrite andb_false_r in He. discriminate.
  - (* PMark *)
    assert (Ew : werr s = None) by (apply Hwt; reflexivity).
    assert (Hmt : mu s = Some t) by (apply Hcst; reflexivity).
    destruct (isclose c) eqn:Eic.
    all: inv_easy t Etodo Eph Hcs Hidle Hw Hrel Hdp Hkd Hwait.
    + intros _. left. red_st. rewrite Ew. reflexivity.
    + intros Hc. exfalso. unfold close_done in *. red_st.
      destruct (Hclose Hc) as [Hwe | (h & Hh & Hp & Hcl)]; [congruence|].
      assert (h = t) by congruence. subst h. unfold cur_isclose in Hcl. rewrite Etodo in Hcl. congruence.
  - (* PRel *)
    inv_leaf t Etodo Eph Hcs Hidle Hw Hrel Hdp Hkd Hwait Hclose.
Qed.

Theorem run_inv sched s : Inv s -> Inv (run sched s).
Proof.
  revert s; induction sched as [|x xs IH]; intros s H; cbn; [assumption|].
  apply IH. apply step_inv. assumption.
Qed.

Lemma run_app a b s : run (a ++ b) s = run b (run a s).
Proof. unfold run. apply fold_left_app. Qed.

Corollary reachable_inv s0 sched : init_ok s0 -> Inv (run sched s0).
Proof. intros H. apply run_inv, init_inv, H. Qed.

(* ------------------------------------------------------------------------------------------ *)
(* Frame lemmas about one step                                                                *)

(* case analysis on every branch of [step]; the goal must mention [step t timer s] *)
Ltac break_match :=
  repeat match goal with
  | |- context[match ?x with _ => _ end] => destruct x eqn:?
  end.

Lemma step_thr_other t timer s x : x <> t -> thr_of (step t timer s) x = thr_of s x.
Proof.
  intros Hne. unfold step. break_match; red_st; rewrite ?get_other by assumption; reflexivity.
Qed.

Lemma werr_sticky t timer s e : werr s = Some e -> werr (step t timer s) = Some e.
Proof.
  intros He. unfold step. break_match; red_st; rewrite ?He; try reflexivity; congruence.
Qed.

Lemma werr_sticky_run sched s e : werr s = Some e -> werr (run sched s) = Some e.
Proof.
  revert s; induction sched as [|x xs IH]; intros s He; cbn; [assumption|].
  apply IH, werr_sticky, He.
Qed.

Lemma step_log_mono t timer s : exists l, log (step t timer s) = log s ++ l.
Proof.
  unfold step. break_match; red_st;
    solve [exists []; rewrite app_nil_r; reflexivity | eexists; reflexivity].
Qed.

Lemma close_done_mono t timer s : close_done s -> close_done (step t timer s).
Proof.
  intros (e & Hin & He). destruct (step_log_mono t timer s) as [l Hl].
  exists e. rewrite Hl. split; [apply in_or_app; left|]; assumption.
Qed.

(* a thread about to Write is past the check: no sticky error, no close frame in the log *)
Lemma pw_open s t k : Inv s -> ph (thr_of s t) = PW k -> werr s = None /\ ~ close_done s.
Proof.
  intros HI Eph.
  assert (Ew : werr s = None) by (apply (inv_w s HI t); rewrite Eph; reflexivity).
  split; [assumption|]. intros Hc.
  destruct (inv_close s HI Hc) as [Hwe | (h & Hh & Hp & _)]; [congruence|].
  assert (Hmt : mu s = Some t) by (apply (inv_cs s HI t); rewrite Eph; reflexivity).
  assert (h = t) by congruence. subst h. congruence.
Qed.

(* the log is frozen as soon as the sticky error is set or a close frame is complete *)
Lemma step_log_frozen t timer s :
  Inv s -> werr s <> None \/ close_done s -> log (step t timer s) = log s.
Proof.
  intros HI Hfro. unfold step.
  destruct (todo (thr_of s t)) as [|c rest] eqn:Etodo; [reflexivity|].
  destruct (ph (thr_of s t)) eqn:Eph; break_match; red_st; try reflexivity.
  all: exfalso; destruct (pw_open s t k HI Eph) as [Ew Hnc]; destruct Hfro; auto.
Qed.

Lemma run_log_frozen sched s :
  Inv s -> werr s <> None \/ close_done s -> log (run sched s) = log s.
Proof.
  revert s; induction sched as [|x xs IH]; intros s HI Hfro; cbn; [reflexivity|].
  rewrite IH.
  - apply step_log_frozen; assumption.
  - apply step_inv; assumption.
  - destruct Hfro as [Hw|Hc].
    + left. destruct (werr s) as [e|] eqn:Ew; [|congruence].
      rewrite (werr_sticky _ _ _ _ Ew). discriminate.
    + right. apply close_done_mono, Hc.
Qed.

(* 2. C09: once the last part of a close frame is in the log, no later step appends to the log *)
Theorem close_is_last t timer s : Inv s -> close_done s -> log (step t timer s) = log s.
Proof. intros HI Hc. apply step_log_frozen; auto. Qed.

Theorem close_is_last_run sched s : Inv s -> close_done s -> log (run sched s) = log s.
Proof. intros HI Hc. apply run_log_frozen; auto. Qed.

(* ... stated from an initial state: whatever happens after the close frame, the log stays *)
Corollary close_is_last_reachable s0 sched1 sched2 :
  init_ok s0 -> close_done (run sched1 s0) ->
  log (run (sched1 ++ sched2) s0) = log (run sched1 s0).
Proof.
  intros H0 Hc. rewrite run_app. apply close_is_last_run; [|assumption].
  apply reachable_inv, H0.
Qed.

(* 6. C10: fail-stop.  After a transport failure (or any sticky error) nothing is ever written *)
Theorem fail_stop sched s : Inv s -> werr s = Some ETransport -> log (run sched s) = log s.
Proof. intros HI Hw. apply run_log_frozen; [assumption|]. left. congruence. Qed.

Corollary fail_stop_reachable s0 sched1 sched2 :
  init_ok s0 -> werr (run sched1 s0) = Some ETransport ->
  log (run (sched1 ++ sched2) s0) = log (run sched1 s0).
Proof.
  intros H0 Hw. rewrite run_app. apply fail_stop; [|assumption].
  apply reachable_inv, H0.
Qed.

(* ------------------------------------------------------------------------------------------ *)
(* 3. C09: calls that run after the sticky error is set fail and write nothing.

   Formulation.  Results are only ever pushed on the front of [res], and calls are only ever
   popped from the front of [todo], one result per popped call.  So for a reachable state [s]
   with [werr s = Some e] and ANY continuation [sched] of the schedule we exhibit, for a thread
   [t], the calls [done] that t completed during [sched] and the results [new] they produced
   (oldest first: [rev new]), and show call by call that the result is the one dictated by the
   sticky error: [werr_outcome e] (EClosed for ErrCloseSent), or ETimeout for a WriteControl
   whose deadline is not the zero time (DPast, or DFuture and the timer fired while it waited);
   Conn.Close() calls are not write calls and return OK.  No transport fault of the call itself
   can interfere because the call never reaches a transport operation.  The log and werr do not
   change at all ([run_log_frozen], [werr_sticky_run]).

   Which calls are covered: every call of t whose outcome is not already decided in [s].  The
   only calls excluded are those sitting in their release phase [PRel o] with a different
   outcome - e.g. the thread that has just sent the close frame and is about to return OK.  In
   particular every call that STARTS after [s] (thread at [PPre], the first phase of a call:
   pre-check / deadline test, before the acquire) is covered, as are calls that were still
   waiting for the lock, or were between acquire and check, when the error was set. *)

Lemma good_frame_err e c : kind c = KFrame -> good_after e c (werr_outcome e).
Proof. intros H. unfold good_after. rewrite H. auto. Qed.
Lemma good_frame_timeout e c : kind c = KFrame -> dl c <> DNone -> good_after e c ETimeout.
Proof. intros H Hd. unfold good_after. rewrite H. auto. Qed.
Lemma good_connclose e c : kind c = KConnClose -> good_after e c OK.
Proof. intros H. unfold good_after. rewrite H. auto. Qed.

Lemma step_after_werr x timer s t e :
  Inv s -> werr s = Some e -> pending_ok e (ph (thr_of s t)) ->
  pending_ok e (ph (thr_of (step x timer s) t)) /\
  ( (todo (thr_of (step x timer s) t) = todo (thr_of s t) /\
     res (thr_of (step x timer s) t) = res (thr_of s t))
    \/
    (exists c rest o,
       todo (thr_of s t) = c :: rest /\ todo (thr_of (step x timer s) t) = rest /\
       res (thr_of (step x timer s) t) = (fid c, o) :: res (thr_of s t) /\ good_after e c o) ).
Proof.
  intros HI He Hp.
  destruct (Nat.eq_dec t x) as [->|Hne]; [|rewrite step_thr_other by assumption; auto].
  unfold step.
  destruct (todo (thr_of s x)) as [|c rest] eqn:Etodo; [rewrite Etodo; auto|].
  pose proof (inv_w s HI x) as Hwx. pose proof (inv_dpast s HI x c rest Etodo) as Hdx.
  pose proof (inv_kind s HI x c rest Etodo) as Hkx. pose proof (inv_wait s HI x c rest Etodo) as Hwtx.
  (* what a finishing step looks like *)
  assert (Hfin : forall o m w tc l d, good_after e c o ->
     let s' := {| mu := m; werr := w; tclosed := tc; log := l; dlog := d;
                  thrs := tset (thrs s) x (fin (thr_of s x) c o) |} in
     pending_ok e (ph (thr_of s' x)) /\
     ( (todo (thr_of s' x) = c :: rest /\ res (thr_of s' x) = res (thr_of s x)) \/
       (exists c0 rest0 o0, c :: rest = c0 :: rest0 /\ todo (thr_of s' x) = rest0 /\
          res (thr_of s' x) = (fid c0, o0) :: res (thr_of s x) /\ good_after e c0 o0) )).
  { intros o m w tc l d Hg s'. subst s'. red_st. rewrite get_same. cbn [todo ph res pending_ok].
    rewrite Etodo. cbn [tl]. split; [exact I|]. right. exists c, rest, o. auto. }
  (* what a non-finishing step looks like *)
  assert (Hgo : forall p m w tc l d, pending_ok e p ->
     let s' := {| mu := m; werr := w; tclosed := tc; log := l; dlog := d;
                  thrs := tset (thrs s) x (goto (thr_of s x) p) |} in
     pending_ok e (ph (thr_of s' x)) /\
     ( (todo (thr_of s' x) = c :: rest /\ res (thr_of s' x) = res (thr_of s x)) \/
       (exists c0 rest0 o0, c :: rest = c0 :: rest0 /\ todo (thr_of s' x) = rest0 /\
          res (thr_of s' x) = (fid c0, o0) :: res (thr_of s x) /\ good_after e c0 o0) )).
  { intros p m w tc l d Hpp s'. subst s'. red_st. rewrite get_same. cbn [todo ph res].
    rewrite Etodo. split; [exact Hpp|]. left. auto. }
  assert (Hstay : pending_ok e (ph (thr_of s x)) /\
     ( (todo (thr_of s x) = c :: rest /\ res (thr_of s x) = res (thr_of s x)) \/
       (exists c0 rest0 o0, c :: rest = c0 :: rest0 /\ todo (thr_of s x) = rest0 /\
          res (thr_of s x) = (fid c0, o0) :: res (thr_of s x) /\ good_after e c0 o0) )) by auto.
  destruct (ph (thr_of s x)) as [| | | | |k| |o] eqn:Eph; cbn [writing pending_ok] in Hwx, Hp;
    try (exfalso; specialize (Hwx eq_refl); congruence).
  - (* PPre *)
    destruct (kind c) eqn:Ekd.
    + destruct (precheck c); [rewrite He|]; cbv iota; [|destruct (dl c) eqn:Edl].
      * apply Hfin, good_frame_err, Ekd.
      * apply Hgo. exact I.
      * apply Hgo. exact I.
      * apply Hfin, good_frame_timeout; [exact Ekd|congruence].
    + apply Hfin, good_connclose, Ekd.
  - (* PAcq *)
    destruct (dl c) eqn:Edl; [| |specialize (Hdx eq_refl); discriminate].
    all: destruct (mu s); try (rewrite Eph; exact Hstay); apply Hgo; exact I.
  - (* PWait *)
    assert (Ekd : kind c = KFrame) by (destruct (kind c); [reflexivity|specialize (Hkx eq_refl); discriminate]).
    destruct timer; [|destruct (mu s)]; try (rewrite Eph; exact Hstay).
    + apply Hfin, good_frame_timeout; [exact Ekd|]. rewrite (Hwtx eq_refl). discriminate.
    + apply Hgo. exact I.
  - (* PChk *)
    rewrite He. apply Hgo. reflexivity.
  - (* PRel *)
    assert (Ekd : kind c = KFrame) by (destruct (kind c); [reflexivity|specialize (Hkx eq_refl); discriminate]).
    subst o. apply Hfin, good_frame_err, Ekd.
Qed.

Theorem calls_after_werr sched s t e :
  Inv s -> werr s = Some e -> pending_ok e (ph (thr_of s t)) ->
  exists done new,
    todo (thr_of s t) = done ++ todo (thr_of (run sched s) t) /\
    res (thr_of (run sched s) t) = new ++ res (thr_of s t) /\
    Forall2 (result_after e) done (rev new).
Proof.
  revert s; induction sched as [|[x timer] xs IH]; intros s HI He Hp.
  - exists [], []. cbn. auto.
  - cbn [run fold_left fst snd].
    destruct (step_after_werr x timer s t e HI He Hp) as [Hp1 Hstep].
    destruct (IH (step x timer s) (step_inv _ _ _ HI) (werr_sticky _ _ _ _ He) Hp1)
      as (done1 & new1 & Htodo & Hres & Hall).
    fold (run xs (step x timer s)).
    destruct Hstep as [[Ht Hr] | (c & rest & o & Ht & Ht1 & Hr & Hg)].
    + exists done1, new1. rewrite <- Ht, <- Hr. auto.
    + exists (c :: done1), (new1 ++ [(fid c, o)]). repeat split.
      * rewrite Ht. cbn. f_equal. rewrite <- Ht1. exact Htodo.
      * rewrite Hres, Hr, <- app_assoc. reflexivity.
      * rewrite rev_unit. constructor; [|exact Hall]. split; [reflexivity|exact Hg].
Qed.

(* C09 as asked: in a state where ErrCloseSent is set, every call of thread t that starts
   afterwards (t is at the first phase PPre of its current call) completes, under ANY
   continuation of the schedule, with EClosed - or ETimeout when it is a WriteControl with a
   non-zero deadline - never OK; and the log never changes. *)
Theorem calls_after_close_fail sched s t :
  Inv s -> werr s = Some ECloseSent -> ph (thr_of s t) = PPre ->
  log (run sched s) = log s /\
  werr (run sched s) = Some ECloseSent /\
  exists done new,
    todo (thr_of s t) = done ++ todo (thr_of (run sched s) t) /\
    res (thr_of (run sched s) t) = new ++ res (thr_of s t) /\
    Forall2 (fun c r => fst r = fid c /\
               match kind c with
               | KConnClose => snd r = OK
               | KFrame => snd r = EClosed \/ (snd r = ETimeout /\ dl c <> DNone)
               end) done (rev new).
Proof.
  intros HI He Hp. split; [|split].
  - apply run_log_frozen; [assumption|]. left. congruence.
  - apply werr_sticky_run, He.
  - apply (calls_after_werr sched s t ECloseSent HI He). rewrite Hp. exact I.
Qed.

(* plain reading for a thread that only issues frame writes: no new result is OK *)
Corollary calls_after_close_not_ok sched s t :
  Inv s -> werr s = Some ECloseSent -> ph (thr_of s t) = PPre ->
  (forall c, In c (todo (thr_of s t)) -> kind c = KFrame) ->
  exists new, res (thr_of (run sched s) t) = new ++ res (thr_of s t) /\
              Forall (fun r => snd r = EClosed \/ snd r = ETimeout) new.
Proof.
  intros HI He Hp Hk.
  destruct (calls_after_close_fail sched s t HI He Hp) as (_ & _ & done & new & Ht & Hr & Hall).
  exists new. split; [exact Hr|].
  assert (Hkd : Forall (fun c => kind c = KFrame) done).
  { apply Forall_forall. intros c Hc. apply Hk. rewrite Ht. apply in_or_app. left. exact Hc. }
  rewrite <- (rev_involutive new). apply Forall_rev.
  clear Ht Hr. induction Hall as [|c r dn nw [_ Hcr] _ IHa]; constructor.
  - inversion Hkd as [|? ? Hkc _]; subst. rewrite Hkc in Hcr. tauto.
  - apply IHa. inversion Hkd; assumption.
Qed.

(* from an initial state *)
Corollary calls_after_close_fail_reachable s0 sched1 sched2 t :
  init_ok s0 -> werr (run sched1 s0) = Some ECloseSent -> ph (thr_of (run sched1 s0) t) = PPre ->
  let s := run sched1 s0 in let s' := run (sched1 ++ sched2) s0 in
  log s' = log s /\
  exists done new,
    todo (thr_of s t) = done ++ todo (thr_of s' t) /\
    res (thr_of s' t) = new ++ res (thr_of s t) /\
    Forall2 (result_after ECloseSent) done (rev new).
Proof.
  intros H0 He Hp s s'. subst s s'. rewrite run_app.
  pose proof (reachable_inv s0 sched1 H0) as HI. split.
  - apply run_log_frozen; [assumption|]. left. congruence.
  - apply calls_after_werr; [assumption..|]. rewrite Hp. exact I.
Qed.

(* ------------------------------------------------------------------------------------------ *)
(* 5. C11: a WriteControl that times out has no effect on the connection                      *)

(* If a step of thread t pushes the result (f, ETimeout) then that step changed nothing but t's
   own program counter: log, dlog, werr, mu and tclosed are untouched; the call that ended is a
   WriteControl with a non-zero deadline (DPast test at entry, or timer fired while waiting). *)
Theorem timeout_clean t timer s f :
  Inv s ->
  res (thr_of (step t timer s) t) = (f, ETimeout) :: res (thr_of s t) ->
  log (step t timer s) = log s /\ werr (step t timer s) = werr s /\ mu (step t timer s) = mu s /\
  dlog (step t timer s) = dlog s /\ tclosed (step t timer s) = tclosed s /\
  exists c rest, todo (thr_of s t) = c :: rest /\ f = fid c /\ dl c <> DNone /\
                 todo (thr_of (step t timer s) t) = rest.
Proof.
  intros HI. unfold step.
  destruct (todo (thr_of s t)) as [|c rest] eqn:Etodo.
  { intros H. apply list_not_cons_self in H. destruct H. }
  pose proof (inv_rel s HI t) as Hrel. pose proof (inv_wait s HI t c rest Etodo) as Hwt.
  destruct (ph (thr_of s t)) as [| | | | |k| |o] eqn:Eph; break_match; red_st;
    rewrite ?get_same; cbn [todo ph res]; intros H;
    try (apply list_not_cons_self in H; destruct H);
    try (injection H as Hf Ho; try discriminate Ho).
  all: try (exfalso; match goal with Ho : werr_outcome ?e = ETimeout |- _ => destruct e; discriminate Ho end).
  all: try (exfalso; subst; congruence).
  all: repeat split; try reflexivity.
  all: exists c, rest; rewrite ?Etodo; repeat split; auto; try congruence.
  all: rewrite (Hwt eq_refl); discriminate.
Qed.

(* a thread whose current call has a deadline in the past is never in the critical section *)
Theorem dpast_never_holds s t c rest :
  Inv s -> todo (thr_of s t) = c :: rest -> dl c = DPast -> mu s <> Some t.
Proof.
  intros HI Etodo Hd Hm. apply (inv_cs s HI t) in Hm.
  rewrite (inv_dpast s HI t c rest Etodo Hd) in Hm. discriminate.
Qed.

(* ... and none of its steps touches mu (nor the log, nor werr): the call ends at its very first
   step, with ETimeout, or with the sticky error if it is preceded by the racy pre-check *)
Theorem dpast_never_locks t timer s c rest :
  Inv s -> todo (thr_of s t) = c :: rest -> dl c = DPast ->
  mu (step t timer s) = mu s /\ log (step t timer s) = log s /\ werr (step t timer s) = werr s /\
  (kind c = KFrame ->
   todo (thr_of (step t timer s) t) = rest /\
   exists o, res (thr_of (step t timer s) t) = (fid c, o) :: res (thr_of s t) /\
             (o = ETimeout \/ (precheck c = true /\ exists e, werr s = Some e /\ o = werr_outcome e))).
Proof.
  intros HI Etodo Hd. pose proof (inv_dpast s HI t c rest Etodo Hd) as Eph.
  unfold step. rewrite Etodo, Eph, Hd.
  destruct (kind c); [|repeat split; try reflexivity; discriminate].
  destruct (precheck c) eqn:Epre; [destruct (werr s) as [e|] eqn:Ew|]; red_st;
    rewrite ?get_same; cbn [todo ph res]; rewrite ?Etodo; cbn [tl]; repeat split; auto.
  all: eexists; split; [reflexivity|]; eauto.
Qed.

(* ------------------------------------------------------------------------------------------ *)
(* 4. C11: the Writes of one frame are contiguous in the log                                  *)

Lemma same_call_sym a b : same_call a b -> same_call b a.
Proof. unfold same_call. intuition congruence. Qed.
Lemma same_call_trans a b c : same_call a b -> same_call b c -> same_call a c.
Proof. unfold same_call. intuition congruence. Qed.

Lemma snoc_split1 {A} (l:list A) e l1 e1 l2 :
  l ++ [e] = l1 ++ e1 :: l2 ->
  (l2 = [] /\ e1 = e /\ l = l1) \/ (exists l2', l2 = l2' ++ [e] /\ l = l1 ++ e1 :: l2').
Proof.
  intros H. destruct l2 as [|x l2' _] using rev_ind.
  - apply app_inj_tail in H. destruct H as [-> ->]. left. auto.
  - right. exists l2'.
    assert (E : l1 ++ e1 :: l2' ++ [x] = (l1 ++ e1 :: l2') ++ [x])
      by (rewrite <- app_assoc; reflexivity).
    rewrite E in H. apply app_inj_tail in H. destruct H as [-> ->]. auto.
Qed.

Lemma snoc_split2 {A} (l:list A) e l1 e1 l2 e2 l3 :
  l ++ [e] = l1 ++ e1 :: l2 ++ e2 :: l3 ->
  (l3 = [] /\ e2 = e /\ l = l1 ++ e1 :: l2) \/
  (exists l3', l3 = l3' ++ [e] /\ l = l1 ++ e1 :: l2 ++ e2 :: l3').
Proof.
  intros H.
  assert (E : l1 ++ e1 :: l2 ++ e2 :: l3 = (l1 ++ e1 :: l2) ++ e2 :: l3)
    by (rewrite <- app_assoc; reflexivity).
  rewrite E in H. apply snoc_split1 in H. destruct H as [(-> & -> & ->) | (l3' & -> & ->)].
  - left. auto.
  - right. exists l3'. rewrite <- app_assoc. auto.
Qed.

(* list-level reading of WL: between two entries of the same call there are only entries of that
   call, and part numbers increase by one from entry to entry *)
Lemma WL_contig l : WL l ->
  forall l1 e1 l2 e2 l3, l = l1 ++ e1 :: l2 ++ e2 :: l3 -> same_call e1 e2 ->
  Forall (same_call e1) l2 /\ epart e2 = epart e1 + S (length l2).
Proof.
  induction 1 as [| l e HWL IH Habs Hp | l e' e HWL IH Hsc Hp]; intros l1 e1 l2 e2 l3 Heq Hs.
  - exfalso. apply app_cons_not_nil in Heq. exact Heq.
  - apply snoc_split2 in Heq. destruct Heq as [(-> & -> & ->) | (l3' & -> & ->)].
    + exfalso. apply (Habs e1); [|exact Hs]. apply in_or_app. right. left. reflexivity.
    + eapply IH; [reflexivity|exact Hs].
  - apply snoc_split2 in Heq. destruct Heq as [(-> & -> & Heq) | (l3' & -> & Heq)].
    + assert (Hs1 : same_call e1 e') by (eapply same_call_trans; [exact Hs|apply same_call_sym, Hsc]).
      apply snoc_split1 in Heq. destruct Heq as [(-> & -> & ->) | (l2' & -> & ->)].
      * split; [constructor|]. cbn. lia.
      * assert (E : (l1 ++ e1 :: l2') ++ [e'] = l1 ++ e1 :: l2' ++ e' :: [])
          by (rewrite <- app_assoc; reflexivity).
        destruct (IH l1 e1 l2' e' [] E Hs1) as [Hall Hpart].
        split.
        -- apply Forall_app. split; [exact Hall|]. constructor; [exact Hs1|constructor].
        -- rewrite app_length. cbn. lia.
    + eapply IH; [exact Heq|exact Hs].
Qed.

(* the first entry of a call has part number 1 *)
Lemma WL_first_part l : WL l ->
  forall l1 e l2, l = l1 ++ e :: l2 -> (forall e', In e' l1 -> ~ same_call e' e) -> epart e = 1.
Proof.
  induction 1 as [| l e0 HWL IH Habs Hp | l e' e0 HWL IH Hsc Hp]; intros l1 e l2 Heq Hfirst.
  - exfalso. apply app_cons_not_nil in Heq. exact Heq.
  - apply snoc_split1 in Heq. destruct Heq as [(-> & -> & ->) | (l2' & -> & ->)].
    + exact Hp.
    + eapply IH; [reflexivity|exact Hfirst].
  - apply snoc_split1 in Heq. destruct Heq as [(-> & -> & <-) | (l2' & -> & Heq)].
    + exfalso. apply (Hfirst e'); [|exact Hsc]. apply in_or_app. right. left. reflexivity.
    + eapply IH; [exact Heq|exact Hfirst].
Qed.

Lemma init_linv s : init_ok s -> LInv s.
Proof.
  intros (_ & _ & Hl & _ & Hph & Hnd & _). constructor.
  - rewrite Hl. constructor.
  - exact Hnd.
  - intros t c' _ e Hin. rewrite Hl in Hin. destruct Hin.
  - intros t c rest _ _ e Hin. rewrite Hl in Hin. destruct Hin.
  - intros t c rest k _ Hp. rewrite Hph in Hp. discriminate.
  - intros e Hin. rewrite Hl in Hin. destruct Hin.
  - intros t c rest k _ Hp. rewrite Hph in Hp. discriminate.
Qed.

Lemma in_tl {A} (x:A) l : In x (tl l) -> In x l.
Proof. destruct l; cbn; auto. Qed.

Lemma nodup_tl l : NoDup (map fid l) -> NoDup (map fid (tl l)).
Proof. destruct l as [|a l]; cbn; [auto|]. intros H. inversion H. assumption. Qed.

(* a step that only moves thread t to phase p (same call), leaves the log alone and may extend
   dlog, preserves LInv provided p is not "further back" than the current phase *)
Lemma linv_goto s s' t p :
  LInv s -> log s' = log s -> (forall x, In x (dlog s) -> In x (dlog s')) ->
  thrs s' = tset (thrs s) t (goto (thr_of s t) p) ->
  (prewrite p = true -> prewrite (ph (thr_of s t)) = true) ->
  (forall k, p <> PW (S k)) ->
  (forall k c rest, p = PW k -> todo (thr_of s t) = c :: rest -> In (t, fid c) (dlog s')) ->
  LInv s'.
Proof.
  intros [Hwl Hnd Hfut Hbef Hmid Hdl Hdw] Hlog Hdlog Hthrs Hpre Hnpw Hpw.
  constructor; unfold thr_of in *; rewrite ?Hlog, ?Hthrs.
  - exact Hwl.
  - intros x. upd_cases x t; cbn [goto todo]; apply Hnd.
  - intros x c'. upd_cases x t; cbn [goto todo]; apply Hfut.
  - intros x c rest. upd_cases x t; cbn [goto todo ph]; [|apply Hbef].
    intros Ht Hp. eapply Hbef; [exact Ht|]. apply Hpre, Hp.
  - intros x c rest k. upd_cases x t; cbn [goto todo ph]; [|apply Hmid].
    intros _ Hp. exfalso. apply (Hnpw k Hp).
  - intros e Hin. apply Hdlog, Hdl, Hin.
  - intros x c rest k. upd_cases x t; cbn [goto todo ph].
    + intros Ht Hp. eapply Hpw; eassumption.
    + intros Ht Hp. eapply Hdlog, Hdw; eassumption.
Qed.

(* a step that ends the current call of thread t and leaves the log alone preserves LInv *)
Lemma linv_fin s s' t c o :
  LInv s -> log s' = log s -> dlog s' = dlog s ->
  thrs s' = tset (thrs s) t (fin (thr_of s t) c o) ->
  LInv s'.
Proof.
  intros [Hwl Hnd Hfut Hbef Hmid Hdl Hdw] Hlog Hdlog Hthrs.
  constructor; unfold thr_of in *; rewrite ?Hlog, ?Hdlog, ?Hthrs.
  - exact Hwl.
  - intros x. upd_cases x t; cbn [fin todo]; [apply nodup_tl|]; apply Hnd.
  - intros x c'. upd_cases x t; cbn [fin todo]; [|apply Hfut].
    intros Hin. apply Hfut, in_tl, Hin.
  - intros x c0 rest. upd_cases x t; cbn [fin todo ph]; [|apply Hbef].
    intros Ht _. apply Hfut. rewrite Ht. left. reflexivity.
  - intros x c0 rest k. upd_cases x t; cbn [fin todo ph]; [|apply Hmid]. discriminate.
  - exact Hdl.
  - intros x c0 rest k. upd_cases x t; cbn [fin todo ph]; [|apply Hdw]. discriminate.
Qed.

Ltac linv_goto_tac HL Etodo Eph :=
  eapply linv_goto;
  [ exact HL | reflexivity
  | cbn [dlog]; intros ? ?; solve [assumption | apply in_or_app; left; assumption]
  | reflexivity
  | rewrite Eph; cbn [prewrite]; solve [auto | discriminate]
  | intros ?; discriminate
  | let Hp := fresh "Hp" in let Ht := fresh "Ht" in
    intros ? ? ? Hp Ht; try discriminate Hp; rewrite Etodo in Ht; injection Ht as <- <-;
    cbn [dlog]; apply in_or_app; right; left; reflexivity ].

Lemma step_linv t timer s : Inv s -> LInv s -> LInv (step t timer s).
Proof.
  intros HI HL. unfold step.
  destruct (todo (thr_of s t)) as [|c rest] eqn:Etodo; [assumption|].
  destruct (ph (thr_of s t)) as [| | | | |k| |o] eqn:Eph.
  1-5,7-8: break_match; try assumption;
    first [ eapply linv_fin; [exact HL | reflexivity ..] | linv_goto_tac HL Etodo Eph ].
  (* PW k *)
  destruct (op_fails s c (S k)); [linv_goto_tac HL Etodo Eph|].
  destruct HL as [Hwl Hnd Hfut Hbef Hmid Hdl Hdw].
  assert (Hmt : mu s = Some t) by (apply (inv_cs s HI t); rewrite Eph; reflexivity).
  assert (Hexcl : forall x, x <> t -> in_cs (ph (thr_of s x)) = true -> False).
  { intros x Hne Hx. apply (inv_cs s HI x) in Hx. congruence. }
  set (b := isclose c && (parts c <=? S k)).
  set (p := if parts c <=? S k then PMark else PW (S k)).
  assert (Hp : p = PMark \/ p = PW (S k)) by (subst p; destruct (parts c <=? S k); auto).
  assert (Hfid : forall c', In c' rest -> fid c <> fid c').
  { intros c' Hin Heq. specialize (Hnd t). rewrite Etodo in Hnd. cbn in Hnd.
    inversion Hnd as [|? ? Hnin _]. apply Hnin. rewrite Heq. apply in_map, Hin. }
  constructor; unfold thr_of in *; cbn [log dlog thrs].
  - (* WL *)
    destruct k as [|k'].
    + apply WL_first; [exact Hwl| |reflexivity].
      intros e' Hin [Ht Hf]. cbn in Ht, Hf.
      assert (Hab : absent (log s) t (fid c))
        by (apply (Hbef t c rest Etodo); rewrite Eph; reflexivity).
      exact (Hab e' Hin Ht Hf).
    + destruct (Hmid t c rest k' Etodo Eph) as (l' & b' & Hl). rewrite Hl in Hwl |- *.
      apply WL_next; [exact Hwl| split; reflexivity | reflexivity].
  - intros x. upd_cases x t; cbn [goto todo]; apply Hnd.
  - intros x c'. upd_cases x t; cbn [goto todo].
    + intros Hin e Hine He. apply in_app_or in Hine. destruct Hine as [Hine|[<-|[]]].
      * exact (Hfut t c' Hin e Hine He).
      * cbn. rewrite Etodo in Hin. apply Hfid, Hin.
    + intros Hin e Hine He. apply in_app_or in Hine. destruct Hine as [Hine|[<-|[]]].
      * exact (Hfut x c' Hin e Hine He).
      * cbn in He. congruence.
  - intros x c0 r0. upd_cases x t; cbn [goto todo ph].
    + intros _ Hpw. exfalso. destruct Hp as [Hp|Hp]; rewrite Hp in Hpw; discriminate.
    + intros Ht Hpw e Hine He. apply in_app_or in Hine. destruct Hine as [Hine|[<-|[]]].
      * exact (Hbef x c0 r0 Ht Hpw e Hine He).
      * cbn in He. congruence.
  - intros x c0 r0 k0. upd_cases x t; cbn [goto todo ph].
    + intros Ht Hpw. destruct Hp as [Hp|Hp]; rewrite Hp in Hpw; [discriminate|].
      injection Hpw as <-. rewrite Etodo in Ht. injection Ht as <- <-. exists (log s), b. reflexivity.
    + intros _ Hpw. exfalso. apply (Hexcl x); [assumption|]. rewrite Hpw. reflexivity.
  - intros e Hine. apply in_app_or in Hine. destruct Hine as [Hine|[<-|[]]].
    + apply Hdl, Hine.
    + cbn. eapply Hdw; eassumption.
  - intros x c0 r0 k0. upd_cases x t; cbn [goto todo ph].
    + intros Ht _. rewrite Etodo in Ht. injection Ht as <- <-. eapply Hdw; eassumption.
    + apply Hdw.
Qed.

Lemma run_linv sched s : Inv s -> LInv s -> LInv (run sched s).
Proof.
  revert s; induction sched as [|x xs IH]; intros s HI HL; cbn; [assumption|].
  apply IH; [apply step_inv|apply step_linv]; assumption.
Qed.

(* C11 atomicity, for every schedule: in every reachable log, between two Write events of the
   same call (tid,fid) there are only Write events of that call - no event of another thread or
   another frame lies between the parts of one frame - and the part numbers are consecutive. *)
Theorem frames_contiguous_ordered s0 sched :
  init_ok s0 ->
  forall l1 e1 l2 e2 l3,
    log (run sched s0) = l1 ++ e1 :: l2 ++ e2 :: l3 -> same_call e1 e2 ->
    Forall (same_call e1) l2 /\ epart e2 = epart e1 + S (length l2).
Proof.
  intros H0. apply WL_contig.
  apply (li_wl _ (run_linv sched s0 (init_inv s0 H0) (init_linv s0 H0))).
Qed.

Theorem frames_contiguous s0 sched :
  init_ok s0 ->
  forall l1 e1 l2 e2 l3,
    log (run sched s0) = l1 ++ e1 :: l2 ++ e2 :: l3 -> same_call e1 e2 ->
    Forall (same_call e1) l2.
Proof.
  intros H0 l1 e1 l2 e2 l3 Hl Hs. eapply frames_contiguous_ordered; eassumption.
Qed.

Theorem frames_increasing s0 sched :
  init_ok s0 ->
  forall l1 e1 l2 e2 l3,
    log (run sched s0) = l1 ++ e1 :: l2 ++ e2 :: l3 -> same_call e1 e2 -> epart e1 < epart e2.
Proof.
  intros H0 l1 e1 l2 e2 l3 Hl Hs.
  destruct (frames_contiguous_ordered s0 sched H0 _ _ _ _ _ Hl Hs) as [_ Hp]. lia.
Qed.

(* ... and the first Write event of a call is its part 1 *)
Theorem frames_start_at_part_1 s0 sched :
  init_ok s0 ->
  forall l1 e l2, log (run sched s0) = l1 ++ e :: l2 ->
    (forall e', In e' l1 -> ~ same_call e' e) -> epart e = 1.
Proof.
  intros H0. apply WL_first_part.
  apply (li_wl _ (run_linv sched s0 (init_inv s0 H0) (init_linv s0 H0))).
Qed.

(* every Write of a frame was preceded by that call's own SetWriteDeadline *)
Theorem write_has_deadline s0 sched e :
  init_ok s0 -> In e (log (run sched s0)) -> In (etid e, efid e) (dlog (run sched s0)).
Proof.
  intros H0. apply (li_dl_log _ (run_linv sched s0 (init_inv s0 H0) (init_linv s0 H0))).
Qed.

(* ------------------------------------------------------------------------------------------ *)
(* Statements about reachable states, and the roles assumption                                *)

Corollary mutual_exclusion s0 sched t1 t2 :
  init_ok s0 ->
  in_cs (ph (thr_of (run sched s0) t1)) = true -> in_cs (ph (thr_of (run sched s0) t2)) = true ->
  t1 = t2.
Proof.
  intros H0 H1 H2. pose proof (reachable_inv s0 sched H0) as HI.
  apply (inv_cs _ HI) in H1. apply (inv_cs _ HI) in H2. congruence.
Qed.

Corollary timeout_clean_reachable s0 sched t timer f :
  init_ok s0 -> let s := run sched s0 in
  res (thr_of (step t timer s) t) = (f, ETimeout) :: res (thr_of s t) ->
  log (step t timer s) = log s /\ werr (step t timer s) = werr s /\ mu (step t timer s) = mu s.
Proof.
  intros H0 s H. destruct (timeout_clean t timer s f (reachable_inv s0 sched H0) H) as (A & B & C & _).
  auto.
Qed.

Corollary dpast_never_locks_reachable s0 sched t timer c rest :
  init_ok s0 -> let s := run sched s0 in
  todo (thr_of s t) = c :: rest -> dl c = DPast ->
  mu s <> Some t /\ mu (step t timer s) = mu s.
Proof.
  intros H0 s Ht Hd. pose proof (reachable_inv s0 sched H0) as HI. split.
  - eapply dpast_never_holds; eassumption.
  - eapply dpast_never_locks; eassumption.
Qed.

Lemma step_todo_incl t timer s x c :
  In c (todo (thr_of (step t timer s) x)) -> In c (todo (thr_of s x)).
Proof.
  destruct (Nat.eq_dec x t) as [->|Hne]; [|rewrite step_thr_other by assumption; auto].
  unfold step. destruct (todo (thr_of s t)) as [|c0 rest] eqn:Etodo; [rewrite Etodo; auto|].
  break_match; red_st; rewrite ?get_same; cbn [todo]; rewrite ?Etodo; cbn [tl In]; auto.
Qed.

(* the roles assumption (only the writer thread issues data-frame writes) is stable *)
Lemma run_roles w sched s : roles_ok w s -> roles_ok w (run sched s).
Proof.
  revert s; induction sched as [|x xs IH]; intros s H; cbn; [assumption|].
  apply IH. intros t c Hin. apply H. eapply step_todo_incl, Hin.
Qed.

(* ------------------------------------------------------------------------------------------ *)
(* 7. Non-vacuity                                                                             *)

Lemma thr_beyond (a b c:thr) t : get [a;b;c] (S (S (S t))) = idle.
Proof. unfold get. cbn. destruct t; reflexivity. Qed.

Ltac ex_threads t := destruct t as [|[|[|t]]]; unfold thr_of; cbn [thrs ex_init ex_init2];
  rewrite ?thr_beyond; cbn.

Example ex_init_ok : init_ok ex_init.
Proof.
  repeat split; try reflexivity.
  - intros t. ex_threads t; reflexivity.
  - intros t. ex_threads t; repeat constructor; cbn; intuition discriminate.
  - exists 0. intros t c. ex_threads t; intros Hin Hd;
      repeat (destruct Hin as [<-|Hin]; [cbn in Hd; try discriminate; auto|]); destruct Hin.
Qed.

Example ex_init2_ok : init_ok ex_init2.
Proof.
  repeat split; try reflexivity.
  - intros t. ex_threads t; reflexivity.
  - intros t. ex_threads t; repeat constructor; cbn; intuition discriminate.
  - exists 0. intros t c. ex_threads t; intros Hin Hd;
      repeat (destruct Hin as [<-|Hin]; [cbn in Hd; try discriminate; auto|]); destruct Hin.
Qed.

(* (a) the writer's 2-part frame is interrupted between its parts by the attempts of two other
   threads (one blocks in <-c.mu, one fails the try-acquire and waits on its timer) ... *)
Example ex_a_interrupted :
  view (run (steps 0 5 ++ steps 1 3 ++ steps 2 3) ex_init) =
  (Some 0, None, [(0, 1, 1, false)], [(PW 1, []); (PAcq, []); (PWait, [])]).
Proof. vm_compute. reflexivity. Qed.
(* ... yet the log stays contiguous; the close frame goes out afterwards *)
Example ex_a_contiguous :
  view (run ex_sched_a ex_init) =
  (None, Some ECloseSent, [(0, 1, 1, false); (0, 1, 2, false); (1, 10, 1, true)],
   [(PPre, [(1, OK)]); (PPre, [(10, OK)]); (PWait, [])]).
Proof. vm_compute. reflexivity. Qed.

(* (b) a close by WriteControl lands between two frames of the writer's message; the writer's
   next frame returns EClosed and nothing follows the close frame in the log *)
Example ex_b_close_mid_message :
  view (run ex_sched_b ex_init) =
  (None, Some ECloseSent, [(0, 1, 1, false); (0, 1, 2, false); (1, 10, 1, true)],
   [(PPre, [(2, EClosed); (1, OK)]); (PPre, [(10, OK)]); (PPre, [])]).
Proof. vm_compute. reflexivity. Qed.

(* (c) a WriteControl with a future deadline times out while the writer holds the lock: nothing
   written, werr untouched, the lock still with the writer *)
Example ex_c_timeout :
  view (run ex_sched_c ex_init) =
  (Some 0, None, [], [(PSetDL, []); (PPre, []); (PPre, [(20, ETimeout)])]).
Proof. vm_compute. reflexivity. Qed.

(* (d) the racy pre-check passes (close written but not yet marked) and the check under the lock
   stops the writer: its message is never reported sent and nothing follows the close frame *)
Example ex_d_racy_precheck :
  view (run ex_sched_d ex_init) =
  (None, Some ECloseSent, [(1, 10, 1, true)],
   [(PPre, [(1, EClosed)]); (PPre, [(10, OK)]); (PPre, [])]).
Proof. vm_compute. reflexivity. Qed.

(* (e) Conn.Close() between the two Writes of a frame: the second Write fails, the connection is
   fail-stop, the later ping gets the sticky transport error and writes nothing *)
Example ex_e_transport_closed :
  view (run ex_sched_e ex_init2) =
  (None, Some ETransport, [(0, 1, 1, false)],
   [(PPre, [(1, EFailed)]); (PPre, [(30, OK)]); (PPre, [(20, EFailed)])]).
Proof. vm_compute. reflexivity. Qed.

(* the general theorems apply to these runs, e.g. *)
Example ex_b_theorem : forall sched, log (run (ex_sched_b ++ sched) ex_init) = log (run ex_sched_b ex_init).
Proof.
  intros sched. apply close_is_last_reachable; [exact ex_init_ok|].
  exists (1, 10, 1, true). vm_compute. auto.
Qed.

Print Assumptions run_inv.
Print Assumptions reachable_inv.
Print Assumptions close_is_last_run.
Print Assumptions calls_after_werr.
Print Assumptions calls_after_close_fail.
Print Assumptions calls_after_close_not_ok.
Print Assumptions calls_after_close_fail_reachable.
Print Assumptions frames_contiguous.
Print Assumptions frames_contiguous_ordered.
Print Assumptions frames_start_at_part_1.
Print Assumptions write_has_deadline.
Print Assumptions timeout_clean.
Print Assumptions dpast_never_locks.
Print Assumptions dpast_never_holds.
Print Assumptions fail_stop.
Print Assumptions mutual_exclusion.
Print Assumptions run_roles.
Print Assumptions ex_b_theorem.
Print Assumptions frames_increasing.
Print Assumptions close_is_last_reachable.
Print Assumptions fail_stop_reachable.
Print Assumptions timeout_clean_reachable.
Print Assumptions dpast_never_locks_reachable.
