(* The copy loop of messageWriter.Write and Close on a live, fault-free connection. *)
Require Import WS.Base.Bytes WS.gen.Consts WS.Spec.Frame WS.Proofs.FrameP WS.Model.Writer.
From RecordUpdate Require Import RecordSet.
Import RecordSetNotations.
Require Import WS.Proofs.WWBase WS.Proofs.WWInv.
Require Import WS.Proofs.PrepBase WS.Proofs.PrepFrames.
Ltac Zify.zify_post_hook ::= Z.div_mod_to_equations.

Definition rsv_of (b:bool) : N := if b then 4 else 0.

Lemma role_mkey_ok c s : Forall len4 (keys s) -> kc_ok (negb (w_server c)) (role_mkey c s).
Proof.
  intros H. unfold kc_ok, role_mkey. destruct (w_server c); cbn [negb]; [reflexivity|].
  exists (next_key s). split; [reflexivity|apply next_key_len4; exact H].
Qed.

Lemma keys_after_len4 c s s' : Forall len4 (keys s) ->
  keys s' = (if w_server c then keys s else tl (keys s)) -> Forall len4 (keys s').
Proof. intros H ->. destruct (w_server c); [exact H|apply tl_len4; exact H]. Qed.

Lemma copy_loop_nf c : 0 < cap c -> forall fuel p s m,
  werr s = None -> fail_at s = None -> cur s = Some m -> m_err m = None ->
  blen (m_buf m) <= cap c ->
  (is_control_ty (m_ftype m) = true -> blen (m_buf m) + blen p <= cap c) ->
  Forall len4 (keys s) ->
  (2 * length p + (if (blen (m_buf m) =? cap c)%N then 1 else 0) <= fuel)%nat ->
  exists s' l m',
    copy_loop fuel c p s = (None, s') /\ werr s' = None /\ fail_at s' = None /\ cur s' = Some m' /\
    Forall len4 (keys s') /\ cur_flate s' = cur_flate s /\ aux s' = aux s /\
    m_err m' = None /\ m_id m' = m_id m /\ blen (m_buf m') <= cap c /\
    m_ftype m' = after (m_ftype m) l /\ m_compress m' = (match l with [] => m_compress m | _ => false end) /\
    wire s' = wire s ++ encode_frames (ofr (m_ftype m) (rsv_of (m_compress m)) l) /\
    concat (map snd l) ++ m_buf m' = m_buf m ++ p /\
    Forall (fun x : kc => kc_ok (negb (w_server c)) (fst x) /\ blen (snd x) = cap c) l /\
    (l <> [] -> is_control_ty (m_ftype m) = false) /\
    (m_buf m' = [] -> p = [] /\ l = []).
Proof.
  intros Hcap. induction fuel as [|f IH]; intros p s m HW HF HC HM HB HCtl HK Hfuel.
  - destruct p as [|x p]; [|cbn [length] in Hfuel; lia].
    exists s, [], m. cbn [copy_loop after ofr encode_frames flat_map map concat List.app].
    rewrite !app_nil_r. repeat split; auto. intros X; contradiction.
  - destruct p as [|x p'].
    { exists s, [], m. cbn [copy_loop after ofr encode_frames flat_map map concat List.app].
      rewrite !app_nil_r. repeat split; auto. intros X; contradiction. }
    set (p := x :: p') in *.
    assert (Hp : 1 <= blen p) by (unfold p, blen; cbn [length]; lia).
    assert (Hlen : blen p = N.of_nat (length p)) by reflexivity.
    assert (Hstep : copy_loop (S f) c p s =
      (let room := cap c - blen (m_buf m) in
       if room =? 0 then
         let '(e, s0) := flush_frame c false [] m s in
         match e with Some e => (Some e, s0) | None => copy_loop f c p s0 end
       else
         let n := N.min room (blen p) in
         copy_loop f c (dropN n p) (s <| cur := Some (m <| m_buf := m_buf m ++ takeN n p |>) |>))).
    { unfold p. cbn [copy_loop]. rewrite HC. reflexivity. }
    rewrite Hstep. clear Hstep. cbv zeta.
    destruct (cap c - blen (m_buf m) =? 0) eqn:ER.
    + (* buffer full: flush a non-final frame *)
      assert (Hfull : blen (m_buf m) = cap c) by lia.
      assert (Hnc : is_control_ty (m_ftype m) = false).
      { destruct (is_control_ty (m_ftype m)) eqn:E; [|reflexivity]. specialize (HCtl eq_refl). lia. }
      destruct (flush_frame_nf c false [] m s HW HF HM) as (s1 & E & F1 & F2 & F3 & F4 & F5 & _ & F7 & F8);
        [rewrite Hnc; reflexivity|auto|].
      rewrite E. specialize (F5 eq_refl).
      set (m1 := m <| m_compress := false |> <| m_buf := [] |> <| m_ftype := c_continuationFrame |>) in *.
      assert (Hnot8 : (m_ftype m =? c_CloseMessage) = false).
      { destruct (m_ftype m =? c_CloseMessage) eqn:E8; [|reflexivity]. apply N.eqb_eq in E8.
        rewrite E8 in Hnc. discriminate Hnc. }
      rewrite Hnot8 in F2.
      assert (HK1 : Forall len4 (keys s1)) by (eapply keys_after_len4; eauto).
      destruct (IH p s1 m1 F2 F1 F4) as (s' & l & m' & G0 & G1 & G2 & G3 & G4 & G5 & G6 & G7 & G8 & G9 & G10 & G11 & G12 & G13 & G14 & G15 & G16);
        try assumption; try reflexivity.
      { change (blen (m_buf m1)) with 0. lia. }
      { intros X. discriminate X. }
      { change (blen (m_buf m1)) with 0. replace (0 =? cap c) with false by lia.
        rewrite Hfull, N.eqb_refl in Hfuel. lia. }
      exists s', ((role_mkey c s, m_buf m) :: l), m'.
      rewrite G0. split; [reflexivity|]. split; [exact G1|]. split; [exact G2|]. split; [exact G3|].
      split; [exact G4|]. split; [congruence|]. split; [congruence|]. split; [exact G7|].
      split; [exact G8|]. split; [exact G9|].
      split. { rewrite G10. cbn [after]. change (m_ftype m1) with 0. destruct l; reflexivity. }
      split. { rewrite G11. destruct l; reflexivity. }
      split. { rewrite G12, F8, app_nil_r. rewrite ofr_cons, encode_frames_cons. cbn [fst snd].
               rewrite <- app_assoc. reflexivity. }
      split. { cbn [map concat snd]. rewrite <- app_assoc, G13. reflexivity. }
      split. { constructor; [|exact G14]. cbn [fst snd]. split; [apply role_mkey_ok; exact HK|exact Hfull]. }
      split; [intros _; exact Hnc|].
      intros X. destruct (G16 X) as [Y _]. discriminate Y.
    + (* room left: copy what fits *)
      set (room := cap c - blen (m_buf m)) in *.
      set (n := N.min room (blen p)).
      assert (Hn1 : 1 <= n) by (unfold n; lia).
      set (m1 := m <| m_buf := m_buf m ++ takeN n p |>).
      set (s1 := s <| cur := Some m1 |>).
      assert (Hb1 : blen (m_buf m1) = blen (m_buf m) + n).
      { unfold m1. wsimpl. rewrite blen_app, blen_takeN. unfold n. lia. }
      assert (Hd : blen (dropN n p) = blen p - n) by apply blen_dropN.
      assert (Hdl : N.of_nat (length (dropN n p)) = blen p - n) by exact Hd.
      destruct (IH (dropN n p) s1 m1) as (s' & l & m' & G0 & G1 & G2 & G3 & G4 & G5 & G6 & G7 & G8 & G9 & G10 & G11 & G12 & G13 & G14 & G15 & G16);
        try assumption; try reflexivity.
      { rewrite Hb1. unfold n. lia. }
      { intros X. rewrite Hb1, Hd. specialize (HCtl X). lia. }
      { destruct (blen (m_buf m1) =? cap c); destruct (blen (m_buf m) =? cap c); lia. }
      exists s', l, m'. rewrite G0.
      split; [reflexivity|]. split; [exact G1|]. split; [exact G2|]. split; [exact G3|].
      split; [exact G4|]. split; [exact G5|]. split; [exact G6|]. split; [exact G7|].
      split; [exact G8|]. split; [exact G9|]. split; [exact G10|]. split; [exact G11|].
      split; [exact G12|].
      split. { rewrite G13. unfold m1. wsimpl. rewrite <- app_assoc, takeN_app_dropN. reflexivity. }
      split; [exact G14|]. split; [exact G15|].
      intros X. destruct (G16 X) as [Y Z]. exfalso. subst l. cbn [map concat List.app] in G13.
      assert (B : blen (m_buf m') = blen (m_buf m1 ++ dropN n p)) by (rewrite G13; reflexivity).
      rewrite X, blen_app, Hb1 in B. change (blen []) with 0 in B. lia.
Qed.
