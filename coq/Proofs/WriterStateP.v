(* Invariants of the executable model of the gorilla/websocket WRITE path (WS.Model.Writer):
   T1 sticky error freezes the transport, T2 calls fail after a close frame, T3 a transport
   failure sets the sticky error at once, T4 invalid requests write nothing and do not poison,
   T5 every Write is preceded by its SetWriteDeadline, T6 the buffer-pool discipline.
   Every theorem holds for every configuration, program, key oracle and fault plan. *)
Require Import WS.Base.Bytes WS.gen.Consts WS.Model.Writer.
From RecordUpdate Require Import RecordSet.
Import RecordSetNotations.
Ltac Zify.zify_post_hook ::= Z.div_mod_to_equations.

(* ====================================================================== *)
(* Part 1: definitions, the Delta algebra, primitives (t_setdl, t_write, keyed_write, conn_write,
   write_control). *)

Ltac wsimpl := cbn [set held cur cur_flate fl ended app app_flate werr deadline wcomp level revs keys tops
                    fail_at nextid oracle_short m_id m_buf m_ftype m_compress m_err f_id f_open f_tw f_err] in *.

(* ------------------------------------------------------------------ *)
(* event classification *)
Definition is_tr (e:tev) : bool := match e with TGet | TPut => false | _ => true end.
Definition transport_evs (l:list tev) : list tev :=
  filter (fun e => match e with TGet | TPut => false | _ => true end) l.
Definition pool_evs (l:list tev) : list tev := filter (fun e => negb (is_tr e)) l.
Definition is_fail (e:tev) : bool := match e with TSetDLFail _ | TWriteFail _ => true | _ => false end.
Definition has_fail (l:list tev) : bool := existsb is_fail l.
Definition tr_only (l:list tev) : bool := forallb is_tr l.
(* the deadline carried by a SetWriteDeadline event *)
Definition dl_is (P:N -> Prop) (e:tev) : Prop :=
  match e with TSetDL x | TSetDLFail x => P x | _ => True end.

Lemma transport_evs_app a b : transport_evs (a ++ b) = transport_evs a ++ transport_evs b.
Proof. apply filter_app. Qed.
Lemma pool_evs_app a b : pool_evs (a ++ b) = pool_evs a ++ pool_evs b.
Proof. apply filter_app. Qed.
Lemma has_fail_app a b : has_fail (a ++ b) = has_fail a || has_fail b.
Proof. apply existsb_app. Qed.
Lemma tr_only_app a b : tr_only (a ++ b) = tr_only a && tr_only b.
Proof. apply forallb_app. Qed.
Lemma tr_only_pool d : tr_only d = true -> pool_evs d = [].
Proof.
  induction d as [|e d IH]; [reflexivity|]. cbn [tr_only forallb pool_evs filter].
  intros H. apply andb_true_iff in H. destruct H as [He Hd]. rewrite He. cbn [negb]. apply IH, Hd.
Qed.
Lemma transport_evs_rev l : transport_evs (rev l) = rev (transport_evs l).
Proof.
  induction l as [|e l IH]; [reflexivity|]. cbn [rev]. rewrite transport_evs_app, IH.
  unfold transport_evs. cbn [filter]. destruct e; cbn [rev]; try reflexivity; apply app_nil_r.
Qed.

(* ------------------------------------------------------------------ *)
(* What one Conn.write / WriteControl call logs (most recent first) together with the value of
   c.writeErr it leaves behind *)
Inductive group (dl:N) : list tev -> option werror -> Prop :=
| g_dlfail e : group dl [TSetDLFail dl] (Some e)
| g_w1fail b e : group dl [TWriteFail b; TSetDL dl] (Some e)
| g_w2fail b1 b2 e : group dl [TWriteFail b2; TWrite b1; TSetDL dl] (Some e)
| g_ok1 b w : group dl [TWrite b; TSetDL dl] w
| g_ok2 b1 b2 w : group dl [TWrite b2; TWrite b1; TSetDL dl] w.

Lemma group_tr_only dl g w : group dl g w -> tr_only g = true.
Proof. destruct 1; reflexivity. Qed.
Lemma group_fail dl g w : group dl g w -> has_fail g = true -> w <> None.
Proof. destruct 1; cbn; intros; congruence. Qed.
Lemma group_nonempty dl g w : group dl g w -> transport_evs g <> [].
Proof. destruct 1; cbn; congruence. Qed.

(* The log suffix [d] (most recent first) a piece of code may add when it starts with
   c.writeErr = w and ends with c.writeErr = w'.  [P] constrains the deadlines used. *)
Inductive Delta (P:N -> Prop) : option werror -> list tev -> option werror -> Prop :=
| D_nil w : Delta P w [] w
| D_pool w d w' e : Delta P w d w' -> is_tr e = false -> Delta P w (e :: d) w'
| D_poison w d e : Delta P w d None -> Delta P w d (Some e)
| D_group w d dl g w' : Delta P w d None -> P dl -> group dl g w' -> Delta P w (g ++ d) w'.

Lemma Delta_trans P w d1 w1 d2 w2 :
  Delta P w d1 w1 -> Delta P w1 d2 w2 -> Delta P w (d2 ++ d1) w2.
Proof.
  intros H1 H2. induction H2.
  - exact H1.
  - cbn [app]. apply D_pool; auto.
  - apply D_poison; auto.
  - rewrite <- app_assoc. eapply D_group; eauto.
Qed.

Lemma Delta_mono (P Q:N -> Prop) w d w' : (forall x, P x -> Q x) -> Delta P w d w' -> Delta Q w d w'.
Proof.
  intros HPQ H. induction H.
  - apply D_nil.
  - apply D_pool; auto.
  - apply D_poison; auto.
  - eapply D_group; eauto.
Qed.

(* once the sticky error is set: frozen *)
Lemma Delta_some P e d w' : Delta P (Some e) d w' -> w' = Some e /\ transport_evs d = [].
Proof.
  intros H. remember (Some e) as w eqn:Hw. induction H.
  - auto.
  - destruct (IHDelta Hw) as [-> Ht]. split; [reflexivity|].
    cbn [transport_evs filter]. destruct e0; try discriminate; exact Ht.
  - destruct (IHDelta Hw) as [Hx _]. congruence.
  - destruct (IHDelta Hw) as [Hx _]. congruence.
Qed.

(* a failure event forces the sticky error *)
Lemma Delta_fail P w d w' : Delta P w d w' -> has_fail d = true -> w' <> None.
Proof.
  intros H. induction H; intros Hf.
  - discriminate.
  - cbn [has_fail existsb] in Hf. destruct e; try discriminate; cbn [is_fail orb] in Hf; auto.
  - congruence.
  - rewrite has_fail_app in Hf. apply orb_true_iff in Hf. destruct Hf as [Hf|Hf].
    + eapply group_fail; eauto.
    + exfalso. apply IHDelta; auto.
Qed.

Lemma Delta_dl P w d w' : Delta P w d w' -> Forall (dl_is P) d.
Proof.
  intros H. induction H.
  - constructor.
  - constructor; auto. destruct e; try discriminate; exact I.
  - auto.
  - apply Forall_app. split; auto. destruct H1; repeat constructor; auto.
Qed.

(* ------------------------------------------------------------------ *)
(* The footprint relation *)
Definition FP (dl:N) (s s':wst) : Prop :=
  (exists d, revs s' = d ++ revs s /\ Delta (eq dl) (werr s) d (werr s')) /\ deadline s' = deadline s.

Lemma FP_refl dl s : FP dl s s.
Proof. split; [|reflexivity]. exists []. split; [reflexivity|apply D_nil]. Qed.

Lemma FP_trans dl s s1 s2 : FP dl s s1 -> FP dl s1 s2 -> FP dl s s2.
Proof.
  intros [(d1 & Hr1 & HD1) Hd1] [(d2 & Hr2 & HD2) Hd2]. split; [|congruence].
  exists (d2 ++ d1). split.
  - rewrite Hr2, Hr1. apply app_assoc.
  - eapply Delta_trans; eauto.
Qed.

(* an update that touches neither the log, nor writeErr, nor the deadline *)
Lemma FP_same dl s s1 s2 :
  FP dl s s1 -> revs s2 = revs s1 -> werr s2 = werr s1 -> deadline s2 = deadline s1 -> FP dl s s2.
Proof.
  intros [(d1 & Hr1 & HD1) Hd1] Hr Hw Hd. split; [|congruence].
  exists d1. rewrite Hr, Hw. auto.
Qed.

Lemma FP_pool dl s s1 s2 e :
  FP dl s s1 -> is_tr e = false -> revs s2 = e :: revs s1 -> werr s2 = werr s1 -> deadline s2 = deadline s1 ->
  FP dl s s2.
Proof.
  intros [(d1 & Hr1 & HD1) Hd1] He Hr Hw Hd. split; [|congruence].
  exists (e :: d1). rewrite Hr, Hw, Hr1. split; [reflexivity|]. apply D_pool; auto.
Qed.

Ltac fp_same := eapply FP_same; [ | wsimpl; reflexivity | wsimpl; reflexivity | wsimpl; reflexivity ].

(* ------------------------------------------------------------------ *)
(* the part of the state that transport operations never touch *)
Definition core (s:wst) :=
  (held s, cur s, cur_flate s, fl s, ended s, app s, app_flate s, deadline s, wcomp s, level s, nextid s).

Lemma core_held s s' : core s' = core s -> held s' = held s. Proof. unfold core; congruence. Qed.
Lemma core_cur s s' : core s' = core s -> cur s' = cur s. Proof. unfold core; congruence. Qed.
Lemma core_cur_flate s s' : core s' = core s -> cur_flate s' = cur_flate s. Proof. unfold core; congruence. Qed.
Lemma core_fl s s' : core s' = core s -> fl s' = fl s. Proof. unfold core; congruence. Qed.
Lemma core_ended s s' : core s' = core s -> ended s' = ended s. Proof. unfold core; congruence. Qed.
Lemma core_app s s' : core s' = core s -> app s' = app s. Proof. unfold core; congruence. Qed.
Lemma core_app_flate s s' : core s' = core s -> app_flate s' = app_flate s. Proof. unfold core; congruence. Qed.
Lemma core_deadline s s' : core s' = core s -> deadline s' = deadline s. Proof. unfold core; congruence. Qed.
Lemma core_wcomp s s' : core s' = core s -> wcomp s' = wcomp s. Proof. unfold core; congruence. Qed.
Lemma core_nextid s s' : core s' = core s -> nextid s' = nextid s. Proof. unfold core; congruence. Qed.

(* ------------------------------------------------------------------ *)
(* primitives *)
Lemma write_fatal_core e s : core (write_fatal e s) = core s.
Proof. unfold write_fatal. destruct (werr s); reflexivity. Qed.
Lemma write_fatal_revs e s : revs (write_fatal e s) = revs s.
Proof. unfold write_fatal. destruct (werr s); reflexivity. Qed.
Lemma write_fatal_none e s : werr s = None -> werr (write_fatal e s) = Some e.
Proof. unfold write_fatal. intros ->. reflexivity. Qed.
Lemma write_fatal_some e s x : werr s = Some x -> write_fatal e s = s.
Proof. unfold write_fatal. intros ->. reflexivity. Qed.
Lemma write_fatal_werr e s : werr (write_fatal e s) <> None.
Proof. unfold write_fatal. destruct (werr s) eqn:H; wsimpl; congruence. Qed.

Lemma write_fatal_FP dl e s : FP dl s (write_fatal e s).
Proof.
  split.
  - exists []. rewrite write_fatal_revs. split; [reflexivity|].
    destruct (werr s) eqn:Hw.
    + rewrite (write_fatal_some _ _ _ Hw), Hw. apply D_nil.
    + rewrite (write_fatal_none _ _ Hw). apply D_poison, D_nil.
  - apply core_deadline, write_fatal_core.
Qed.

Lemma t_setdl_spec d s e s1 : t_setdl d s = (e, s1) ->
  core s1 = core s /\ werr s1 = werr s /\
  ((e = None /\ revs s1 = TSetDL d :: revs s) \/ (e <> None /\ revs s1 = TSetDLFail d :: revs s)).
Proof.
  unfold t_setdl, next_fault, log. wsimpl. intros H.
  destruct (fail_at s) as [[k f]|]; [destruct (Nat.eqb k (tops s))|];
    inversion H; subst; wsimpl; (split; [reflexivity|]); (split; [reflexivity|]);
    solve [left; split; reflexivity | right; split; [discriminate|reflexivity]].
Qed.

Lemma t_write_spec b s e s1 : t_write b s = (e, s1) ->
  core s1 = core s /\ werr s1 = werr s /\
  ((e = None /\ revs s1 = TWrite b :: revs s) \/ (e <> None /\ exists b', revs s1 = TWriteFail b' :: revs s)).
Proof.
  unfold t_write, next_fault, log. wsimpl. intros H.
  destruct (fail_at s) as [[k f]|]; [destruct (Nat.eqb k (tops s)); [destruct f|]|];
    inversion H; subst; wsimpl; (split; [reflexivity|]); (split; [reflexivity|]);
    solve [left; split; reflexivity | right; split; [discriminate|eexists; reflexivity]].
Qed.

Lemma keyed_write_spec masked mk s e s1 : keyed_write masked mk s = (e, s1) ->
  core s1 = core s /\ werr s1 = werr s /\
  ((e = None /\ exists b, revs s1 = TWrite b :: revs s) \/
   (e <> None /\ exists b', revs s1 = TWriteFail b' :: revs s)).
Proof.
  unfold keyed_write, pop_key. intros H.
  assert (G : forall s0 b, core s0 = core s -> werr s0 = werr s -> revs s0 = revs s ->
            t_write b s0 = (e, s1) ->
            core s1 = core s /\ werr s1 = werr s /\
            ((e = None /\ exists b, revs s1 = TWrite b :: revs s) \/
             (e <> None /\ exists b', revs s1 = TWriteFail b' :: revs s))).
  { intros s0 b Hc Hw Hr Ht. apply t_write_spec in Ht. destruct Ht as (Hc1 & Hw1 & Hcase).
    split; [congruence|]. split; [congruence|]. rewrite Hr in Hcase.
    destruct Hcase as [(-> & Hx)|(Hne & Hx)]; [left|right]; split; auto. eauto. }
  destruct masked.
  - destruct (keys s) as [|k r]; eapply G; try exact H; reflexivity.
  - eapply G; try exact H; reflexivity.
Qed.

(* ---- Conn.write ---- *)
Definition cw_post (ft dl:N) (s:wst) (e:option werror) (s':wst) : Prop :=
  core s' = core s /\
  ((exists e0, werr s = Some e0 /\ e = Some e0 /\ s' = s) \/
   (werr s = None /\ exists g, revs s' = g ++ revs s /\ group dl g (werr s') /\
      match e with
      | None => werr s' = (if ft =? c_CloseMessage then Some WCloseSent else None) /\ has_fail g = false
      | Some x => werr s' = Some x /\ has_fail g = true
      end)).

Lemma conn_write_spec ft dl masked mk b1 s e s' :
  conn_write ft dl masked mk b1 s = (e, s') -> cw_post ft dl s e s'.
Proof.
  unfold conn_write, cw_post. intros H. destruct (werr s) eqn:Hw.
  { inversion H; subst. split; [reflexivity|]. left. eauto. }
  destruct (t_setdl dl s) as [e1 s1] eqn:H1. apply t_setdl_spec in H1.
  destruct H1 as (Hc1 & Hw1 & [(-> & Hr1)|(Hne1 & Hr1)]).
  2:{ destruct e1 as [x|]; [|congruence]. inversion H; subst.
      split; [rewrite write_fatal_core; exact Hc1|]. right. split; [reflexivity|].
      exists [TSetDLFail dl]. rewrite write_fatal_revs, Hr1. split; [reflexivity|].
      rewrite write_fatal_none by congruence. split; [constructor|]. split; reflexivity. }
  destruct (keyed_write masked mk s1) as [e2 s2] eqn:H2. apply keyed_write_spec in H2.
  destruct H2 as (Hc2 & Hw2 & [(-> & b & Hr2)|(Hne2 & b & Hr2)]).
  2:{ destruct e2 as [x|]; [|congruence]. inversion H; subst.
      split; [rewrite write_fatal_core; congruence|]. right. split; [reflexivity|].
      exists [TWriteFail b; TSetDL dl]. rewrite write_fatal_revs, Hr2, Hr1. split; [reflexivity|].
      rewrite write_fatal_none by congruence. split; [constructor|]. split; reflexivity. }
  destruct b1 as [|y b1].
  { inversion H; subst. destruct (ft =? c_CloseMessage).
    - split; [rewrite write_fatal_core; congruence|]. right. split; [reflexivity|].
      exists [TWrite b; TSetDL dl]. rewrite write_fatal_revs, Hr2, Hr1. split; [reflexivity|].
      rewrite write_fatal_none by congruence. split; [constructor|]. split; reflexivity.
    - split; [congruence|]. right. split; [reflexivity|].
      exists [TWrite b; TSetDL dl]. rewrite Hr2, Hr1. split; [reflexivity|].
      split; [constructor|]. split; [congruence|reflexivity]. }
  destruct (t_write (y :: b1) s2) as [e3 s3] eqn:H3. apply t_write_spec in H3.
  destruct H3 as (Hc3 & Hw3 & [(-> & Hr3)|(Hne3 & b' & Hr3)]).
  2:{ destruct e3 as [x|]; [|congruence]. inversion H; subst.
      split; [rewrite write_fatal_core; congruence|]. right. split; [reflexivity|].
      exists [TWriteFail b'; TWrite b; TSetDL dl]. rewrite write_fatal_revs, Hr3, Hr2, Hr1. split; [reflexivity|].
      rewrite write_fatal_none by congruence. split; [constructor|]. split; reflexivity. }
  inversion H; subst. destruct (ft =? c_CloseMessage).
  - split; [rewrite write_fatal_core; congruence|]. right. split; [reflexivity|].
    exists [TWrite (y :: b1); TWrite b; TSetDL dl]. rewrite write_fatal_revs, Hr3, Hr2, Hr1. split; [reflexivity|].
    rewrite write_fatal_none by congruence. split; [constructor|]. split; reflexivity.
  - split; [congruence|]. right. split; [reflexivity|].
    exists [TWrite (y :: b1); TWrite b; TSetDL dl]. rewrite Hr3, Hr2, Hr1. split; [reflexivity|].
    split; [constructor|]. split; [congruence|reflexivity].
Qed.

Lemma cw_post_FP ft dl s e s' : cw_post ft dl s e s' -> FP dl s s'.
Proof.
  intros [Hc [(e0 & Hw & -> & ->)|(Hw & g & Hr & Hg & _)]].
  - apply FP_refl.
  - split; [|apply core_deadline, Hc]. exists g. split; [exact Hr|].
    rewrite Hw. rewrite <- (app_nil_r g). eapply D_group; [apply D_nil|reflexivity|exact Hg].
Qed.

Lemma cw_post_tr ft dl s e s' : cw_post ft dl s e s' -> exists d, revs s' = d ++ revs s /\ tr_only d = true.
Proof.
  intros [Hc [(e0 & Hw & -> & ->)|(Hw & g & Hr & Hg & _)]].
  - exists []. auto.
  - exists g. split; auto. eapply group_tr_only; eauto.
Qed.

Lemma cw_post_err ft dl s e s' x : cw_post ft dl s e s' -> werr s = Some x -> e = Some x /\ s' = s.
Proof.
  intros [Hc [(e0 & Hw & -> & ->)|(Hw & _)]] Hx; [|congruence]. split; congruence.
Qed.

(* a failed write leaves the sticky error set *)
Lemma cw_post_fails ft dl s e s' x : cw_post ft dl s e s' -> e = Some x -> werr s' = Some x.
Proof.
  intros [Hc [(e0 & Hw & He & ->)|(Hw & g & Hr & Hg & He)]] Hx.
  - congruence.
  - subst e. apply He.
Qed.

(* ---- WriteControl ---- *)
Lemma write_control_spec c ty d dl s e s' :
  write_control c ty d dl s = (e, s') ->
  (is_control_ty ty = false /\ e = Some WBadOpCode /\ s' = s) \/
  (is_control_ty ty = true /\ 125 < blen d /\ e = Some WInvalidControl /\ s' = s) \/
  (is_control_ty ty = true /\ blen d <= 125 /\ dl = 1 /\ e = Some WWriteTimeout /\ s' = s) \/
  (is_control_ty ty = true /\ blen d <= 125 /\ dl <> 1 /\ cw_post ty dl s e s').
Proof.
  unfold write_control. intros H.
  destruct (is_control_ty ty) eqn:Hty; cbn [negb] in H.
  2:{ left. inversion H; auto. }
  right. unfold c_maxControlFramePayloadSize in H.
  destruct (125 <? blen d) eqn:Hlen.
  { left. inversion H. repeat split; auto. lia. }
  right. destruct (dl =? 1) eqn:Hdl.
  { left. inversion H. repeat split; auto; lia. }
  right. split; [reflexivity|]. split; [lia|]. split; [lia|].
  unfold cw_post. destruct (werr s) eqn:Hw.
  { inversion H; subst. split; [reflexivity|]. left. eauto. }
  destruct (t_setdl dl s) as [e1 s1] eqn:H1. apply t_setdl_spec in H1.
  destruct H1 as (Hc1 & Hw1 & [(-> & Hr1)|(Hne1 & Hr1)]).
  2:{ destruct e1 as [x|]; [|congruence]. inversion H; subst.
      split; [rewrite write_fatal_core; exact Hc1|]. right. split; [reflexivity|].
      exists [TSetDLFail dl]. rewrite write_fatal_revs, Hr1. split; [reflexivity|].
      rewrite write_fatal_none by congruence. split; [constructor|]. split; reflexivity. }
  destruct (keyed_write _ _ s1) as [e2 s2] eqn:H2. apply keyed_write_spec in H2.
  destruct H2 as (Hc2 & Hw2 & [(-> & b & Hr2)|(Hne2 & b & Hr2)]).
  2:{ destruct e2 as [x|]; [|congruence]. inversion H; subst.
      split; [rewrite write_fatal_core; congruence|]. right. split; [reflexivity|].
      exists [TWriteFail b; TSetDL dl]. rewrite write_fatal_revs, Hr2, Hr1. split; [reflexivity|].
      rewrite write_fatal_none by congruence. split; [constructor|]. split; reflexivity. }
  inversion H; subst. destruct (ty =? c_CloseMessage).
  - split; [rewrite write_fatal_core; congruence|]. right. split; [reflexivity|].
    exists [TWrite b; TSetDL dl]. rewrite write_fatal_revs, Hr2, Hr1. split; [reflexivity|].
    rewrite write_fatal_none by congruence. split; [constructor|]. split; reflexivity.
  - split; [congruence|]. right. split; [reflexivity|].
    exists [TWrite b; TSetDL dl]. rewrite Hr2, Hr1. split; [reflexivity|].
    split; [constructor|]. split; [congruence|reflexivity].
Qed.

Lemma write_control_FP c ty d dl s e s' : write_control c ty d dl s = (e, s') -> FP dl s s'.
Proof.
  intros H. apply write_control_spec in H.
  destruct H as [(_ & _ & ->)|[(_ & _ & _ & ->)|[(_ & _ & _ & _ & ->)|(_ & _ & _ & H)]]];
    try apply FP_refl. eapply cw_post_FP; eauto.
Qed.

Lemma write_control_core c ty d dl s e s' : write_control c ty d dl s = (e, s') -> core s' = core s.
Proof.
  intros H. apply write_control_spec in H.
  destruct H as [(_ & _ & ->)|[(_ & _ & _ & ->)|[(_ & _ & _ & _ & ->)|(_ & _ & _ & H)]]];
    try reflexivity. apply H.
Qed.

Lemma write_control_tr c ty d dl s e s' : write_control c ty d dl s = (e, s') ->
  exists g, revs s' = g ++ revs s /\ tr_only g = true.
Proof.
  intros H. apply write_control_spec in H.
  destruct H as [(_ & _ & ->)|[(_ & _ & _ & ->)|[(_ & _ & _ & _ & ->)|(_ & _ & _ & H)]]];
    try (exists []; split; reflexivity). eapply cw_post_tr; eauto.
Qed.

(* ====================================================================== *)
(* Part 2: the transport footprint of every function of the write path *)

Ltac inv H := inversion H; subst; clear H.

Lemma FP_trans' s s1 s2 : FP (deadline s) s s1 -> FP (deadline s1) s1 s2 -> FP (deadline s) s s2.
Proof. intros H1 H2. destruct H1 as [Ha Hb]. rewrite Hb in H2. eapply FP_trans; eauto. split; auto. Qed.

Lemma end_message_FP dl c e m s0 s : FP dl s0 s -> FP dl s0 (end_message c e m s).
Proof.
  intros H. unfold end_message. destruct (m_err m); [exact H|].
  destruct (w_pooled c).
  - eapply (FP_pool dl s0 s _ TPut); [exact H|reflexivity| | | ]; unfold log; wsimpl; reflexivity.
  - fp_same. exact H.
Qed.

Lemma flush_frame_FP c final extra m s e s' :
  flush_frame c final extra m s = (e, s') -> FP (deadline s) s s'.
Proof.
  unfold flush_frame. intros H.
  destruct (is_control_ty (m_ftype m) && _).
  { inv H. apply end_message_FP, FP_refl. }
  wsimpl. destruct (w_server c).
  - destruct (conn_write _ _ _ _ _ _) as [e1 s1] eqn:Hc.
    apply conn_write_spec, cw_post_FP in Hc. wsimpl.
    assert (H0 : FP (deadline s) s s1).
    { eapply FP_trans; [|exact Hc]. fp_same. apply FP_refl. }
    destruct e1; [|destruct final]; inv H.
    + apply end_message_FP; auto.
    + apply end_message_FP; auto.
    + fp_same. exact H0.
  - destruct extra.
    + destruct (conn_write _ _ _ _ _ _) as [e1 s1] eqn:Hc.
      apply conn_write_spec, cw_post_FP in Hc. wsimpl.
      assert (H0 : FP (deadline s) s s1).
      { eapply FP_trans; [|exact Hc]. fp_same. apply FP_refl. }
      destruct e1; [|destruct final]; inv H.
      * apply end_message_FP; auto.
      * apply end_message_FP; auto.
      * fp_same. exact H0.
    + inv H. apply end_message_FP. eapply FP_trans; [|apply write_fatal_FP]. fp_same. apply FP_refl.
Qed.

Lemma copy_loop_FP c fuel : forall p s e s', copy_loop fuel c p s = (e, s') -> FP (deadline s) s s'.
Proof.
  induction fuel as [|f IH]; intros p s e s' H; destruct p as [|b p]; cbn [copy_loop] in H.
  - inv H. apply FP_refl.
  - inv H. fp_same. apply FP_refl.
  - inv H. apply FP_refl.
  - destruct (cur s) as [m|]; [|inv H; apply FP_refl].
    destruct (_ =? 0).
    + destruct (flush_frame _ _ _ _ _) as [e1 s1] eqn:Hf. apply flush_frame_FP in Hf.
      destruct e1; [inv H; exact Hf|]. apply IH in H. eapply FP_trans'; eauto.
    + apply IH in H. wsimpl. eapply FP_trans; [|exact H]. fp_same. apply FP_refl.
Qed.

Lemma mw_write_FP c p s e s' : mw_write c p s = (e, s') -> FP (deadline s) s s'.
Proof.
  unfold mw_write. intros H. destruct (cur s); [|inv H; apply FP_refl].
  destruct (_ && _); [eapply flush_frame_FP|eapply copy_loop_FP]; eauto.
Qed.

Lemma mw_write_string_FP c p s e s' : mw_write_string c p s = (e, s') -> FP (deadline s) s s'.
Proof.
  unfold mw_write_string. intros H. destruct (cur s); [|inv H; apply FP_refl].
  eapply copy_loop_FP; eauto.
Qed.

Lemma put_byte_deadline b s : deadline (put_byte b s) = deadline s.
Proof. unfold put_byte. destruct (cur s); wsimpl; reflexivity. Qed.

Lemma put_byte_FP dl b s0 s : FP dl s0 s -> FP dl s0 (put_byte b s).
Proof. intros H. unfold put_byte. destruct (cur s); [|exact H]. fp_same. exact H. Qed.

Lemma read_from_FP c fuel : forall chunks s e s', read_from fuel c chunks s = (e, s') -> FP (deadline s) s s'.
Proof.
  induction fuel as [|f IH]; intros chunks s e s' H; cbn [read_from] in H.
  - inv H. fp_same. apply FP_refl.
  - destruct (cur s) as [m|]; [|inv H; apply FP_refl].
    destruct (_ =? 0).
    + destruct chunks as [|[|b ch'] rest]; [inv H; apply FP_refl| |].
      { destruct rest as [|r1 rest1]; [inv H; apply FP_refl|]. apply IH in H. exact H. }
      destruct (flush_frame _ _ _ _ _) as [e1 s1] eqn:Hf. apply flush_frame_FP in Hf.
      destruct e1; [inv H; exact Hf|].
      assert (Hp : FP (deadline s) s (put_byte b s1)) by (apply put_byte_FP; exact Hf).
      assert (Hd : deadline (put_byte b s1) = deadline s1) by apply put_byte_deadline.
      destruct ch' as [|b1 ch1]; [destruct rest as [|r1 rest1]|].
      * inv H. exact Hp.
      * apply IH in H. eapply FP_trans'; [exact Hf|]. rewrite <- Hd.
        eapply FP_trans; [|exact H]. rewrite Hd. apply put_byte_FP, FP_refl.
      * apply IH in H. eapply FP_trans'; [exact Hf|]. rewrite <- Hd.
        eapply FP_trans; [|exact H]. rewrite Hd. apply put_byte_FP, FP_refl.
    + destruct chunks as [|ch rest]; [inv H; apply FP_refl|].
      destruct (dropN _ ch) as [|r0 rem]; [destruct rest as [|r1 rest1]|].
      * inv H. fp_same. apply FP_refl.
      * apply IH in H. wsimpl. eapply FP_trans; [|exact H]. fp_same. apply FP_refl.
      * apply IH in H. wsimpl. eapply FP_trans; [|exact H]. fp_same. apply FP_refl.
Qed.

Lemma mw_close_FP c s e s' : mw_close c s = (e, s') -> FP (deadline s) s s'.
Proof.
  unfold mw_close. intros H. destruct (cur s); [|inv H; apply FP_refl].
  eapply flush_frame_FP; eauto.
Qed.

Lemma trunc_write_FP c p f s e f' s' : trunc_write c p f s = (e, f', s') -> FP (deadline s) s s'.
Proof.
  unfold trunc_write. intros H. destruct (dropN _ p) as [|b r]; [inv H; apply FP_refl|].
  destruct (mw_write _ _ s) as [e1 s1] eqn:H1. apply mw_write_FP in H1.
  destruct e1; [inv H; exact H1|].
  destruct (mw_write _ _ s1) as [e2 s2] eqn:H2. apply mw_write_FP in H2.
  inv H. eapply FP_trans'; eauto.
Qed.

Lemma flate_emit_FP c chunks : forall f s f' s', flate_emit c chunks f s = (f', s') -> FP (deadline s) s s'.
Proof.
  induction chunks as [|ch rest IH]; intros f s f' s' H; cbn [flate_emit] in H.
  - inv H. apply FP_refl.
  - destruct (f_err f); [inv H; apply FP_refl|].
    destruct (trunc_write c ch f s) as [[e1 f1] s1] eqn:H1. apply trunc_write_FP in H1.
    destruct e1; [inv H; exact H1|]. apply IH in H. eapply FP_trans'; eauto.
Qed.

Lemma flate_write_FP c chunks f s e s' : flate_write c chunks f s = (e, s') -> FP (deadline s) s s'.
Proof.
  unfold flate_write. intros H. destruct (negb (f_open f)); [inv H; apply FP_refl|].
  destruct (flate_emit c chunks f s) as [f1 s1] eqn:H1. apply flate_emit_FP in H1.
  inv H. fp_same. exact H1.
Qed.

Lemma flate_close_FP c chunks f s e s' : flate_close c chunks f s = (e, s') -> FP (deadline s) s s'.
Proof.
  unfold flate_close. intros H. destruct (negb (f_open f)); [inv H; apply FP_refl|].
  destruct (flate_emit c chunks f s) as [f1 s1] eqn:H1. apply flate_emit_FP in H1.
  wsimpl. destruct (negb (beq _ _)).
  { inv H. fp_same. exact H1. }
  destruct (is_cur _ _).
  - destruct (mw_close c _) as [e2 s2] eqn:H2. apply mw_close_FP in H2. wsimpl. inv H.
    eapply FP_trans'; [exact H1|]. eapply FP_trans; [|exact H2]. fp_same. apply FP_refl.
  - inv H. fp_same. exact H1.
Qed.

Lemma close_current_FP c ic s : FP (deadline s) s (close_current c ic s).
Proof.
  unfold close_current. destruct (cur s); [|apply FP_refl].
  fp_same. destruct (cur_flate s).
  - destruct (fl s); [|apply FP_refl].
    destruct (flate_close c ic f s) as [e1 s1] eqn:H1. apply flate_close_FP in H1. exact H1.
  - destruct (mw_close c s) as [e1 s1] eqn:H1. apply mw_close_FP in H1. exact H1.
Qed.

Lemma begin_message_FP c ty ic s e s' : begin_message c ty ic s = (e, s') -> FP (deadline s) s s'.
Proof.
  unfold begin_message. intros H. pose proof (close_current_FP c ic s) as H1.
  destruct (_ && _); [inv H; exact H1|].
  destruct (werr _); [inv H; exact H1|].
  destruct (held _); inv H; [exact H1|].
  eapply (FP_pool _ s (close_current c ic s) _ TGet); [exact H1|reflexivity| | |]; unfold log; wsimpl; reflexivity.
Qed.

Lemma next_writer_FP c ty ic s e s' : next_writer c ty ic s = (e, s') -> FP (deadline s) s s'.
Proof.
  unfold next_writer, new_mw. intros H.
  destruct (begin_message c ty ic s) as [e1 s1] eqn:H1. apply begin_message_FP in H1.
  destruct e1; [inv H; exact H1|].
  destruct (_ && _); inv H; fp_same; exact H1.
Qed.

Lemma app_write_FP c sv p wc s e s' : app_write c sv p wc s = (e, s') -> FP (deadline s) s s'.
Proof.
  unfold app_write. intros H. destruct (app s); [|inv H; apply FP_refl].
  destruct (app_flate s).
  - destruct (fl s); [|inv H; apply FP_refl].
    destruct (Nat.eqb _ _); [|inv H; apply FP_refl]. eapply flate_write_FP; eauto.
  - destruct (is_cur _ _); [|inv H; apply FP_refl].
    destruct sv; [eapply mw_write_string_FP|eapply mw_write_FP]; eauto.
Qed.

Lemma app_read_from_FP c chunks s e s' : app_read_from c chunks s = (e, s') -> FP (deadline s) s s'.
Proof.
  unfold app_read_from. intros H. destruct (app s); [|inv H; apply FP_refl].
  destruct (app_flate s); [inv H; apply FP_refl|].
  destruct (is_cur _ _); [|inv H; apply FP_refl]. eapply read_from_FP; eauto.
Qed.

Lemma app_close_FP c cc s e s' : app_close c cc s = (e, s') -> FP (deadline s) s s'.
Proof.
  unfold app_close. intros H. destruct (app s); [|inv H; apply FP_refl].
  destruct (app_flate s).
  - destruct (fl s); [|inv H; apply FP_refl].
    destruct (Nat.eqb _ _); [|inv H; apply FP_refl]. eapply flate_close_FP; eauto.
  - destruct (is_cur _ _); [|inv H; apply FP_refl]. eapply mw_close_FP; eauto.
Qed.

Lemma write_message_FP c ty data ic wc cc s e s' :
  write_message c ty data ic wc cc s = (e, s') -> FP (deadline s) s s'.
Proof.
  unfold write_message, new_mw. intros H. destruct (_ && _).
  - destruct (begin_message c ty ic s) as [e1 s1] eqn:H1. apply begin_message_FP in H1.
    destruct e1; [inv H; exact H1|]. apply flush_frame_FP in H. wsimpl.
    eapply FP_trans'; [exact H1|]. eapply FP_trans; [|exact H]. fp_same. apply FP_refl.
  - destruct (next_writer c ty ic s) as [e1 s1] eqn:H1. apply next_writer_FP in H1.
    destruct e1; [inv H; exact H1|].
    destruct (app_write c false data wc s1) as [e2 s2] eqn:H2. apply app_write_FP in H2.
    pose proof (FP_trans' _ _ _ H1 H2) as H12.
    destruct e2; [inv H; exact H12|]. apply app_close_FP in H. eapply FP_trans'; eauto.
Qed.

(* ---- one program step ---- *)
Definition step_dl (s:wst) (o:wop) : N := match o with WControl _ _ dl => dl | _ => deadline s end.

Definition FPd (P:N -> Prop) (s s':wst) : Prop :=
  exists d, revs s' = d ++ revs s /\ Delta P (werr s) d (werr s').

Lemma FPd_refl P s : FPd P s s.
Proof. exists []. split; [reflexivity|apply D_nil]. Qed.

Lemma FPd_same P s s' : revs s' = revs s -> werr s' = werr s -> FPd P s s'.
Proof. intros Hr Hw. exists []. rewrite Hr, Hw. split; [reflexivity|apply D_nil]. Qed.

Lemma FPd_trans P s s1 s2 : FPd P s s1 -> FPd P s1 s2 -> FPd P s s2.
Proof.
  intros (d1 & Hr1 & HD1) (d2 & Hr2 & HD2). exists (d2 ++ d1). split.
  - rewrite Hr2, Hr1. apply app_assoc.
  - eapply Delta_trans; eauto.
Qed.

Lemma FPd_mono (P Q:N -> Prop) s s' : (forall x, P x -> Q x) -> FPd P s s' -> FPd Q s s'.
Proof. intros HPQ (d & Hr & HD). exists d. split; auto. eapply Delta_mono; eauto. Qed.

Lemma wstep_FPd c s o e s' : wstep c s o = (e, s') -> FPd (eq (step_dl s o)) s s'.
Proof.
  intros H. destruct o; cbn [wstep step_dl] in *.
  - apply write_message_FP in H. apply H.
  - apply next_writer_FP in H. apply H.
  - apply app_write_FP in H. apply H.
  - apply app_write_FP in H. apply H.
  - apply app_read_from_FP in H. apply H.
  - apply app_close_FP in H. apply H.
  - apply write_control_FP in H. apply H.
  - inv H. apply FPd_same; reflexivity.
  - inv H. apply FPd_same; reflexivity.
  - destruct (valid_level l); inv H; apply FPd_same; reflexivity.
  - apply conn_write_spec, cw_post_FP in H. apply H.
Qed.

Lemma wrun_snd_cons c s o r : snd (wrun c s (o :: r)) = snd (wrun c (snd (wstep c s o)) r).
Proof.
  cbn [wrun]. destruct (wstep c s o) as [e s1]. cbn [snd]. destruct (wrun c s1 r). reflexivity.
Qed.

Lemma wrun_FPd c ops : forall s, FPd (fun _ => True) s (snd (wrun c s ops)).
Proof.
  induction ops as [|o r IH]; intros s.
  - apply FPd_refl.
  - rewrite wrun_snd_cons. destruct (wstep c s o) as [e s1] eqn:H. cbn [snd].
    apply wstep_FPd in H. eapply FPd_trans; [|apply IH]. eapply FPd_mono; [|exact H]. auto.
Qed.

(* ====================================================================== *)
(* Part 3: T1 (sticky error freezes the transport), T3 (failure => sticky error, nothing after a
   failure), T5 (deadline discipline), T2 (calls fail after a close frame) *)

Lemma evs_rev s : evs s = rev (revs s).
Proof. unfold evs, rev'. symmetry. apply rev_alt. Qed.

(* ================= T1 ================= *)
Lemma FPd_frozen P s s' e : FPd P s s' -> werr s = Some e ->
  werr s' = Some e /\ transport_evs (revs s') = transport_evs (revs s).
Proof.
  intros (d & Hr & HD) Hw. rewrite Hw in HD. apply Delta_some in HD. destruct HD as [Hw' Ht].
  split; [exact Hw'|]. rewrite Hr, transport_evs_app, Ht. reflexivity.
Qed.

Theorem werr_freezes_transport : forall c ops s, werr s <> None ->
  transport_evs (revs (snd (wrun c s ops))) = transport_evs (revs s).
Proof.
  intros c ops s Hw. destruct (werr s) as [e|] eqn:He; [|congruence].
  eapply FPd_frozen; [apply wrun_FPd|exact He].
Qed.

Theorem werr_sticky : forall c ops s e, werr s = Some e -> werr (snd (wrun c s ops)) = Some e.
Proof. intros c ops s e He. eapply FPd_frozen; [apply wrun_FPd|exact He]. Qed.

(* the same, chronologically *)
Corollary werr_freezes_transport_evs : forall c ops s, werr s <> None ->
  transport_evs (evs (snd (wrun c s ops))) = transport_evs (evs s).
Proof.
  intros c ops s Hw. rewrite !evs_rev, !transport_evs_rev. f_equal. apply werr_freezes_transport, Hw.
Qed.

(* per step *)
Lemma wstep_frozen c s o e : werr s = Some e ->
  werr (snd (wstep c s o)) = Some e /\ transport_evs (revs (snd (wstep c s o))) = transport_evs (revs s).
Proof.
  intros He. destruct (wstep c s o) as [r s'] eqn:H. cbn [snd].
  eapply FPd_frozen; [eapply wstep_FPd; eauto|exact He].
Qed.

(* the log written by a step is an extension of the previous log *)
Lemma wstep_extends c s o e s' : wstep c s o = (e, s') -> exists d, revs s' = d ++ revs s.
Proof. intros H. apply wstep_FPd in H. destruct H as (d & Hr & _). eauto. Qed.

(* ================= T3 ================= *)
Lemma fault_sets_werr c s o e s' d :
  wstep c s o = (e, s') -> revs s' = d ++ revs s -> has_fail d = true -> werr s' <> None.
Proof.
  intros H Hr Hf. apply wstep_FPd in H. destruct H as (d' & Hr' & HD).
  assert (d' = d) by (eapply app_inv_tail; rewrite <- Hr, <- Hr'; reflexivity). subst d'.
  eapply Delta_fail; eauto.
Qed.

Definition Inv_fail (s:wst) : Prop := has_fail (revs s) = true -> werr s <> None.

(* most recent first: every transport event is more recent than no failure event *)
Fixpoint fq (l:list tev) : bool :=
  match l with
  | [] => true
  | e :: r => (if is_tr e then negb (has_fail r) else true) && fq r
  end.

Lemma nofail_fq l : has_fail l = false -> fq l = true.
Proof.
  induction l as [|e l IH]; [reflexivity|]. cbn [has_fail existsb fq]. intros H.
  apply orb_false_iff in H. destruct H as [He Hl]. fold (has_fail l) in Hl.
  rewrite Hl, (IH Hl). destruct (is_tr e); reflexivity.
Qed.

Lemma group_fq dl g w L : group dl g w -> has_fail L = false -> fq L = true ->
  fq (g ++ L) = true /\ (has_fail (g ++ L) = true -> w <> None).
Proof.
  intros Hg HL Hq. rewrite has_fail_app, HL, orb_false_r.
  split; [|eapply group_fail; eauto].
  destruct Hg; cbn [Datatypes.app fq is_tr]; unfold has_fail in *; cbn [existsb is_fail orb];
    rewrite HL, Hq; reflexivity.
Qed.

Lemma Delta_QInv P w d w' : Delta P w d w' -> forall l,
  (has_fail l = true -> w <> None) -> fq l = true ->
  (has_fail (d ++ l) = true -> w' <> None) /\ fq (d ++ l) = true.
Proof.
  intros H. induction H; intros l Hi Hq.
  - auto.
  - destruct (IHDelta l Hi Hq) as [Ha Hb]. cbn [Datatypes.app has_fail existsb fq]. fold (has_fail (d ++ l)).
    rewrite H0, Hb. destruct e; try discriminate; cbn [is_fail orb andb]; auto.
  - destruct (IHDelta l Hi Hq) as [Ha Hb]. split; [congruence|exact Hb].
  - destruct (IHDelta l Hi Hq) as [Ha Hb]. rewrite <- app_assoc.
    assert (Hnf : has_fail (d ++ l) = false).
    { destruct (has_fail (d ++ l)); [exfalso; apply Ha; reflexivity|reflexivity]. }
    destruct (group_fq _ _ _ _ H1 Hnf Hb). auto.
Qed.

Definition QInv (s:wst) : Prop := Inv_fail s /\ fq (revs s) = true.

Lemma FPd_QInv P s s' : FPd P s s' -> QInv s -> QInv s'.
Proof.
  intros (d & Hr & HD) [Hi Hq]. unfold QInv, Inv_fail. rewrite Hr.
  eapply Delta_QInv; eauto.
Qed.

Lemma wstep_QInv c s o : QInv s -> QInv (snd (wstep c s o)).
Proof.
  intros H. destruct (wstep c s o) as [e s'] eqn:Hs. cbn [snd].
  eapply FPd_QInv; [eapply wstep_FPd; eauto|exact H].
Qed.

Lemma wrun_QInv c ops s : QInv s -> QInv (snd (wrun c s ops)).
Proof. apply (FPd_QInv (fun _ => True)), wrun_FPd. Qed.

Lemma wrun_Inv_fail c ops s : QInv s -> Inv_fail (snd (wrun c s ops)).
Proof. intros H. apply (wrun_QInv c ops s H). Qed.

Lemma fq_split : forall post e pre, fq (post ++ e :: pre) = true -> is_fail e = true -> transport_evs post = [].
Proof.
  induction post as [|x post IH]; intros e pre H He; [reflexivity|].
  cbn [Datatypes.app fq] in H. apply andb_true_iff in H. destruct H as [Hx Hr].
  destruct (is_tr x) eqn:Hxt.
  - rewrite has_fail_app in Hx. cbn [has_fail existsb] in Hx. rewrite He in Hx.
    rewrite orb_true_l, orb_true_r in Hx. discriminate Hx.
  - unfold transport_evs. cbn [filter]. destruct x; try discriminate Hxt; eapply IH; eauto.
Qed.

Lemma QInv_of_clean s : werr s = None -> Inv_fail s -> QInv s.
Proof.
  intros Hw Hi. split; [exact Hi|]. apply nofail_fq.
  destruct (has_fail (revs s)) eqn:Hf; [exfalso; apply Hi; auto|reflexivity].
Qed.

Theorem nothing_after_failure_gen : forall c ops s, QInv s ->
  let s' := snd (wrun c s ops) in
  forall pre e post, evs s' = pre ++ e :: post -> is_fail e = true -> transport_evs post = [].
Proof.
  intros c ops s HQ s' pre e post Hev He.
  pose proof (wrun_QInv c ops s HQ) as [_ Hq]. fold s' in Hq.
  rewrite evs_rev in Hev. apply (f_equal (@rev tev)) in Hev. rewrite rev_involutive in Hev.
  rewrite rev_app_distr in Hev. cbn [rev] in Hev. rewrite <- app_assoc in Hev. cbn [app] in Hev.
  rewrite Hev in Hq. apply fq_split in Hq; [|exact He].
  rewrite transport_evs_rev in Hq. destruct (transport_evs post); [reflexivity|].
  cbn [rev] in Hq. destruct (rev l); discriminate Hq.
Qed.

Theorem nothing_after_failure : forall c ops s, werr s = None -> Inv_fail s ->
  let s' := snd (wrun c s ops) in
  forall pre e post, evs s' = pre ++ e :: post -> is_fail e = true -> transport_evs post = [].
Proof. intros c ops s Hw Hi. apply nothing_after_failure_gen, QInv_of_clean; auto. Qed.

Corollary nothing_after_failure_init : forall c ks fa ops,
  let s' := snd (wrun c (init_wst c ks fa) ops) in
  forall pre e post, evs s' = pre ++ e :: post -> is_fail e = true ->
    transport_evs post = [] /\ werr s' <> None.
Proof.
  intros c ks fa ops s' pre e post Hev He.
  assert (HQ : QInv (init_wst c ks fa)).
  { apply QInv_of_clean; [reflexivity|]. intros H. discriminate H. }
  split; [eapply (nothing_after_failure_gen c ops _ HQ); eauto|].
  apply (wrun_Inv_fail c ops _ HQ). fold s'.
  rewrite evs_rev in Hev. apply (f_equal (@rev tev)) in Hev. rewrite rev_involutive in Hev.
  rewrite Hev, rev_app_distr, has_fail_app. cbn [rev]. rewrite has_fail_app. cbn [has_fail existsb].
  rewrite He. rewrite orb_true_l, orb_true_r. reflexivity.
Qed.

(* the whole log is generated by the Delta grammar: pool events, sticky-error settings and
   well-formed SetWriteDeadline/Write groups *)
Theorem log_grammar : forall c ks fa ops,
  let s' := snd (wrun c (init_wst c ks fa) ops) in
  Delta (fun _ => True) None (revs s') (werr s').
Proof.
  intros c ks fa ops s'. destruct (wrun_FPd c ops (init_wst c ks fa)) as (d & Hr & HD). fold s' in Hr, HD.
  cbn [init_wst revs werr] in Hr, HD. rewrite app_nil_r in Hr. rewrite Hr. exact HD.
Qed.

(* ================= T5 ================= *)
Fixpoint deadlines_ok (armed:bool) (es:list tev) : bool :=
  match es with
  | [] => true
  | TSetDL _ :: r => deadlines_ok true r
  | TWrite _ :: r => armed && deadlines_ok armed r
  | TWriteFail _ :: r => armed && deadlines_ok false r
  | TSetDLFail _ :: r => deadlines_ok false r
  | _ :: r => deadlines_ok armed r
  end.

Fixpoint dl_run (armed:bool) (es:list tev) : option bool :=
  match es with
  | [] => Some armed
  | TSetDL _ :: r => dl_run true r
  | TWrite _ :: r => if armed then dl_run armed r else None
  | TWriteFail _ :: r => if armed then dl_run false r else None
  | TSetDLFail _ :: r => dl_run false r
  | _ :: r => dl_run armed r
  end.

Lemma deadlines_ok_run es : forall a, deadlines_ok a es = match dl_run a es with Some _ => true | None => false end.
Proof.
  induction es as [|e es IH]; intros a; [reflexivity|].
  destruct e; cbn [deadlines_ok dl_run]; try apply IH; destruct a; cbn [andb]; try apply IH; reflexivity.
Qed.

Lemma dl_run_app l1 : forall a l2,
  dl_run a (l1 ++ l2) = match dl_run a l1 with Some a' => dl_run a' l2 | None => None end.
Proof.
  induction l1 as [|e l1 IH]; intros a l2; [reflexivity|].
  destruct e; cbn [Datatypes.app dl_run]; try apply IH; destruct a; try apply IH; reflexivity.
Qed.

Lemma Delta_dlrun P w d w' : Delta P w d w' -> forall a, exists a', dl_run a (rev d) = Some a'.
Proof.
  intros H. induction H; intros a.
  - exists a. reflexivity.
  - destruct (IHDelta a) as [a' Ha]. exists a'. cbn [rev]. rewrite dl_run_app, Ha.
    destruct e; try discriminate; reflexivity.
  - apply IHDelta.
  - destruct (IHDelta a) as [a' Ha]. rewrite rev_app_distr, dl_run_app, Ha.
    destruct H1; cbn; eauto.
Qed.

Lemma FPd_deadlines P s s' : FPd P s s' ->
  deadlines_ok false (evs s) = true -> deadlines_ok false (evs s') = true.
Proof.
  intros (d & Hr & HD). rewrite !evs_rev, Hr, rev_app_distr, !deadlines_ok_run, dl_run_app.
  destruct (dl_run false (rev (revs s))) as [a|]; [|discriminate]. intros _.
  destruct (Delta_dlrun _ _ _ _ HD a) as [a' ->]. reflexivity.
Qed.

Theorem writes_have_deadlines : forall c ops s,
  deadlines_ok false (evs s) = true -> deadlines_ok false (evs (snd (wrun c s ops))) = true.
Proof. intros c ops s. apply FPd_deadlines with (P := fun _ => True), wrun_FPd. Qed.

Corollary writes_have_deadlines_init : forall c ks fa ops,
  deadlines_ok false (evs (snd (wrun c (init_wst c ks fa) ops))) = true.
Proof. intros. apply writes_have_deadlines. reflexivity. Qed.

(* the deadline value: the message path uses c.writeDeadline (the value last given to
   SetWriteDeadline), WriteControl its own argument *)
Theorem step_deadline_value : forall c s o e s', wstep c s o = (e, s') ->
  exists d, revs s' = d ++ revs s /\ Forall (dl_is (eq (step_dl s o))) d.
Proof.
  intros c s o e s' H. apply wstep_FPd in H. destruct H as (d & Hr & HD).
  exists d. split; [exact Hr|]. eapply Delta_dl; eauto.
Qed.

Lemma flush_frame_deadline_value c final extra m s e s' : flush_frame c final extra m s = (e, s') ->
  exists d, revs s' = d ++ revs s /\ Forall (dl_is (eq (deadline s))) d.
Proof.
  intros H. apply flush_frame_FP in H. destruct H as [(d & Hr & HD) _].
  exists d. split; [exact Hr|]. eapply Delta_dl; eauto.
Qed.

Lemma write_control_deadline_value c ty data dl s e s' : write_control c ty data dl s = (e, s') ->
  exists d, revs s' = d ++ revs s /\ Forall (dl_is (eq dl)) d.
Proof.
  intros H. apply write_control_FP in H. destruct H as [(d & Hr & HD) _].
  exists d. split; [exact Hr|]. eapply Delta_dl; eauto.
Qed.

(* ================= T2 ================= *)
Lemma FP_sticky dl s s' e : FP dl s s' -> werr s = Some e -> werr s' = Some e.
Proof. intros [H _] He. eapply FPd_frozen; eauto. Qed.

Lemma close_sets_werr_conn_write dl masked mk b1 s s' :
  conn_write c_CloseMessage dl masked mk b1 s = (None, s') -> werr s = None -> werr s' = Some WCloseSent.
Proof.
  intros H Hw. apply conn_write_spec in H. destruct H as [_ [(e0 & _ & He & _)|(_ & g & _ & _ & He & _)]].
  - discriminate He.
  - exact He.
Qed.

Lemma close_sets_werr_write_control c d dl s s' :
  write_control c c_CloseMessage d dl s = (None, s') -> werr s = None -> werr s' = Some WCloseSent.
Proof.
  intros H Hw. apply write_control_spec in H.
  destruct H as [(_ & He & _)|[(_ & _ & He & _)|[(_ & _ & _ & He & _)|(_ & _ & _ & H)]]]; try discriminate He.
  destruct H as [_ [(e0 & _ & He & _)|(_ & g & _ & _ & He & _)]]; [discriminate He|exact He].
Qed.

(* in fact success of either function implies that no error was pending *)
Lemma conn_write_ok_werr ft dl masked mk b1 s s' :
  conn_write ft dl masked mk b1 s = (None, s') ->
  werr s = None /\ werr s' = (if ft =? c_CloseMessage then Some WCloseSent else None).
Proof.
  intros H. apply conn_write_spec in H. destruct H as [_ [(e0 & _ & He & _)|(Hw & g & _ & _ & He & _)]].
  - discriminate He.
  - auto.
Qed.

Lemma write_control_ok_werr c ty d dl s s' :
  write_control c ty d dl s = (None, s') ->
  werr s = None /\ werr s' = (if ty =? c_CloseMessage then Some WCloseSent else None).
Proof.
  intros H. apply write_control_spec in H.
  destruct H as [(_ & He & _)|[(_ & _ & He & _)|[(_ & _ & _ & He & _)|(_ & _ & _ & H)]]]; try discriminate He.
  destruct H as [_ [(e0 & _ & He & _)|(Hw & g & _ & _ & He & _)]]; [discriminate He|auto].
Qed.

Lemma close_sets_werr : forall c s s',
  werr s = None ->
  (forall dl masked mk b1, conn_write c_CloseMessage dl masked mk b1 s = (None, s') -> werr s' = Some WCloseSent) /\
  (forall d dl, write_control c c_CloseMessage d dl s = (None, s') -> werr s' = Some WCloseSent).
Proof.
  intros c s s' Hw. split; intros.
  - eapply close_sets_werr_conn_write; eauto.
  - eapply close_sets_werr_write_control; eauto.
Qed.

(* program level: a successful WControl(Close) or prepared close frame marks the connection *)
Lemma close_step_sets_werr c s o s' :
  wstep c s o = (None, s') ->
  match o with
  | WControl ty _ _ | WPreparedFrame ty _ => ty = c_CloseMessage -> werr s' = Some WCloseSent
  | _ => True
  end.
Proof.
  intros H. destruct o; try exact I; cbn [wstep] in H; intros ->.
  - apply write_control_ok_werr in H. apply H.
  - apply conn_write_ok_werr in H. apply H.
Qed.

Definition valid_ty (ty:N) : bool := is_control_ty ty || is_data_ty ty.

Lemma flush_frame_err c final extra m s : werr s <> None -> fst (flush_frame c final extra m s) <> None.
Proof.
  intros Hw. destruct (werr s) as [x|] eqn:Hx; [clear Hw|congruence].
  unfold flush_frame. destruct (is_control_ty (m_ftype m) && _); [cbn [fst]; congruence|].
  wsimpl. destruct (w_server c).
  - destruct (conn_write _ _ _ _ _ _) as [e1 s1] eqn:Hc. apply conn_write_spec in Hc.
    eapply cw_post_err in Hc; [|wsimpl; exact Hx]. destruct Hc as [-> _]. cbn [fst]. congruence.
  - destruct extra; [|cbn [fst]; congruence].
    destruct (conn_write _ _ _ _ _ _) as [e1 s1] eqn:Hc. apply conn_write_spec in Hc.
    eapply cw_post_err in Hc; [|wsimpl; exact Hx]. destruct Hc as [-> _]. cbn [fst]. congruence.
Qed.

Lemma mw_close_err c s : cur s <> None -> werr s <> None -> fst (mw_close c s) <> None.
Proof.
  intros Hc Hw. unfold mw_close. destruct (cur s); [|congruence]. apply flush_frame_err, Hw.
Qed.

Lemma is_cur_true id s : is_cur id s = true -> cur s <> None.
Proof. unfold is_cur. destruct (cur s); congruence. Qed.

Lemma flate_close_err c cc f s : werr s <> None -> fst (flate_close c cc f s) <> None.
Proof.
  intros Hw. destruct (werr s) as [x|] eqn:Hx; [clear Hw|congruence].
  unfold flate_close. destruct (negb (f_open f)); [cbn [fst]; congruence|].
  destruct (flate_emit c cc f s) as [f1 s1] eqn:H1. apply flate_emit_FP in H1.
  pose proof (FP_sticky _ _ _ _ H1 Hx) as Hx1. wsimpl.
  destruct (negb (beq _ _)); [cbn [fst]; congruence|].
  destruct (is_cur _ _) eqn:Hic.
  - destruct (mw_close c _) as [e2 s2] eqn:H2. cbn [fst].
    assert (He2 : e2 <> None).
    { change e2 with (fst (e2, s2)). rewrite <- H2. apply mw_close_err.
      - wsimpl. eapply is_cur_true. unfold is_cur in *. wsimpl. exact Hic.
      - wsimpl. congruence. }
    destruct (f_err f1); [congruence|exact He2].
  - cbn [fst]. destruct (f_err f1); congruence.
Qed.

Lemma app_close_err c cc s : werr s <> None -> fst (app_close c cc s) <> None.
Proof.
  intros Hw. unfold app_close. destruct (app s); [|cbn [fst]; congruence].
  destruct (app_flate s).
  - destruct (fl s); [|cbn [fst]; congruence].
    destruct (Nat.eqb _ _); [|cbn [fst]; congruence]. apply flate_close_err, Hw.
  - destruct (is_cur n s) eqn:Hic; [|cbn [fst]; congruence].
    apply mw_close_err; [eapply is_cur_true; eauto|exact Hw].
Qed.

Lemma begin_message_err c ty ic s x : werr s = Some x ->
  fst (begin_message c ty ic s) = (if valid_ty ty then Some x else Some WBadOpCode).
Proof.
  intros Hx. unfold begin_message, valid_ty.
  pose proof (FP_sticky _ _ _ _ (close_current_FP c ic s) Hx) as Hx1.
  rewrite <- negb_orb. destruct (is_control_ty ty || is_data_ty ty); cbn [negb].
  - rewrite Hx1. reflexivity.
  - reflexivity.
Qed.

Lemma next_writer_err c ty ic s x : werr s = Some x ->
  fst (next_writer c ty ic s) = (if valid_ty ty then Some x else Some WBadOpCode).
Proof.
  intros Hx. unfold next_writer. pose proof (begin_message_err c ty ic s x Hx) as H.
  destruct (begin_message c ty ic s) as [e1 s1]. cbn [fst] in H. subst e1.
  destruct (valid_ty ty); reflexivity.
Qed.

Lemma write_message_err c ty d ic wc cc s x : werr s = Some x ->
  fst (write_message c ty d ic wc cc s) = (if valid_ty ty then Some x else Some WBadOpCode).
Proof.
  intros Hx. unfold write_message. destruct (_ && _).
  - pose proof (begin_message_err c ty ic s x Hx) as H.
    destruct (begin_message c ty ic s) as [e1 s1]. cbn [fst] in H. subst e1.
    destruct (valid_ty ty); reflexivity.
  - pose proof (next_writer_err c ty ic s x Hx) as H.
    destruct (next_writer c ty ic s) as [e1 s1]. cbn [fst] in H. subst e1.
    destruct (valid_ty ty); reflexivity.
Qed.

Lemma write_control_err c ty d dl s x : werr s = Some x ->
  fst (write_control c ty d dl s) <> None /\
  (is_control_ty ty = true -> blen d <= 125 -> dl <> 1 -> write_control c ty d dl s = (Some x, s)).
Proof.
  intros Hx. destruct (write_control c ty d dl s) as [e s'] eqn:H. cbn [fst].
  apply write_control_spec in H.
  destruct H as [(Ht & -> & ->)|[(Ht & Hl & -> & ->)|[(Ht & Hl & Hd & -> & ->)|(Ht & Hl & Hd & H)]]].
  - split; [congruence|]. intros; congruence.
  - split; [congruence|]. intros; lia.
  - split; [congruence|]. intros; congruence.
  - eapply cw_post_err in H; eauto. destruct H as [-> ->]. split; [congruence|]. reflexivity.
Qed.

Lemma prepared_err c ty fr s x : werr s = Some x -> wstep c s (WPreparedFrame ty fr) = (Some x, s).
Proof.
  intros Hx. cbn [wstep]. destruct (conn_write _ _ _ _ _ _) as [e s'] eqn:H.
  apply conn_write_spec in H. eapply cw_post_err in H; eauto. destruct H as [-> ->]. reflexivity.
Qed.

(* with any sticky error x, in particular x = WCloseSent *)
Theorem after_error_calls_fail : forall c s o x, werr s = Some x ->
  match o with
  | WSetDeadline _ | WEnableCompression _ | WSetLevel _ | WWrite _ _ | WWriteString _ _ | WReadFrom _ => True
  | _ => fst (wstep c s o) <> None
  end.
Proof.
  intros c s o x Hx. destruct o; try exact I; cbn [wstep].
  - rewrite (write_message_err _ _ _ _ _ _ _ _ Hx). destruct (valid_ty ty); congruence.
  - rewrite (next_writer_err _ _ _ _ _ Hx). destruct (valid_ty ty); congruence.
  - apply app_close_err. congruence.
  - apply (write_control_err c ty d dl s x Hx).
  - change (fst (wstep c s (WPreparedFrame ty frame)) <> None).
    rewrite (prepared_err _ _ _ _ _ Hx). cbn [fst]. congruence.
Qed.

Theorem after_close_calls_fail : forall c s o, werr s = Some WCloseSent ->
  match o with
  | WSetDeadline _ | WEnableCompression _ | WSetLevel _ | WWrite _ _ | WWriteString _ _ | WReadFrom _ => True
  | _ => fst (wstep c s o) <> None
  end.
Proof. intros c s o. apply after_error_calls_fail. Qed.

(* ... with ErrCloseSent when the request is otherwise valid *)
Theorem after_close_exact : forall c s, werr s = Some WCloseSent ->
  (forall ty d dl, is_control_ty ty = true -> blen d <= 125 -> dl <> 1 ->
     wstep c s (WControl ty d dl) = (Some WCloseSent, s)) /\
  (forall ty d ic wc cc, valid_ty ty = true -> fst (wstep c s (WMessage ty d ic wc cc)) = Some WCloseSent) /\
  (forall ty ic, valid_ty ty = true -> fst (wstep c s (WNext ty ic)) = Some WCloseSent) /\
  (forall ty fr, wstep c s (WPreparedFrame ty fr) = (Some WCloseSent, s)).
Proof.
  intros c s Hx. repeat split.
  - intros. cbn [wstep]. apply (write_control_err c ty d dl s _ Hx); auto.
  - intros ty d ic wc cc Hv. cbn [wstep]. rewrite (write_message_err _ _ _ _ _ _ _ _ Hx), Hv. reflexivity.
  - intros ty ic Hv. cbn [wstep]. rewrite (next_writer_err _ _ _ _ _ Hx), Hv. reflexivity.
  - intros. apply prepared_err, Hx.
Qed.

(* ====================================================================== *)
(* Part 4: the message-writer level relation MW (what Write/Close/flushFrame can do to the
   buffer ownership, the current writer and the pool part of the log) *)

Definition samecur (a b:option mwr) : Prop :=
  match a, b with
  | None, None => True
  | Some m, Some m' => m_id m' = m_id m /\ m_err m' = m_err m
  | _, _ => False
  end.

Lemma samecur_refl a : samecur a a.
Proof. destruct a; cbn; auto. Qed.
Lemma samecur_trans a b c : samecur a b -> samecur b c -> samecur a c.
Proof. destruct a, b, c; cbn; intuition congruence. Qed.

Definition MW (c:wcfg) (s s':wst) : Prop :=
  fl s' = fl s /\ exists d, revs s' = d ++ revs s /\
  ((samecur (cur s) (cur s') /\ held s' = held s /\ cur_flate s' = cur_flate s /\ pool_evs d = [])
   \/ (cur s <> None /\ cur s' = None /\ cur_flate s' = false /\
       if w_pooled c then held s' = false /\ pool_evs d = [TPut] else held s' = held s /\ pool_evs d = [])).

Lemma MW_A c s s' d :
  fl s' = fl s -> revs s' = d ++ revs s -> pool_evs d = [] -> samecur (cur s) (cur s') ->
  held s' = held s -> cur_flate s' = cur_flate s -> MW c s s'.
Proof. intros. split; [assumption|]. exists d. split; [assumption|]. left. auto. Qed.

Lemma MW_refl c s : MW c s s.
Proof. apply (MW_A c s s []); auto. apply samecur_refl. Qed.

Lemma MW_trans c s s1 s2 : MW c s s1 -> MW c s1 s2 -> MW c s s2.
Proof.
  intros [Hf1 (d1 & Hr1 & H1)] [Hf2 (d2 & Hr2 & H2)]. split; [congruence|].
  exists (d2 ++ d1). split; [rewrite Hr2, Hr1; apply app_assoc|]. rewrite pool_evs_app.
  destruct H1 as [(Hc1 & Hh1 & Hcf1 & Hp1)|(Hc1 & Hn1 & Hcf1 & Hp1)];
  destruct H2 as [(Hc2 & Hh2 & Hcf2 & Hp2)|(Hc2 & Hn2 & Hcf2 & Hp2)].
  - left. rewrite Hp1, Hp2. repeat split; try congruence. eapply samecur_trans; eauto.
  - right. split.
    { intros Hx. rewrite Hx in Hc1. destruct (cur s1); [exact Hc1|congruence]. }
    split; [exact Hn2|]. split; [exact Hcf2|].
    destruct (w_pooled c).
    + destruct Hp2 as [Hh2 Hp2]. rewrite Hp1, Hp2. auto.
    + destruct Hp2 as [Hh2 Hp2]. rewrite Hp1, Hp2. split; [congruence|reflexivity].
  - right. split; [exact Hc1|]. rewrite Hn1 in Hc2.
    split; [destruct (cur s2); [destruct Hc2|reflexivity]|]. split; [congruence|].
    destruct (w_pooled c).
    + destruct Hp1 as [Hh1 Hp1]. rewrite Hp1, Hp2. split; [congruence|reflexivity].
    + destruct Hp1 as [Hh1 Hp1]. rewrite Hp1, Hp2. split; [congruence|reflexivity].
  - congruence.
Qed.

(* an update of the current writer's buffer/frame type/compress bit *)
Lemma MW_setcur c s0 s m m' s' :
  MW c s0 s -> cur s = Some m -> cur s' = Some m' -> m_id m' = m_id m -> m_err m' = m_err m ->
  fl s' = fl s -> revs s' = revs s -> held s' = held s -> cur_flate s' = cur_flate s ->
  MW c s0 s'.
Proof.
  intros H Hc Hc' Hi He Hf Hr Hh Hcf. eapply MW_trans; [exact H|].
  apply (MW_A c s s' []); auto. rewrite Hc, Hc'. cbn. auto.
Qed.

Ltac mw_setcur H Hcur := eapply MW_setcur; [exact H | exact Hcur | wsimpl; reflexivity .. ].

Lemma cw_post_MW c ft dl s e s' : cw_post ft dl s e s' -> MW c s s'.
Proof.
  intros H. destruct (cw_post_tr _ _ _ _ _ H) as (d & Hr & Ht). destruct H as [Hc _].
  apply (MW_A c s s' d); auto.
  - apply core_fl, Hc.
  - apply tr_only_pool, Ht.
  - rewrite (core_cur _ _ Hc). apply samecur_refl.
  - apply core_held, Hc.
  - apply core_cur_flate, Hc.
Qed.

Lemma write_fatal_MW c e s : MW c s (write_fatal e s).
Proof.
  pose proof (write_fatal_core e s) as Hc.
  apply (MW_A c s _ []); auto.
  - apply core_fl, Hc.
  - apply write_fatal_revs.
  - rewrite (core_cur _ _ Hc). apply samecur_refl.
  - apply core_held, Hc.
  - apply core_cur_flate, Hc.
Qed.

Lemma end_message_MW c e m s : cur s <> None -> MW c s (end_message c e m s).
Proof.
  intros Hc. unfold end_message. destruct (m_err m); [apply MW_refl|].
  split; [destruct (w_pooled c); reflexivity|].
  destruct (w_pooled c) eqn:Hp.
  - exists [TPut]. split; [reflexivity|]. right. unfold log. wsimpl. auto.
  - exists []. split; [reflexivity|]. right. wsimpl. auto.
Qed.

Lemma end_message_cur c e m s : m_err m = None -> cur (end_message c e m s) = None.
Proof. intros H. unfold end_message. rewrite H. destruct (w_pooled c); reflexivity. Qed.

Lemma flush_frame_MW c final extra m s e s' :
  cur s = Some m -> flush_frame c final extra m s = (e, s') -> MW c s s'.
Proof.
  unfold flush_frame. intros Hcur H.
  assert (Hne : cur s <> None) by congruence.
  destruct (is_control_ty (m_ftype m) && _).
  { inv H. apply end_message_MW, Hne. }
  wsimpl.
  assert (H0 : MW c s (s <| cur := Some (m <| m_compress := false |>) |>)).
  { mw_setcur (MW_refl c s) Hcur. }
  destruct (w_server c).
  - destruct (conn_write _ _ _ _ _ _) as [e1 s1] eqn:Hc.
    apply conn_write_spec in Hc. pose proof (core_cur _ _ (proj1 Hc)) as Hc1. wsimpl.
    apply (cw_post_MW c) in Hc.
    pose proof (MW_trans _ _ _ _ H0 Hc) as H1.
    destruct e1; [|destruct final]; inv H.
    + eapply MW_trans; [exact H1|]. apply end_message_MW. congruence.
    + eapply MW_trans; [exact H1|]. apply end_message_MW. congruence.
    + mw_setcur H1 Hc1.
  - destruct extra.
    + destruct (conn_write _ _ _ _ _ _) as [e1 s1] eqn:Hc.
      apply conn_write_spec in Hc. pose proof (core_cur _ _ (proj1 Hc)) as Hc1. wsimpl.
      apply (cw_post_MW c) in Hc.
      pose proof (MW_trans _ _ _ _ H0 Hc) as H1.
      destruct e1; [|destruct final]; inv H.
      * eapply MW_trans; [exact H1|]. apply end_message_MW. congruence.
      * eapply MW_trans; [exact H1|]. apply end_message_MW. congruence.
      * mw_setcur H1 Hc1.
    + inv H. eapply MW_trans; [exact H0|]. eapply MW_trans; [apply write_fatal_MW|].
      apply end_message_MW. rewrite (core_cur _ _ (write_fatal_core _ _)). wsimpl. congruence.
Qed.

Lemma flush_frame_final_none c extra m s :
  m_err m = None -> cur (snd (flush_frame c true extra m s)) = None.
Proof.
  intros He. unfold flush_frame.
  destruct (is_control_ty (m_ftype m) && _); [cbn [snd]; apply end_message_cur, He|].
  wsimpl. destruct (w_server c).
  - destruct (conn_write _ _ _ _ _ _) as [e1 s1]. destruct e1; cbn [snd]; apply end_message_cur; wsimpl; exact He.
  - destruct extra.
    + destruct (conn_write _ _ _ _ _ _) as [e1 s1]. destruct e1; cbn [snd]; apply end_message_cur; wsimpl; exact He.
    + cbn [snd]. apply end_message_cur; wsimpl; exact He.
Qed.

(* the value of c.writer on entry is irrelevant to flushFrame (it is overwritten) *)
Lemma flush_frame_cur_irrel c final extra m s x :
  m_err m = None -> flush_frame c final extra m (s <| cur := x |>) = flush_frame c final extra m s.
Proof.
  intros He. unfold flush_frame, end_message. wsimpl. rewrite He.
  destruct s. reflexivity.
Qed.

Lemma copy_loop_MW c fuel : forall p s e s', copy_loop fuel c p s = (e, s') -> MW c s s'.
Proof.
  induction fuel as [|f IH]; intros p s e s' H; destruct p as [|b p]; cbn [copy_loop] in H.
  - inv H. apply MW_refl.
  - inv H. apply (MW_A c s _ []); try reflexivity. apply samecur_refl.
  - inv H. apply MW_refl.
  - destruct (cur s) as [m|] eqn:Hcur; [|inv H; apply MW_refl].
    destruct (_ =? 0).
    + destruct (flush_frame _ _ _ _ _) as [e1 s1] eqn:Hf. apply flush_frame_MW in Hf; [|exact Hcur].
      destruct e1; [inv H; exact Hf|]. apply IH in H. eapply MW_trans; eauto.
    + apply IH in H. eapply MW_trans; [|exact H].
      mw_setcur (MW_refl c s) Hcur.
Qed.

Lemma mw_write_MW c p s e s' : mw_write c p s = (e, s') -> MW c s s'.
Proof.
  unfold mw_write. intros H. destruct (cur s) eqn:Hcur; [|inv H; apply MW_refl].
  destruct (_ && _); [eapply flush_frame_MW|eapply copy_loop_MW]; eauto.
Qed.

Lemma mw_write_string_MW c p s e s' : mw_write_string c p s = (e, s') -> MW c s s'.
Proof.
  unfold mw_write_string. intros H. destruct (cur s); [|inv H; apply MW_refl].
  eapply copy_loop_MW; eauto.
Qed.

Lemma put_byte_MW c b s : MW c s (put_byte b s).
Proof.
  unfold put_byte. destruct (cur s) as [m|] eqn:Hcur; [|apply MW_refl].
  mw_setcur (MW_refl c s) Hcur.
Qed.

Lemma read_from_MW c fuel : forall chunks s e s', read_from fuel c chunks s = (e, s') -> MW c s s'.
Proof.
  induction fuel as [|f IH]; intros chunks s e s' H; cbn [read_from] in H.
  - inv H. apply (MW_A c s _ []); try reflexivity. apply samecur_refl.
  - destruct (cur s) as [m|] eqn:Hcur; [|inv H; apply MW_refl].
    destruct (_ =? 0).
    + destruct chunks as [|[|b ch'] rest]; [inv H; apply MW_refl| |].
      { destruct rest as [|r1 rest1]; [inv H; apply MW_refl|]. apply IH in H. exact H. }
      destruct (flush_frame _ _ _ _ _) as [e1 s1] eqn:Hf. apply flush_frame_MW in Hf; [|exact Hcur].
      destruct e1; [inv H; exact Hf|].
      assert (Hp : MW c s (put_byte b s1)) by (eapply MW_trans; [exact Hf|apply put_byte_MW]).
      destruct ch' as [|b1 ch1]; [destruct rest as [|r1 rest1]|].
      * inv H. exact Hp.
      * apply IH in H. eapply MW_trans; eauto.
      * apply IH in H. eapply MW_trans; eauto.
    + destruct chunks as [|ch rest]; [inv H; apply MW_refl|].
      destruct (dropN _ ch) as [|r0 rem]; [destruct rest as [|r1 rest1]|].
      * inv H. mw_setcur (MW_refl c s) Hcur.
      * apply IH in H. eapply MW_trans; [|exact H]. mw_setcur (MW_refl c s) Hcur.
      * apply IH in H. eapply MW_trans; [|exact H]. mw_setcur (MW_refl c s) Hcur.
Qed.

Lemma mw_close_MW c s e s' : mw_close c s = (e, s') -> MW c s s'.
Proof.
  unfold mw_close. intros H. destruct (cur s) eqn:Hcur; [|inv H; apply MW_refl].
  eapply flush_frame_MW; eauto.
Qed.

Lemma mw_close_none c s m : cur s = Some m -> m_err m = None -> cur (snd (mw_close c s)) = None.
Proof. intros Hc He. unfold mw_close. rewrite Hc. apply flush_frame_final_none, He. Qed.

Lemma trunc_write_MW c p f s e f' s' : trunc_write c p f s = (e, f', s') ->
  MW c s s' /\ f_id f' = f_id f /\ f_open f' = f_open f.
Proof.
  unfold trunc_write. intros H. destruct (dropN _ p) as [|b r]; [inv H; split; [apply MW_refl|auto]|].
  destruct (mw_write _ _ s) as [e1 s1] eqn:H1. apply mw_write_MW in H1.
  destruct e1; [inv H; auto|].
  destruct (mw_write _ _ s1) as [e2 s2] eqn:H2. apply mw_write_MW in H2.
  inv H. split; [eapply MW_trans; eauto|auto].
Qed.

Lemma flate_emit_MW c chunks : forall f s f' s', flate_emit c chunks f s = (f', s') ->
  MW c s s' /\ f_id f' = f_id f /\ f_open f' = f_open f.
Proof.
  induction chunks as [|ch rest IH]; intros f s f' s' H; cbn [flate_emit] in H.
  - inv H. split; [apply MW_refl|auto].
  - destruct (f_err f); [inv H; split; [apply MW_refl|auto]|].
    destruct (trunc_write c ch f s) as [[e1 f1] s1] eqn:H1. apply trunc_write_MW in H1.
    destruct H1 as (HM1 & Hi1 & Ho1).
    destruct e1; [inv H; auto|]. apply IH in H. destruct H as (HM & Hi & Ho).
    split; [eapply MW_trans; eauto|]. split; congruence.
Qed.

(* ====================================================================== *)
(* Part 5: T6, the pool discipline *)

Fixpoint alternates (h:bool) (es:list tev) : option bool :=
  match es with
  | [] => Some h
  | TGet :: r => if h then None else alternates true r
  | TPut :: r => if h then alternates false r else None
  | _ :: r => alternates h r
  end.

Definition alt_step (h:bool) (e:tev) : option bool :=
  match e with
  | TGet => if h then None else Some true
  | TPut => if h then Some false else None
  | _ => Some h
  end.
Definition obind {A B} (o:option A) (f:A -> option B) : option B :=
  match o with Some a => f a | None => None end.
Fixpoint alt_ext (d:list tev) (o:option bool) : option bool :=
  match d with
  | [] => o
  | e :: r => obind (alt_ext r o) (fun h => alt_step h e)
  end.
Definition alt_rev (l:list tev) : option bool := alt_ext l (Some false).

Lemma alternates_snoc l : forall h e,
  alternates h (l ++ [e]) = obind (alternates h l) (fun h' => alt_step h' e).
Proof.
  induction l as [|x l IH]; intros h e.
  - cbn. destruct e, h; reflexivity.
  - cbn [Datatypes.app alternates]. destruct x; try apply IH; destruct h; try apply IH; reflexivity.
Qed.

Lemma alternates_rev l : alternates false (rev l) = alt_rev l.
Proof.
  induction l as [|e l IH]; [reflexivity|].
  cbn [rev]. rewrite alternates_snoc, IH. reflexivity.
Qed.

Lemma alt_ext_app d l o : alt_ext (d ++ l) o = alt_ext d (alt_ext l o).
Proof. induction d as [|e d IH]; [reflexivity|]. cbn [Datatypes.app alt_ext]. rewrite IH. reflexivity. Qed.

Lemma alt_ext_pool d o : alt_ext d o = alt_ext (pool_evs d) o.
Proof.
  induction d as [|e d IH]; [reflexivity|]. unfold pool_evs. cbn [alt_ext filter].
  fold (pool_evs d). destruct (is_tr e) eqn:He; cbn [negb alt_ext]; rewrite IH.
  - destruct (alt_ext (pool_evs d) o); [|reflexivity]. destruct e; try discriminate He; reflexivity.
  - reflexivity.
Qed.

(* ---- the invariants ---- *)
Definition PI (c:wcfg) (s:wst) : Prop :=
  (cur s <> None -> held s = true) /\
  (if w_pooled c then alt_rev (revs s) = Some (held s) else held s = true /\ pool_evs (revs s) = []).

Definition goodtail (f:flst) : bool := beq (f_tw f) [0;0;255;255].
Definition closed_bad (o:option flst) : Prop :=
  exists f, o = Some f /\ f_open f = false /\ goodtail f = false.

Definition EIa (c:wcfg) (s:wst) : Prop :=
  (cur s = None -> cur_flate s = false) /\
  (forall m, cur s = Some m -> m_err m = None) /\
  (forall m, cur s = Some m -> cur_flate s = true ->
     exists f, fl s = Some f /\ f_id f = m_id m /\ (f_open f = true \/ goodtail f = false)) /\
  (w_negotiated c = false -> fl s = None).

Definition DI (c:wcfg) (s:wst) : Prop :=
  w_pooled c = true -> held s = true -> cur s <> None \/ closed_bad (fl s).

Definition Inv (c:wcfg) (s:wst) : Prop := PI c s /\ EIa c s /\ DI c s.

Lemma PI_set c s s' :
  held s' = held s -> revs s' = revs s -> (cur s' <> None -> held s = true) -> PI c s -> PI c s'.
Proof.
  intros Hh Hr Hc [H1 H2]. split; [rewrite Hh; exact Hc|]. rewrite Hh, Hr. exact H2.
Qed.

Lemma EIa_set c s s' :
  cur s' = cur s -> cur_flate s' = cur_flate s -> fl s' = fl s -> EIa c s -> EIa c s'.
Proof. intros Hc Hcf Hf H. unfold EIa. rewrite Hc, Hcf, Hf. exact H. Qed.

Lemma ended_EIa c s : cur s = None -> cur_flate s = false -> (w_negotiated c = false -> fl s = None) -> EIa c s.
Proof.
  intros Hc Hcf He. unfold EIa. rewrite Hc. repeat split; try congruence; auto.
Qed.

Lemma Inv_set c s s' :
  held s' = held s -> revs s' = revs s -> cur s' = cur s -> cur_flate s' = cur_flate s -> fl s' = fl s ->
  Inv c s -> Inv c s'.
Proof.
  intros Hh Hr Hc Hcf Hf (HP & HE & HD). split; [|split].
  - eapply PI_set; eauto. rewrite Hc. apply HP.
  - eapply EIa_set; eauto.
  - unfold DI. rewrite Hh, Hc, Hf. exact HD.
Qed.

Lemma samecur_some a b : samecur a b -> (a <> None <-> b <> None).
Proof. destruct a, b; cbn; intuition congruence. Qed.

Lemma MW_PI c s s' : MW c s s' -> PI c s -> PI c s'.
Proof.
  intros [Hf (d & Hr & H)] [H1 H2].
  destruct H as [(Hc & Hh & Hcf & Hp)|(Hc & Hn & Hcf & Hp)].
  - split.
    + intros Hx. rewrite Hh. apply H1. apply (samecur_some _ _ Hc), Hx.
    + rewrite Hr, Hh. destruct (w_pooled c).
      * unfold alt_rev in *. rewrite alt_ext_app, alt_ext_pool, Hp. exact H2.
      * rewrite pool_evs_app, Hp. exact H2.
  - split; [congruence|]. rewrite Hr. destruct (w_pooled c).
    + destruct Hp as [Hh Hp]. unfold alt_rev in *. rewrite alt_ext_app, alt_ext_pool, Hp, H2, Hh.
      rewrite (H1 Hc). reflexivity.
    + destruct Hp as [Hh Hp]. rewrite Hh, pool_evs_app, Hp. exact H2.
Qed.

Lemma MW_EIa c s s' : MW c s s' -> EIa c s -> EIa c s'.
Proof.
  intros [Hf (d & Hr & H)] (Ha & Hb & Hc & He).
  destruct H as [(Hsc & Hh & Hcf & Hp)|(Hsc & Hn & Hcf & Hp)].
  - unfold EIa. rewrite Hf, Hcf. repeat split; auto.
    + intros Hx. apply Ha. destruct (cur s); [|reflexivity]. rewrite Hx in Hsc. destruct Hsc.
    + intros m' Hx. rewrite Hx in Hsc. destruct (cur s) as [m|] eqn:Hm; [|destruct Hsc].
      destruct Hsc as [_ Herr]. rewrite Herr. apply Hb. reflexivity.
    + intros m' Hx Hcft. rewrite Hx in Hsc. destruct (cur s) as [m|] eqn:Hm; [|destruct Hsc].
      destruct Hsc as [Hid _]. rewrite Hid. apply Hc; auto.
  - apply ended_EIa; auto. rewrite Hf. exact He.
Qed.

Lemma MW_DI c s s' : MW c s s' -> DI c s -> DI c s'.
Proof.
  intros [Hf (d & Hr & H)] HD Hp Hh.
  destruct H as [(Hsc & Hh' & Hcf & Hpe)|(Hsc & Hn & Hcf & Hpe)].
  - rewrite Hf. rewrite Hh' in Hh. destruct (HD Hp Hh) as [Hx|Hx]; [left|right; exact Hx].
    apply (samecur_some _ _ Hsc), Hx.
  - rewrite Hp in Hpe. destruct Hpe as [Hh' _]. congruence.
Qed.

Lemma MW_Inv c s s' : MW c s s' -> Inv c s -> Inv c s'.
Proof.
  intros H (HP & HE & HD). split; [|split].
  - eapply MW_PI; eauto.
  - eapply MW_EIa; eauto.
  - eapply MW_DI; eauto.
Qed.

Lemma MW_ended c s s' : MW c s s' -> cur s <> None -> cur s' = None ->
  cur_flate s' = false /\ (w_pooled c = true -> held s' = false).
Proof.
  intros [Hf (d & Hr & H)] Hc Hn.
  destruct H as [(Hsc & Hh' & Hcf & Hpe)|(Hsc & _ & Hcf & Hpe)].
  - apply samecur_some in Hsc. exfalso. apply Hsc in Hc. congruence.
  - split; [exact Hcf|]. intros Hp. rewrite Hp in Hpe. apply Hpe.
Qed.

(* ---- compression wrapper ---- *)
Lemma flate_write_inv c wc f s e s' :
  fl s = Some f -> flate_write c wc f s = (e, s') -> Inv c s -> Inv c s'.
Proof.
  unfold flate_write. intros Hfl H HI. destruct (f_open f) eqn:Ho; cbn [negb] in H; [|inv H; exact HI].
  destruct (flate_emit c wc f s) as [f1 s1] eqn:H1. apply flate_emit_MW in H1.
  destruct H1 as (HM & Hid & Hop). inv H.
  pose proof (MW_Inv _ _ _ HM HI) as (HP1 & HE1 & HD1).
  assert (Hfl1 : fl s1 = Some f) by (rewrite (proj1 HM); exact Hfl).
  split; [|split].
  - eapply PI_set; [| |apply HP1|exact HP1]; reflexivity.
  - destruct HE1 as (Ha & Hb & Hc & He). unfold EIa. wsimpl. repeat split; auto.
    + intros m Hm Hcf. destruct (Hc m Hm Hcf) as (f0 & Hf0 & Hi0 & _).
      exists f1. split; [reflexivity|]. split; [congruence|]. left. congruence.
    + intros Hn. destruct HI as (_ & (_ & _ & _ & He0) & _). rewrite (He0 Hn) in Hfl. discriminate Hfl.
  - intros Hp Hh. wsimpl. destruct (HD1 Hp Hh) as [Hx|(f0 & Hf0 & Ho0 & _)]; [left; exact Hx|].
    congruence.
Qed.

Lemma is_cur_some id s : is_cur id s = true -> exists m, cur s = Some m /\ m_id m = id.
Proof.
  unfold is_cur. destruct (cur s) as [m|]; [|discriminate]. intros H. apply Nat.eqb_eq in H. eauto.
Qed.

Lemma flate_close_inv c cc f s e s' :
  fl s = Some f -> flate_close c cc f s = (e, s') -> Inv c s ->
  Inv c s' /\ (cur_flate s = true -> cur s' <> None -> closed_bad (fl s')).
Proof.
  unfold flate_close. intros Hfl H HI. destruct (f_open f) eqn:Ho; cbn [negb] in H.
  2:{ inv H. split; [exact HI|]. intros Hcf Hcur.
      destruct (cur s') as [m|] eqn:Hm; [|congruence].
      destruct HI as (_ & (_ & _ & Hc & _) & _). destruct (Hc m Hm Hcf) as (f0 & Hf0 & _ & Hob).
      assert (f0 = f) by congruence. subst f0. exists f. split; [exact Hf0|]. split; [exact Ho|].
      destruct Hob; congruence. }
  destruct (flate_emit c cc f s) as [f1 s1] eqn:H1. apply flate_emit_MW in H1.
  destruct H1 as (HM & Hid & Hop). wsimpl.
  pose proof (MW_Inv _ _ _ HM HI) as (HP1 & HE1 & HD1).
  assert (Hfl1 : fl s1 = Some f) by (rewrite (proj1 HM); exact Hfl).
  assert (Hneg : w_negotiated c = false -> False).
  { intros Hn. destruct HI as (_ & (_ & _ & _ & He0) & _). rewrite (He0 Hn) in Hfl. discriminate Hfl. }
  assert (HPI2 : PI c (s1 <| fl := Some (f1 <| f_open := false |>) |>)).
  { eapply PI_set; [| |apply HP1|exact HP1]; reflexivity. }
  assert (HD1' : w_pooled c = true -> held s1 = true -> cur s1 <> None).
  { intros Hp Hh. destruct (HD1 Hp Hh) as [Hx|(f0 & Hf0 & Ho0 & _)]; [exact Hx|congruence]. }
  destruct (beq (f_tw f1) [0; 0; 255; 255]) eqn:Ht; cbn [negb] in H.
  2:{ (* the tail check fails *)
      inv H. assert (Hcb : closed_bad (Some (f1 <| f_open := false |>))).
      { eexists. split; [reflexivity|]. split; [reflexivity|]. unfold goodtail. wsimpl. exact Ht. }
      split; [|intros _ _; wsimpl; exact Hcb].
      split; [exact HPI2|]. split.
      - destruct HE1 as (Ha & Hb & Hc & He). unfold EIa. wsimpl. repeat split; auto.
        + intros m Hm Hcf. destruct (Hc m Hm Hcf) as (f0 & Hf0 & Hi0 & _).
          eexists. split; [reflexivity|]. wsimpl. split; [congruence|]. right. exact Ht.
        + intros Hn. destruct (Hneg Hn).
      - intros Hp Hh. wsimpl. right. exact Hcb. }
  destruct (is_cur _ _) eqn:Hic.
  - (* messageWriter.Close *)
    destruct (mw_close c _) as [e2 s3] eqn:H2. inv H.
    unfold is_cur in Hic. wsimpl.
    destruct (cur s1) as [m|] eqn:Hm; [|discriminate Hic].
    assert (Hn3 : cur s' = None).
    { change s' with (snd (e2, s')). rewrite <- H2. eapply mw_close_none; [wsimpl; exact Hm|].
      apply HE1. exact Hm. }
    apply mw_close_MW in H2.
    assert (Hne : cur (s1 <| fl := Some (f1 <| f_open := false |>) |>) <> None) by (wsimpl; congruence).
    destruct (MW_ended _ _ _ H2 Hne Hn3) as [Hcf3 Hh3].
    split; [|congruence].
    split; [eapply MW_PI; eauto|]. split.
    + apply ended_EIa; auto. intros Hn. destruct (Hneg Hn).
    + intros Hp Hh. rewrite (Hh3 Hp) in Hh. discriminate Hh.
  - inv H. unfold is_cur in Hic. wsimpl.
    assert (Hno : forall m, cur s1 = Some m -> cur_flate s1 = true -> False).
    { intros m Hm Hcf. destruct HE1 as (_ & _ & Hc & _). destruct (Hc m Hm Hcf) as (f0 & Hf0 & Hi0 & _).
      rewrite Hm in Hic. assert (f0 = f) by congruence. subst f0.
      rewrite Hid, Hi0, Nat.eqb_refl in Hic. discriminate Hic. }
    split.
    + split; [exact HPI2|]. split.
      * destruct HE1 as (Ha & Hb & Hc & He). unfold EIa. wsimpl. repeat split; auto.
        { intros m Hm Hcf. destruct (Hno m Hm Hcf). }
        { intros Hn. destruct (Hneg Hn). }
      * intros Hp Hh. wsimpl. left. apply HD1'; auto.
    + intros Hcf Hcur. wsimpl. exfalso.
      destruct (cur s1) as [m|] eqn:Hm; [|congruence].
      apply (Hno m eq_refl).
      destruct HM as [_ (d & _ & [(_ & _ & Hx & _)|(_ & Hx & _)])]; congruence.
Qed.

(* ---- beginMessage ---- *)
Lemma close_current_inv c ic s : Inv c s ->
  let s' := close_current c ic s in
  PI c s' /\ EIa c s' /\ cur s' = None /\ (w_pooled c = true -> held s' = true -> closed_bad (fl s')).
Proof.
  intros HI. unfold close_current. destruct (cur s) as [m|] eqn:Hm.
  2:{ destruct HI as (HP & HE & HD). cbn zeta. split; [exact HP|]. split; [exact HE|]. split; [exact Hm|].
      intros Hp Hh. destruct (HD Hp Hh); [congruence|assumption]. }
  destruct (cur_flate s) eqn:Hcf.
  - pose proof HI as (HP & (Ha & Hb & Hc & He) & HD).
    destruct (Hc m Hm Hcf) as (f & Hfl & _). rewrite Hfl.
    destruct (flate_close c ic f s) as [e1 s1] eqn:H1. cbn [snd].
    eapply flate_close_inv in H1; [|exact Hfl|exact HI].
    destruct H1 as ((HP1 & HE1 & HD1) & Hx). cbn zeta. split; [|split; [|split]].
    + eapply PI_set; [| | |exact HP1]; try reflexivity. wsimpl. congruence.
    + apply ended_EIa; try reflexivity. wsimpl. apply HE1.
    + reflexivity.
    + wsimpl. intros Hp Hh. destruct (cur s1) eqn:Hc1.
      * apply Hx; [exact Hcf|congruence].
      * destruct (HD1 Hp Hh); [congruence|assumption].
  - destruct (mw_close c s) as [e1 s1] eqn:H1. cbn [snd].
    assert (Hn1 : cur s1 = None).
    { change s1 with (snd (e1, s1)). rewrite <- H1. eapply mw_close_none; [exact Hm|]. apply HI, Hm. }
    apply mw_close_MW in H1.
    assert (Hne : cur s <> None) by congruence.
    destruct (MW_ended _ _ _ H1 Hne Hn1) as [Hcf1 Hh1].
    destruct (MW_Inv _ _ _ H1 HI) as (HP1 & HE1 & HD1).
    cbn zeta. split; [|split; [|split]].
    + eapply PI_set; [| | |exact HP1]; try reflexivity. wsimpl. congruence.
    + apply ended_EIa; try reflexivity. wsimpl. apply HE1.
    + reflexivity.
    + wsimpl. intros Hp Hh. rewrite (Hh1 Hp) in Hh. discriminate Hh.
Qed.

Lemma begin_message_inv c ty ic s e s' : Inv c s -> begin_message c ty ic s = (e, s') ->
  PI c s' /\ EIa c s' /\ cur s' = None /\
  match e with
  | Some _ => w_pooled c = true -> held s' = true -> closed_bad (fl s')
  | None => held s' = true
  end.
Proof.
  intros HI H. unfold begin_message in H.
  destruct (close_current_inv c ic s HI) as (HP1 & HE1 & Hn1 & HD1).
  destruct (_ && _); [inv H; auto|].
  destruct (werr _); [inv H; auto|].
  destruct (held (close_current c ic s)) eqn:Hh; inv H; [auto|].
  split; [|split; [|split]].
  - destruct HP1 as [Ha Hb]. split; [reflexivity|]. unfold log. wsimpl.
    destruct (w_pooled c).
    + unfold alt_rev in *. cbn [alt_ext]. rewrite Hb, Hh. reflexivity.
    + destruct Hb; congruence.
  - eapply EIa_set; [| | |exact HE1]; reflexivity.
  - exact Hn1.
  - reflexivity.
Qed.

Lemma next_writer_inv c ty ic s e s' : Inv c s -> next_writer c ty ic s = (e, s') -> Inv c s'.
Proof.
  intros HI H. unfold next_writer, new_mw in H.
  destruct (begin_message c ty ic s) as [e1 s1] eqn:H1.
  apply (begin_message_inv _ _ _ _ _ _ HI) in H1. destruct H1 as (HP1 & HE1 & Hn1 & Hx).
  destruct e1.
  { inv H. split; [exact HP1|]. split; [exact HE1|]. intros Hp Hh. right. auto. }
  destruct (w_negotiated c && wcomp _ && is_data_ty ty) eqn:Hcond; inv H.
  - split; [|split].
    + eapply PI_set; [| | |exact HP1]; try reflexivity. intros _. exact Hx.
    + unfold EIa. wsimpl. repeat split; try congruence.
      * intros m Hm. inv Hm. reflexivity.
      * intros m Hm _. inv Hm. eexists. split; [reflexivity|]. wsimpl. auto.
      * intros Hn. rewrite Hn in Hcond. discriminate Hcond.
    + intros _ _. left. wsimpl. congruence.
  - split; [|split].
    + eapply PI_set; [| | |exact HP1]; try reflexivity. intros _. exact Hx.
    + unfold EIa. wsimpl. repeat split; try congruence.
      * intros m Hm. inv Hm. reflexivity.
      * apply HE1.
    + intros _ _. left. wsimpl. congruence.
Qed.

Lemma app_write_inv c sv p wc s e s' : Inv c s -> app_write c sv p wc s = (e, s') -> Inv c s'.
Proof.
  unfold app_write. intros HI H. destruct (app s); [|inv H; exact HI].
  destruct (app_flate s).
  - destruct (fl s) eqn:Hfl; [|inv H; exact HI].
    destruct (Nat.eqb _ _); [|inv H; exact HI]. eapply flate_write_inv; eauto.
  - destruct (is_cur _ _); [|inv H; exact HI].
    destruct sv; [apply mw_write_string_MW in H|apply mw_write_MW in H]; eapply MW_Inv; eauto.
Qed.

Lemma app_read_from_inv c chunks s e s' : Inv c s -> app_read_from c chunks s = (e, s') -> Inv c s'.
Proof.
  unfold app_read_from. intros HI H. destruct (app s); [|inv H; exact HI].
  destruct (app_flate s); [inv H; exact HI|].
  destruct (is_cur _ _); [|inv H; exact HI]. apply read_from_MW in H. eapply MW_Inv; eauto.
Qed.

Lemma app_close_inv c cc s e s' : Inv c s -> app_close c cc s = (e, s') -> Inv c s'.
Proof.
  unfold app_close. intros HI H. destruct (app s); [|inv H; exact HI].
  destruct (app_flate s).
  - destruct (fl s) eqn:Hfl; [|inv H; exact HI].
    destruct (Nat.eqb _ _); [|inv H; exact HI]. eapply flate_close_inv; eauto.
  - destruct (is_cur _ _); [|inv H; exact HI]. apply mw_close_MW in H. eapply MW_Inv; eauto.
Qed.

Lemma write_message_inv c ty data ic wc cc s e s' :
  Inv c s -> write_message c ty data ic wc cc s = (e, s') -> Inv c s'.
Proof.
  unfold write_message, new_mw. intros HI H. destruct (_ && _).
  - destruct (begin_message c ty ic s) as [e1 s1] eqn:H1.
    apply (begin_message_inv _ _ _ _ _ _ HI) in H1. destruct H1 as (HP1 & HE1 & Hn1 & Hx).
    destruct e1.
    { inv H. split; [exact HP1|]. split; [exact HE1|]. intros Hp Hh. right. auto. }
    rewrite flush_frame_cur_irrel in H by reflexivity.
    match type of H with flush_frame _ _ _ ?m ?s2 = _ =>
      rewrite <- (flush_frame_cur_irrel c true _ m s2 (Some m)) in H by reflexivity;
      apply flush_frame_MW in H; [|reflexivity] end.
    eapply MW_Inv; [exact H|]. split; [|split].
    + eapply PI_set; [| | |exact HP1]; try reflexivity. intros _. exact Hx.
    + unfold EIa. wsimpl. repeat split; try congruence.
      * intros m Hm. inv Hm. reflexivity.
      * intros m _ Hcf. destruct HE1 as (Ha & _). rewrite (Ha Hn1) in Hcf. discriminate Hcf.
      * apply HE1.
    + intros _ _. left. wsimpl. congruence.
  - destruct (next_writer c ty ic s) as [e1 s1] eqn:H1. apply (next_writer_inv _ _ _ _ _ _ HI) in H1.
    destruct e1; [inv H; exact H1|].
    destruct (app_write c false data wc s1) as [e2 s2] eqn:H2. apply (app_write_inv _ _ _ _ _ _ _ H1) in H2.
    destruct e2; [inv H; exact H2|]. eapply app_close_inv; eauto.
Qed.

Lemma wstep_inv c s o e s' : Inv c s -> wstep c s o = (e, s') -> Inv c s'.
Proof.
  intros HI H. destruct o; cbn [wstep] in H.
  - eapply write_message_inv; eauto.
  - eapply next_writer_inv; eauto.
  - eapply app_write_inv; eauto.
  - eapply app_write_inv; eauto.
  - eapply app_read_from_inv; eauto.
  - eapply app_close_inv; eauto.
  - apply write_control_spec in H.
    destruct H as [(_ & _ & ->)|[(_ & _ & _ & ->)|[(_ & _ & _ & _ & ->)|(_ & _ & _ & H)]]]; try exact HI.
    eapply MW_Inv; [eapply cw_post_MW; eauto|exact HI].
  - inv H. eapply Inv_set; [| | | | |exact HI]; reflexivity.
  - inv H. eapply Inv_set; [| | | | |exact HI]; reflexivity.
  - destruct (valid_level l); inv H; [|exact HI]. eapply Inv_set; [| | | | |exact HI]; reflexivity.
  - apply conn_write_spec in H. eapply MW_Inv; [eapply cw_post_MW; eauto|exact HI].
Qed.

Lemma wrun_inv c ops : forall s, Inv c s -> Inv c (snd (wrun c s ops)).
Proof.
  induction ops as [|o r IH]; intros s HI; [exact HI|].
  rewrite wrun_snd_cons. destruct (wstep c s o) as [e s1] eqn:H. cbn [snd].
  apply IH. eapply wstep_inv; eauto.
Qed.

Lemma init_inv c ks fa : Inv c (init_wst c ks fa).
Proof.
  unfold init_wst. split; [|split].
  - split; [wsimpl; congruence|]. wsimpl. destruct (w_pooled c); cbn; auto.
  - apply ended_EIa; reflexivity.
  - intros Hp Hh. wsimpl. rewrite Hp in Hh. discriminate Hh.
Qed.

(* ================= T6 ================= *)
Section Reachable.
  Variables (c:wcfg) (ks:list bytes) (fa:option (nat * fkind)) (ops:list wop).
  Let s' := snd (wrun c (init_wst c ks fa) ops).

  Lemma reach_inv : Inv c s'.
  Proof. apply wrun_inv, init_inv. Qed.

  (* pooled: Get and Put alternate, starting with Get, and [held] is the current ownership *)
  Theorem pool_alternates : w_pooled c = true -> alternates false (evs s') = Some (held s').
  Proof.
    intros Hp. destruct reach_inv as ((_ & H) & _). rewrite Hp in H.
    rewrite evs_rev, alternates_rev. exact H.
  Qed.

  (* while a message writer is open the connection owns a buffer (pooled or not) *)
  Theorem writer_open_holds_buffer : cur s' <> None -> held s' = true.
  Proof. apply reach_inv. Qed.

  (* the buffer is back in the pool between messages ... unless a flate wrapper failed its
     tail check: flateWriteWrapper.Close then returns before messageWriter.Close *)
  Theorem pool_held_only_while_writing : w_pooled c = true -> held s' = true ->
    cur s' <> None \/
    (exists f, fl s' = Some f /\ f_open f = false /\ f_tw f <> [0;0;255;255]).
  Proof.
    intros Hp Hh. destruct reach_inv as (_ & _ & HD). destruct (HD Hp Hh) as [Hx|(f & Hf & Ho & Ht)].
    - left. exact Hx.
    - right. exists f. split; [exact Hf|]. split; [exact Ho|]. intros Heq.
      unfold goodtail in Ht. rewrite Heq in Ht. discriminate Ht.
  Qed.

  (* without negotiated compression there is no exception *)
  Theorem pool_held_iff_writing_nocomp : w_pooled c = true -> w_negotiated c = false ->
    (held s' = true <-> cur s' <> None).
  Proof.
    intros Hp Hn. split; [|apply writer_open_holds_buffer].
    intros Hh. destruct reach_inv as (_ & (_ & _ & _ & He) & HD).
    destruct (HD Hp Hh) as [Hx|(f & Hf & _)]; [exact Hx|]. rewrite (He Hn) in Hf. discriminate Hf.
  Qed.

  (* not pooled: the buffer is never given away and the pool is never touched *)
  Theorem unpooled_no_pool_events : w_pooled c = false -> held s' = true /\ pool_evs (revs s') = [].
  Proof. intros Hp. destruct reach_inv as ((_ & H) & _). rewrite Hp in H. exact H. Qed.
End Reachable.

(* WriteControl and prepared frames never touch the pool *)
Theorem write_control_no_pool c ty d dl s e s' : wstep c s (WControl ty d dl) = (e, s') ->
  held s' = held s /\ cur s' = cur s /\ exists g, revs s' = g ++ revs s /\ pool_evs g = [].
Proof.
  cbn [wstep]. intros H. pose proof (write_control_core _ _ _ _ _ _ _ H) as Hc.
  split; [apply core_held, Hc|]. split; [apply core_cur, Hc|].
  destruct (write_control_tr _ _ _ _ _ _ _ H) as (g & Hr & Ht). exists g. split; [exact Hr|].
  apply tr_only_pool, Ht.
Qed.

Theorem prepared_no_pool c ty fr s e s' : wstep c s (WPreparedFrame ty fr) = (e, s') ->
  held s' = held s /\ cur s' = cur s /\ exists g, revs s' = g ++ revs s /\ pool_evs g = [].
Proof.
  cbn [wstep]. intros H. apply conn_write_spec in H. pose proof (proj1 H) as Hc.
  split; [apply core_held, Hc|]. split; [apply core_cur, Hc|].
  destruct (cw_post_tr _ _ _ _ _ H) as (g & Hr & Ht). exists g. split; [exact Hr|].
  apply tr_only_pool, Ht.
Qed.

(* the exception in [pool_held_only_while_writing] is real: a compressed writer whose flate
   stream does not end in 00 00 ff ff leaks the pooled buffer *)
Definition leak_cfg : wcfg := {| w_server := true; w_bufsize := 64; w_pooled := true; w_negotiated := true |}.
Definition leak_prog : list wop := [WNext 1 []; WClose [[1;2;3;4;5]]; WNext 3 []].
Example pool_leak_witness :
  let r := wrun leak_cfg (init_wst leak_cfg [] None) leak_prog in
  fst r = [None; Some WFlateTail; Some WBadOpCode] /\ held (snd r) = true /\ cur (snd r) = None /\
  evs (snd r) = [TGet].
Proof. vm_compute. repeat split. Qed.

(* ====================================================================== *)
(* Part 6: T4, invalid requests write nothing and do not poison the connection *)

(* ---- WriteControl ---- *)
Theorem invalid_control_unchanged : forall c s ty d dl,
  (is_control_ty ty = false -> wstep c s (WControl ty d dl) = (Some WBadOpCode, s)) /\
  (is_control_ty ty = true -> 125 < blen d -> wstep c s (WControl ty d dl) = (Some WInvalidControl, s)).
Proof.
  intros c s ty d dl. cbn [wstep]. unfold write_control, c_maxControlFramePayloadSize. split.
  - intros ->. reflexivity.
  - intros -> Hl. cbn [negb]. destruct (125 <? blen d) eqn:Hc; [reflexivity|lia].
Qed.

(* an already expired deadline: refused without touching the connection either *)
Lemma expired_control_unchanged c s ty d :
  is_control_ty ty = true -> blen d <= 125 -> wstep c s (WControl ty d 1) = (Some WWriteTimeout, s).
Proof.
  intros Ht Hl. cbn [wstep]. unfold write_control, c_maxControlFramePayloadSize. rewrite Ht. cbn [negb].
  destruct (125 <? blen d) eqn:Hc; [lia|]. reflexivity.
Qed.

(* ---- NextWriter / WriteMessage with a bad message type ---- *)
Lemma close_current_none c ic s : cur s = None -> close_current c ic s = s.
Proof. intros H. unfold close_current. rewrite H. reflexivity. Qed.

Lemma begin_message_badtype c ty ic s : valid_ty ty = false ->
  begin_message c ty ic s = (Some WBadOpCode, close_current c ic s).
Proof.
  unfold valid_ty, begin_message. intros H. rewrite <- negb_orb, H. reflexivity.
Qed.

Theorem bad_type_unchanged : forall c s ty, cur s = None -> valid_ty ty = false ->
  (forall ic, wstep c s (WNext ty ic) = (Some WBadOpCode, s)) /\
  (forall d ic wc cc, wstep c s (WMessage ty d ic wc cc) = (Some WBadOpCode, s)).
Proof.
  intros c s ty Hc Hv. split; intros; cbn [wstep]; unfold write_message, next_writer;
    try destruct (_ && _); rewrite (begin_message_badtype _ _ _ _ Hv), (close_current_none _ _ _ Hc); reflexivity.
Qed.

(* in general (a writer may be open): the error is BadOpCode and the only effect is the implicit
   close of the previous writer *)
Theorem bad_type_general : forall c s ty, valid_ty ty = false ->
  (forall ic, wstep c s (WNext ty ic) = (Some WBadOpCode, close_current c ic s)) /\
  (forall d ic wc cc, wstep c s (WMessage ty d ic wc cc) = (Some WBadOpCode, close_current c ic s)).
Proof.
  intros c s ty Hv. split; intros; cbn [wstep]; unfold write_message, next_writer;
    try destruct (_ && _); rewrite (begin_message_badtype _ _ _ _ Hv); reflexivity.
Qed.

(* ---- an oversized control message through WriteMessage ---- *)
Definition Ended (c:wcfg) (s s':wst) : Prop :=
  cur s' = None /\ werr s' = werr s /\
  (if w_pooled c then revs s' = TPut :: revs s /\ held s' = false else revs s' = revs s /\ held s' = held s).

Lemma end_message_ended c e m s : m_err m = None -> Ended c s (end_message c e m s).
Proof.
  intros He. unfold Ended, end_message. rewrite He. destruct (w_pooled c); unfold log; wsimpl; auto.
Qed.

Lemma flush_frame_ctl_invalid c final extra m s :
  is_control_ty (m_ftype m) = true -> (final = false \/ 125 < blen (m_buf m) + blen extra) ->
  flush_frame c final extra m s = (Some WInvalidControl, end_message c WInvalidControl m s).
Proof.
  intros Hc Hf. unfold flush_frame, c_maxControlFramePayloadSize. rewrite Hc.
  assert (Hcond : negb final || (125 <? blen (m_buf m) + blen extra) = true).
  { destruct Hf as [->|Hl]; [reflexivity|]. apply orb_true_iff. right. apply N.ltb_lt, Hl. }
  rewrite Hcond. reflexivity.
Qed.

Lemma control_not_data ty : is_control_ty ty = true -> is_data_ty ty = false.
Proof.
  unfold is_control_ty, is_data_ty, c_CloseMessage, c_PingMessage, c_PongMessage, c_TextMessage, c_BinaryMessage.
  intros H. destruct (ty =? 8) eqn:H8; [lia|]. destruct (ty =? 9) eqn:H9; [lia|].
  destruct (ty =? 10) eqn:H10; [lia|]. discriminate H.
Qed.

Lemma blen_app a b : blen (a ++ b) = blen a + blen b.
Proof. unfold blen. rewrite app_length. lia. Qed.

Lemma blen_take_drop n d : blen (takeN n d) + blen (dropN n d) = blen d.
Proof. rewrite <- blen_app. unfold takeN, dropN. rewrite firstn_skipn. reflexivity. Qed.

(* the copy loop on an open control-message writer: it either only buffers, or it needs a
   non-final flush, which a control message refuses *)
Lemma copy_loop_ctl c fuel : forall p s m e s',
  cur s = Some m -> is_control_ty (m_ftype m) = true -> m_err m = None -> (length p < fuel)%nat ->
  copy_loop fuel c p s = (e, s') ->
  (e = None /\ exists m', cur s' = Some m' /\ m_ftype m' = m_ftype m /\ m_err m' = None /\ m_id m' = m_id m /\
     m_buf m' = m_buf m ++ p /\ revs s' = revs s /\ werr s' = werr s /\ held s' = held s /\
     app s' = app s /\ app_flate s' = app_flate s)
  \/ (e = Some WInvalidControl /\ Ended c s s').
Proof.
  induction fuel as [|f IH]; intros p s m e s' Hcur Hct Herr Hlen H; [lia|].
  destruct p as [|b p]; cbn [copy_loop] in H.
  { inv H. left. split; [reflexivity|]. exists m. rewrite app_nil_r. repeat split; auto. }
  rewrite Hcur in H. destruct (_ =? 0) eqn:Hroom.
  - rewrite flush_frame_ctl_invalid in H by auto. inv H. right. split; [reflexivity|].
    apply end_message_ended, Herr.
  - set (n := N.min (cap c - blen (m_buf m)) (blen (b :: p))) in *.
    eapply IH in H; [| wsimpl; reflexivity | wsimpl; exact Hct | wsimpl; exact Herr |].
    + wsimpl. destruct H as [(-> & m' & Hc' & Hft & He' & Hid & Hb & Hr & Hw & Hh & Ha & Haf)|(-> & HE)].
      * left. split; [reflexivity|]. exists m'. repeat split; auto.
        rewrite Hb, <- app_assoc. unfold takeN, dropN. rewrite firstn_skipn. reflexivity.
      * right. split; [reflexivity|]. unfold Ended in *. wsimpl. exact HE.
    + unfold dropN. rewrite skipn_length. cbn [length] in *.
      assert (1 <= n).
      { apply N.eqb_neq in Hroom. unfold n, blen in *. cbn [length]. lia. }
      lia.
Qed.

Lemma begin_message_ok c ty ic s : cur s = None -> werr s = None -> valid_ty ty = true ->
  exists s1, begin_message c ty ic s = (None, s1) /\ cur s1 = None /\ werr s1 = None /\ held s1 = true /\
    (exists d, revs s1 = d ++ revs s /\ transport_evs d = []) /\ wcomp s1 = wcomp s.
Proof.
  intros Hc Hw Hv. unfold begin_message, valid_ty in *. rewrite (close_current_none _ _ _ Hc).
  rewrite <- negb_orb, Hv, Hw. cbn [negb]. destruct (held s) eqn:Hh.
  - exists s. repeat split; auto. exists []. auto.
  - eexists. split; [reflexivity|]. unfold log. wsimpl. repeat split; auto. exists [TGet]. auto.
Qed.

Theorem oversized_control_message : forall c s ty d ic wc cc,
  cur s = None -> werr s = None -> is_control_ty ty = true -> 125 < blen d ->
  exists s', wstep c s (WMessage ty d ic wc cc) = (Some WInvalidControl, s') /\
    (exists g, revs s' = g ++ revs s /\ transport_evs g = []) /\
    werr s' = None /\ cur s' = None /\ held s' = negb (w_pooled c).
Proof.
  intros c s ty d ic wc cc Hc Hw Hct Hlen.
  assert (Hv : valid_ty ty = true) by (unfold valid_ty; rewrite Hct; reflexivity).
  assert (Hfin : forall s1 s' : wst, (exists d, revs s1 = d ++ revs s /\ transport_evs d = []) ->
            werr s1 = None -> held s1 = true -> Ended c s1 s' ->
            (exists g, revs s' = g ++ revs s /\ transport_evs g = []) /\
            werr s' = None /\ cur s' = None /\ held s' = negb (w_pooled c)).
  { intros s1 s' (g & Hr & Hg) Hw1 Hh1 (Hcn & Hwe & Hp). destruct (w_pooled c).
    - destruct Hp as [Hr' Hh']. split; [exists (TPut :: g); rewrite Hr', Hr; split; [reflexivity|exact Hg]|].
      cbn [negb]. repeat split; congruence.
    - destruct Hp as [Hr' Hh']. split; [exists g; rewrite Hr', Hr; auto|]. cbn [negb]. repeat split; congruence. }
  cbn [wstep]. unfold write_message. destruct (w_server c && _) eqn:Hfast.
  - (* server fast path *)
    destruct (begin_message_ok c ty ic s Hc Hw Hv) as (s1 & -> & Hc1 & Hw1 & Hh1 & Hr1 & _).
    unfold new_mw. rewrite flush_frame_ctl_invalid.
    + eexists. split; [reflexivity|]. eapply Hfin; [| | |apply end_message_ended; reflexivity]; wsimpl; auto.
    + wsimpl. exact Hct.
    + right. wsimpl. rewrite blen_take_drop. exact Hlen.
  - (* message writer path *)
    unfold next_writer.
    destruct (begin_message_ok c ty ic s Hc Hw Hv) as (s1 & -> & Hc1 & Hw1 & Hh1 & Hr1 & _).
    unfold new_mw. rewrite (control_not_data _ Hct), andb_false_r.
    set (m := {| m_id := nextid s1; m_buf := []; m_ftype := ty; m_compress := false; m_err := None |}).
    set (s2 := s1 <| nextid := S (nextid s1) |> <| cur := Some m |> <| cur_flate := false |>
                  <| app := Some (m_id m) |> <| app_flate := false |>).
    assert (Hc2 : cur s2 = Some m) by reflexivity.
    assert (Hr2 : exists d, revs s2 = d ++ revs s /\ transport_evs d = []) by exact Hr1.
    assert (Hw2 : werr s2 = None) by exact Hw1.
    assert (Hh2 : held s2 = true) by exact Hh1.
    assert (Ha2 : app s2 = Some (m_id m)) by reflexivity.
    assert (Haf2 : app_flate s2 = false) by reflexivity.
    clearbody s2.
    unfold app_write. rewrite Ha2, Haf2. unfold is_cur at 1. rewrite Hc2, Nat.eqb_refl.
    unfold mw_write. rewrite Hc2. destruct (_ && w_server c).
    + rewrite flush_frame_ctl_invalid by (auto; exact Hct).
      eexists. split; [reflexivity|]. eapply Hfin; [exact Hr2|exact Hw2|exact Hh2|apply end_message_ended; reflexivity].
    + destruct (copy_loop _ c d s2) as [e3 s3] eqn:H3.
      eapply (copy_loop_ctl c _ d s2 m) in H3; try reflexivity; try exact Hc2; try exact Hct;
        [|unfold loop_fuel; lia].
      destruct H3 as [(-> & m' & Hc3 & Hft & He3 & Hid & Hb & Hr3 & Hw3 & Hh3 & Ha3 & Haf3)|(-> & HE)].
      * unfold app_close. rewrite Ha3, Ha2, Haf3, Haf2. unfold is_cur. rewrite Hc3, Hid, Nat.eqb_refl.
        unfold mw_close. rewrite Hc3. rewrite flush_frame_ctl_invalid.
        -- eexists. split; [reflexivity|].
           eapply Hfin; [rewrite Hr3; exact Hr2|congruence|congruence|apply end_message_ended; exact He3].
        -- rewrite Hft. exact Hct.
        -- right. rewrite Hb. cbn [m_buf m Datatypes.app]. cbn [blen length]. unfold blen in *. lia.
      * eexists. split; [reflexivity|]. eapply Hfin; [exact Hr2|exact Hw2|exact Hh2|exact HE].
Qed.

(* ====================================================================== *)
(* Part 7: a close message sent through WriteMessage marks the connection too *)

Lemma end_message_werr c e m s : werr (end_message c e m s) = werr s.
Proof. unfold end_message. destruct (m_err m), (w_pooled c); reflexivity. Qed.

(* flushFrame succeeds only on a healthy connection, and marks it if the frame is a close frame *)
Lemma flush_frame_ok_werr c final extra m s s' :
  flush_frame c final extra m s = (None, s') ->
  werr s = None /\ werr s' = (if m_ftype m =? c_CloseMessage then Some WCloseSent else None).
Proof.
  unfold flush_frame. intros H.
  destruct (is_control_ty (m_ftype m) && _); [discriminate H|].
  wsimpl. destruct (w_server c).
  - destruct (conn_write _ _ _ _ _ _) as [e1 s1] eqn:Hc. destruct e1; [discriminate H|].
    apply conn_write_ok_werr in Hc. wsimpl. destruct Hc as [Hw Hw1].
    split; [exact Hw|]. destruct final; inv H; [rewrite end_message_werr|wsimpl]; exact Hw1.
  - destruct extra; [|discriminate H].
    destruct (conn_write _ _ _ _ _ _) as [e1 s1] eqn:Hc. destruct e1; [discriminate H|].
    apply conn_write_ok_werr in Hc. wsimpl. destruct Hc as [Hw Hw1].
    split; [exact Hw|]. destruct final; inv H; [rewrite end_message_werr|wsimpl]; exact Hw1.
Qed.

Lemma next_writer_ok_ctl c ty ic s s2 :
  next_writer c ty ic s = (None, s2) -> is_control_ty ty = true ->
  exists m, cur s2 = Some m /\ m_ftype m = ty /\ m_buf m = [] /\ m_err m = None /\
            app s2 = Some (m_id m) /\ app_flate s2 = false.
Proof.
  unfold next_writer, new_mw. intros H Hct.
  destruct (begin_message c ty ic s) as [e1 s1]. destruct e1; [discriminate H|].
  rewrite (control_not_data _ Hct), andb_false_r in H. inv H.
  eexists. wsimpl. repeat split.
Qed.

Theorem close_message_sets_werr : forall c s d ic wc cc s',
  wstep c s (WMessage c_CloseMessage d ic wc cc) = (None, s') -> werr s' = Some WCloseSent.
Proof.
  intros c s d ic wc cc s' H. cbn [wstep] in H. unfold write_message in H.
  destruct (w_server c && _).
  - destruct (begin_message _ _ _ _) as [e1 s1]. destruct e1; [discriminate H|].
    unfold new_mw in H. apply flush_frame_ok_werr in H. wsimpl. rewrite N.eqb_refl in H. apply H.
  - destruct (next_writer _ _ _ _) as [e1 s2] eqn:H1. destruct e1; [discriminate H|].
    apply next_writer_ok_ctl in H1; [|reflexivity].
    destruct H1 as (m & Hc2 & Hft & Hb & He & Ha2 & Haf2).
    unfold app_write in H. rewrite Ha2, Haf2 in H. unfold is_cur at 1 in H. rewrite Hc2, Nat.eqb_refl in H.
    unfold mw_write in H. rewrite Hc2 in H.
    assert (Hct : is_control_ty (m_ftype m) = true) by (rewrite Hft; reflexivity).
    destruct (_ && w_server c).
    + rewrite flush_frame_ctl_invalid in H by auto. discriminate H.
    + destruct (copy_loop _ c d s2) as [e3 s3] eqn:H3.
      eapply (copy_loop_ctl c _ d s2 m) in H3; try assumption; [|unfold loop_fuel; lia].
      destruct H3 as [(-> & m' & Hc3 & Hft3 & He3 & Hid & _ & _ & _ & _ & Ha3 & Haf3)|(-> & _)]; [|discriminate H].
      unfold app_close in H. rewrite Ha3, Ha2, Haf3, Haf2 in H. unfold is_cur in H.
      rewrite Hc3, Hid, Nat.eqb_refl in H. unfold mw_close in H. rewrite Hc3 in H.
      apply flush_frame_ok_werr in H. rewrite Hft3, Hft, N.eqb_refl in H. apply H.
Qed.


(* ====================================================================== *)
(* sanity run from the brief *)
Definition demo_cfg : wcfg := {| w_server := true; w_bufsize := 18; w_pooled := true; w_negotiated := false |}.
Example demo_run :
  let r := wrun demo_cfg (init_wst demo_cfg [] None)
             [WNext 2 []; WWrite [1;2;3;4;5;6] []; WControl 8 [3;232] 0; WClose []; WMessage 1 [7] [] [] []] in
  fst r = [None; None; None; Some WCloseSent; Some WCloseSent] /\
  evs (snd r) = [TGet; TSetDL 0; TWrite [2;4;1;2;3;4]; TSetDL 0; TWrite [136;2;3;232]; TPut].
Proof. vm_compute. split; reflexivity. Qed.

Print Assumptions werr_freezes_transport.
Print Assumptions werr_sticky.
Print Assumptions after_close_calls_fail.
Print Assumptions after_close_exact.
Print Assumptions close_sets_werr.
Print Assumptions close_step_sets_werr.
Print Assumptions close_message_sets_werr.
Print Assumptions fault_sets_werr.
Print Assumptions nothing_after_failure.
Print Assumptions nothing_after_failure_init.
Print Assumptions log_grammar.
Print Assumptions invalid_control_unchanged.
Print Assumptions bad_type_unchanged.
Print Assumptions bad_type_general.
Print Assumptions oversized_control_message.
Print Assumptions writes_have_deadlines.
Print Assumptions writes_have_deadlines_init.
Print Assumptions step_deadline_value.
Print Assumptions flush_frame_deadline_value.
Print Assumptions write_control_deadline_value.
Print Assumptions pool_alternates.
Print Assumptions writer_open_holds_buffer.
Print Assumptions pool_held_only_while_writing.
Print Assumptions pool_held_iff_writing_nocomp.
Print Assumptions unpooled_no_pool_events.
Print Assumptions write_control_no_pool.
Print Assumptions prepared_no_pool.
Print Assumptions pool_leak_witness.
